(** Proofs about the iavl/v2 model (V2.v): properties C19 and C20. *)
From IAVL Require Import Bytes Varint Tree VMap TreeFacts MTree MTreeFacts HashFacts Iter IterFacts V2.
Local Open Scope Z_scope.

(** * 1. v2 computes the same trees as v1 (C19) *)

(** ** The comparison relation.
    [veq wv t1 t2]: same constructors, keys (also the routing keys), values, heights, sizes and
    effective versions ([ver = 0] read as [wv]).  Only nonces (sequences) and stored hashes are
    free.  It refines [HashFacts.shape_eq] (which also frees the routing keys) and, unlike
    [shape_eq], is a congruence for the write operations without any well-formedness
    hypothesis, because the writes only look at keys, heights and sizes. *)
Fixpoint veq (wv : Z) (t1 t2 : node) : Prop :=
  match t1, t2 with
  | Leaf k1 v1 m1, Leaf k2 v2 m2 => k1 = k2 /\ v1 = v2 /\ eff_ver wv m1 = eff_ver wv m2
  | Inner k1 h1 s1 m1 l1 r1, Inner k2 h2 s2 m2 l2 r2 =>
      k1 = k2 /\ h1 = h2 /\ s1 = s2 /\ eff_ver wv m1 = eff_ver wv m2 /\
      veq wv l1 l2 /\ veq wv r1 r2
  | _, _ => False
  end.

Lemma veq_refl wv t : veq wv t t.
Proof. induction t; cbn [veq]; auto 7. Qed.

Lemma veq_sym wv t1 : forall t2, veq wv t1 t2 -> veq wv t2 t1.
Proof.
  induction t1 as [k v m|k h s m l IHl r IHr]; intros [k2 v2 m2|k2 h2 s2 m2 l2 r2];
    cbn [veq]; try tauto.
  - intros (A & B & C). auto.
  - intros (A & B & C & D & E & F). auto 7.
Qed.

Lemma veq_trans wv t1 : forall t2 t3, veq wv t1 t2 -> veq wv t2 t3 -> veq wv t1 t3.
Proof.
  induction t1 as [k v m|k h s m l IHl r IHr]; intros [k2 v2 m2|k2 h2 s2 m2 l2 r2]
    [k3 v3 m3|k3 h3 s3 m3 l3 r3]; cbn [veq]; try tauto.
  - intros (A & B & C) (A' & B' & C'). repeat split; congruence.
  - intros (A & B & C & D & E & F) (A' & B' & C' & D' & E' & F').
    split; [congruence|]. split; [congruence|]. split; [congruence|]. split; [congruence|].
    split; eauto.
Qed.

Lemma veq_shape_eq wv t1 : forall t2, veq wv t1 t2 -> shape_eq wv t1 t2.
Proof.
  induction t1 as [k v m|k h s m l IHl r IHr]; intros [k2 v2 m2|k2 h2 s2 m2 l2 r2];
    cbn [veq shape_eq]; try tauto.
  intros (A & B & C & D & E & F). auto 7.
Qed.

Lemma veq_height wv t1 t2 : veq wv t1 t2 -> height t1 = height t2.
Proof. destruct t1, t2; cbn [veq height]; tauto. Qed.
Lemma veq_size wv t1 t2 : veq wv t1 t2 -> size t1 = size t2.
Proof. destruct t1, t2; cbn [veq size]; tauto. Qed.
Lemma veq_nkey wv t1 t2 : veq wv t1 t2 -> nkey t1 = nkey t2.
Proof. destruct t1, t2; cbn [veq nkey]; tauto. Qed.
Lemma veq_bal_of wv t1 t2 : veq wv t1 t2 -> bal_of t1 = bal_of t2.
Proof.
  destruct t1, t2; cbn [veq bal_of]; try tauto.
  intros (_ & _ & _ & _ & A & B). rewrite (veq_height _ _ _ A), (veq_height _ _ _ B). reflexivity.
Qed.

Lemma veq_elems wv t1 t2 : veq wv t1 t2 -> elems t1 = elems t2.
Proof. intros E. eapply shape_eq_elems, veq_shape_eq, E. Qed.

Lemma veq_min_key wv t1 : forall t2, veq wv t1 t2 -> min_key t1 = min_key t2.
Proof.
  induction t1 as [k v m|k h s m l IHl r IHr]; intros [k2 v2 m2|k2 h2 s2 m2 l2 r2];
    cbn [veq min_key]; try tauto.
  intros (_ & _ & _ & _ & A & _). apply IHl, A.
Qed.

Lemma veq_keys_all wv P t1 : forall t2, veq wv t1 t2 -> keys_all P t1 -> keys_all P t2.
Proof.
  intros t2 E. rewrite !keys_all_elems, (veq_elems _ _ _ E). auto.
Qed.

Lemma veq_wf wv t1 : forall t2, veq wv t1 t2 -> wf t1 -> wf t2.
Proof.
  induction t1 as [k v m|k h s m l IHl r IHr]; intros [k2 v2 m2|k2 h2 s2 m2 l2 r2];
    cbn [veq]; try tauto.
  intros (A & B & C & D & E & F) W. cbn [wf] in *.
  {
    destruct W as (Wl & Wr & Kl & Kr & Hk & Hh & Hs). subst k2 h2 s2.
    rewrite <- (veq_height _ _ _ E), <- (veq_height _ _ _ F),
            <- (veq_size _ _ _ E), <- (veq_size _ _ _ F), <- (veq_min_key _ _ _ F).
    repeat split; eauto using veq_keys_all. }
Qed.

Lemma veq_avl wv t1 : forall t2, veq wv t1 t2 -> avl t1 -> avl t2.
Proof.
  induction t1 as [k v m|k h s m l IHl r IHr]; intros [k2 v2 m2|k2 h2 s2 m2 l2 r2];
    cbn [veq]; try tauto.
  intros (A & B & C & D & E & F) W. cbn [avl] in *. destruct W as (Al & Ar & Hb).
  rewrite <- (veq_height _ _ _ E), <- (veq_height _ _ _ F). auto.
Qed.

Lemma eff_ver_v2 wv sq : eff_ver wv (v2_meta wv sq) = wv.
Proof.
  unfold eff_ver, v2_meta. cbn [ver]. destruct (wv =? 0) eqn:E; [|reflexivity].
  reflexivity.
Qed.
Lemma eff_ver_new_meta wv : eff_ver wv new_meta = wv.
Proof. reflexivity. Qed.

(** a node mutated in [wv] against v1's fresh clone *)
Lemma veq_node_mk wv k l1 r1 l2 r2 :
  veq wv l1 l2 -> veq wv r1 r2 -> veq wv (v2_node wv k l1 r1) (mk k l2 r2).
Proof.
  intros A B. unfold v2_node, mk. cbn [veq].
  rewrite (veq_height _ _ _ A), (veq_height _ _ _ B), (veq_size _ _ _ A), (veq_size _ _ _ B),
          eff_ver_v2.
  auto 7.
Qed.

Lemma veq_node_node wv k l1 r1 l2 r2 :
  veq wv l1 l2 -> veq wv r1 r2 -> veq wv (v2_node wv k l1 r1) (v2_node wv k l2 r2).
Proof.
  intros A B. unfold v2_node. cbn [veq].
  rewrite (veq_height _ _ _ A), (veq_height _ _ _ B), (veq_size _ _ _ A), (veq_size _ _ _ B).
  auto 7.
Qed.

(** [R]-related option results, undefined on the left is unconstrained *)
Definition vimp {A B} (R : A -> B -> Prop) (x : option A) (y : B) : Prop :=
  match x with Some a => R a y | None => True end.

Lemma v2_rotR_veq wv t1 t2 : veq wv t1 t2 -> vimp (veq wv) (v2_rotR wv t1) (rotR t2).
Proof.
  destruct t1 as [|k h s m l r]; [exact (fun _ => I)|].
  destruct l as [|lk lh ls lm ll lr]; [exact (fun _ => I)|].
  destruct t2 as [|k2 h2 s2 m2 l2 r2]; [intros []|].
  destruct l2 as [|lk2 lh2 ls2 lm2 ll2 lr2]; cbn [veq]; [tauto|].
  intros (A & B & C & D & (A' & B' & C' & D' & E' & F') & F). subst.
  rewrite rotR_eq. cbn [v2_rotR vimp].
  apply veq_node_mk; [assumption|]. apply veq_node_mk; assumption.
Qed.

Lemma v2_rotL_veq wv t1 t2 : veq wv t1 t2 -> vimp (veq wv) (v2_rotL wv t1) (rotL t2).
Proof.
  destruct t1 as [|k h s m l r]; [exact (fun _ => I)|].
  destruct r as [|rk rh rs rm rl rr]; [exact (fun _ => I)|].
  destruct t2 as [|k2 h2 s2 m2 l2 r2]; [intros []|].
  destruct r2 as [|rk2 rh2 rs2 rm2 rl2 rr2]; cbn [veq]; [tauto|].
  intros (A & B & C & D & E & (A' & B' & C' & D' & E' & F')). subst.
  rewrite rotL_eq. cbn [v2_rotL vimp].
  apply veq_node_mk; [|assumption]. apply veq_node_mk; assumption.
Qed.

Lemma v2_balance_veq wv t1 t2 :
  veq wv t1 t2 -> vimp (veq wv) (v2_balance wv t1) (balance t2).
Proof.
  destruct t1 as [|k h s m l r]; [exact (fun _ => I)|].
  destruct t2 as [|k2 h2 s2 m2 l2 r2]; [intros []|].
  intros E. pose proof E as E0. cbn [veq] in E. destruct E as (A & B & C & D & El & Er).
  subst k2 h2 s2. rewrite balance_eq. cbn [v2_balance].
  destruct (hs m); [|exact I].
  rewrite <- (veq_height _ _ _ El), <- (veq_height _ _ _ Er),
          <- (veq_bal_of _ _ _ El), <- (veq_bal_of _ _ _ Er).
  destruct (1 <? height l - height r).
  - destruct (0 <=? bal_of l); [apply v2_rotR_veq, E0|].
    pose proof (v2_rotL_veq wv l l2 El) as RL.
    destruct (v2_rotL wv l) as [l'|]; [|exact I]. cbn [vimp] in RL.
    apply v2_rotR_veq. cbn [veq]. auto 7.
  - destruct (height l - height r <? -1); [|exact E0].
    destruct (bal_of r <=? 0); [apply v2_rotL_veq, E0|].
    pose proof (v2_rotR_veq wv r r2 Er) as RR.
    destruct (v2_rotR wv r) as [r'|]; [|exact I]. cbn [vimp] in RR.
    apply v2_rotL_veq. cbn [veq]. auto 7.
Qed.

Definition set_rel (wv : Z) (a b : node * bool) : Prop :=
  veq wv (fst a) (fst b) /\ snd a = snd b.

(** ** Item 1: one [Set] of v2 against one [Set] of v1.
    No normal-form hypothesis is needed: v1 marks a node new exactly when it clones it, v2
    stamps it [wv] exactly when it mutates it, and the two happen at the same nodes (the path,
    and both nodes of every rotation). *)
Lemma v2_set_veq wv sq k v t1 : forall t2,
  veq wv t1 t2 -> vimp (set_rel wv) (v2_set wv sq t1 k v) (set t2 k v).
Proof.
  induction t1 as [lk lv m|nk h s m l IHl r IHr]; intros [lk2 lv2 m2|nk2 h2 s2 m2 l2 r2];
    cbn [veq]; try tauto.
  - intros (A & B & C). subst lk2 lv2. cbn [v2_set set].
    destruct (bcmp k lk) eqn:Cmp; cbn [vimp]; unfold set_rel; cbn [fst snd veq];
      rewrite ?eff_ver_v2, ?eff_ver_new_meta.
    + apply bcmp_eq in Cmp. subst. auto.
    + auto 10.
    + auto 10.
  - intros (A & B & C & D & El & Er). subst nk2 h2 s2. cbn [v2_set set].
    destruct (blt k nk).
    + specialize (IHl l2 El). destruct (v2_set wv sq l k v) as [[l' upd]|]; [|exact I].
      cbn [vimp] in IHl. unfold set_rel in IHl. destruct (set l2 k v) as [l2' upd2].
      cbn [fst snd] in IHl. destruct IHl as [El' Eu]. subst upd2.
      destruct upd.
      * cbn [vimp]. unfold set_rel. cbn [fst snd veq]. rewrite eff_ver_v2, eff_ver_new_meta.
        auto 10.
      * pose proof (v2_balance_veq wv (v2_node wv nk l' r) (mk nk l2' r2)
                      (veq_node_mk wv nk _ _ _ _ El' Er)) as Bv.
        destruct (v2_balance wv (v2_node wv nk l' r)) as [t'|]; [|exact I].
        cbn [vimp] in *. unfold set_rel. cbn [fst snd]. auto.
    + specialize (IHr r2 Er). destruct (v2_set wv sq r k v) as [[r' upd]|]; [|exact I].
      cbn [vimp] in IHr. unfold set_rel in IHr. destruct (set r2 k v) as [r2' upd2].
      cbn [fst snd] in IHr. destruct IHr as [Er' Eu]. subst upd2.
      destruct upd.
      * cbn [vimp]. unfold set_rel. cbn [fst snd veq]. rewrite eff_ver_v2, eff_ver_new_meta.
        auto 10.
      * pose proof (v2_balance_veq wv (v2_node wv nk l r') (mk nk l2 r2')
                      (veq_node_mk wv nk _ _ _ _ El Er')) as Bv.
        destruct (v2_balance wv (v2_node wv nk l r')) as [t'|]; [|exact I].
        cbn [vimp] in *. unfold set_rel. cbn [fst snd]. auto.
Qed.

(** results of remove: same outputs, related new subtrees *)
Definition rm_rel (wv : Z) (a b : rm_res) : Prop :=
  rm_val a = rm_val b /\ rm_key a = rm_key b /\
  match rm_self a, rm_self b with
  | Some x, Some y => veq wv x y
  | None, None => True
  | _, _ => False
  end.

Lemma v2_remove_veq wv k t1 : forall t2,
  veq wv t1 t2 -> vimp (rm_rel wv) (v2_remove wv t1 k) (remove t2 k).
Proof.
  induction t1 as [lk lv m|nk h s m l IHl r IHr]; intros [lk2 lv2 m2|nk2 h2 s2 m2 l2 r2];
    cbn [veq]; try tauto.
  - intros (A & B & C). subst lk2 lv2. cbn [v2_remove remove vimp].
    destruct (beq k lk); unfold rm_rel; cbn [rm_val rm_key rm_self veq]; auto.
  - intros E. pose proof E as E0. destruct E as (A & B & C & D & El & Er). subst nk2 h2 s2.
    cbn [v2_remove remove]. cbv zeta.
    destruct (blt k nk).
    + specialize (IHl l2 El). destruct (v2_remove wv l k) as [res|]; [|exact I].
      cbn [vimp] in IHl. destruct IHl as (Ev & Ek & Es). rewrite <- Ev.
      destruct (rm_val res) as [val|].
      * destruct (rm_self res) as [l'|], (rm_self (remove l2 k)) as [l2'|]; try contradiction.
        -- pose proof (v2_balance_veq wv (v2_node wv nk l' r) (mk nk l2' r2)
                         (veq_node_mk wv nk _ _ _ _ Es Er)) as Bv.
           destruct (v2_balance wv (v2_node wv nk l' r)) as [t'|]; [|exact I].
           cbn [vimp] in *. unfold rm_rel. cbn [rm_val rm_key rm_self]. auto.
        -- cbn [vimp]. unfold rm_rel. cbn [rm_val rm_key rm_self]. auto.
      * cbn [vimp]. unfold rm_rel. cbn [rm_val rm_key rm_self]. auto.
    + specialize (IHr r2 Er). destruct (v2_remove wv r k) as [res|]; [|exact I].
      cbn [vimp] in IHr. destruct IHr as (Ev & Ek & Es). rewrite <- Ev, <- Ek.
      destruct (rm_val res) as [val|].
      * destruct (rm_self res) as [r'|], (rm_self (remove r2 k)) as [r2'|]; try contradiction.
        -- set (nk' := match rm_key res with Some k' => k' | None => nk end).
           pose proof (v2_balance_veq wv (v2_node wv nk' l r') (mk nk' l2 r2')
                         (veq_node_mk wv nk' _ _ _ _ El Es)) as Bv.
           destruct (v2_balance wv (v2_node wv nk' l r')) as [t'|]; [|exact I].
           cbn [vimp] in *. unfold rm_rel. cbn [rm_val rm_key rm_self]. auto.
        -- cbn [vimp]. unfold rm_rel. cbn [rm_val rm_key rm_self]. auto.
      * cbn [vimp]. unfold rm_rel. cbn [rm_val rm_key rm_self]. auto.
Qed.
