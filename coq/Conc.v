(** C06 model: one writer and any number of readers of committed versions, interleaved.

    What is modelled.  The SHARED objects of nodedb.go that readers and the writer touch, at
    the granularity of the critical sections of [ndb.mtx]:

      sh_forest  : the versions present in the store (root reference + reachable nodes),
                   abstractly  version -> contents ([kvs], sorted association list).  The
                   nodes of a committed version are never rewritten; a version only ever
                   disappears wholesale (deleteVersion).
      sh_fast    : the fast index (fast nodes in the DB + fastNodeCache, which Commit()
                   updates in the same critical section as batch.Write()):
                   key -> (versionLastUpdatedAt, value)
      sh_latest  : ndb.latestVersion as PUBLISHED by resetLatestVersion
      sh_pins    : ndb.versionReaders

    and the programs:

      writer   SaveVersion = ... ndb.Commit()                    [WCommitBatch]
                             then ndb.resetLatestVersion(v)      [WPublish]   (two critical
               sections: another goroutine can run in between);
               DeleteVersionsTo(n) = check versionReaders under the lock [WPruneCheck],
               release the lock, then delete the versions [WPruneDel].
               [WCommitAndPublish] is the VARIANT protocol (one critical section).
      readers  ImmutableTree.Get (fast path), ImmutableTree.Iterator + iteration,
               Export / Close; see [rstep].

    What is abstracted.
    - Go memory-model data races (unsynchronised accesses to a word) are NOT expressible
      here: every step below is atomic and sequentially consistent.  This model is about the
      LOGICAL interleaving of critical sections (linearizability of reads), not about
      `go test -race`.
    - The walk of the tree of version v (many GetNode calls) is one step: its nodes are
      immutable and, as long as v is not deleted, the walk reads the same values whenever
      its fetches happen.  Readers of a version that is being deleted are outside C06.
    - A DB iterator over the fast index is a snapshot taken when it is created
      (goleveldb semantics): [PIterScan] is one step.
    - BatchWithFlusher can flush part of a batch to the DB before Commit(); that only makes
      the window of [commit_window_refuted] wider, it is not modelled.
    - Set of a key to its old value: Go stamps the fast node with the new version, the model
      keeps the old stamp; both satisfy the fast-index invariant.
    - [sh_hist], [sh_batch] and the [b1]/[b2] fields of outputs are GHOST: the history of all
      versions ever committed and the newest version whose batch is written. *)
From IAVL Require Import Bytes Tree VMap MTree.
Local Open Scope Z_scope.

Definition fidx := list (bytes * (Z * bytes)).

Fixpoint fassoc (k : bytes) (l : fidx) : option (Z * bytes) :=
  match l with
  | [] => None
  | (k', x) :: r => if beq k k' then Some x else fassoc k r
  end.

(** what a scan of the fast index delivers *)
Definition fast_kvs (f : fidx) : kvs := map (fun e => (fst e, snd (snd e))) f.

(** the fast index after committing contents [c] as version [v]: unchanged pairs keep their
    stamp, new or changed ones are stamped [v], removed keys disappear *)
Definition refresh (v : Z) (old : fidx) (c : kvs) : fidx :=
  map (fun p =>
         (fst p,
          (match fassoc (fst p) old with
           | Some (u, val0) => if beq (snd p) val0 then u else v
           | None => v
           end, snd p))) c.

Fixpoint pin_count (v : Z) (p : list (Z * nat)) : nat :=
  match p with
  | [] => 0%nat
  | (w, n) :: r => if w =? v then n else pin_count v r
  end.
Fixpoint pin_set (v : Z) (n : nat) (p : list (Z * nat)) : list (Z * nat) :=
  match p with
  | [] => [(v, n)]
  | (w, m) :: r => if w =? v then (w, n) :: r else (w, m) :: pin_set v n r
  end.

Record shared := Shared {
  sh_forest : list (Z * kvs);
  sh_fast : fidx;
  sh_latest : Z;
  sh_pins : list (Z * nat);
  sh_hist : list (Z * kvs);     (* ghost *)
  sh_batch : Z                  (* ghost: newest version whose batch is written *)
}.

Definition first_of (f : list (Z * kvs)) : Z := match f with [] => 0 | (v, _) :: _ => v end.
Definition has_version (v : Z) (f : list (Z * kvs)) : bool :=
  match lookup v f with Some _ => true | None => false end.

(** * Writer *)
Inductive wstep :=
| WCommitBatch (c : kvs)         (* ndb.Commit(): batch.Write + fast cache update *)
| WPublish                       (* ndb.resetLatestVersion(version) *)
| WCommitAndPublish (c : kvs)    (* VARIANT protocol: both in one critical section *)
| WPruneCheck (n : Z)            (* deleteVersionsTo: latest / versionReaders checks *)
| WPruneDel (n : Z).             (* deleteVersionsTo: the deleteVersion loop *)

Inductive wout := WOk | WRefused.

Record wstate := WState {
  w_prog : list wstep;
  w_ok : bool;                   (* the last WPruneCheck passed *)
  w_log : list wout
}.

Definition commit_batch (sh : shared) (c : kvs) : shared :=
  let v := sh_batch sh + 1 in
  Shared (sh_forest sh ++ [(v, c)]) (refresh v (sh_fast sh) c) (sh_latest sh) (sh_pins sh)
         (sh_hist sh ++ [(v, c)]) v.
Definition publish (sh : shared) : shared :=
  Shared (sh_forest sh) (sh_fast sh) (sh_batch sh) (sh_pins sh) (sh_hist sh) (sh_batch sh).

(** "unable to delete version v with r active readers" *)
Definition pinned_in (lo hi : Z) (p : list (Z * nat)) : bool :=
  existsb (fun e => (lo <=? fst e) && (fst e <=? hi) && negb (Nat.eqb (snd e) 0)) p.

Definition prune_check (sh : shared) (n : Z) : bool :=
  if sh_latest sh <=? n then false                    (* "latest version <= toVersion" *)
  else negb (pinned_in (first_of (sh_forest sh)) n (sh_pins sh)).

Definition prune_del (sh : shared) (n : Z) : shared :=
  Shared (filter (fun e => n <? fst e) (sh_forest sh)) (sh_fast sh) (sh_latest sh) (sh_pins sh)
         (sh_hist sh) (sh_batch sh).

Definition wexec (sh : shared) (ok : bool) (s : wstep) : shared * bool * wout :=
  match s with
  | WCommitBatch c => (commit_batch sh c, ok, WOk)
  | WPublish => (publish sh, ok, WOk)
  | WCommitAndPublish c => (publish (commit_batch sh c), ok, WOk)
  | WPruneCheck n => let b := prune_check sh n in (sh, b, if b then WOk else WRefused)
  | WPruneDel n => if ok then (prune_del sh n, false, WOk) else (sh, false, WRefused)
  end.

Definition wstep_thread (sh : shared) (w : wstate) : shared * wstate :=
  match w_prog w with
  | [] => (sh, w)
  | s :: rest =>
      let '(sh', ok', o) := wexec sh (w_ok w) s in
      (sh', WState rest ok' (w_log w ++ [o]))
  end.

(** the shared objects a writer step WRITES *)
Inductive obj := ONewVersion | ODelVersions | OFast | OLatest.
Definition wfootprint (s : wstep) : list obj :=
  match s with
  | WCommitBatch _ => [ONewVersion; OFast]
  | WPublish => [OLatest]
  | WCommitAndPublish _ => [ONewVersion; OFast; OLatest]
  | WPruneCheck _ => []
  | WPruneDel _ => [ODelVersions]
  end.

(** * Readers *)
Inductive rop :=
| RGet (v : Z) (k : bytes)       (* Get(k) on the immutable tree of version v *)
| RIter (v : Z)                  (* Iterator(nil, nil, true) on it, then the iteration *)
| RIterAtomic (v : Z)            (* VARIANT reader: latest check + iterator creation atomic *)
| RExportOpen (v : Z)
| RExportClose (v : Z).

Inductive rpc :=
| PIdle
| PGetLatest (v : Z) (k : bytes) (b1 : Z)                     (* fast node was nil *)
| PGetWalk (v : Z) (k : bytes) (b1 : Z) (lat : option Z)      (* t.root.get(t, key) *)
| PIterScan (v : Z) (lat : Z)                                 (* NewFastIterator *)
| PIterWalk (v : Z) (lat : Z).                                (* NewIterator *)

(** [b1]: ghost, the batch version when the fast node was read; [lat]: the value of
    latestVersion the reader saw (if it looked); [b2]: ghost, the batch version when the
    iterator was created *)
Inductive rout :=
| OGet (v : Z) (k : bytes) (r : option bytes) (b1 : Z) (lat : option Z)
| OIter (v : Z) (r : kvs) (lat : Z) (b2 : Z)
| OErr (v : Z)                   (* version not (or no longer) in the store *)
| OPin (v : Z)
| OUnpin (v : Z).

Record rstate := RState {
  r_prog : list rop;
  r_pc : rpc;
  r_out : list rout
}.

Definition r_done (r : rstate) (o : rout) : rstate :=
  RState (tl (r_prog r)) PIdle (r_out r ++ [o]).
Definition r_goto (r : rstate) (p : rpc) : rstate := RState (r_prog r) p (r_out r).

Definition set_pins (sh : shared) (p : list (Z * nat)) : shared :=
  Shared (sh_forest sh) (sh_fast sh) (sh_latest sh) p (sh_hist sh) (sh_batch sh).

(** one atomic step of a reader *)
Definition rstep (sh : shared) (r : rstate) : shared * rstate :=
  match r_pc r with
  | PIdle =>
      match r_prog r with
      | [] => (sh, r)
      | RGet v k :: _ =>
          (* the tree was obtained by GetImmutable(v): the version is in the store *)
          if negb (has_version v (sh_forest sh)) then (sh, r_done r (OErr v)) else
          (* fastNode, err := t.ndb.GetFastNode(key) *)
          match fassoc k (sh_fast sh) with
          | None => (sh, r_goto r (PGetLatest v k (sh_batch sh)))
          | Some (u, val) =>
              if u <=? v then (sh, r_done r (OGet v k (Some val) (sh_batch sh) None))
              else (sh, r_goto r (PGetWalk v k (sh_batch sh) None))
          end
      | RIter v :: _ =>
          if negb (has_version v (sh_forest sh)) then (sh, r_done r (OErr v)) else
          (* IsFastCacheEnabled: t.version == latestVersion *)
          let lat := sh_latest sh in
          if v =? lat then (sh, r_goto r (PIterScan v lat)) else (sh, r_goto r (PIterWalk v lat))
      | RIterAtomic v :: _ =>
          if negb (has_version v (sh_forest sh)) then (sh, r_done r (OErr v)) else
          let lat := sh_latest sh in
          if v =? lat then (sh, r_done r (OIter v (fast_kvs (sh_fast sh)) lat (sh_batch sh)))
          else (sh, r_goto r (PIterWalk v lat))
      | RExportOpen v :: _ =>
          if negb (has_version v (sh_forest sh)) then (sh, r_done r (OErr v)) else
          (set_pins sh (pin_set v (S (pin_count v (sh_pins sh))) (sh_pins sh)), r_done r (OPin v))
      | RExportClose v :: _ =>
          (set_pins sh (pin_set v (Nat.pred (pin_count v (sh_pins sh))) (sh_pins sh)),
           r_done r (OUnpin v))
      end
  | PGetLatest v k b1 =>
      (* if t.version == t.ndb.getCachedLatestVersion() { return nil, nil } *)
      let lat := sh_latest sh in
      if v =? lat then (sh, r_done r (OGet v k None b1 (Some lat)))
      else (sh, r_goto r (PGetWalk v k b1 (Some lat)))
  | PGetWalk v k b1 lat =>
      match lookup v (sh_forest sh) with
      | Some c => (sh, r_done r (OGet v k (assoc k c) b1 lat))
      | None => (sh, r_done r (OErr v))
      end
  | PIterScan v lat =>
      (sh, r_done r (OIter v (fast_kvs (sh_fast sh)) lat (sh_batch sh)))
  | PIterWalk v lat =>
      match lookup v (sh_forest sh) with
      | Some c => (sh, r_done r (OIter v c lat (sh_batch sh)))
      | None => (sh, r_done r (OErr v))
      end
  end.

(** * Scheduler: thread 0 is the writer, thread i+1 is reader i *)
Record cstate := CState {
  c_sh : shared;
  c_w : wstate;
  c_rs : list rstate
}.

Fixpoint upd_nth {A} (i : nat) (x : A) (l : list A) : list A :=
  match l, i with
  | [], _ => []
  | _ :: r, O => x :: r
  | y :: r, S j => y :: upd_nth j x r
  end.

Definition sched_step (tid : nat) (s : cstate) : cstate :=
  match tid with
  | O => let (sh', w') := wstep_thread (c_sh s) (c_w s) in CState sh' w' (c_rs s)
  | S i =>
      match nth_error (c_rs s) i with
      | None => s
      | Some r => let (sh', r') := rstep (c_sh s) r in CState sh' (c_w s) (upd_nth i r' (c_rs s))
      end
  end.

Definition run_schedule (sched : list nat) (s : cstate) : cstate :=
  fold_left (fun st tid => sched_step tid st) sched s.

(** initial state: an empty store.  The ghost history starts with the empty contents under
    version 0 (what the fast index, empty, describes); no version is readable.  Every other
    state is reached by running writer steps, so the theorems of ConcFacts quantify over all
    reachable states. *)
Definition init_shared : shared := Shared [] [] 0 [] [(0, [])] 0.

Definition init_cstate (wp : list wstep) (rps : list (list rop)) : cstate :=
  CState init_shared (WState wp false []) (map (fun p => RState p PIdle []) rps).

(** SaveVersion of contents [c] in the real protocol / in the variant protocol *)
Definition save_real (c : kvs) : list wstep := [WCommitBatch c; WPublish].
Definition save_variant (c : kvs) : list wstep := [WCommitAndPublish c].
(** DeleteVersionsTo(n) *)
Definition prune (n : Z) : list wstep := [WPruneCheck n; WPruneDel n].

(** all outputs of all readers *)
Definition all_outs (s : cstate) : list rout := flat_map r_out (c_rs s).
