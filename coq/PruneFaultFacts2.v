(** PruneFaultFacts2: what a run that was cut short leaves behind ([ERR]), deleting a key nobody
    needs keeps a store safe ([safe_mdel]), the writes of PruneAlgo's functions only extend the
    write log ([wpre]), and the orphan callback with a failing call ([on_orphan_f_spec]). *)
From Coq Require Import Lia.
From IAVL Require Import Bytes Varint Tree VMap TreeFacts MTree MTreeFacts HashFacts VersionFacts
  Store StoreFacts PruneAlgo PruneAlgoFacts1 PruneAlgoFacts2 PruneAlgoFacts3 PruneAlgoFacts4
  PruneAlgoFacts5 PruneFault PruneFaultFacts1.
Local Open Scope Z_scope.

(** ** Deleting a key that no retained node and no retained root entry uses *)
Lemma safe_mdel (L : node -> Prop) sro b d k :
  safe L sro b d ->
  (forall x, L x -> k <> node_key x) ->
  (forall x, L x -> nonce (nmeta x) = 1 -> k <> (ver (nmeta x), 0)) ->
  (forall w rt, In (w, rt) sro -> k <> (w, 1)) ->
  safe L sro b (mdel kcmp k d).
Proof.
  intros (S & A & B & C & D) N1 N0 NR.
  assert (M : forall k', k' <> k -> mfind kcmp k' (mdel kcmp k d) = mfind kcmp k' d).
  { intros k' Ne. rewrite (mfind_mdel kcmp kcmp_ok _ _ _ S).
    destruct (kcmp k' k) eqn:Kc; try reflexivity. apply kcmp_Eq in Kc. contradiction. }
  assert (M' : forall k' e, mfind kcmp k' (mdel kcmp k d) = Some e -> mfind kcmp k' d = Some e).
  { intros k' e. rewrite (mfind_mdel kcmp kcmp_ok _ _ _ S). destruct (kcmp k' k); [discriminate|auto|auto]. }
  split; [apply (msorted_mdel kcmp), S|]. split; [|split; [|split]].
  - intros x Lx. specialize (A x Lx). unfold get_node in *.
    rewrite (M (node_key x)) by (intros Q; exact (N1 x Lx (eq_sym Q))).
    destruct (mfind kcmp (node_key x) d) as [e|]; [exact A|].
    destruct (snd (node_key x) =? 1) eqn:E1; [|exact A]. apply Z.eqb_eq in E1.
    rewrite M; [exact A|]. intros Q. exact (N0 x Lx E1 (eq_sym Q)).
  - intros x e Lx Nx F. apply (B x e Lx Nx), M', F.
  - intros w rt I. unfold rootinfo. rewrite M; [exact (C w rt I)|].
    intros Q. exact (NR w rt I (eq_sym Q)).
  - intros w e F. apply (D w e), M', F.
Qed.

(** ** The write log only grows *)
Definition wpre (p p' : pdb) : Prop := exists W, wlog p' = wlog p ++ W.

Lemma wpre_refl p : wpre p p.
Proof. exists []. rewrite app_nil_r. reflexivity. Qed.

Lemma wpre_trans a b c : wpre a b -> wpre b c -> wpre a c.
Proof. intros (W1 & E1) (W2 & E2). exists (W1 ++ W2). rewrite E2, E1, app_assoc. reflexivity. Qed.

Lemma wpre_pwrite p o : wpre p (pwrite p o).
Proof.
  unfold pwrite. cbv zeta. destruct (effmode p && negb (effective p o)); [exists [o]; reflexivity|].
  destruct (sched p) as [|[|] rest]; exists [o]; reflexivity.
Qed.

Lemma wlog_pflushed p : wlog (pflushed p) = wlog p.
Proof. unfold pflushed. destruct (sched p) as [|[|] rest]; reflexivity. Qed.

Lemma wpre_pflushed_l p q : wpre p q -> wpre (pflushed p) q.
Proof. intros (W & E). exists W. rewrite wlog_pflushed. exact E. Qed.

Lemma wpre_pflushed_r p q : wpre p q -> wpre p (pflushed q).
Proof. intros (W & E). exists W. rewrite wlog_pflushed. exact E. Qed.

Lemma wpre_on_orphan v p k : wpre p (on_orphan v p k).
Proof.
  unfold on_orphan. destruct ((snd k =? 1) && (fst k <? v)); [|apply wpre_pwrite].
  exact (wpre_trans _ _ _ (wpre_pwrite _ _) (wpre_pwrite _ _)).
Qed.

Section Mono.
  Variable H : bytes -> bytes.

  Lemma loop_wpre : forall fuel v p cur prev org p',
    orphans_loop H fuel v p cur prev org = POk p' -> wpre p p'.
  Proof.
    induction fuel as [|fuel IH]; intros v p cur prev org p'; cbn [orphans_loop]; [discriminate|].
    destruct (negb (nit_valid prev)).
    { destruct (nerr cur); [discriminate|]. destruct (nerr prev); [discriminate|].
      intros Q. inversion Q; subst. apply wpre_refl. }
    destruct (nerr cur); [discriminate|].
    assert (B : match nstack prev with
                | (pk, pn) :: _ =>
                    if match org with
                       | Some (ok, on) => beq (fetched_hash H pk pn) (fetched_hash H ok on)
                       | None => false
                       end
                    then orphans_loop H fuel v p cur (nit_next (disk p) prev true) None
                    else orphans_loop H fuel v (on_orphan v p pk) cur
                           (nit_next (disk (on_orphan v p pk)) prev false) org
                | [] => PErr
                end = POk p' -> wpre p p').
    { destruct (nstack prev) as [|[pk pn] rest]; [discriminate|].
      destruct (match org with Some (ok, on) => _ | None => false end); [apply IH|].
      intros Q. exact (wpre_trans _ _ _ (wpre_on_orphan v p pk) (IH _ _ _ _ _ _ Q)). }
    destruct org as [[ok on]|]; [exact B|]. destruct (nit_valid cur); [|exact B].
    destruct (nstack cur) as [|[k n] rest]; [discriminate|]. destruct (fst k <=? v); apply IH.
  Qed.

  Lemma traverse_wpre fuel v p c p' c' :
    traverse_orphans H fuel v p c = (POk p', c') -> wpre p p'.
  Proof.
    unfold traverse_orphans.
    destruct (rkc_get c (disk p) (v + 1)) as [[curk| | |] c1]; try discriminate.
    destruct (nit_new (disk p) curk) as [cur|]; [|discriminate].
    destruct (rkc_get c1 (disk p) v) as [[prevk| | |] c2]; try discriminate.
    destruct (nit_new (disk p) prevk) as [prev|]; [|discriminate].
    intros Q. inversion Q as [[Q1 Q2]]. exact (loop_wpre _ _ _ _ _ _ _ Q1).
  Qed.

  Lemma step1_wpre fuel v p c1 rootk p' c' :
    dv_step1 H fuel v p c1 rootk = (POk p', c') -> wpre p p'.
  Proof.
    unfold dv_step1. destruct rootk as [k|].
    - destruct (traverse_orphans H fuel v p c1) as [[p1| | |] c2] eqn:T; intros Q; inversion Q; subst.
      + exact (traverse_wpre _ _ _ _ _ _ T).
      + apply wpre_refl.
    - intros Q. inversion Q; subst. apply wpre_refl.
  Qed.

  Lemma p2_wpre v rootk p : wpre p (dv_p2 v rootk p).
  Proof.
    unfold dv_p2. destruct rootk as [k|]; [destruct (keqb k (v, 1))|]; try apply wpre_pwrite.
    apply wpre_refl.
  Qed.

  Lemma tail_wpre v p c p' c' : dv_tail v p c = (POk p', c') -> wpre p p'.
  Proof.
    unfold dv_tail. destruct (rkc_get c (disk p) (v + 1)) as [[k| | |] c3]; cbv beta iota zeta;
      try discriminate.
    - destruct k as [nk|]; [|intros Q; inversion Q; subst; apply wpre_refl].
      destruct (keqb nk (v, 1)); [|intros Q; inversion Q; subst; apply wpre_refl].
      destruct (get_node (disk p) nk) as [root|]; [|discriminate].
      intros Q. inversion Q; subst. exact (wpre_trans _ _ _ (wpre_pwrite _ _) (wpre_pwrite _ _)).
    - intros Q. inversion Q; subst. apply wpre_refl.
  Qed.

  Lemma delete_version_wpre fuel v p c p' c' :
    delete_version H fuel v p c = (POk p', c') -> wpre p p'.
  Proof.
    rewrite dv_eq.
    assert (Body : forall rootk c1,
              match dv_step1 H fuel v p c1 rootk with
              | (POk p1, c2) => dv_tail v (dv_p2 v rootk p1) c2
              | (e, c2) => (e, c2)
              end = (POk p', c') -> wpre p p').
    { intros rootk c1. destruct (dv_step1 H fuel v p c1 rootk) as [[p1| | |] c2] eqn:S1; try discriminate.
      intros Q. apply (wpre_trans _ _ _ (step1_wpre _ _ _ _ _ _ _ S1)).
      exact (wpre_trans _ _ _ (p2_wpre v rootk p1) (tail_wpre _ _ _ _ _ Q)). }
    destruct (rkc_get c (disk p) v) as [[rootk| | |] c1]; cbv beta iota zeta; try discriminate; apply Body.
  Qed.

  Lemma delete_range_wpre fuel vs : forall p c p',
    delete_range H fuel vs p c = POk p' -> wpre p p'.
  Proof.
    induction vs as [|v rest IH]; intros p c p'; cbn [delete_range].
    - intros Q. inversion Q; subst. apply wpre_refl.
    - destruct (delete_version H fuel v p c) as [[p1| | |] c1] eqn:D; try discriminate.
      intros Q. exact (wpre_trans _ _ _ (delete_version_wpre _ _ _ _ _ _ D) (IH _ _ _ Q)).
  Qed.
End Mono.

(** ** What is left behind *)
Section Err.
  Variable fK : forest_t.    (* the versions that are not being deleted *)
  Variable bK : Z.

  Definition ERR (p : pdb) : Prop :=
    Forall (safe (sub_of fK) fK bK) (dhist p) /\ safe (sub_of fK) fK bK (Vof p).

  Lemma ERR_of_PI p (L : node -> Prop) sro r b E :
    PI p L sro r b E -> (forall x, sub_of fK x -> L x) -> incl fK sro -> b <= bK -> ERR p.
  Proof.
    intros P HL HS Hb. split.
    - eapply Forall_impl; [|exact (pi_hist _ _ _ _ _ _ P)].
      intros d Sd. exact (safe_anti _ _ _ _ _ _ _ Sd HL HS Hb).
    - exact (safe_anti _ _ _ _ _ _ _ (proj1 (pi_Vgood _ _ _ _ _ _ P)) HL HS Hb).
  Qed.

  Lemma Vof_pflushed p : Vof (pflushed p) = Vof p.
  Proof. unfold pflushed, Vof. destruct (sched p) as [|[|] rest]; reflexivity. Qed.

  Lemma ERR_pflushed p : ERR p -> ERR (pflushed p).
  Proof.
    intros [A B]. split; [|rewrite Vof_pflushed; exact B].
    unfold pflushed. destruct (sched p) as [|[|] rest]; try exact A. cbn [dhist].
    apply Forall_app. split; [exact A|]. constructor; [exact B|constructor].
  Qed.

  Lemma ERR_pwrite p o : ERR p -> safe (sub_of fK) fK bK (sapply (Vof p) o) -> ERR (pwrite p o).
  Proof.
    intros [A B] S. destruct (pwrite_cases p o) as (EV & _ & [[_ Eh]|[_ Eh]]); split; rewrite ?EV, ?Eh; auto.
    apply Forall_app. split; [exact A|]. constructor; [exact B|constructor].
  Qed.

  (** a failed write leaves the batch as it was, or written out *)
  Lemma ERR_failed p q : ERR p -> (q = p \/ q = pflushed p) -> ERR q.
  Proof. intros E [->| ->]; [exact E|apply ERR_pflushed, E]. Qed.
End Err.

(** ** The orphan callback with a failing call *)
Lemma on_orphan_f_spec v s k ok s' :
  on_orphan_f v s k = (ok, s') -> live s ->
  wadv s s' /\
  ((ok = true /\ live s' /\ fp s' = on_orphan v (fp s) k) \/
   (ok = false /\ ~ live s' /\
    exists pm, (pm = fp s \/ pm = pwrite (fp s) (del_node k)) /\ (fp s' = pm \/ fp s' = pflushed pm))).
Proof.
  unfold on_orphan_f, on_orphan. intros Q L. destruct ((snd k =? 1) && (fst k <? v)).
  - destruct (pwrite_f s (del_node k)) as [ok1 s1] eqn:W1.
    destruct (pwrite_f_spec s _ ok1 s1 W1 L) as (A1 & B1).
    destruct B1 as [(-> & L1 & E1)|(-> & D1 & E1)].
    + destruct (pwrite_f_spec s1 _ ok s' Q L1) as (A2 & B2). split; [exact (wadv_trans _ _ _ A1 A2)|].
      destruct B2 as [(-> & L2 & E2)|(-> & D2 & E2)].
      * left. rewrite E2, E1. auto.
      * right. split; [reflexivity|]. split; [exact D2|]. exists (pwrite (fp s) (del_node k)).
        rewrite <- E1. auto.
    + inversion Q; subst. split; [exact A1|]. right. split; [reflexivity|]. split; [exact D1|].
      exists (fp s). auto.
  - destruct (pwrite_f_spec s _ ok s' Q L) as (A & B). split; [exact A|].
    destruct B as [B|(-> & D & E)]; [left; exact B|]. right. split; [reflexivity|]. split; [exact D|].
    exists (fp s). auto.
Qed.
