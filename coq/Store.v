(** M2: the node store below the MutableTree (nodedb.go, batch.go, the write side of
    mutable_tree.go).

    A database is three sorted association lists: the node store (keys [(version, nonce)],
    Go prefix 's'), the fast index (Go prefix 'f') and the storage-version label (Go prefix
    'm', key "storage_version").  An operation of the tree is compiled to the ORDERED list of
    physical writes it issues ([commit_ops], [rollback_ops], [prune_ops]); [apply_ops] applies a
    list of writes.  [expected_store] is the store a forest of retained versions must have: the
    nodes reachable from the retained roots plus the root entries, sorted by key.

    Normalisation: pruning re-keys a root [(v,1)] that the next version still refers to as
    [(v,0)] (nodedb.go deleteVersion); [GetNode]/[GetRoot] fall back from [(v,1)] to [(v,0)].
    [expected_store] uses the node keys carried by the M1 trees ([meta]), i.e. it lists a
    re-keyed root under [(v,1)]; the harness prints nonce 0 as 1 before comparing
    ([norm_store] does the same for a physical store of this model).

    Not modelled: legacy (hash-keyed) nodes, the node caches, the version-readers table, async
    pruning, the version field of fast-index entries. *)
From IAVL Require Import Bytes Varint Tree MTree.
Local Open Scope Z_scope.

(** ** Generic association lists kept sorted by a three-way comparison *)
Section SMap.
  Context {K V : Type}.
  Variable cmp : K -> K -> comparison.

  (** full scan: also meaningful on unsorted lists (first binding wins) *)
  Fixpoint mfind (k : K) (l : list (K * V)) : option V :=
    match l with
    | [] => None
    | (k', v) :: r => match cmp k k' with Eq => Some v | _ => mfind k r end
    end.

  Fixpoint mset (k : K) (v : V) (l : list (K * V)) : list (K * V) :=
    match l with
    | [] => [(k, v)]
    | (k', v') :: r =>
        match cmp k k' with
        | Lt => (k, v) :: l
        | Eq => (k, v) :: r
        | Gt => (k', v') :: mset k v r
        end
    end.

  Fixpoint mdel (k : K) (l : list (K * V)) : list (K * V) :=
    match l with
    | [] => []
    | (k', v') :: r =>
        match cmp k k' with
        | Lt => l
        | Eq => r
        | Gt => (k', v') :: mdel k r
        end
    end.

  Definition mhas (k : K) (l : list (K * V)) : bool :=
    match mfind k l with Some _ => true | None => false end.
End SMap.

(** ** Node keys and stored entries *)
Notation nodekey := (Z * Z)%type (only parsing).     (* (version, nonce) *)

Definition kcmp (a b : nodekey) : comparison :=
  match fst a ?= fst b with
  | Eq => snd a ?= snd b
  | c => c
  end.

Definition keqb (a b : nodekey) : bool := (fst a =? fst b) && (snd a =? snd b).

(** what node.go writeBytes stores: a leaf stores key and value, an inner node stores key,
    height, size, its hash and the node keys of its children (the version and the nonce are the
    storage key) *)
Inductive snode :=
| SLeaf (k v : bytes)
| SInner (k : bytes) (h s : Z) (hash : bytes) (l r : nodekey).

Inductive entry :=
| ENode (n : snode)          (* an encoded node *)
| ERef (k : nodekey)         (* SaveRoot: the root of this version is the node with key [k] *)
| EEmpty.                    (* SaveEmptyRoot: the version is empty *)

Notation store := (list ((Z * Z) * entry)) (only parsing).

Definition node_key (t : node) : nodekey := (ver (nmeta t), nonce (nmeta t)).

Definition snode_of (t : node) : snode :=
  match t with
  | Leaf k v _ => SLeaf k v
  | Inner k h s m l r => SInner k h s (hs m) (node_key l) (node_key r)
  end.

(** all nodes of a (persisted) tree with their keys, pre-order *)
Fixpoint nodes_of (t : node) : list (nodekey * snode) :=
  (node_key t, snode_of t) ::
  match t with
  | Leaf _ _ _ => []
  | Inner _ _ _ _ l r => nodes_of l ++ nodes_of r
  end.

(** the entry stored under the root key [(v,1)] of version [v] when the root node itself does
    not sit there *)
Definition root_entry (v : Z) (r : option node) : option (nodekey * entry) :=
  match r with
  | None => Some ((v, 1), EEmpty)
  | Some t => if keqb (node_key t) (v, 1) then None else Some ((v, 1), ERef (node_key t))
  end.

Definition tree_entries (p : Z * option node) : list (nodekey * entry) :=
  match snd p with
  | Some t => map (fun q => (fst q, ENode (snd q))) (nodes_of t)
  | None => []
  end ++
  match root_entry (fst p) (snd p) with Some e => [e] | None => [] end.

(** everything the retained versions need, with repetitions (shared subtrees) *)
Definition reach (f : list (Z * option node)) : list (nodekey * entry) :=
  flat_map tree_entries f.

Definition store_of (l : list (nodekey * entry)) : store :=
  fold_left (fun st p => mset kcmp (fst p) (snd p) st) l [].

(** the node store of a forest: reachable nodes and root entries, sorted by key, no
    repetition *)
Definition expected_store (f : list (Z * option node)) : list ((Z * Z) * entry) :=
  store_of (reach f).

(** the fast index and label of a forest (latest version's pairs, label 1.1.0-<latest>) *)
Definition latest_tree (f : list (Z * option node)) : option node :=
  fold_left (fun _ p => snd p) f None.
Definition expected_fast (f : list (Z * option node)) : list (bytes * bytes) :=
  oelems (latest_tree f).
Definition expected_label (f : list (Z * option node)) : option Z :=
  Some (fold_left (fun _ p => fst p) f 0).

(** ** The database and its physical writes *)

(** [label]: [None] is the default storage version "1.0.0" (no usable fast index), [Some v] is
    "1.1.0-v" (fast index valid for latest version [v]). *)
Record db := Db {
  nodes : store;
  fastidx : list (bytes * bytes);
  label : option Z
}.

Definition empty_db : db := Db [] [] None.

Inductive dbkey := KNode (k : nodekey) | KFast (k : bytes) | KLabel.
Inductive dbval := VEntry (e : entry) | VFast (v : bytes) | VLabel (l : option Z).
Inductive wop := WSet (k : dbkey) (e : dbval) | WDel (k : dbkey).

(** A value of the wrong kind for its key is never produced by the functions below; it is
    ignored here (there is no Go behaviour to transcribe for it). *)
Definition apply_op (d : db) (o : wop) : db :=
  match o with
  | WSet (KNode k) (VEntry e) => Db (mset kcmp k e (nodes d)) (fastidx d) (label d)
  | WSet (KFast k) (VFast v) => Db (nodes d) (mset bcmp k v (fastidx d)) (label d)
  | WSet KLabel (VLabel l) => Db (nodes d) (fastidx d) l
  | WSet _ _ => d
  | WDel (KNode k) => Db (mdel kcmp k (nodes d)) (fastidx d) (label d)
  | WDel (KFast k) => Db (nodes d) (mdel bcmp k (fastidx d)) (label d)
  | WDel KLabel => Db (nodes d) (fastidx d) None
  end.

Definition apply_ops (d : db) (ops : list wop) : db := fold_left apply_op ops d.

Definition set_node (p : nodekey * entry) : wop := WSet (KNode (fst p)) (VEntry (snd p)).
Definition set_snode (p : nodekey * snode) : wop := WSet (KNode (fst p)) (VEntry (ENode (snd p))).
Definition del_node (k : nodekey) : wop := WDel (KNode k).
Definition set_fast (p : bytes * bytes) : wop := WSet (KFast (fst p)) (VFast (snd p)).
Definition del_fast (k : bytes) : wop := WDel (KFast k).
Definition set_label (l : option Z) : wop := WSet KLabel (VLabel l).

(** ** SaveVersion *)
Section Commit.
  Variable H : bytes -> bytes.

  (** saveNewNodes: [recursiveAssignKey] assigns the nonces in pre-order and appends a node to
      [newNodes] AFTER its children; the nodes are then written in that order (post-order of
      the new nodes only, root last).  Returns the persisted tree, the last nonce used and the
      writes.  The first two components are [Tree.stamp] (StoreFacts.assign_stamp). *)
  Fixpoint assign (wv n : Z) (t : node) : node * Z * list (nodekey * snode) :=
    if negb (is_new t) then (t, n, []) else
    match t with
    | Leaf k v _ =>
        let t' := Leaf k v (Meta wv (n + 1) (H (leaf_preimage H wv k v))) in
        (t', n + 1, [(node_key t', snode_of t')])
    | Inner k h s _ l r =>
        let '(l', n1, wl) := assign wv (n + 1) l in
        let '(r', n2, wr) := assign wv n1 r in
        let t' := Inner k h s (Meta wv (n + 1)
                    (H (inner_preimage h s wv (hs (nmeta l')) (hs (nmeta r'))))) l' r' in
        (t', n2, wl ++ wr ++ [(node_key t', snode_of t')])
    end.

  (** Unsaved fast-node additions / removals are not part of MTree's state.  They are derived:
      additions = the leaves of the working tree that are new (every Set creates a new leaf, and
      a new leaf survives until its key is removed), removals = the keys of the last saved tree
      that are absent from the working tree.  Approximation: Go also records a removal for a
      key that was set and removed again since the last save without being in the last saved
      tree; that delete hits an absent fast key and changes nothing. *)
  Fixpoint new_leaves (t : node) : list (bytes * bytes) :=
    match t with
    | Leaf k v m => if ver m =? 0 then [(k, v)] else []
    | Inner _ _ _ _ l r => new_leaves l ++ new_leaves r
    end.

  Definition fast_adds (s : mstate) : list (bytes * bytes) :=
    match root s with None => [] | Some n => new_leaves n end.

  Definition fast_rems (s : mstate) : list bytes :=
    filter (fun k => negb (mhas bcmp k (oelems (root s)))) (map fst (oelems (last_saved s))).

  (** saveFastNodeVersion: additions sorted by key, removals sorted by key, then the label.
      [fast = false] is skipFastStorageUpgrade. *)
  Definition commit_meta_ops (fast : bool) (s : mstate) : list wop :=
    if fast then
      map set_fast (fast_adds s) ++ map del_fast (fast_rems s) ++
      [set_label (Some (working_version s))]
    else [].

  (** SaveEmptyRoot / SaveRoot / saveNewNodes *)
  Definition commit_node_ops (s : mstate) : list wop :=
    let wv := working_version s in
    match root s with
    | None => [set_node ((wv, 1), EEmpty)]
    | Some n =>
        if is_new n then map set_snode (snd (assign wv 0 n))
        else [set_node ((wv, 1), ERef (node_key n))]
    end.

  (** The ordered physical writes of SaveVersion.  Saving an existing version (same hash:
      idempotent; other hash: error) writes nothing. *)
  Definition commit_ops (fast : bool) (s : mstate) : list wop :=
    if version_exists s (working_version s) then []
    else commit_meta_ops fast s ++ commit_node_ops s.
End Commit.

(** ** DeleteVersionsFrom (the storage part of LoadVersionForOverwriting v: from = v + 1) *)

(** getLatestVersion: reverse scan of the node keys with version >= 1 *)
Definition store_latest (st : store) : Z :=
  fold_left (fun acc p => Z.max acc (fst (fst p))) st 0.

(** every node key with version > v in ascending key order (traverseRange over
    [from, latest + 1)), then the label is reset to the default storage version if the store
    had been upgraded; nothing at all if latest < from *)
Definition rollback_ops (d : db) (v : Z) : list wop :=
  if store_latest (nodes d) <? v + 1 then []
  else
    map del_node (map fst (filter (fun p => v <? fst (fst p)) (nodes d))) ++
    match label d with None => [] | Some _ => [set_label None] end.

(** the index rebuild that follows on a label mismatch (enableFastStorageAndCommitIfNotEnabled):
    delete every fast entry, write the latest tree's pairs, write the label *)
Definition rebuild_ops (d : db) (latest : Z) (t : option node) : list wop :=
  map del_fast (map fst (fastidx d)) ++ map set_fast (oelems t) ++ [set_label (Some latest)].

(** ** DeleteVersionsTo *)

(** Specification level: delete what the deleted versions reach and the retained ones do not. *)
Definition drop_ops (keep : Z -> bool) (f : list (Z * option node)) : list wop :=
  let gone := expected_store (filter (fun p => negb (keep (fst p))) f) in
  let kept := expected_store (filter (fun p => keep (fst p)) f) in
  map del_node (filter (fun k => negb (mhas kcmp k kept)) (map fst gone)).

Definition prune_ops (f : list (Z * option node)) (n : Z) : list wop :=
  drop_ops (fun v => n <? v) f.

(** One step of deleteVersionsTo: deleteVersion(v) with the physical root-key handling.
    Orphans = nodes of tree v (pre-order) that tree v+1 does not contain; an orphan with nonce 1
    of an earlier version is deleted under both [(w,1)] and [(w,0)]; the root entry of v is
    deleted when it is a reference or empty; when version v+1 uses the root node of v, that node
    is written under [(v,0)] BEFORE [(v,1)] is deleted.
    (The hash-directed double traversal of traverseOrphans is not transcribed: orphans are
    computed as a set difference on node keys.) *)
Definition prune_version_ops (f : list (Z * option node)) (v : Z) : list wop :=
  match lookup v f, lookup (v + 1) f with
  | Some rv, Some rn =>
      let next_nodes := match rn with Some t => nodes_of t | None => [] end in
      let orphans :=
        match rv with
        | Some t => filter (fun p => negb (mhas kcmp (fst p) next_nodes)) (nodes_of t)
        | None => []
        end in
      flat_map (fun p =>
                  let k := fst p in
                  if (snd k =? 1) && (fst k <? v)
                  then [del_node k; del_node (fst k, 0)] else [del_node k]) orphans ++
      (match root_entry v rv with Some _ => [del_node (v, 1)] | None => [] end) ++
      (match rn with
       | Some t =>
           if keqb (node_key t) (v, 1)
           then [set_node ((v, 0), ENode (snode_of t)); del_node (v, 1)] else []
       | None => []
       end)
  | _, _ => []
  end.

Fixpoint prune_steps (f : list (Z * option node)) (vs : list Z) : list wop :=
  match vs with
  | [] => []
  | v :: rest => prune_version_ops f v ++ prune_steps f rest
  end.

(** how the harness reads a physical store: nonce 0 stands for nonce 1 *)
Definition norm_key (k : nodekey) : nodekey := if snd k =? 0 then (fst k, 1) else k.
Definition norm_entry (e : entry) : entry :=
  match e with ERef k => ERef (norm_key k) | _ => e end.
Definition norm_store (st : store) : store :=
  store_of (map (fun p => (norm_key (fst p), norm_entry (snd p))) st).

(** the database a forest must have (fast storage enabled) *)
Definition expected_db (f : list (Z * option node)) : db :=
  Db (expected_store f) (expected_fast f) (expected_label f).

(** ** The database along a history: every storage-changing operation of MTree.step applies its
    writes (DeleteVersionsTo at specification level; LoadVersionForOverwriting = DeleteVersionsFrom
    followed by the index rebuild the label reset triggers). *)
Section DbRun.
  Variable H : bytes -> bytes.

  Definition db_step (fast : bool) (s : mstate) (d : db) (o : op) : db :=
    match o with
    | OSave => apply_ops d (commit_ops H fast s)
    | OPrune n =>
        if latest_version s <=? n then d else apply_ops d (prune_ops (forest s) n)
    | OLvfo v =>
        match do_lvfo s v with
        | (s', XOk) =>
            let d1 := apply_ops d (rollback_ops d v) in
            if fast then apply_ops d1 (rebuild_ops d1 (latest_version s') (latest_tree (forest s')))
            else d1
        | _ => d
        end
    | _ => d
    end.

  Fixpoint db_run (fast : bool) (s : mstate) (d : db) (ops : list op) : mstate * db :=
    match ops with
    | [] => (s, d)
    | o :: rest => db_run fast (fst (step H s o)) (db_step fast s d o) rest
    end.
End DbRun.
