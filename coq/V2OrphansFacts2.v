(** iavl/v2 orphan bookkeeping, part 2: completeness of the orphan rows, and the tree pruner's
    garbage: [saveBranches] writes the orphan rows only when the checkpointed root is a branch
    ([isCheckpoint() = len(tree.branches) > 0]) while [SaveVersion] clears [tree.branchOrphans]
    at every checkpoint, so a checkpoint of an empty or single-leaf tree LOSES the pending
    orphans: "no garbage branch row survives a prune" is refuted ([prune_exact_refuted]) and
    proved for the histories where no checkpoint loses orphans ([prune_exact_partial]).
    Continues V2OrphansFacts.v. *)
From Coq Require Import Permutation Lia ZArith List Bool.
From IAVL Require Import Bytes Varint Tree MTree V2 V2Facts Sha256.
From IAVL Require Import V2Orphans V2OrphansFacts.
Import ListNotations.
Local Open Scope Z_scope.

Lemma pkeys_incl ckpt t x : In x (pkeys ckpt t) -> In x (ikeys t).
Proof.
  intros I. apply (count_occ_In key_dec) in I. apply (count_occ_In key_dec).
  pose proof (pkeys_le ckpt t x). lia.
Qed.

(** a hashed branch at or below the checkpoint is recordable *)
Lemma ikeys_pkeys ckpt t x :
  (forall u, isub u t -> hs (nmeta u) = [] -> ckpt < ver (nmeta u)) ->
  In x (ikeys t) -> fst x <= ckpt -> In x (pkeys ckpt t).
Proof.
  induction t as [|k h s m l IHl r IHr]; intros U; [intros []|].
  cbn [ikeys pkeys]. intros [<-|I] L.
  - apply in_or_app. left. unfold add_orphan, persisted.
    destruct (is_nil (hs m)) eqn:N.
    + apply is_nil_true in N. specialize (U _ (or_introl eq_refl) N). cbn [nmeta key_of fst] in *. lia.
    + cbn [key_of fst] in L. cbn [negb andb]. destruct (ver m <=? ckpt) eqn:C; [left; reflexivity|lia].
  - apply in_or_app. right. apply in_app_or in I. apply in_or_app. destruct I as [I|I]; [left; apply IHl|right; apply IHr]; auto;
      intros u Iu; apply U; cbn [isub]; auto.
Qed.

Lemma ckpt_last_max l : zsorted l -> forall c, In c l -> c <= ckpt_last l.
Proof.
  unfold ckpt_last. induction l as [|a l IH]; [intros _ c []|]. intros (S1 & S2) c I.
  destruct l as [|b l']; [destruct I as [<-|[]]; cbn; lia|].
  change (last (a :: b :: l') (-1)) with (last (b :: l') (-1)).
  destruct I as [<-|I]; [|apply IH; assumption].
  rewrite Forall_forall in S1. specialize (IH S2 b (or_introl eq_refl)). specialize (S1 b (or_introl eq_refl)). lia.
Qed.

Lemma in_keys_dead_conv x a n (orph : list (nkey2 * Z)) :
  In (x, a) orph -> a <= n -> in_keys x (map fst (filter (fun o => snd o <=? n) orph)) = true.
Proof.
  intros I L. unfold in_keys. apply existsb_exists. exists x. split; [|apply key_eqb_refl].
  apply in_map_iff. exists (x, a). split; [reflexivity|]. apply filter_In. split; [assumption|]. cbn [snd]. lia.
Qed.

(** * The second invariant: every branch row is accounted for *)
Record Inv2 (full : bool) (lo : Z) (s : ostate) (tr : list (Z * option node)) : Prop := {
  j_lo : (lo = -1 \/ In lo (ckpts (os_store s))) /\ -1 <= lo <= ck_of s;
  (* only when no checkpoint has lost pending orphans ([full = true]) *)
  j_rows : full = true -> forall key row, In (key, row) (branches (os_store s)) ->
             In key (okeys (os_root s)) \/ In key (os_pending s) \/ exists a, In (key, a) (borphans (os_store s));
  j_orph : forall x a, In (x, a) (borphans (os_store s)) ->
             lo < a /\ exists v T, In (v, T) tr /\ v < a /\ In x (okeys T) /\
                                   forall c, In c (ckpts (os_store s)) -> c < a -> c <= v;
  j_pend : forall x, In x (os_pending s) -> exists T, In (ck_of s, T) tr /\ In x (okeys T);
  j_live : forall x, In x (okeys (os_root s)) -> fst x <= ck_of s -> exists T, In (ck_of s, T) tr /\ In x (okeys T);
  (* a branch is a node of every checkpoint tree from its creation until it is orphaned *)
  j_live_all : forall x, In x (okeys (os_root s)) -> forall v T, In (v, T) tr -> fst x <= v -> In x (okeys T);
  j_pend_all : forall x, In x (os_pending s) -> forall v T, In (v, T) tr -> fst x <= v -> In x (okeys T);
  j_orph_all : forall x a, In (x, a) (borphans (os_store s)) ->
                 forall v T, In (v, T) tr -> fst x <= v -> v < a -> In x (okeys T)
}.

Lemma inv2_tree_step full lo s tr r' lseq' bs' os :
  Inv lo s tr -> Inv2 full lo s tr ->
  (forall x, In x os <-> In x (opkeys (ck_of s) (os_root s)) /\ ~ In x (okeys r')) ->
  (forall x, In x (okeys r') -> In x (okeys (os_root s)) \/ fst x = os_version s + 1) ->
  Inv2 full lo (OState r' (os_version s) lseq' bs' (os_pending s ++ os) (os_store s)) tr.
Proof.
  intros I J OS KS. pose proof (ck_lt _ _ _ I) as CK.
  assert (forall x, In x (okeys (os_root s)) -> fst x <= ck_of s -> In x (opkeys (ck_of s) (os_root s))) as PK.
  { intros x Ix Lx. destruct (os_root s) as [t|] eqn:ER; [|destruct Ix]. cbn [okeys opkeys] in *.
    apply ikeys_pkeys; auto. intros u Iu. apply (i_unh _ _ _ I). rewrite ER. exact Iu. }
  constructor; cbn [os_version os_store os_root os_bseq os_pending]; unfold ck_of; cbn [os_store]; fold (ck_of s).
  - apply J.
  - intros F key row Ir. destruct (j_rows _ _ _ _ J F key row Ir) as [A|[A|A]]; [|right; left; apply in_or_app; auto|auto].
    destruct (in_dec key_dec key (okeys r')) as [B|B]; [auto|]. right. left. apply in_or_app. right.
    apply OS. split; [|assumption]. apply PK; [assumption|]. apply (i_rows _ _ _ I key row Ir).
  - apply J.
  - intros x Ix. apply in_app_or in Ix. destruct Ix as [Ix|Ix]; [apply (j_pend _ _ _ _ J x Ix)|].
    apply OS in Ix. destruct Ix as (A & _). apply (j_live _ _ _ _ J).
    + destruct (os_root s); [apply (pkeys_incl _ _ _ A)|destruct A].
    + destruct (os_root s); [apply (pkeys_ver _ _ _ A)|destruct A].
  - intros x Ix Lx. destruct (KS x Ix) as [A|A]; [apply (j_live _ _ _ _ J x A Lx)|lia].
  - intros x Ix v T It Lv. destruct (KS x Ix) as [A|A]; [apply (j_live_all _ _ _ _ J x A v T It Lv)|].
    destruct (i_trace _ _ _ I _ _ It) as (B & _). lia.
  - intros x Ix. apply in_app_or in Ix. destruct Ix as [Ix|Ix]; [apply (j_pend_all _ _ _ _ J x Ix)|].
    apply OS in Ix. destruct Ix as (A & _). apply (j_live_all _ _ _ _ J).
    destruct (os_root s); [apply (pkeys_incl _ _ _ A)|destruct A].
  - apply J.
Qed.

Lemma os_apply_inv2 full lo s tr o s' :
  Inv lo s tr -> Inv2 full lo s tr -> os_apply false s o = Some s' -> Inv2 full lo s' tr.
Proof.
  intros I J. unfold os_apply. destruct o as [k v|k].
  - destruct (os_root s) as [t|] eqn:ER.
    + destruct (v2_set_o _ _ _ _ t k v) as [[[[t' upd] os] bs']|] eqn:ES; [|discriminate].
      intros E; inversion E; subst; clear E.
      pose proof (i_nodup _ _ _ I) as ND. pose proof (i_below _ _ _ I) as BL. rewrite ER in ND, BL. cbn [okeys] in ND, BL.
      destruct (orphans_exact_set _ _ _ _ _ _ _ _ _ _ _ ES ND BL) as (_ & ND' & BL' & _ & OS & KS).
      apply inv2_tree_step; try assumption.
      * intros x. rewrite ER. cbn [opkeys okeys]. apply OS.
      * intros x Ix. rewrite ER. cbn [okeys]. destruct (KS x Ix) as [A|(A & _)]; auto.
    + intros E; inversion E; subst; clear E.
      replace (os_pending s) with (os_pending s ++ []) by apply app_nil_r.
      apply inv2_tree_step; try assumption.
      * intros x. rewrite ER. cbn. tauto.
      * cbn. intros x [].
  - destruct (os_root s) as [t|] eqn:ER; [|intros E; inversion E; subst; exact J].
    destruct (remove_gen false _ _ _ t k) as [[[res os] bs']|] eqn:ES; [|discriminate].
    pose proof (i_nodup _ _ _ I) as ND. pose proof (i_below _ _ _ I) as BL. rewrite ER in ND, BL. cbn [okeys] in ND, BL.
    destruct (orphans_exact_remove _ _ _ _ _ _ _ _ ES ND BL) as (_ & ND' & BL' & _ & OS & KS).
    destruct (rm_val res) as [val|] eqn:EV.
    + intros E; inversion E; subst; clear E.
      apply inv2_tree_step; try assumption.
      * intros x. rewrite ER. cbn [opkeys]. apply OS.
      * intros x Ix. rewrite ER. cbn [okeys]. destruct (KS x Ix) as [A|(A & _)]; auto.
    + destruct (remove_absent_no_orphans _ _ _ _ _ _ _ _ ES EV) as (-> & -> & RS).
      intros E; inversion E; subst; clear E. rewrite <- ER.
      apply inv2_tree_step; try assumption.
      * intros x. split; [intros []|]. intros (A & B). rewrite ER in A. cbn [opkeys] in A.
        apply B. rewrite ER. cbn [okeys]. apply (pkeys_incl _ _ _ A).
      * auto.
Qed.

Lemma os_apply_all_inv2 full lo tr ops : forall s s',
  Inv lo s tr -> Inv2 full lo s tr -> os_apply_all false s ops = Some s' -> Inv2 full lo s' tr.
Proof.
  induction ops as [|o ops IH]; intros s s' I J; cbn [os_apply_all].
  - intros E; inversion E; subst; exact J.
  - destruct (os_apply false s o) as [s1|] eqn:E1; [|discriminate].
    apply IH; [eapply os_apply_inv; eauto|eapply os_apply_inv2; eauto].
Qed.

(** the SaveVersion of [s] loses no pending orphan: it is not a checkpoint, or nothing is
    pending, or the root is a branch ([saveBranches] runs) *)
Definition save_ok (interval : Z) (s : ostate) : bool :=
  if v2_should_checkpoint interval false (ckpts (os_store s)) (os_version s + 1)
  then match os_pending s with [] => true | _ :: _ => root_is_branch (os_root s) end
  else true.

Definition step_ok (interval : Z) (s : ostate) (e : hstep) : bool :=
  match e with
  | HVersion ops =>
      match os_apply_all false s ops with
      | Some s1 => save_ok interval s1
      | None => true
      end
  | HPrune _ => true
  end.

Section Save2.
  Variable H : bytes -> bytes.
  Hypothesis Hnn : forall x, H x <> [].

  Lemma root_is_branch_hash r : root_is_branch (hash_root H r) = root_is_branch r.
  Proof.
    destruct r as [[k v m|k h s m l r]|]; [| |reflexivity];
      cbn [hash_root v2_deep_hash root_is_branch]; destruct (hs m); reflexivity.
  Qed.

  Lemma os_save_inv2 full lo s tr interval :
    Inv lo s tr -> Inv2 full lo s tr -> (full = true -> save_ok interval s = true) ->
    Inv2 full lo (os_save H false interval s) (tr ++ save_trace H interval s).
  Proof.
    intros I J NL. pose proof (ck_lt _ _ _ I) as CK. pose proof (i_ver _ _ _ I) as V0.
    unfold os_save, save_trace. fold (hash_root H (os_root s)).
    unfold save_ok in NL.
    destruct (v2_should_checkpoint interval false (ckpts (os_store s)) (os_version s + 1)) eqn:SC.
    - assert (full = true -> forall k, In k (os_pending s) -> root_is_branch (hash_root H (os_root s)) = true) as RB.
      { intros F k Ik. rewrite root_is_branch_hash. specialize (NL F). destruct (os_pending s); [destruct Ik|exact NL]. }
      clear NL.
      set (v := os_version s + 1) in *. set (T := hash_root H (os_root s)) in *.
      assert (okeys T = okeys (os_root s)) as OK by apply okeys_hash_root.
      constructor; cbn [os_version os_store os_root os_bseq os_pending]; unfold ck_of;
        cbn [os_store checkpoint_write_at ckpts branches borphans roots]; rewrite ?ckpt_last_snoc.
      + destruct (j_lo _ _ _ _ J) as ([A|A] & B); (split; [|subst v; lia]); [auto|right; apply in_or_app; auto].
      + intros F key row Ir. apply in_app_or in Ir. destruct Ir as [Ir|Ir].
        * destruct (j_rows _ _ _ _ J F key row Ir) as [A|[A|(a & A)]].
          -- left. rewrite OK. exact A.
          -- right. right. exists v. apply in_or_app. right. rewrite (RB F key A).
             apply in_map_iff. exists key. auto.
          -- right. right. exists a. apply in_or_app. auto.
        * left. destruct T as [t|]; [|destruct Ir]. apply new_rows_keys in Ir. apply Ir.
      + intros x a Ix. apply in_app_or in Ix. destruct Ix as [Ix|Ix].
        * destruct (j_orph _ _ _ _ J x a Ix) as (A & v0 & T0 & B & C & D & E). split; [assumption|].
          exists v0, T0. split; [apply in_or_app; auto|]. split; [assumption|]. split; [assumption|].
          intros c Ic Lc. apply in_app_or in Ic. destruct Ic as [Ic|[<-|[]]]; [auto|].
          destruct (i_orph _ _ _ I x a Ix) as (_ & _ & Ia & _).
          pose proof (i_ckle _ _ _ I) as F. rewrite Forall_forall in F. specialize (F a Ia). subst v. lia.
        * destruct (root_is_branch T); [|destruct Ix].
          apply in_map_iff in Ix. destruct Ix as (x0 & E & Ix). inversion E; subst x0 a. clear E.
          destruct (j_lo _ _ _ _ J) as (_ & B). split; [subst v; lia|].
          destruct (j_pend _ _ _ _ J x Ix) as (T0 & A & A').
          exists (ck_of s), T0. split; [apply in_or_app; auto|]. split; [subst v; lia|]. split; [assumption|].
          intros c Ic Lc. apply in_app_or in Ic. destruct Ic as [Ic|[<-|[]]]; [|lia].
          apply ckpt_last_max; [apply I|assumption].
      + intros x [].
      + intros x Ix _. exists T. split; [apply in_or_app; right; left; reflexivity|assumption].
      + intros x Ix v' T' It Lv. rewrite OK in Ix. apply in_app_or in It. destruct It as [It|[It|[]]].
        * apply (j_live_all _ _ _ _ J x Ix v' T' It Lv).
        * inversion It; subst v' T'. rewrite OK. exact Ix.
      + intros x [].
      + intros x a Ix v' T' It Lv La. apply in_app_or in Ix. destruct Ix as [Ix|Ix].
        * apply in_app_or in It. destruct It as [It|[It|[]]]; [apply (j_orph_all _ _ _ _ J x a Ix v' T' It Lv La)|].
          inversion It; subst v' T'. exfalso.
          destruct (i_orph _ _ _ I x a Ix) as (_ & _ & Ia & _).
          pose proof (i_ckle _ _ _ I) as F. rewrite Forall_forall in F. specialize (F a Ia). subst v. lia.
        * destruct (root_is_branch T); [|destruct Ix].
          apply in_map_iff in Ix. destruct Ix as (x0 & E & Ix). inversion E; subst x0 a. clear E.
          apply in_app_or in It. destruct It as [It|[It|[]]]; [apply (j_pend_all _ _ _ _ J x Ix v' T' It Lv)|].
          inversion It; subst v' T'. lia.
    - rewrite app_nil_r.
      constructor; cbn [os_version os_store os_root os_bseq os_pending]; unfold ck_of;
        cbn [os_store save_root ckpts branches borphans roots]; fold (ck_of s);
        rewrite ?okeys_hash_root; apply J.
  Qed.
End Save2.

Lemma fp_cases cks n c :
  zsorted cks -> find_previous cks n = FPVal c -> c = -1 \/ (In c cks /\ c <= n).
Proof.
  intros S E. pose proof (find_previous_spec cks n S) as P.
  destruct cks as [|v0 cks']; [cbn in E; inversion E; auto|].
  destruct (n <? v0) eqn:C.
  - rewrite E in P. inversion P; auto.
  - destruct P as (c' & E' & (A & B & _)). rewrite E in E'. inversion E'; subst c'. auto.
Qed.

Lemma prune_inv2 full lo s tr n c st' :
  Inv lo s tr -> Inv2 full lo s tr ->
  prune_tree (os_store s) n = Some st' -> find_previous (ckpts (os_store s)) n = FPVal c ->
  Inv2 full (Z.max lo c) (OState (os_root s) (os_version s) (os_lseq s) (os_bseq s) (os_pending s) st') tr.
Proof.
  intros I J P FP. unfold prune_tree, prune_tree_with in P. rewrite FP in P. inversion P; subst st'; clear P.
  pose proof (fp_cases _ _ _ (i_sorted _ _ _ I) FP) as FC.
  constructor; cbn [os_version os_store os_root os_bseq os_pending]; unfold ck_of;
    cbn [os_store ckpts branches borphans roots]; fold (ck_of s); try (apply J; fail).
  - destruct (j_lo _ _ _ _ J) as (A & B).
    assert (c <= ck_of s) as Lc.
    { destruct FC as [->|(Ic & _)]; [lia|]. apply ckpt_last_max; [apply I|assumption]. }
    split; [|lia]. destruct (Z.max_spec lo c) as [(_ & ->)|(_ & ->)]; [|assumption].
    destruct FC as [->|(Ic & _)]; auto.
  - intros F key row Ir. apply filter_In in Ir. destruct Ir as (Ir & D).
    destruct (j_rows _ _ _ _ J F key row Ir) as [A|[A|(a & A)]]; auto.
    right. right. exists a. apply filter_In. split; [assumption|]. cbn [snd fst] in *.
    destruct (a <=? n) eqn:C; [|reflexivity]. exfalso.
    rewrite (in_keys_dead_conv key a n _ A) in D by lia. discriminate.
  - intros x a Ix. apply filter_In in Ix. destruct Ix as (Ix & D). cbn [snd] in D.
    destruct (j_orph _ _ _ _ J x a Ix) as (A & R). split; [|exact R].
    destruct (i_orph _ _ _ I x a Ix) as (_ & _ & Ia & _).
    pose proof (i_ckle _ _ _ I) as F. rewrite Forall_forall in F. specialize (F a Ia).
    destruct (a <=? n) eqn:C; [discriminate|]. destruct FC as [->|(_ & Lc)]; lia.
  - intros x a Ix. apply filter_In in Ix. apply (j_orph_all _ _ _ _ J x a (proj1 Ix)).
Qed.

Section Runs2.
  Variable H : bytes -> bytes.
  Hypothesis Hnn : forall x, H x <> [].
  Variable interval : Z.

  (** no checkpoint of the run loses pending orphans (executable) *)
  Fixpoint no_loss (s : ostate) (hist : list hstep) : bool :=
    match hist with
    | [] => true
    | e :: rest =>
        step_ok interval s e &&
        match os_step H false false interval s e with
        | Some s' => no_loss s' rest
        | None => true
        end
    end.

  Lemma os_step_inv2 full lo s tr e s' :
    Inv lo s tr -> Inv2 full lo s tr -> (full = true -> step_ok interval s e = true) ->
    os_step H false false interval s e = Some s' ->
    Inv2 full (step_floor s e lo) s' (tr ++ step_trace s' e).
  Proof.
    intros I J NL. destruct e as [ops|n]; cbn [os_step step_floor step_trace step_ok] in *.
    - destruct (os_apply_all false s ops) as [s1|] eqn:EA; [|discriminate].
      intros E; inversion E; subst s'; clear E.
      pose proof (os_apply_all_inv _ _ _ _ _ I EA) as I1.
      pose proof (os_apply_all_inv2 _ _ _ _ _ _ I J EA) as J1.
      pose proof (os_save_inv2 H full lo s1 tr interval I1 J1 NL) as J2.
      replace (if existsb _ _ then _ else _) with (save_trace H interval s1); [exact J2|].
      unfold save_trace, os_save. fold (hash_root H (os_root s1)).
      destruct (v2_should_checkpoint interval false (ckpts (os_store s1)) (os_version s1 + 1)) eqn:SC;
        cbn [os_version os_store os_root checkpoint_write_at save_root ckpts].
      + rewrite existsb_app. cbn [existsb]. rewrite Z.eqb_refl, orb_true_r. reflexivity.
      + replace (existsb _ _) with false; [reflexivity|]. symmetry.
        apply not_true_is_false. intros X. apply existsb_exists in X. destruct X as (c & Ic & Ec).
        apply Z.eqb_eq in Ec. pose proof (i_ckle _ _ _ I1) as F. rewrite Forall_forall in F. specialize (F c Ic). lia.
    - destruct (prune_tree (os_store s) n) as [st'|] eqn:EP; [|discriminate].
      intros E; inversion E; subst s'; clear E. rewrite app_nil_r.
      assert (exists c, find_previous (ckpts (os_store s)) n = FPVal c) as (c & FP).
      { unfold prune_tree, prune_tree_with in EP. destruct (find_previous (ckpts (os_store s)) n); try discriminate. eauto. }
      rewrite FP. eapply prune_inv2; eauto.
  Qed.

  Theorem run_inv2 full hist : forall s lo past s' tr,
    Inv lo s past -> Inv2 full lo s past -> (full = true -> no_loss s hist = true) ->
    os_run H false false interval s hist = Some s' ->
    os_trace H false false interval s hist = Some tr ->
    Inv2 full (run_floor H interval s hist lo) s' (past ++ tr).
  Proof.
    induction hist as [|e rest IH]; intros s lo past s' tr I J NL R T.
    - cbn in R, T. inversion R; inversion T; subst. rewrite app_nil_r. exact J.
    - apply os_trace_step in T. destruct T as (s1 & tr1 & E1 & T1 & ->).
      cbn [os_run run_floor no_loss] in *. rewrite E1 in *. rewrite app_assoc.
      apply (IH s1); [| | |assumption|assumption].
      + apply (os_step_inv H Hnn interval); assumption.
      + apply os_step_inv2; try assumption. intros F. specialize (NL F). apply andb_true_iff in NL. apply NL.
      + intros F. specialize (NL F). apply andb_true_iff in NL. apply NL.
  Qed.

  Lemma inv2_empty full : Inv2 full (-1) ostate_empty [].
  Proof.
    constructor; cbn; try (intros; contradiction). split; [auto|lia].
  Qed.

  (** THEOREM 2 (the other half): an orphan row [((ver,seq), at)] names a node of the tree of
      the checkpoint just before [at] (no checkpoint lies strictly between), and [at] is above
      every prune bound met so far.  (Membership in the EARLIER checkpoint trees back to the
      node's creation is not shown.) *)
  Theorem checkpoint_orphans_reach hist s tr x a :
    os_run H false false interval ostate_empty hist = Some s ->
    os_trace H false false interval ostate_empty hist = Some tr ->
    In (x, a) (borphans (os_store s)) ->
    run_floor H interval ostate_empty hist (-1) < a /\
    exists v T, In (v, T) tr /\ v < a /\ In x (okeys T) /\
                forall c, In c (ckpts (os_store s)) -> c < a -> c <= v.
  Proof.
    intros R Tr Ix.
    pose proof (run_inv2 false hist _ _ _ _ _ (inv_empty (-1)) (inv2_empty false) ltac:(discriminate) R Tr) as J. cbn [app] in J.
    apply (j_orph _ _ _ _ J x a Ix).
  Qed.

  (** THEOREM 2 (complete): an orphan row [((ver,seq), at)]: [at] is a checkpoint; the branch is
      a node of every checkpoint tree of version [v] with [ver <= v < at] (from its creation up
      to the checkpoint before [at], which exists) and of no checkpoint tree of version >= [at]. *)
  Theorem checkpoint_orphans_sound hist s tr x a :
    os_run H false false interval ostate_empty hist = Some s ->
    os_trace H false false interval ostate_empty hist = Some tr ->
    In (x, a) (borphans (os_store s)) ->
    In a (ckpts (os_store s)) /\
    (forall v T, In (v, T) tr -> fst x <= v -> v < a -> In x (okeys T)) /\
    (forall v T, In (v, T) tr -> a <= v -> ~ In x (okeys T)) /\
    (exists v T, In (v, T) tr /\ v < a /\ In x (okeys T) /\
                 forall c, In c (ckpts (os_store s)) -> c < a -> c <= v).
  Proof.
    intros R Tr Ix.
    pose proof (run_inv H Hnn interval hist _ _ _ _ _ (inv_empty (-1)) R Tr) as I. cbn [app] in I.
    pose proof (run_inv2 false hist _ _ _ _ _ (inv_empty (-1)) (inv2_empty false) ltac:(discriminate) R Tr) as J. cbn [app] in J.
    destruct (i_orph _ _ _ I x a Ix) as (_ & _ & Ia & D).
    split; [assumption|]. split; [apply (j_orph_all _ _ _ _ J x a Ix)|]. split; [assumption|].
    apply (j_orph _ _ _ _ J x a Ix).
  Qed.

  (** THEOREM 4 (partial; the unconditional statement [prune_exact] is FALSE, see
      [prune_exact_refuted] below): the pruner is exact on the histories where no checkpoint
      loses pending orphans ([no_loss]: every checkpoint with a non-empty [tree.branchOrphans]
      has a branch root).  After such a history and [prune_tree st n] with
      [c = FindPrevious(n)], every branch row left is a node of the tree of some checkpoint
      that is retained ([>= c] and [>=] every earlier prune bound): no garbage survives. *)
  Theorem prune_exact_partial hist s tr n c st' key row :
    no_loss ostate_empty hist = true ->
    os_run H false false interval ostate_empty hist = Some s ->
    os_trace H false false interval ostate_empty hist = Some tr ->
    prune_tree (os_store s) n = Some st' ->
    find_previous (ckpts (os_store s)) n = FPVal c ->
    In (key, row) (branches st') ->
    exists v T, In (v, T) tr /\ Z.max (run_floor H interval ostate_empty hist (-1)) c <= v /\ In key (okeys T).
  Proof.
    intros NL R Tr P FP Ir.
    pose proof (run_inv H Hnn interval hist _ _ _ _ _ (inv_empty (-1)) R Tr) as I. cbn [app] in I.
    pose proof (run_inv2 true hist _ _ _ _ _ (inv_empty (-1)) (inv2_empty true) (fun _ => NL) R Tr) as J. cbn [app] in J.
    set (lo := run_floor H interval ostate_empty hist (-1)) in *.
    pose proof (prune_inv _ _ _ _ _ _ I P FP) as I'. pose proof (prune_inv2 _ _ _ _ _ _ _ I J P FP) as J'.
    destruct (j_lo _ _ _ _ J') as (A & B). unfold ck_of in B. cbn [os_store] in B.
    assert (ckpts st' = ckpts (os_store s)) as CE.
    { unfold prune_tree, prune_tree_with in P. rewrite FP in P. inversion P; reflexivity. }
    destruct (j_rows _ _ _ _ J' eq_refl key row Ir) as [K|[K|(a & K)]]; cbn [os_root os_pending os_store] in K.
    - pose proof (i_rows _ _ _ I' key row Ir) as L.
      destruct (j_live _ _ _ _ J' key K L) as (T & T1 & T2). eexists _, T. split; [exact T1|]. split; [|exact T2].
      unfold ck_of. cbn [os_store]. lia.
    - destruct (j_pend _ _ _ _ J' key K) as (T & T1 & T2). eexists _, T. split; [exact T1|]. split; [|exact T2].
      unfold ck_of. cbn [os_store]. lia.
    - destruct (j_orph _ _ _ _ J' key a K) as (La & v & T & T1 & T2 & T3 & T4). exists v, T.
      split; [assumption|]. split; [|assumption]. cbn [os_store] in T4.
      destruct (i_trace _ _ _ I' _ _ T1) as (V0 & _).
      destruct A as [A|A]; [lia|]. apply T4; [exact A|lia].
  Qed.
End Runs2.

Print Assumptions checkpoint_orphans_reach.
Print Assumptions checkpoint_orphans_sound.
Print Assumptions prune_exact_partial.

(** the executable counterpart on the example history of V2OrphansFacts.v: after a third
    prune to 8 (c = 7) every remaining branch row is reached by checkpoint 7 or 9 *)
Example x_hist_prune_exact_example :
  match os_run sha256 false false 2 ostate_empty x_hist, os_trace sha256 false false 2 ostate_empty x_hist with
  | Some s, Some tr =>
      match prune_tree (os_store s) 8 with
      | Some st' => Some (rows_reached_check st' 7 tr, retained_load_ok st' 7 tr,
                          length (branches (os_store s)), length (branches st'))
      | None => None
      end
  | _, _ => None
  end = Some (true, true, 16%nat, 12%nat).
Proof. vm_compute. reflexivity. Qed.

(** * REFUTATION of the unconditional exactness of the pruner *)
Lemma not_reached_check (tr : list (Z * option node)) m key :
  existsb (fun p => (m <=? fst p) && in_keys key (okeys (snd p))) tr = false ->
  ~ exists v T, In (v, T) tr /\ m <= v /\ In key (okeys T).
Proof.
  intros E (v & T & IT & L & K).
  assert (existsb (fun p => (m <=? fst p) && in_keys key (okeys (snd p))) tr = true) as X.
  { apply existsb_exists. exists (v, T). split; [assumption|]. cbn [fst snd]. apply andb_true_intro. split.
    - apply Z.leb_le. assumption.
    - unfold in_keys. apply existsb_exists. exists key. split; [assumption|apply key_eqb_refl]. }
  rewrite X in E. discriminate.
Qed.

(** the history found by the differential harness (checkpoint interval 1, keys "ab", "c", "a"):
    v1 empty; v2 Set ab, Set c; v3 Set c; v4 nothing; v5 Remove ab, Remove c (tree empty: the
    checkpoint writes no orphan row and drops the pending orphan 3.1); v6 Set a, Set c, Set ab;
    DeleteVersionsTo 3; v7 Remove c; v8 nothing.  Then DeleteVersionsTo 7. *)
Definition x_kab : bytes := [97%N; 98%N].
Definition x_kc : bytes := [99%N].
Definition x_ka : bytes := [97%N].

Definition x_hist_leak : list hstep :=
  [ HVersion [];
    HVersion [LSet x_kab [1%N]; LSet x_kc [2%N]];
    HVersion [LSet x_kc [3%N]];
    HVersion [];
    HVersion [LDel x_kab; LDel x_kc];
    HVersion [LSet x_ka [4%N]; LSet x_kc [5%N]; LSet x_kab [6%N]];
    HPrune 3;
    HVersion [LDel x_kc];
    HVersion [] ].

(** what the stores hold along the leak history: branch row keys, orphan rows, pending orphans *)
Definition x_store_summary (hist : list hstep) : option (list nkey2 * list (nkey2 * Z) * list nkey2) :=
  match os_run sha256 false false 1 ostate_empty hist with
  | Some s => Some (map fst (branches (os_store s)), borphans (os_store s), os_pending s)
  | None => None
  end.

(** after v5 the only orphan row is 2.1@3 (3.1@5 is never written, nothing is pending); after
    the last deletion the branch row 3.1 is still there - as in the real database *)
Example x_hist_leak_example :
  x_store_summary (firstn 5 x_hist_leak) = Some ([(2, 1); (3, 1)], [((2, 1), 3)], []) /\
  x_store_summary x_hist_leak = Some ([(3, 1); (6, 1); (6, 2)], [((6, 1), 7)], []) /\
  x_store_summary (x_hist_leak ++ [HPrune 7]) = Some ([(3, 1); (6, 2)], [], []) /\
  no_loss sha256 1 ostate_empty x_hist_leak = false.
Proof. repeat split; vm_compute; reflexivity. Qed.

(** REFUTED ([prune_exact], the statement of [prune_exact_partial] without [no_loss]): after the
    leak history and DeleteVersionsTo 7 (c = 7, earlier prune bound 3) the branch row 3.1 is left
    although no retained checkpoint (7, 8) reaches it - the last tree holding it is checkpoint
    4, its orphan row was never written.  A storage leak of the Go code; nothing needed is
    lost (the safety theorems of V2OrphansFacts.v hold). *)
Theorem prune_exact_refuted :
  exists hist s tr n c st' key row,
    os_run sha256 false false 1 ostate_empty hist = Some s /\
    os_trace sha256 false false 1 ostate_empty hist = Some tr /\
    prune_tree (os_store s) n = Some st' /\
    find_previous (ckpts (os_store s)) n = FPVal c /\
    In (key, row) (branches st') /\
    ~ exists v T, In (v, T) tr /\ Z.max (run_floor sha256 1 ostate_empty hist (-1)) c <= v /\ In key (okeys T).
Proof.
  exists x_hist_leak. eexists. eexists. exists 7, 7. eexists. exists (3, 1). eexists.
  split; [vm_compute; reflexivity|]. split; [vm_compute; reflexivity|].
  split; [vm_compute; reflexivity|]. split; [vm_compute; reflexivity|].
  split; [left; reflexivity|].
  apply not_reached_check. vm_compute. reflexivity.
Qed.

Print Assumptions prune_exact_refuted.
Print Assumptions x_hist_leak_example.

(** the hypothesis of [prune_exact_partial] holds on the example history of V2OrphansFacts.v *)
Example x_hist_no_loss : no_loss sha256 2 ostate_empty x_hist = true.
Proof. vm_compute. reflexivity. Qed.
