(** C17: storage failures surface as errors, never as wrong or partial answers.
    Theorems about the fault-injection model Fault.v.

    Structure
    1. [FS m]: the computation [m] (parameterised by the fault position) is FAIL-STOP:
       a fault outside the window of storage calls it makes changes nothing, a fault inside
       the window makes it return [Err] (at call i+1).  [FS] is compositional ([FS_bind]),
       so every reader written with [bind]/[fetch] is fail-stop BY CONSTRUCTION, for any
       store.  [FSG] generalises it to Iterator.Next, which stores the error instead of
       returning it; the final [Error()] check of the iteration loop turns it into [Err].
    2. [repr st t]: the store contains the persisted M1 tree [t]; fault-free runs then
       compute the M1 answers (simulation with Iter.step / IterFacts.next_spec for the
       traversals) and make at most [height t] (resp. [2 * height t]) storage calls.
    3. IterateRange / IterateRangeInclusive (node.traverseInRange) drop the error: with a
       fault they return [Ok] of a PREFIX ([iterate_range_never_fails]); a concrete strict
       prefix is [iterate_range_swallows_refuted].
    4. Commit: any failing batch operation makes the commit [Err]. *)
From IAVL Require Import Bytes Varint Sha256 Tree VMap TreeFacts Iter IterFacts ExportImport Fault.
Local Open Scope Z_scope.

(** * Fail-stop computations *)
Definition FS {A} (m : option nat -> M A) : Prop :=
  forall (i c : nat),
    (c <= snd (m None c))%nat /\
    ((i < c \/ snd (m None c) <= i)%nat -> m (Some i) c = m None c) /\
    ((c <= i < snd (m None c))%nat -> m (Some i) c = (Err, S i)).

Lemma FS_ret {A} (a : A) : FS (fun _ => ret a).
Proof. intros i c. unfold ret. cbn. repeat split; auto; lia. Qed.

Lemma FS_oof {A} : FS (fun _ => @out_of_fuel A).
Proof. intros i c. unfold out_of_fuel. cbn. repeat split; auto; lia. Qed.

Lemma fails_None c : fails None c = false.
Proof. reflexivity. Qed.
Lemma fails_Some i c : fails (Some i) c = Nat.eqb i c.
Proof. reflexivity. Qed.

Lemma FS_fetch st k : FS (fun fa => fetch fa st k).
Proof.
  intros i c. unfold fetch. rewrite fails_None, fails_Some.
  assert (E : snd (match slookup k st with Some n => (Ok n, S c) | None => (Err, S c) end) = S c)
    by (destruct (slookup k st); reflexivity).
  rewrite E. split; [lia|]. split; intros Hi.
  - replace (Nat.eqb i c) with false by (symmetry; apply Nat.eqb_neq; lia). reflexivity.
  - replace (Nat.eqb i c) with true by (symmetry; apply Nat.eqb_eq; lia).
    f_equal. lia.
Qed.

Lemma FS_bind {A B} (m : option nat -> M A) (f : option nat -> A -> M B) :
  FS m -> (forall a, FS (fun fa => f fa a)) -> FS (fun fa => bind (m fa) (f fa)).
Proof.
  intros Hm Hf i c. destruct (Hm i c) as (L0 & Out & In).
  unfold bind.
  destruct (m None c) as [r0 c0] eqn:E0. cbn [snd] in *.
  destruct r0 as [a| |].
  - destruct (Hf a i c0) as (L1 & Out1 & In1).
    destruct (f None a c0) as [r1 c1] eqn:E1. cbn [snd] in *.
    split; [lia|]. split; intros Hi.
    + destruct (Nat.lt_ge_cases i c) as [Lt|Ge].
      * rewrite Out by lia. rewrite Out1 by lia. reflexivity.
      * rewrite Out by lia. rewrite Out1 by lia. reflexivity.
    + destruct (Nat.lt_ge_cases i c0) as [Lt|Ge].
      * rewrite In by lia. reflexivity.
      * rewrite Out by lia. rewrite In1 by lia. reflexivity.
  - cbn [snd]. split; [lia|]. split; intros Hi.
    + rewrite Out by lia. reflexivity.
    + rewrite In by lia. reflexivity.
  - cbn [snd]. split; [lia|]. split; intros Hi.
    + rewrite Out by lia. reflexivity.
    + rewrite In by lia. reflexivity.
Qed.

Lemma FS_if {A} (b : bool) (m1 m2 : option nat -> M A) :
  FS m1 -> FS m2 -> FS (fun fa => if b then m1 fa else m2 fa).
Proof. destruct b; auto. Qed.

Ltac fs :=
  repeat first
    [ apply FS_ret | apply FS_oof | apply FS_fetch
    | assumption
    | match goal with H : forall _ _, FS _ |- _ => apply H end
    | match goal with H : forall _, FS _ |- _ => apply H end
    | apply FS_bind; [|intros ?]
    | apply FS_if ].

Lemma FS_get st fuel : forall n key, FS (fun fa => f_get fa st fuel n key).
Proof.
  induction fuel as [|f IH]; intros n key; destruct n as [lk lv m|nk h s m lkey rkey]; cbn [f_get]; fs.
Qed.

Lemma FS_has st fuel : forall n key, FS (fun fa => f_has fa st fuel n key).
Proof.
  induction fuel as [|f IH]; intros n key; destruct n as [lk lv m|nk h s m lkey rkey]; cbn [f_has]; fs.
Qed.

Lemma FS_get_by_index st fuel : forall n i, FS (fun fa => f_get_by_index fa st fuel n i).
Proof.
  induction fuel as [|f IH]; intros n i; destruct n as [lk lv m|nk h s m lkey rkey]; cbn [f_get_by_index]; fs.
Qed.

Lemma FS_path_to_leaf st fuel : forall n key, FS (fun fa => f_path_to_leaf fa st fuel n key).
Proof.
  induction fuel as [|f IH]; intros n key; destruct n as [lk lv m|nk h s m lkey rkey]; cbn [f_path_to_leaf]; fs.
Qed.

Lemma FS_step st tv : FS (fun fa => f_step fa st tv).
Proof.
  unfold f_step. destruct (ft_stack tv) as [|[n d] rest]; [fs|].
  apply FS_if; [fs|]. cbv zeta.
  destruct n as [lk lv m|nk h s m lkey rkey]; [fs|].
  apply FS_if; fs.
Qed.

Lemma FS_next st fuel : forall tv, FS (fun fa => f_next fa st fuel tv).
Proof.
  induction fuel as [|f IH]; intros tv; cbn [f_next]; [fs|].
  apply FS_bind; [apply FS_step|]. intros [|n tv'|tv']; fs.
Qed.

(** ** Generalisation to computations that keep the error in their state *)
Definition FSG {X} (bad : X) (p : option nat -> nat -> X * nat) : Prop :=
  forall (i c : nat),
    (c <= snd (p None c))%nat /\
    ((i < c \/ snd (p None c) <= i)%nat -> p (Some i) c = p None c) /\
    ((c <= i < snd (p None c))%nat -> p (Some i) c = (bad, S i)).

Lemma FS_FSG {A} (m : option nat -> M A) : FS m <-> FSG Err m.
Proof. reflexivity. Qed.

Lemma FSG_const {X} (bad x : X) : FSG bad (fun _ c => (x, c)).
Proof. intros i c. cbn. repeat split; auto; lia. Qed.

Lemma FSG_seq {X Y} (bad : X) (E : Y) (p : option nat -> nat -> X * nat)
    (q : option nat -> X -> nat -> Y * nat) :
  FSG bad p -> (forall x, FSG E (fun fa => q fa x)) ->
  (forall i, q (Some i) bad (S i) = (E, S i)) ->
  FSG E (fun fa => seqc (p fa) (q fa)).
Proof.
  intros Hp Hq Hbad i c. destruct (Hp i c) as (L0 & Out & In).
  unfold seqc.
  destruct (p None c) as [x0 c0] eqn:E0. cbn [snd] in *.
  destruct (Hq x0 i c0) as (L1 & Out1 & In1).
  destruct (q None x0 c0) as [r1 c1] eqn:E1. cbn [snd] in *.
  split; [lia|]. split; intros Hi.
  - rewrite Out by lia. rewrite Out1 by lia. reflexivity.
  - destruct (Nat.lt_ge_cases i c0) as [Lt|Ge].
    + rewrite In by lia. apply Hbad.
    + rewrite Out by lia. rewrite In1 by lia. reflexivity.
Qed.

Definition ti_dead (it : titer) : option titer :=
  Some (TIter (ti_key it) (ti_value it) false true None).

Lemma FSG_ti_next st fuel n : forall it,
  FSG (ti_dead it) (fun fa => ti_next fa st n fuel it).
Proof.
  induction n as [|n IH]; intros it; cbn [ti_next]; [apply FSG_const|].
  destruct (ti_t it) as [tv|]; [|apply FSG_const].
  apply (FSG_seq Err); [apply FS_next| |reflexivity].
  intros [[[x|] tv']| |]; try apply FSG_const.
  destruct x as [k v m|k h s m lk rk]; [apply FSG_const|].
  apply (IH (TIter (ti_key it) (ti_value it) (ti_valid it) (ti_err it) (Some tv'))).
Qed.

Lemma FS_fail {A} : FS (fun _ => @fail A).
Proof. intros i c. unfold fail. cbn. repeat split; auto; lia. Qed.

Lemma ti_loop_dead fa st m n fuel k v c :
  ti_loop fa st m n fuel (TIter k v false true None) c = (Err, c).
Proof. destruct m; reflexivity. Qed.

Lemma FS_ti_loop st n fuel m : forall it, FS (fun fa => ti_loop fa st m n fuel it).
Proof.
  induction m as [|m IH]; intros it; cbn [ti_loop].
  - destruct (ti_valid it); [apply FS_oof|]. destruct (ti_err it); [apply FS_fail|apply FS_ret].
  - destruct (ti_valid it); [|destruct (ti_err it); [apply FS_fail|apply FS_ret]].
    apply FS_FSG. apply (FSG_seq (ti_dead it)); [apply FSG_ti_next| |].
    + intros [it'|]; [|apply FS_oof]. apply FS_FSG. apply FS_bind; [apply IH|]. intros l. apply FS_ret.
    + intros i. unfold ti_dead, bind. rewrite ti_loop_dead. reflexivity.
Qed.

Lemma FS_iterate st root start stop asc : FS (fun fa => f_iterate fa st root start stop asc).
Proof.
  unfold f_iterate. cbv zeta. unfold ti_new.
  apply FS_FSG. eapply FSG_seq; [apply FSG_ti_next| |].
  - intros [it'|]; [apply FS_ti_loop|apply FS_oof].
  - intros i. unfold ti_dead. cbn [ti_key ti_value]. apply ti_loop_dead.
Qed.

(** ** The traversal loop: a fault inside its window ends it with [Err] after a prefix *)
Definition prefix {A} (a b : list A) : Prop := exists r, b = a ++ r.
Lemma prefix_nil {A} (b : list A) : prefix [] b.
Proof. exists b. reflexivity. Qed.
Lemma prefix_cons {A} (x : A) a b : prefix a b -> prefix (x :: a) (x :: b).
Proof. intros [r ->]. exists r. reflexivity. Qed.
Lemma prefix_refl {A} (a : list A) : prefix a a.
Proof. exists []. symmetry. apply app_nil_r. Qed.

Lemma trav_loop_fs st fuel n : forall tv i c,
  (c <= snd (f_trav_loop None st n fuel tv c))%nat /\
  ((i < c \/ snd (f_trav_loop None st n fuel tv c) <= i)%nat ->
     f_trav_loop (Some i) st n fuel tv c = f_trav_loop None st n fuel tv c) /\
  ((c <= i < snd (f_trav_loop None st n fuel tv c))%nat ->
     exists l, f_trav_loop (Some i) st n fuel tv c = (l, Err, S i) /\
               prefix l (fst (fst (f_trav_loop None st n fuel tv c)))).
Proof.
  induction n as [|n IH]; intros tv i c; cbn [f_trav_loop].
  - cbn. repeat split; auto; lia.
  - destruct (FS_next st fuel tv i c) as (L0 & Out & In).
    destruct (f_next None st fuel tv c) as [r0 c0] eqn:E0. cbn [snd] in *.
    destruct r0 as [[[x|] tv']| |]; cbn [snd fst].
    + specialize (IH tv' i c0). destruct IH as (L1 & Out1 & In1).
      destruct (f_trav_loop None st n fuel tv' c0) as [[l1 r1] c1] eqn:E1. cbn [snd fst] in *.
      split; [lia|]. split; intros Hi.
      * rewrite Out by lia. rewrite Out1 by lia. reflexivity.
      * destruct (Nat.lt_ge_cases i c0) as [Lt|Ge].
        -- rewrite In by lia. exists []. split; [reflexivity|apply prefix_nil].
        -- rewrite Out by lia. destruct In1 as (l & -> & P); [lia|].
           exists (x :: l). split; [reflexivity|apply prefix_cons, P].
    + split; [lia|]. split; intros Hi.
      * rewrite Out by lia. reflexivity.
      * rewrite In by lia. exists []. split; [reflexivity|apply prefix_nil].
    + split; [lia|]. split; intros Hi.
      * rewrite Out by lia. reflexivity.
      * rewrite In by lia. exists []. split; [reflexivity|apply prefix_nil].
    + split; [lia|]. split; intros Hi.
      * rewrite Out by lia. reflexivity.
      * rewrite In by lia. exists []. split; [reflexivity|apply prefix_nil].
Qed.

Lemma FS_export st root : FS (fun fa => f_export fa st root).
Proof.
  intros i c. unfold f_export.
  destruct (trav_loop_fs st (trav_fuel root) (trav_fuel root)
              (ft_new root None None true false true) i c) as (L0 & Out & In).
  destruct (f_trav_loop None st (trav_fuel root) (trav_fuel root) (ft_new root None None true false true) c)
    as [[l0 r0] c0] eqn:E0. cbn [snd fst] in *.
  assert (S0 : snd (match r0 with Ok _ => (Ok (map enode_of l0), c0) | Err => (Err, c0) | Fuel => (Fuel, c0) end) = c0)
    by (destruct r0; reflexivity).
  rewrite S0. split; [lia|]. split; intros Hi.
  - rewrite Out by lia. reflexivity.
  - destruct In as (l & -> & P); [lia|]. reflexivity.
Qed.

Lemma sleaves_app a b : sleaves (a ++ b) = sleaves a ++ sleaves b.
Proof. unfold sleaves. rewrite filter_app, map_app. reflexivity. Qed.

(** what the consumer of a failing export has received is a prefix of the full export *)
Lemma export_partial_prefix st root i c :
  prefix (f_export_partial (Some i) st root c) (f_export_partial None st root c).
Proof.
  unfold f_export_partial.
  destruct (trav_loop_fs st (trav_fuel root) (trav_fuel root)
              (ft_new root None None true false true) i c) as (L0 & Out & In).
  destruct (f_trav_loop None st (trav_fuel root) (trav_fuel root) (ft_new root None None true false true) c)
    as [[l0 r0] c0] eqn:E0. cbn [snd fst] in *.
  destruct (Nat.lt_ge_cases i c) as [Lt|Ge]; [rewrite Out by lia; apply prefix_refl|].
  destruct (Nat.lt_ge_cases i c0) as [Lt'|Ge']; [|rewrite Out by lia; apply prefix_refl].
  destruct In as (l & -> & [r ->]); [lia|]. exists (map enode_of r). apply map_app.
Qed.

(** IterateRange: outside the window nothing changes; inside, the answer is [Ok] of a prefix *)
Lemma iterate_range_fs st root start stop asc incl i c :
  let m fa := f_iterate_range fa st root start stop asc incl in
  (c <= snd (m None c))%nat /\
  ((i < c \/ snd (m None c) <= i)%nat -> m (Some i) c = m None c) /\
  ((c <= i < snd (m None c))%nat ->
     forall l0, fst (m None c) = Ok l0 ->
     exists l, m (Some i) c = (Ok l, S i) /\ prefix l l0).
Proof.
  cbv zeta. unfold f_iterate_range.
  destruct (trav_loop_fs st (trav_fuel root) (trav_fuel root)
              (ft_new root start stop asc incl false) i c) as (L0 & Out & In).
  destruct (f_trav_loop None st (trav_fuel root) (trav_fuel root) (ft_new root start stop asc incl false) c)
    as [[l0 r0] c0] eqn:E0. cbn [snd fst] in *.
  assert (S0 : snd (match r0 with Fuel => (@Fuel (list (bytes * bytes)), c0) | _ => (Ok (sleaves l0), c0) end) = c0)
    by (destruct r0; reflexivity).
  rewrite S0. split; [lia|]. split; intros Hi.
  - rewrite Out by lia. reflexivity.
  - intros l1 E1. destruct In as (l & -> & [r ->]); [lia|].
    exists (sleaves l). split; [reflexivity|].
    destruct r0; cbn [fst] in E1; inversion E1; subst; rewrite sleaves_app; eexists; reflexivity.
Qed.

(** * Stores that contain a tree *)
Fixpoint repr (st : store) (t : node) : Prop :=
  match t with
  | Leaf _ _ _ => True
  | Inner _ _ _ _ l r =>
      slookup (nk_of l) st = Some (snode_of l) /\ slookup (nk_of r) st = Some (snode_of r) /\
      repr st l /\ repr st r
  end.

Definition nk_unique (t : node) : Prop := NoDup (map fst (to_store t)).

Lemma nk_eqb_eq a b : nk_eqb a b = true <-> a = b.
Proof.
  destruct a as [a1 a2], b as [b1 b2]. unfold nk_eqb. cbn [fst snd].
  rewrite andb_true_iff, !Z.eqb_eq. split; [intros [-> ->]; reflexivity|intros E; inversion E; auto].
Qed.

Lemma slookup_In st k n : NoDup (map fst st) -> In (k, n) st -> slookup k st = Some n.
Proof.
  induction st as [|[k' n'] st IH]; intros ND HI; [contradiction|].
  cbn [map fst] in ND. inversion ND as [|? ? NI ND']; subst.
  cbn [slookup]. destruct (nk_eqb k k') eqn:E.
  - apply nk_eqb_eq in E. subst k'. destruct HI as [HI|HI]; [inversion HI; reflexivity|].
    exfalso. apply NI. apply (in_map fst) in HI. exact HI.
  - destruct HI as [HI|HI]; [inversion HI; subst|auto].
    assert (nk_eqb k k = true) by (apply nk_eqb_eq; reflexivity). congruence.
Qed.

Lemma to_store_head t : In (nk_of t, snode_of t) (to_store t).
Proof. destruct t; left; reflexivity. Qed.

Lemma repr_incl t : forall st, incl (to_store t) st -> NoDup (map fst st) -> repr st t.
Proof.
  induction t as [k v m|k h s m l IHl r IHr]; intros st I ND; cbn [repr]; [exact Logic.I|].
  cbn [to_store] in I.
  assert (Il : incl (to_store l) st).
  { intros x Hx. apply I. right. apply in_or_app. left. exact Hx. }
  assert (Ir : incl (to_store r) st).
  { intros x Hx. apply I. right. apply in_or_app. right. exact Hx. }
  repeat split.
  - apply slookup_In; auto. apply Il, to_store_head.
  - apply slookup_In; auto. apply Ir, to_store_head.
  - apply IHl; auto.
  - apply IHr; auto.
Qed.

Theorem to_store_repr t : nk_unique t -> repr (to_store t) t.
Proof. intros ND. apply repr_incl; [apply incl_refl|exact ND]. Qed.

(** ** fault-free descents = M1, with their cost *)
Section FaultFree.
  Variable st : store.

  Lemma fetch_ok t c : slookup (nk_of t) st = Some (snode_of t) ->
    fetch None st (nk_of t) c = (Ok (snode_of t), S c).
  Proof. intros E. unfold fetch. rewrite fails_None, E. reflexivity. Qed.

  Lemma ssize_of t : ssize (snode_of t) = size t.
  Proof. destruct t; reflexivity. Qed.
  Lemma sheight_of t : sheight (snode_of t) = height t.
  Proof. destruct t; reflexivity. Qed.
  Lemma skey_of t : skey (snode_of t) = Tree.nkey t.
  Proof. destruct t; reflexivity. Qed.
  Lemma smeta_of t : smeta (snode_of t) = nmeta t.
  Proof. destruct t; reflexivity. Qed.

  Lemma f_get_ok t : forall fuel key c,
    wf t -> repr st t -> (Z.to_nat (height t) <= fuel)%nat ->
    exists d, f_get None st fuel (snode_of t) key c = (Ok (get t key), (c + d)%nat) /\
              Z.of_nat d <= height t.
  Proof.
    induction t as [lk lv m|nk h s m l IHl r IHr]; intros fuel key c W R F.
    - exists 0%nat. rewrite Nat.add_0_r. split; [|cbn; lia]. destruct fuel; reflexivity.
    - cbn [wf] in W. destruct W as (Wl & Wr & _ & _ & _ & Hh & _).
      cbn [repr] in R. destruct R as (Ll & Lr & Rl & Rr).
      pose proof (height_nonneg _ Wl) as Hl0. pose proof (height_nonneg _ Wr) as Hr0.
      cbn [height] in F. destruct fuel as [|f]; [lia|].
      cbn [snode_of f_get get]. destruct (blt key nk).
      + unfold bind. rewrite (fetch_ok l c Ll).
        destruct (IHl f key (S c) Wl Rl) as (d & E & D); [lia|].
        exists (S d). rewrite E. split; [f_equal; lia|cbn [height]; lia].
      + unfold bind. rewrite (fetch_ok r c Lr).
        destruct (IHr f key (S c) Wr Rr) as (d & E & D); [lia|].
        exists (S d). rewrite E. unfold ret. rewrite ssize_of. destruct (get r key) as [i v]. cbn [fst snd].
        split; [f_equal; lia|cbn [height]; lia].
  Qed.

  Lemma f_has_ok t : forall fuel key c,
    wf t -> repr st t -> (Z.to_nat (height t) <= fuel)%nat ->
    exists d, f_has None st fuel (snode_of t) key c = (Ok (has t key), (c + d)%nat) /\
              Z.of_nat d <= height t.
  Proof.
    induction t as [lk lv m|nk h s m l IHl r IHr]; intros fuel key c W R F.
    - exists 0%nat. rewrite Nat.add_0_r. split; [|cbn; lia].
      destruct fuel; cbn [snode_of f_has has skey Tree.nkey]; destruct (beq lk key); reflexivity.
    - cbn [wf] in W. destruct W as (Wl & Wr & _ & _ & _ & Hh & _).
      cbn [repr] in R. destruct R as (Ll & Lr & Rl & Rr).
      pose proof (height_nonneg _ Wl) as Hl0. pose proof (height_nonneg _ Wr) as Hr0.
      cbn [height] in F. destruct fuel as [|f]; [lia|].
      cbn [snode_of f_has has skey Tree.nkey]. destruct (beq nk key).
      { exists 0%nat. rewrite Nat.add_0_r. split; [reflexivity|cbn [height]; lia]. }
      destruct (blt key nk).
      + unfold bind. rewrite (fetch_ok l c Ll).
        destruct (IHl f key (S c) Wl Rl) as (d & E & D); [lia|].
        exists (S d). rewrite E. split; [f_equal; lia|cbn [height]; lia].
      + unfold bind. rewrite (fetch_ok r c Lr).
        destruct (IHr f key (S c) Wr Rr) as (d & E & D); [lia|].
        exists (S d). rewrite E. split; [f_equal; lia|cbn [height]; lia].
  Qed.

  Lemma f_get_by_index_ok t : forall fuel i c,
    wf t -> repr st t -> (Z.to_nat (height t) <= fuel)%nat ->
    exists d, f_get_by_index None st fuel (snode_of t) i c = (Ok (get_by_index t i), (c + d)%nat) /\
              Z.of_nat d <= 2 * height t.
  Proof.
    induction t as [lk lv m|nk h s m l IHl r IHr]; intros fuel i c W R F.
    - exists 0%nat. rewrite Nat.add_0_r. split; [|cbn; lia]. destruct fuel; reflexivity.
    - cbn [wf] in W. destruct W as (Wl & Wr & _ & _ & _ & Hh & _).
      cbn [repr] in R. destruct R as (Ll & Lr & Rl & Rr).
      pose proof (height_nonneg _ Wl) as Hl0. pose proof (height_nonneg _ Wr) as Hr0.
      cbn [height] in F. destruct fuel as [|f]; [lia|].
      cbn [snode_of f_get_by_index get_by_index].
      unfold bind at 1. rewrite (fetch_ok l c Ll). rewrite ssize_of. destruct (i <? size l).
      + destruct (IHl f i (S c) Wl Rl) as (d & E & D); [lia|].
        exists (S d). rewrite E. split; [f_equal; lia|cbn [height]; lia].
      + unfold bind. rewrite (fetch_ok r (S c) Lr).
        destruct (IHr f (i - size l) (S (S c)) Wr Rr) as (d & E & D); [lia|].
        exists (S (S d)). rewrite E. split; [f_equal; lia|cbn [height]; lia].
  Qed.

  (** the pure path of Node.pathToLeaf on an M1 tree whose nodes are all persisted *)
  Fixpoint path_pure (t : node) (key : bytes) : list fpin * (bytes * bytes * meta) * bool :=
    match t with
    | Leaf lk lv m => ([], (lk, lv, m), beq lk key)
    | Inner nk h s m l r =>
        if blt key nk then
          let res := path_pure l key in
          (FPin h s (ver m) [] (hs (nmeta r)) :: fst (fst res), snd (fst res), snd res)
        else
          let res := path_pure r key in
          (FPin h s (ver m) (hs (nmeta l)) [] :: fst (fst res), snd (fst res), snd res)
    end.

  Lemma f_path_to_leaf_ok t : forall fuel key c,
    wf t -> repr st t -> (Z.to_nat (height t) <= fuel)%nat ->
    exists d, f_path_to_leaf None st fuel (snode_of t) key c = (Ok (path_pure t key), (c + d)%nat) /\
              Z.of_nat d <= 2 * height t.
  Proof.
    induction t as [lk lv m|nk h s m l IHl r IHr]; intros fuel key c W R F.
    - exists 0%nat. rewrite Nat.add_0_r. split; [|cbn; lia]. destruct fuel; reflexivity.
    - cbn [wf] in W. destruct W as (Wl & Wr & _ & _ & _ & Hh & _).
      cbn [repr] in R. destruct R as (Ll & Lr & Rl & Rr).
      pose proof (height_nonneg _ Wl) as Hl0. pose proof (height_nonneg _ Wr) as Hr0.
      cbn [height] in F. destruct fuel as [|f]; [lia|].
      cbn [snode_of f_path_to_leaf path_pure]. destruct (blt key nk).
      + unfold bind. rewrite (fetch_ok r c Lr). rewrite (fetch_ok l (S c) Ll).
        destruct (IHl f key (S (S c)) Wl Rl) as (d & E & D); [lia|].
        exists (S (S d)). rewrite E. unfold ret. rewrite smeta_of.
        split; [f_equal; lia|cbn [height]; lia].
      + unfold bind. rewrite (fetch_ok l c Ll). rewrite (fetch_ok r (S c) Lr).
        destruct (IHr f key (S (S c)) Wr Rr) as (d & E & D); [lia|].
        exists (S (S d)). rewrite E. unfold ret. rewrite smeta_of.
        split; [f_equal; lia|cbn [height]; lia].
  Qed.
End FaultFree.

Section Sim.
  Variable st : store.
  Definition okn (n : node) : Prop := wf n /\ repr st n.
  Definition stack_ok (stk : list (node * bool)) : Prop := Forall (fun e => okn (fst e)) stk.
  Definition smap (stk : list (node * bool)) : list (snode * bool) :=
    map (fun e => (snode_of (fst e), snd e)) stk.
  Definition ftv_of (tv : trav) : ftrav :=
    FTrav (tv_start tv) (tv_stop tv) (tv_asc tv) (tv_incl tv) (tv_post tv) (smap (tv_stack tv)).
  Definition sres_of (r : step_res) : fstep_res :=
    match r with
    | SEmpty => FSEmpty
    | SEmit n tv => FSEmit (snode_of n) (ftv_of tv)
    | SCont tv => FSCont (ftv_of tv)
    end.
  Definition res_ok (r : step_res) : Prop :=
    match r with
    | SEmpty => True
    | SEmit n tv => okn n /\ stack_ok (tv_stack tv)
    | SCont tv => stack_ok (tv_stack tv)
    end.

  Lemma okn_children k h s m l r : okn (Inner k h s m l r) ->
    okn l /\ okn r /\ (h =? 0) = false /\
    slookup (nk_of l) st = Some (snode_of l) /\ slookup (nk_of r) st = Some (snode_of r).
  Proof.
    intros [W R]. cbn [wf] in W. destruct W as (Wl & Wr & _ & _ & _ & Hh & _).
    cbn [repr] in R. destruct R as (Ll & Lr & Rl & Rr).
    pose proof (height_nonneg _ Wl). pose proof (height_nonneg _ Wr).
    repeat split; auto. apply Z.eqb_neq. lia.
  Qed.

  Lemma f_step_sim tv c :
    stack_ok (tv_stack tv) ->
    exists c', f_step None st (ftv_of tv) c = (Ok (sres_of (step tv)), c') /\ (c <= c')%nat /\
               res_ok (step tv).
  Proof.
    destruct tv as [start stop asc incl post stk]. cbn [tv_stack]. intros SO.
    destruct stk as [|[n d] rest].
    { exists c. split; [reflexivity|]. split; [lia|exact I]. }
    inversion SO as [|? ? On Orest]; subst. cbn [fst] in On.
    unfold f_step, step, ftv_of.
    cbn [ft_stack tv_stack tv_start tv_stop tv_asc tv_incl tv_post ft_start ft_stop ft_asc ft_incl ft_post
         smap map fst snd].
    destruct d; cbn [negb].
    2:{ exists c. split; [reflexivity|]. split; [lia|]. split; assumption. }
    destruct n as [k v m|k h s m l r].
    - exists c.
      cbn [snode_of skey sisleaf Tree.nkey negb orb]. unfold isleaf. cbn [height Z.eqb negb orb].
      unfold ret, with_stack, ft_with.
      cbn [ft_stack tv_stack tv_start tv_stop tv_asc tv_incl tv_post ft_start ft_stop ft_asc ft_incl ft_post].
      destruct (start_or_after start k && before_end stop incl k); destruct post; cbn [andb negb];
        (split; [reflexivity|]); (split; [lia|]); cbn [res_ok tv_stack]; auto.
      all: unfold stack_ok; constructor; auto.
    - destruct (okn_children _ _ _ _ _ _ On) as (Ol & Or & Hh & Ll & Lr).
      cbn [snode_of skey sisleaf Tree.nkey negb orb]. unfold isleaf. cbn [height]. rewrite Hh.
      cbn [negb orb andb].
      unfold with_stack, ft_with.
      cbn [ft_stack tv_stack tv_start tv_stop tv_asc tv_incl tv_post ft_start ft_stop ft_asc ft_incl ft_post].
      generalize (after_start start k) as aS. generalize (before_end stop incl k) as bE. intros bE aS.
      assert (SOl : stack_ok [(l, true)]) by (constructor; [exact Ol|constructor]).
      assert (SOr : stack_ok [(r, true)]) by (constructor; [exact Or|constructor]).
      assert (SOn : stack_ok [(Inner k h s m l r, false)]) by (constructor; [exact On|constructor]).
      destruct asc, bE, aS, post; cbn [andb negb app]; unfold bind, ret;
        rewrite ?(fetch_ok st r _ Lr), ?(fetch_ok st l _ Ll), ?(fetch_ok st r _ Lr);
        eexists; (split; [reflexivity|]); (split; [lia|]);
        cbn [res_ok tv_stack]; unfold stack_ok; try (split; [exact On|]);
        repeat (apply Forall_cons; [cbn [fst]; assumption|]); assumption.
  Qed.

  Definition nres_of (r : nres * trav) : result (option snode * ftrav) :=
    match r with
    | (NNode n, tv') => Ok (Some (snode_of n), ftv_of tv')
    | (NEnd, tv') => Ok (None, ftv_of tv')
    | (NFuel, _) => Fuel
    end.

  Lemma f_next_sim fuel : forall tv c,
    stack_ok (tv_stack tv) ->
    exists c', f_next None st fuel (ftv_of tv) c = (nres_of (next fuel tv), c') /\ (c <= c')%nat /\
               stack_ok (tv_stack (snd (next fuel tv))) /\
               (forall n, fst (next fuel tv) = NNode n -> okn n).
  Proof.
    induction fuel as [|f IH]; intros tv c SO; cbn [f_next next].
    - exists c. split; [reflexivity|]. split; [lia|]. split; [exact SO|]. cbn. discriminate.
    - unfold bind. destruct (f_step_sim tv c SO) as (c1 & E1 & L1 & RO). rewrite E1.
      destruct (step tv) as [|n tv'|tv']; cbn [sres_of res_ok] in *.
      + exists c1. split; [reflexivity|]. split; [lia|]. split; [exact SO|]. cbn. discriminate.
      + exists c1. split; [reflexivity|]. split; [lia|]. destruct RO as [On SO']. split; [exact SO'|].
        cbn. intros n0 E. inversion E. subst. exact On.
      + destruct (IH tv' c1 RO) as (c2 & E2 & L2 & SO2 & ON). exists c2. split; [exact E2|].
        split; [lia|]. split; assumption.
  Qed.

  Section Params.
    Variables (start stop : option bytes) (asc incl post : bool).
    Notation mktv := (mk_tv start stop asc incl post).
    Notation outs' := (outs start stop asc incl post).
    Definition mkftv (stk : list (node * bool)) : ftrav := ftv_of (mktv stk).

    (** fault-free next(): what IterFacts.next_spec says, transported to the store *)
    Lemma f_next_ok fuel stk c :
      stack_ok stk -> (mu stk < fuel)%nat ->
      exists c', (c <= c')%nat /\
        ((outs' stk = [] /\ f_next None st fuel (mkftv stk) c = (Ok (None, mkftv []), c')) \/
         (exists n stk', outs' stk = n :: outs' stk' /\ (mu stk' < mu stk)%nat /\ stack_ok stk' /\ okn n /\
            f_next None st fuel (mkftv stk) c = (Ok (Some (snode_of n), mkftv stk'), c'))).
    Proof.
      intros SO Hf. destruct (f_next_sim fuel (mktv stk) c SO) as (c' & E & L & SO' & ON).
      exists c'. split; [exact L|].
      pose proof (next_spec start stop asc incl post fuel stk Hf) as NS.
      unfold mkftv. rewrite E. clear E.
      destruct (next fuel (mktv stk)) as [[n| |] tv']; cbn [nres_of fst snd] in *.
      - right. destruct NS as (stk' & -> & EO & LT). exists n, stk'.
        split; [exact EO|]. split; [exact LT|]. split; [exact SO'|]. split; [apply ON; reflexivity|reflexivity].
      - left. destruct NS as [EO ->]. split; [exact EO|reflexivity].
      - contradiction.
    Qed.

    Lemma f_trav_loop_ok fuel n : forall stk c,
      stack_ok stk -> (mu stk < fuel)%nat -> (mu stk < n)%nat ->
      exists c', (c <= c')%nat /\
        f_trav_loop None st n fuel (mkftv stk) c = (map snode_of (outs' stk), Ok tt, c') /\
        Forall okn (outs' stk).
    Proof.
      induction n as [|n IH]; intros stk c SO Hf Hn; [lia|].
      cbn [f_trav_loop]. destruct (f_next_ok fuel stk c SO Hf) as (c1 & L1 & [[EO E]|(x & stk' & EO & LT & SO' & Ox & E)]).
      - exists c1. rewrite E, EO. split; [lia|]. split; [reflexivity|constructor].
      - rewrite E. destruct (IH stk' c1 SO') as (c2 & L2 & E2 & F2); [lia|lia|].
        exists c2. rewrite E2, EO. split; [lia|]. split; [reflexivity|constructor; auto].
    Qed.

    Lemma okn_isleaf n : okn n -> sisleaf (snode_of n) = isleaf n /\ skv (snode_of n) = nodes_kv n.
    Proof.
      destruct n as [k v m|k h s m l r]; intros On; [split; reflexivity|].
      destruct (okn_children _ _ _ _ _ _ On) as (_ & _ & Hh & _).
      unfold isleaf. cbn [height snode_of sisleaf]. rewrite Hh. split; reflexivity.
    Qed.

    Lemma sleaves_of l : Forall okn l -> sleaves (map snode_of l) = leaves_of l.
    Proof.
      unfold sleaves, leaves_of. induction l as [|x l IH]; intros F; [reflexivity|].
      inversion F as [|? ? Ox Fl]; subst. destruct (okn_isleaf x Ox) as [E1 E2].
      cbn [map filter]. rewrite E1. destruct (isleaf x); cbn [map]; rewrite IH by exact Fl; congruence.
    Qed.

    Lemma ti_loop_invalid fa m n fuel k v c :
      ti_loop fa st m n fuel (TIter k v false false None) c = (Ok [], c).
    Proof. destruct m; reflexivity. Qed.

    Lemma ti_next_ok fuel n : forall stk key val valid err c,
      stack_ok stk -> (mu stk < fuel)%nat -> (mu stk < n)%nat ->
      exists c' it', (c <= c')%nat /\
        ti_next None st n fuel (TIter key val valid err (Some (mkftv stk))) c = (Some it', c') /\
        ((leaves_of (outs' stk) = [] /\ it' = TIter key val false err None) \/
         (exists lk lv stk', leaves_of (outs' stk) = (lk, lv) :: leaves_of (outs' stk') /\
            (mu stk' < mu stk)%nat /\ stack_ok stk' /\
            it' = TIter (Some lk) (Some lv) valid err (Some (mkftv stk')))).
    Proof.
      induction n as [|n IH]; intros stk key val valid err c SO Hf Hn; [lia|].
      cbn [ti_next ti_t ti_key ti_value ti_valid ti_err]. unfold seqc.
      destruct (f_next_ok fuel stk c SO Hf) as (c1 & L1 & [[EO E]|(x & stk' & EO & LT & SO' & Ox & E)]); rewrite E.
      - exists c1. eexists. split; [lia|]. split; [reflexivity|]. left. rewrite EO. split; reflexivity.
      - destruct x as [k v m|k h s m l r]; cbn [snode_of].
        + exists c1. eexists. split; [lia|]. split; [reflexivity|]. right.
          exists k, v, stk'. rewrite EO. repeat split; auto.
        + destruct (okn_children _ _ _ _ _ _ Ox) as (_ & _ & Hh & _).
          destruct (IH stk' key val valid err c1 SO') as (c2 & it' & L2 & E2 & Cases); [lia|lia|].
          exists c2, it'. split; [lia|]. split; [exact E2|].
          assert (EL : leaves_of (outs' stk) = leaves_of (outs' stk')).
          { rewrite EO. unfold leaves_of. cbn [filter]. unfold isleaf at 1. cbn [height]. rewrite Hh. reflexivity. }
          rewrite EL. destruct Cases as [C1|(lk & lv & stk'' & A & B & C & D)]; [left; exact C1|].
          right. exists lk, lv, stk''. repeat split; auto. lia.
    Qed.

    Lemma ti_loop_ok fuel n m : forall stk lk lv c,
      stack_ok stk -> (mu stk < fuel)%nat -> (mu stk < n)%nat -> (mu stk < m)%nat ->
      exists c', (c <= c')%nat /\
        ti_loop None st m n fuel (TIter (Some lk) (Some lv) true false (Some (mkftv stk))) c
        = (Ok ((lk, lv) :: leaves_of (outs' stk)), c').
    Proof.
      induction m as [|m IH]; intros stk lk lv c SO Hf Hn Hm; [lia|].
      cbn [ti_loop ti_valid ti_key ti_value ob]. unfold seqc.
      destruct (ti_next_ok fuel n stk (Some lk) (Some lv) true false c SO Hf Hn)
        as (c1 & it' & L1 & E1 & [[EL ->]|(k2 & v2 & stk' & EL & LT & SO' & ->)]); rewrite E1.
      - exists c1. unfold bind. rewrite ti_loop_invalid. rewrite EL. split; [lia|reflexivity].
      - destruct (IH stk' k2 v2 c1 SO') as (c2 & L2 & E2); [lia|lia|lia|].
        exists c2. unfold bind. rewrite E2. rewrite EL. split; [lia|reflexivity].
    Qed.
  End Params.

  Lemma nodes_size t : wf t -> Z.of_nat (nodes t) = 2 * size t - 1.
  Proof.
    induction t as [k v m|k h s m l IHl r IHr]; intros W; [reflexivity|].
    cbn [wf] in W. destruct W as (Wl & Wr & _ & _ & _ & _ & Hs).
    cbn [nodes size]. rewrite Nat2Z.inj_succ, Nat2Z.inj_add, IHl, IHr by assumption. lia.
  Qed.

  Lemma mu_root_fuel t : wf t -> (mu [(t, true)] < trav_fuel (snode_of t))%nat.
  Proof.
    intros W. unfold trav_fuel. rewrite ssize_of. pose proof (nodes_size t W). pose proof (size_pos t W).
    unfold mu, mu_e. cbn [map list_sum fold_right snd fst]. lia.
  Qed.

  Lemma ft_new_mk t start stop asc incl post :
    ft_new (snode_of t) start stop asc incl post = mkftv start stop asc incl post [(t, true)].
  Proof. reflexivity. Qed.

  Lemma outs_root start stop asc incl post t :
    outs start stop asc incl post [(t, true)] = walk start stop asc incl post t.
  Proof. cbn [outs flat_map out snd fst]. apply app_nil_r. Qed.

  Lemma stack_ok_root t : wf t -> repr st t -> stack_ok [(t, true)].
  Proof. intros W R. constructor; [split; assumption|constructor]. Qed.

  Theorem f_iterate_ok t start stop asc c :
    wf t -> repr st t ->
    exists c', (c <= c')%nat /\
      f_iterate None st (snode_of t) start stop asc c = (Ok (range_spec (elems t) start stop false asc), c').
  Proof.
    intros W R. pose proof (mu_root_fuel t W) as MF. pose proof (stack_ok_root t W R) as SO.
    unfold f_iterate. cbv zeta. unfold ti_new, seqc. rewrite ft_new_mk.
    set (fuel := trav_fuel (snode_of t)) in *.
    destruct (ti_next_ok start stop asc false false fuel fuel [(t, true)] None None true false c SO MF MF)
      as (c1 & it' & L1 & E1 & [[EL ->]|(k2 & v2 & stk' & EL & LT & SO' & ->)]); rewrite E1.
    - exists c1. rewrite ti_loop_invalid. rewrite outs_root, walk_leaves in EL by exact W. rewrite EL.
      split; [lia|reflexivity].
    - destruct (ti_loop_ok start stop asc false false fuel fuel fuel stk' k2 v2 c1 SO') as (c2 & L2 & E2); [lia|lia|lia|].
      exists c2. rewrite E2. rewrite outs_root, walk_leaves in EL by exact W. rewrite EL.
      split; [lia|reflexivity].
  Qed.

  Theorem f_iterate_range_ok t start stop asc incl c :
    wf t -> repr st t ->
    exists c', (c <= c')%nat /\
      f_iterate_range None st (snode_of t) start stop asc incl c
      = (Ok (range_spec (elems t) start stop incl asc), c').
  Proof.
    intros W R. pose proof (mu_root_fuel t W) as MF. pose proof (stack_ok_root t W R) as SO.
    unfold f_iterate_range. rewrite ft_new_mk.
    destruct (f_trav_loop_ok start stop asc incl false _ _ [(t, true)] c SO MF MF) as (c1 & L1 & E1 & F1).
    rewrite E1. exists c1. split; [lia|]. rewrite sleaves_of by exact F1.
    rewrite outs_root, walk_leaves by exact W. reflexivity.
  Qed.

  Lemma walk_export t : wf t ->
    map enode_of (map snode_of (walk None None true false true t)) = export_node t.
  Proof.
    induction t as [k v m|k h s m l IHl r IHr]; intros W; [reflexivity|].
    cbn [wf] in W. destruct W as (Wl & Wr & _ & _ & _ & Hh & _).
    pose proof (height_nonneg _ Wl). pose proof (height_nonneg _ Wr).
    cbn [walk Tree.nkey export_node]. replace (h =? 0) with false by (symmetry; apply Z.eqb_neq; lia).
    cbn [after_start before_end]. rewrite !map_app, IHl, IHr by assumption.
    rewrite <- app_assoc. reflexivity.
  Qed.

  Theorem f_export_ok t c :
    wf t -> repr st t ->
    exists c', (c <= c')%nat /\ f_export None st (snode_of t) c = (Ok (export_node t), c').
  Proof.
    intros W R. pose proof (mu_root_fuel t W) as MF. pose proof (stack_ok_root t W R) as SO.
    unfold f_export. rewrite ft_new_mk.
    destruct (f_trav_loop_ok None None true false true _ _ [(t, true)] c SO MF MF) as (c1 & L1 & E1 & F1).
    rewrite E1. exists c1. split; [lia|]. rewrite outs_root, walk_export by exact W. reflexivity.
  Qed.
End Sim.

(** * Results *)
Lemma FS_cases {A} (m : option nat -> M A) : FS m ->
  forall i c, m (Some i) c = (Err, S i) /\ (c <= i < snd (m None c))%nat \/
              m (Some i) c = m None c /\ (i < c \/ snd (m None c) <= i)%nat.
Proof.
  intros F i c. destruct (F i c) as (L & Out & In).
  destruct (Nat.lt_ge_cases i c) as [Lt|Ge]; [right; split; [apply Out|]; lia|].
  destruct (Nat.lt_ge_cases i (snd (m None c))) as [Lt'|Ge']; [left; split; [apply In|]; lia|].
  right; split; [apply Out|]; lia.
Qed.

(** [m] answers [a] when the storage works, and with a fault at ANY position [i] it either
    reports the failure or never reached call [i] and behaves exactly as without fault. *)
Definition fail_stop_to {A} (m : option nat -> M A) (a : A) : Prop :=
  forall (i c : nat),
    fst (m None c) = Ok a /\
    (fst (m (Some i) c) = Err \/
     ((i < c \/ snd (m None c) <= i)%nat /\ m (Some i) c = m None c)).

Lemma fail_stop_intro {A} (m : option nat -> M A) (a : A) :
  FS m -> (forall c, exists c', m None c = (Ok a, c')) -> fail_stop_to m a.
Proof.
  intros F Hok i c. destruct (Hok c) as (c' & E). split; [rewrite E; reflexivity|].
  destruct (FS_cases m F i c) as [[E1 _]|[E1 W]].
  - left. rewrite E1. reflexivity.
  - right. split; assumption.
Qed.

Theorem reads_fail_stop st t :
  wf t -> repr st t ->
  let root := snode_of t in
  (forall key, fail_stop_to (fun fa => f_get fa st (desc_fuel root) root key) (get t key)) /\
  (forall key, fail_stop_to (fun fa => f_has fa st (desc_fuel root) root key) (has t key)) /\
  (forall idx, fail_stop_to (fun fa => f_get_by_index fa st (desc_fuel root) root idx) (get_by_index t idx)) /\
  (forall start stop asc,
     fail_stop_to (fun fa => f_iterate fa st root start stop asc)
                  (range_spec (elems t) start stop false asc)) /\
  fail_stop_to (fun fa => f_export fa st root) (export_node t) /\
  (forall key, fail_stop_to (fun fa => f_path_to_leaf fa st (desc_fuel root) root key) (path_pure t key)).
Proof.
  intros W R root.
  assert (DF : (Z.to_nat (height t) <= desc_fuel root)%nat) by (unfold desc_fuel, root; rewrite sheight_of; lia).
  split; [|split; [|split; [|split; [|split]]]].
  - intros key. apply fail_stop_intro; [apply FS_get|]. intros c.
    destruct (f_get_ok st t (desc_fuel root) key c W R DF) as (d & E & _). eauto.
  - intros key. apply fail_stop_intro; [apply FS_has|]. intros c.
    destruct (f_has_ok st t (desc_fuel root) key c W R DF) as (d & E & _). eauto.
  - intros idx. apply fail_stop_intro; [apply FS_get_by_index|]. intros c.
    destruct (f_get_by_index_ok st t (desc_fuel root) idx c W R DF) as (d & E & _). eauto.
  - intros start stop asc. apply fail_stop_intro; [apply FS_iterate|]. intros c.
    destruct (f_iterate_ok st t start stop asc c W R) as (c' & _ & E). eauto.
  - apply fail_stop_intro; [apply FS_export|]. intros c.
    destruct (f_export_ok st t c W R) as (c' & _ & E). eauto.
  - intros key. apply fail_stop_intro; [apply FS_path_to_leaf|]. intros c.
    destruct (f_path_to_leaf_ok st t (desc_fuel root) key c W R DF) as (d & E & _). eauto.
Qed.

(** The fail-stop half needs nothing about the store: it holds for ANY store (corrupt,
    incomplete, ...) and any node in hand. *)
Theorem reads_fail_stop_any_store st root :
  (forall fuel key, FS (fun fa => f_get fa st fuel root key)) /\
  (forall fuel key, FS (fun fa => f_has fa st fuel root key)) /\
  (forall fuel idx, FS (fun fa => f_get_by_index fa st fuel root idx)) /\
  (forall start stop asc, FS (fun fa => f_iterate fa st root start stop asc)) /\
  FS (fun fa => f_export fa st root) /\
  (forall fuel key, FS (fun fa => f_path_to_leaf fa st fuel root key)) /\
  (forall fuel key, FS (fun fa => f_existence_proof fa st fuel root key)).
Proof.
  split; [|split; [|split; [|split; [|split; [|split]]]]]; intros.
  - apply FS_get.
  - apply FS_has.
  - apply FS_get_by_index.
  - apply FS_iterate.
  - apply FS_export.
  - apply FS_path_to_leaf.
  - unfold f_existence_proof. apply FS_bind; [apply FS_path_to_leaf|].
    intros [[path [[lk lv] m]] ok]. apply FS_ret.
Qed.

(** ** IterateRange / IterateRangeInclusive: the documented exception *)
Theorem iterate_range_never_fails st t start stop asc incl i c :
  wf t -> repr st t ->
  exists l, fst (f_iterate_range (Some i) st (snode_of t) start stop asc incl c) = Ok l /\
            prefix l (range_spec (elems t) start stop incl asc).
Proof.
  intros W R. destruct (f_iterate_range_ok st t start stop asc incl c W R) as (c' & L & E).
  destruct (iterate_range_fs st (snode_of t) start stop asc incl i c) as (_ & Out & In).
  cbv zeta in *. rewrite E in *. cbn [snd fst] in *.
  destruct (Nat.lt_ge_cases i c) as [Lt|Ge].
  { rewrite Out by lia. eexists. split; [reflexivity|apply prefix_refl]. }
  destruct (Nat.lt_ge_cases i c') as [Lt'|Ge'].
  - destruct (In ltac:(lia) _ eq_refl) as (l & -> & P). exists l. split; [reflexivity|exact P].
  - rewrite Out by lia. eexists. split; [reflexivity|apply prefix_refl].
Qed.

(** ** Commit *)
Lemma FS_write : FS (fun fa => write_call fa).
Proof.
  intros i c. unfold write_call. rewrite fails_None, fails_Some. cbn [snd].
  split; [lia|]. split; intros Hi.
  - replace (Nat.eqb i c) with false by (symmetry; apply Nat.eqb_neq; lia). reflexivity.
  - replace (Nat.eqb i c) with true by (symmetry; apply Nat.eqb_eq; lia). f_equal. lia.
Qed.

Lemma FS_batch ops : FS (fun fa => f_batch fa ops).
Proof.
  induction ops as [|o ops IH]; cbn [f_batch]; [apply FS_ret|].
  apply FS_bind; [apply FS_write|]. intros _. exact IH.
Qed.

Lemma FS_commit ops s : FS (fun fa => f_commit fa ops s).
Proof.
  unfold f_commit. apply FS_bind; [apply FS_batch|]. intros _.
  apply FS_bind; [apply FS_write|]. intros _. apply FS_ret.
Qed.

Lemma f_batch_ok ops : forall c, f_batch None ops c = (Ok tt, (c + length ops)%nat).
Proof.
  induction ops as [|o ops IH]; intros c; cbn [f_batch length].
  - unfold ret. rewrite Nat.add_0_r. reflexivity.
  - unfold bind, write_call. rewrite fails_None. rewrite IH. f_equal. lia.
Qed.

Lemma f_commit_ok ops s c :
  f_commit None ops s c = (Ok (fold_left apply_wop ops s), (c + length ops + 1)%nat).
Proof.
  unfold f_commit, bind. rewrite f_batch_ok. unfold write_call. rewrite fails_None.
  unfold ret. f_equal. lia.
Qed.

(** if any of the [length ops] batch operations or the final batch write fails, the commit
    is reported as failed *)
Theorem commit_not_ok ops s i c :
  (c <= i < c + length ops + 1)%nat -> f_commit (Some i) ops s c = (Err, S i).
Proof.
  intros Hi. destruct (FS_commit ops s i c) as (_ & _ & In). apply In.
  rewrite f_commit_ok. cbn [snd]. exact Hi.
Qed.

(** conversely a commit reported successful saw no fault and wrote everything *)
Theorem commit_ok_inv ops s i c s' c' :
  f_commit (Some i) ops s c = (Ok s', c') ->
  (i < c \/ c + length ops + 1 <= i)%nat /\ s' = fold_left apply_wop ops s /\
  c' = (c + length ops + 1)%nat.
Proof.
  intros E. destruct (FS_cases _ (FS_commit ops s) i c) as [[E1 _]|[E1 Wd]]; rewrite E1 in E.
  - discriminate.
  - rewrite f_commit_ok in *. cbn [snd] in Wd. inversion E; subst. auto.
Qed.

(** ** Cost (C11 by-product): number of storage calls of the descents, cold cache *)
Theorem get_cost st t key :
  wf t -> repr st t ->
  Z.of_nat (snd (f_get_top None st (snode_of t) key)) <= height t /\
  fst (f_get_top None st (snode_of t) key) = Ok (get t key).
Proof.
  intros W R. unfold f_get_top.
  destruct (f_get_ok st t (desc_fuel (snode_of t)) key 0%nat W R) as (d & E & D).
  { unfold desc_fuel. rewrite sheight_of. lia. }
  rewrite E. cbn [snd fst]. split; [lia|reflexivity].
Qed.

Theorem has_cost st t key :
  wf t -> repr st t ->
  Z.of_nat (snd (f_has_top None st (snode_of t) key)) <= height t /\
  fst (f_has_top None st (snode_of t) key) = Ok (has t key).
Proof.
  intros W R. unfold f_has_top.
  destruct (f_has_ok st t (desc_fuel (snode_of t)) key 0%nat W R) as (d & E & D).
  { unfold desc_fuel. rewrite sheight_of. lia. }
  rewrite E. cbn [snd fst]. split; [lia|reflexivity].
Qed.

Theorem get_by_index_cost st t idx :
  wf t -> repr st t ->
  Z.of_nat (snd (f_get_by_index_top None st (snode_of t) idx)) <= 2 * height t /\
  fst (f_get_by_index_top None st (snode_of t) idx) = Ok (get_by_index t idx).
Proof.
  intros W R. unfold f_get_by_index_top.
  destruct (f_get_by_index_ok st t (desc_fuel (snode_of t)) idx 0%nat W R) as (d & E & D).
  { unfold desc_fuel. rewrite sheight_of. lia. }
  rewrite E. cbn [snd fst]. split; [lia|reflexivity].
Qed.

Lemma fib_le a b : (1 <= a <= b)%nat -> fib a <= fib b.
Proof.
  intros [H1 H2]. induction H2 as [|b H2 IH]; [lia|].
  destruct b as [|b]; [lia|]. pose proof (fib_mono b). lia.
Qed.

(** with the AVL invariant the bound is logarithmic: a lookup that made [n] storage calls
    proves that the tree has at least [fib (n + 2)] keys *)
Corollary get_cost_avl st t key :
  wf t -> avl t -> repr st t ->
  fib (snd (f_get_top None st (snode_of t) key) + 2) <= size t.
Proof.
  intros W A R. destruct (get_cost st t key W R) as [C _]. pose proof (avl_fib t W A) as F.
  pose proof (height_nonneg t W).
  eapply Z.le_trans; [|exact F]. apply fib_le. lia.
Qed.

(** ** ImmutableTree.Get through the fast index: a failing GetFastNode is masked by the
    fall-back to the tree walk; the answer is still never wrong. *)
Definition fast_consistent (fidx : fastidx) (latest version : Z) (t : node) : Prop :=
  forall k,
    match fassoc k fidx with
    | Some (u, v) => u <= version -> assoc k (elems t) = Some v
    | None => version = latest -> assoc k (elems t) = None
    end.

Theorem imm_get_fail_stop st t fidx latest version key fa c :
  wf t -> repr st t -> fast_consistent fidx latest version t ->
  let r := fst (f_imm_get fa st fidx latest version (desc_fuel (snode_of t)) (snode_of t) key c) in
  r = Err \/ r = Ok (assoc key (elems t)).
Proof.
  intros W R FC. cbv zeta.
  assert (DF : (Z.to_nat (height t) <= desc_fuel (snode_of t))%nat) by (unfold desc_fuel; rewrite sheight_of; lia).
  assert (WALK : forall c1,
    let r := fst (bind (f_get fa st (desc_fuel (snode_of t)) (snode_of t) key) (fun iv => ret (snd iv)) c1) in
    r = Err \/ r = Ok (assoc key (elems t))).
  { intros c1. cbv zeta.
    assert (F : FS (fun fa => bind (f_get fa st (desc_fuel (snode_of t)) (snode_of t) key) (fun iv => ret (snd iv)))).
    { apply FS_bind; [apply FS_get|]. intros a. apply FS_ret. }
    assert (OK : fst (bind (f_get None st (desc_fuel (snode_of t)) (snode_of t) key) (fun iv => ret (snd iv)) c1)
                 = Ok (assoc key (elems t))).
    { unfold bind. destruct (f_get_ok st t (desc_fuel (snode_of t)) key c1 W R DF) as (d & E & _).
      rewrite E. unfold ret. cbn [fst]. rewrite (get_spec t key W). reflexivity. }
    destruct fa as [i|]; [|right; exact OK].
    destruct (FS_cases _ F i c1) as [[E1 _]|[E1 _]]; rewrite E1; [left; reflexivity|right; exact OK]. }
  unfold f_imm_get. cbv zeta. unfold fetch_fast.
  destruct (fails fa c); [apply WALK|].
  specialize (FC key). destruct (fassoc key fidx) as [[u v]|].
  - destruct (u <=? version) eqn:Le; [|apply WALK]. apply Z.leb_le in Le.
    right. cbn [fst]. rewrite (FC Le). reflexivity.
  - destruct (version =? latest) eqn:Eq; [|apply WALK]. apply Z.eqb_eq in Eq.
    right. cbn [fst]. rewrite (FC Eq). reflexivity.
Qed.

(** ** A concrete persisted tree: 5 keys, 9 nodes, height 3, saved at version 1 with SHA-256 *)
Definition ex_tree : node :=
  fst (stamp sha256 1 0
    (fold_left (fun t kv => fst (set t (fst kv) (snd kv)))
       [([2%N], [20%N]); ([3%N], [30%N]); ([4%N], [40%N]); ([5%N], [50%N])]
       (Leaf [1%N] [10%N] new_meta))).
Definition ex_store : store := to_store ex_tree.
Definition ex_root : snode := snode_of ex_tree.

Lemma ex_wf : wf ex_tree.
Proof. vm_compute. repeat split. Qed.
Lemma ex_avl : avl ex_tree.
Proof. vm_compute. repeat split; discriminate. Qed.
Lemma ex_repr : repr ex_store ex_tree.
Proof. vm_compute. repeat split. Qed.

(** The fail-stop property is FALSE of IterateRange: with the 5th storage call failing, the
    iteration over the whole 5-key tree reports the first two pairs as the complete answer
    (Go: [IterateRange] returns [stopped = false] and has no error result). *)
Theorem iterate_range_swallows_refuted :
  exists (st : store) (t : node) (i : nat) (l : list (bytes * bytes)),
    wf t /\ repr st t /\
    fst (f_iterate_range_top None st (snode_of t) None None true false) = Ok (elems t) /\
    fst (f_iterate_range_top (Some i) st (snode_of t) None None true false) = Ok l /\
    l = [([1%N], [10%N]); ([2%N], [20%N])] /\
    elems t = [([1%N], [10%N]); ([2%N], [20%N]); ([3%N], [30%N]); ([4%N], [40%N]); ([5%N], [50%N])].
Proof.
  exists ex_store, ex_tree, 4%nat, [([1%N], [10%N]); ([2%N], [20%N])].
  split; [exact ex_wf|]. split; [exact ex_repr|]. vm_compute. repeat split.
Qed.
