(** C06: committed versions can be read concurrently with the writer.
    Theorems about the interleaving model Conc.v.

    Results
    - [reads_outcomes]: for EVERY schedule, writer program and reader programs, what a
      completed Get / iteration on version v can return: the contents of v as of its commit,
      or -- Get -- "absent" when its fast-node read happened after the batch of a newer version
      was written while latestVersion still said v; or -- iteration -- the contents of a newer
      version, when latestVersion said v and the fast iterator was created after that newer
      batch.  [commit_window_refuted]: both really happen in the real protocol (Commit() and
      resetLatestVersion() are two critical sections).
    - [reads_linearize_safe]: the reads that are right in the real protocol.
    - [get_linearize_variant], [reads_linearize_variant], [iter_toctou_variant_refuted]:
      publishing inside the critical section of the batch write repairs Get; the iterator
      additionally needs its latestVersion check and its creation to be atomic.
    - [pin_blocks_delete], [export_pins], [unpinned_delete_proceeds], [late_pin_refuted].
    - [persisted_immutable]: footprints.
    Go memory-model data races are not expressible in this model (see Conc.v). *)
From IAVL Require Import Bytes Tree VMap MTree MTreeFacts Conc.
Local Open Scope Z_scope.

(** * Basic facts *)
Lemma lookup_bound {A} (h : list (Z * A)) b v a :
  Forall (fun e => fst e <= b) h -> lookup v h = Some a -> v <= b.
Proof.
  intros F L. apply lookup_In in L. rewrite Forall_forall in F. apply (F _ L).
Qed.

Lemma lookup_above {A} (h : list (Z * A)) b v :
  Forall (fun e => fst e <= b) h -> b < v -> lookup v h = None.
Proof.
  intros F Hv. destruct (lookup v h) as [a|] eqn:L; [|reflexivity].
  pose proof (lookup_bound h b v a F L). lia.
Qed.

Lemma assoc_fast_kvs k f : assoc k (fast_kvs f) = option_map snd (fassoc k f).
Proof.
  induction f as [|[k' [u val]] f IH]; [reflexivity|].
  cbn [fast_kvs map fst snd assoc fassoc]. destruct (beq k k'); [reflexivity|exact IH].
Qed.

Lemma fast_kvs_refresh v old c : fast_kvs (refresh v old c) = c.
Proof.
  unfold fast_kvs, refresh. rewrite map_map. cbn [fst snd].
  induction c as [|[k val] c IH]; [reflexivity|]. cbn [map fst snd]. rewrite IH. reflexivity.
Qed.

Lemma fassoc_refresh v old c k u val :
  fassoc k (refresh v old c) = Some (u, val) ->
  assoc k c = Some val /\
  (u = v \/ fassoc k old = Some (u, val)).
Proof.
  induction c as [|[k' val'] c IH]; [discriminate|].
  cbn [refresh map fst snd fassoc assoc]. destruct (beq k k') eqn:E.
  - btests. subst k'. intros H. inversion H; subst. split; [reflexivity|].
    destruct (fassoc k old) as [[u0 val0]|]; [|left; reflexivity].
    destruct (beq val val0) eqn:E2; [|left; reflexivity]. btests. subst. right. reflexivity.
  - exact IH.
Qed.

(** * Invariant of the shared state *)
Record inv (sh : shared) : Prop := Inv {
  i_bound : Forall (fun e => fst e <= sh_batch sh) (sh_hist sh);
  i_forest : forall v c, lookup v (sh_forest sh) = Some c -> lookup v (sh_hist sh) = Some c;
  i_pub : sh_latest sh <= sh_batch sh;
  i_fast_all : lookup (sh_batch sh) (sh_hist sh) = Some (fast_kvs (sh_fast sh));
  i_fast_each : forall k u val, fassoc k (sh_fast sh) = Some (u, val) ->
      u <= sh_batch sh /\
      forall w c, u <= w <= sh_batch sh -> lookup w (sh_hist sh) = Some c -> assoc k c = Some val
}.

(** the history only grows, at the end, with a version above the batch version *)
Definition ext (sh sh' : shared) : Prop :=
  sh_batch sh <= sh_batch sh' /\
  forall v, v <= sh_batch sh -> lookup v (sh_hist sh') = lookup v (sh_hist sh).

Lemma ext_refl sh : ext sh sh.
Proof. split; [lia|reflexivity]. Qed.

Lemma inv_init : inv init_shared.
Proof.
  split; cbn.
  - constructor; [cbn; lia|constructor].
  - discriminate.
  - lia.
  - reflexivity.
  - discriminate.
Qed.

Lemma commit_batch_inv sh c : inv sh -> inv (commit_batch sh c) /\ ext sh (commit_batch sh c).
Proof.
  intros I. destruct I as [IB IF IP IA IE].
  set (v := sh_batch sh + 1).
  assert (NV : lookup v (sh_hist sh) = None) by (apply (lookup_above _ (sh_batch sh)); [exact IB|unfold v; lia]).
  assert (LS : forall w, lookup w (sh_hist sh ++ [(v, c)]) = if w =? v then Some c else lookup w (sh_hist sh)).
  { intros w. apply lookup_snoc. exact NV. }
  split.
  - split; unfold commit_batch; cbn [sh_forest sh_fast sh_latest sh_pins sh_hist sh_batch]; fold v.
    + apply Forall_app. split.
      * eapply Forall_impl; [|exact IB]. cbn. intros e He. unfold v. lia.
      * constructor; [cbn; lia|constructor].
    + intros w cw L. rewrite LS.
      assert (NF : lookup v (sh_forest sh) = None).
      { destruct (lookup v (sh_forest sh)) as [x|] eqn:Lf; [|reflexivity]. rewrite (IF _ _ Lf) in NV. discriminate. }
      rewrite lookup_snoc in L by exact NF.
      destruct (w =? v); [exact L|]. apply IF, L.
    + unfold v. lia.
    + rewrite LS, Z.eqb_refl, fast_kvs_refresh. reflexivity.
    + intros k u val Fk. apply fassoc_refresh in Fk. destruct Fk as [Ak Cases].
      assert (Hnew : forall w cw, w = v -> (if w =? v then Some c else lookup w (sh_hist sh)) = Some cw -> assoc k cw = Some val).
      { intros w cw -> H. rewrite Z.eqb_refl in H. inversion H; subst. exact Ak. }
      destruct Cases as [->|Fold].
      * split; [lia|]. intros w cw Hw L. rewrite LS in L.
        destruct (w =? v) eqn:Ew; [apply Z.eqb_eq in Ew; eapply Hnew; eauto; rewrite Ew, Z.eqb_refl; exact L|].
        apply Z.eqb_neq in Ew. exfalso. pose proof (lookup_bound _ _ _ _ IB L). unfold v in *. lia.
      * destruct (IE _ _ _ Fold) as [Hu Hall]. split; [unfold v; lia|].
        intros w cw Hw L. rewrite LS in L.
        destruct (w =? v) eqn:Ew.
        -- inversion L; subst. exact Ak.
        -- apply Z.eqb_neq in Ew. apply (Hall w cw); [|exact L]. unfold v in *. lia.
  - split; unfold commit_batch; cbn [sh_hist sh_batch]; [lia|].
    intros w Hw. fold v. rewrite LS. replace (w =? v) with false; [reflexivity|].
    symmetry. apply Z.eqb_neq. unfold v. lia.
Qed.

Lemma publish_inv sh : inv sh -> inv (publish sh) /\ ext sh (publish sh).
Proof.
  intros [IB IF IP IA IE]. split; [|split; cbn; [lia|reflexivity]].
  split; unfold publish; cbn [sh_forest sh_fast sh_latest sh_pins sh_hist sh_batch]; auto. lia.
Qed.

Lemma prune_del_inv sh n : inv sh -> inv (prune_del sh n) /\ ext sh (prune_del sh n).
Proof.
  intros [IB IF IP IA IE]. split; [|split; cbn; [lia|reflexivity]].
  split; unfold prune_del; cbn [sh_forest sh_fast sh_latest sh_pins sh_hist sh_batch]; auto.
  intros v c L. rewrite lookup_filter_gt in L. destruct (n <? v); [auto|discriminate].
Qed.

Lemma ext_trans a b c : ext a b -> ext b c -> ext a c.
Proof.
  intros [L1 E1] [L2 E2]. split; [lia|]. intros v Hv. rewrite E2 by lia. apply E1, Hv.
Qed.

Lemma wexec_inv sh ok s :
  inv sh -> inv (fst (fst (wexec sh ok s))) /\ ext sh (fst (fst (wexec sh ok s))).
Proof.
  intros I. destruct s as [c| |c|n|n]; cbn [wexec fst].
  - apply commit_batch_inv, I.
  - apply publish_inv, I.
  - destruct (commit_batch_inv sh c I) as [I1 E1]. destruct (publish_inv _ I1) as [I2 E2].
    split; [exact I2|eapply ext_trans; eauto].
  - split; [exact I|apply ext_refl].
  - destruct ok; cbn [fst]; [apply prune_del_inv, I|split; [exact I|apply ext_refl]].
Qed.

(** * What a completed read can return *)
(** [right]: the contents of its version as of its commit.  The only other possibilities:
    - Get: "absent", when the fast node was read after the batch of a NEWER version was
      written ([v < b1]) and latestVersion still said [v] ([lat = Some v]);
    - iteration: the contents of a NEWER version [b2], when latestVersion said [v] and the
      iterator was created after the batch of [b2] was written. *)
Definition out_ok (h : list (Z * kvs)) (o : rout) : Prop :=
  match o with
  | OGet v k r b1 lat =>
      exists c, lookup v h = Some c /\
                (r = assoc k c \/ (v < b1 /\ lat = Some v /\ r = None))
  | OIter v r lat b2 =>
      exists c, lookup v h = Some c /\
                (r = c \/ (lat = v /\ v < b2 /\ lookup b2 h = Some r))
  | _ => True
  end.

Definition pc_ok (sh : shared) (p : rpc) : Prop :=
  match p with
  | PGetLatest v k b1 =>
      (exists c, lookup v (sh_hist sh) = Some c) /\ v <= b1 <= sh_batch sh /\
      (forall c1, lookup b1 (sh_hist sh) = Some c1 -> assoc k c1 = None)
  | PIterScan v lat =>
      lat = v /\ (exists c, lookup v (sh_hist sh) = Some c)
  | _ => True
  end.

Lemma out_ok_ext sh sh' o : inv sh -> ext sh sh' -> out_ok (sh_hist sh) o -> out_ok (sh_hist sh') o.
Proof.
  intros I [Lb E] H. destruct o as [v k r b1 lat|v r lat b2| | |]; cbn [out_ok] in *; auto.
  - destruct H as (c & L & Cases). exists c. split; [|exact Cases].
    rewrite E; [exact L|]. eapply lookup_bound; [apply (i_bound _ I)|exact L].
  - destruct H as (c & L & Cases). exists c. split.
    + rewrite E; [exact L|]. eapply lookup_bound; [apply (i_bound _ I)|exact L].
    + destruct Cases as [->|(A & B & C)]; [left; reflexivity|right].
      split; [exact A|]. split; [exact B|].
      rewrite E; [exact C|]. eapply lookup_bound; [apply (i_bound _ I)|exact C].
Qed.

Lemma pc_ok_ext sh sh' p : inv sh -> ext sh sh' -> pc_ok sh p -> pc_ok sh' p.
Proof.
  intros I [Lb E] H. destruct p as [|v k b1|v k b1 lat|v lat|v lat]; cbn [pc_ok] in *; auto.
  - destruct H as ((c & L) & Hb & N). split; [|split; [lia|]].
    + exists c. rewrite E; [exact L|]. eapply lookup_bound; [apply (i_bound _ I)|exact L].
    + intros c1 L1. apply N. rewrite <- E; [exact L1|lia].
  - destruct H as (-> & (c & L)). split; [reflexivity|]. exists c.
    rewrite E; [exact L|]. eapply lookup_bound; [apply (i_bound _ I)|exact L].
Qed.

Lemma has_version_hist sh v :
  inv sh -> has_version v (sh_forest sh) = true -> exists c, lookup v (sh_hist sh) = Some c.
Proof.
  intros I H. unfold has_version in H. destruct (lookup v (sh_forest sh)) as [c|] eqn:L; [|discriminate].
  exists c. apply (i_forest _ I), L.
Qed.

Definition same_but_pins (sh sh' : shared) : Prop :=
  sh_forest sh' = sh_forest sh /\ sh_fast sh' = sh_fast sh /\ sh_latest sh' = sh_latest sh /\
  sh_hist sh' = sh_hist sh /\ sh_batch sh' = sh_batch sh.

Lemma same_but_pins_refl sh : same_but_pins sh sh.
Proof. repeat split. Qed.

Lemma Forall_snoc {A} (P : A -> Prop) l x : Forall P l -> P x -> Forall P (l ++ [x]).
Proof. intros F Px. apply Forall_app. split; [exact F|constructor; [exact Px|constructor]]. Qed.

(** one reader step keeps the reader's invariant and writes nothing but the pins *)
Lemma rstep_ok sh r :
  inv sh -> pc_ok sh (r_pc r) -> Forall (out_ok (sh_hist sh)) (r_out r) ->
  same_but_pins sh (fst (rstep sh r)) /\
  pc_ok sh (r_pc (snd (rstep sh r))) /\
  Forall (out_ok (sh_hist sh)) (r_out (snd (rstep sh r))).
Proof.
  intros I PC OUT. destruct r as [prog pc out]. cbn [r_pc r_out] in *.
  assert (DONE : forall o, out_ok (sh_hist sh) o ->
            pc_ok sh (r_pc (r_done (RState prog pc out) o)) /\
            Forall (out_ok (sh_hist sh)) (r_out (r_done (RState prog pc out) o))).
  { intros o Ho. cbn [r_done r_pc r_out pc_ok]. split; [exact Logic.I|apply Forall_snoc; assumption]. }
  unfold rstep. cbn [r_pc r_prog].
  destruct pc as [|v k b1|v k b1 lat|v lat|v lat].
  - (* idle: start the next operation *)
    destruct prog as [|[v k|v|v|v|v] rest].
    + cbn [fst snd r_pc r_out]. split; [apply same_but_pins_refl|]. split; [exact Logic.I|exact OUT].
    + (* RGet *)
      destruct (has_version v (sh_forest sh)) eqn:HV; cbn [negb].
      2:{ cbn [fst snd]. split; [apply same_but_pins_refl|]. apply DONE. exact Logic.I. }
      destruct (has_version_hist sh v I HV) as (c & Lc).
      destruct (fassoc k (sh_fast sh)) as [[u val]|] eqn:Fk.
      * destruct (i_fast_each _ I _ _ _ Fk) as [Hu Hall].
        destruct (u <=? v) eqn:Le; cbn [fst snd].
        -- apply Z.leb_le in Le. split; [apply same_but_pins_refl|]. apply DONE.
           cbn [out_ok]. exists c. split; [exact Lc|]. left. symmetry. apply (Hall v c); [|exact Lc].
           pose proof (lookup_bound _ _ _ _ (i_bound _ I) Lc). lia.
        -- split; [apply same_but_pins_refl|]. cbn [r_goto r_pc r_out pc_ok]. split; [exact Logic.I|exact OUT].
      * cbn [fst snd]. split; [apply same_but_pins_refl|]. cbn [r_goto r_pc r_out pc_ok].
        split; [|exact OUT]. split; [eauto|].
        pose proof (lookup_bound _ _ _ _ (i_bound _ I) Lc). split; [lia|].
        intros c1 L1. rewrite (i_fast_all _ I) in L1. inversion L1; subst.
        rewrite assoc_fast_kvs, Fk. reflexivity.
    + (* RIter *)
      destruct (has_version v (sh_forest sh)) eqn:HV; cbn [negb].
      2:{ cbn [fst snd]. split; [apply same_but_pins_refl|]. apply DONE. exact Logic.I. }
      destruct (has_version_hist sh v I HV) as (c & Lc).
      destruct (v =? sh_latest sh) eqn:E; cbn [fst snd]; (split; [apply same_but_pins_refl|]);
        cbn [r_goto r_pc r_out pc_ok]; (split; [|exact OUT]); [|exact Logic.I].
      apply Z.eqb_eq in E. split; [symmetry; exact E|eauto].
    + (* RIterAtomic *)
      destruct (has_version v (sh_forest sh)) eqn:HV; cbn [negb].
      2:{ cbn [fst snd]. split; [apply same_but_pins_refl|]. apply DONE. exact Logic.I. }
      destruct (has_version_hist sh v I HV) as (c & Lc).
      destruct (v =? sh_latest sh) eqn:E; cbn [fst snd]; (split; [apply same_but_pins_refl|]).
      * apply Z.eqb_eq in E. apply DONE. cbn [out_ok]. exists c. split; [exact Lc|].
        pose proof (lookup_bound _ _ _ _ (i_bound _ I) Lc) as Hb.
        destruct (Z.eq_dec v (sh_batch sh)) as [Eb|Nb].
        -- left. rewrite Eb, (i_fast_all _ I) in Lc. inversion Lc. reflexivity.
        -- right. split; [symmetry; exact E|]. split; [lia|]. apply (i_fast_all _ I).
      * cbn [r_goto r_pc r_out pc_ok]. split; [exact Logic.I|exact OUT].
    + (* RExportOpen *)
      destruct (has_version v (sh_forest sh)) eqn:HV; cbn [negb fst snd].
      * split; [repeat split|]. apply DONE. exact Logic.I.
      * split; [apply same_but_pins_refl|]. apply DONE. exact Logic.I.
    + (* RExportClose *)
      cbn [fst snd]. split; [repeat split|]. apply DONE. exact Logic.I.
  - (* PGetLatest *)
    cbn [pc_ok] in PC. destruct PC as ((c & Lc) & Hb & N).
    destruct (v =? sh_latest sh) eqn:E; cbn [fst snd]; (split; [apply same_but_pins_refl|]).
    + apply Z.eqb_eq in E. apply DONE. cbn [out_ok]. exists c. split; [exact Lc|].
      destruct (Z.eq_dec v b1) as [Eb|Nb].
      * left. subst b1. symmetry. apply N, Lc.
      * right. split; [lia|]. split; [rewrite <- E; reflexivity|reflexivity].
    + cbn [r_goto r_pc r_out pc_ok]. split; [exact Logic.I|exact OUT].
  - (* PGetWalk *)
    destruct (lookup v (sh_forest sh)) as [c|] eqn:L; cbn [fst snd]; (split; [apply same_but_pins_refl|]);
      apply DONE; [|exact Logic.I].
    cbn [out_ok]. exists c. split; [apply (i_forest _ I), L|left; reflexivity].
  - (* PIterScan *)
    cbn [pc_ok] in PC. destruct PC as (-> & (c & Lc)).
    cbn [fst snd]. split; [apply same_but_pins_refl|]. apply DONE. cbn [out_ok]. exists c. split; [exact Lc|].
    pose proof (lookup_bound _ _ _ _ (i_bound _ I) Lc) as Hb.
    destruct (Z.eq_dec v (sh_batch sh)) as [Eb|Nb].
    + left. rewrite Eb, (i_fast_all _ I) in Lc. inversion Lc. reflexivity.
    + right. split; [reflexivity|]. split; [lia|]. apply (i_fast_all _ I).
  - (* PIterWalk *)
    destruct (lookup v (sh_forest sh)) as [c|] eqn:L; cbn [fst snd]; (split; [apply same_but_pins_refl|]);
      apply DONE; [|exact Logic.I].
    cbn [out_ok]. exists c. split; [apply (i_forest _ I), L|left; reflexivity].
Qed.

(** * The global invariant and the outcome theorem *)
Definition r_ok (sh : shared) (r : rstate) : Prop :=
  pc_ok sh (r_pc r) /\ Forall (out_ok (sh_hist sh)) (r_out r).

Definition ginv (s : cstate) : Prop :=
  inv (c_sh s) /\ Forall (r_ok (c_sh s)) (c_rs s).

Lemma same_but_pins_inv sh sh' : same_but_pins sh sh' -> inv sh -> inv sh'.
Proof.
  intros (Ef & Ea & El & Eh & Eb) [IB IF IP IA IE].
  split; rewrite ?Ef, ?Ea, ?El, ?Eh, ?Eb; assumption.
Qed.

Lemma same_but_pins_r_ok sh sh' r : same_but_pins sh sh' -> r_ok sh r -> r_ok sh' r.
Proof.
  intros (Ef & Ea & El & Eh & Eb) [PC OUT]. split.
  - destruct (r_pc r); cbn [pc_ok] in *; rewrite ?Eh, ?Eb; exact PC.
  - rewrite Eh. exact OUT.
Qed.

Lemma Forall_upd_nth {A} (P : A -> Prop) i x l : Forall P l -> P x -> Forall P (upd_nth i x l).
Proof.
  revert i. induction l as [|y l IH]; intros i F Px; [destruct i; constructor|].
  inversion F; subst. destruct i; cbn [upd_nth]; constructor; auto.
Qed.

Lemma nth_error_Forall {A} (P : A -> Prop) l i x : Forall P l -> nth_error l i = Some x -> P x.
Proof. intros F E. apply nth_error_In in E. rewrite Forall_forall in F. auto. Qed.

Lemma sched_step_ginv tid s : ginv s -> ginv (sched_step tid s).
Proof.
  intros [I RS]. destruct tid as [|i]; cbn [sched_step].
  - unfold wstep_thread. destruct (w_prog (c_w s)) as [|st rest]; [split; assumption|].
    destruct (wexec_inv (c_sh s) (w_ok (c_w s)) st I) as [I' E].
    destruct (wexec (c_sh s) (w_ok (c_w s)) st) as [[sh' ok'] o]. cbn [fst] in *.
    split; cbn [c_sh c_rs]; [exact I'|].
    eapply Forall_impl; [|exact RS]. intros r [PC OUT]. split.
    + apply (pc_ok_ext (c_sh s)); assumption.
    + eapply Forall_impl; [|exact OUT]. intros o' Ho. apply (out_ok_ext (c_sh s)); assumption.
  - destruct (nth_error (c_rs s) i) as [r|] eqn:N; [|split; assumption].
    destruct (nth_error_Forall _ _ _ _ RS N) as [PC OUT].
    destruct (rstep_ok (c_sh s) r I PC OUT) as (SP & PC' & OUT').
    destruct (rstep (c_sh s) r) as [sh' r']. cbn [fst snd] in *.
    split; cbn [c_sh c_rs]; [eapply same_but_pins_inv; eauto|].
    apply Forall_upd_nth.
    + eapply Forall_impl; [|exact RS]. intros r0 H0. eapply same_but_pins_r_ok; eauto.
    + eapply same_but_pins_r_ok; [exact SP|]. split; assumption.
Qed.

Lemma run_schedule_ginv sched : forall s, ginv s -> ginv (run_schedule sched s).
Proof.
  unfold run_schedule. induction sched as [|tid sched IH]; intros s G; [exact G|].
  cbn [fold_left]. apply IH, sched_step_ginv, G.
Qed.

Lemma ginv_init wp rps : ginv (init_cstate wp rps).
Proof.
  split; cbn [init_cstate c_sh c_rs]; [exact inv_init|].
  apply Forall_forall. intros r Hr. apply in_map_iff in Hr. destruct Hr as (p & <- & _).
  split; cbn; [exact Logic.I|constructor].
Qed.

Lemma all_outs_ok s : ginv s -> forall o, In o (all_outs s) -> out_ok (sh_hist (c_sh s)) o.
Proof.
  intros [_ RS] o Ho. unfold all_outs in Ho. apply in_flat_map in Ho. destruct Ho as (r & Hr & Hor).
  rewrite Forall_forall in RS. destruct (RS r Hr) as [_ OUT]. rewrite Forall_forall in OUT. auto.
Qed.

(** Every interleaving of a writer running ANY program (commits in the real or the variant
    protocol, prunes) with any number of readers: what every completed read returned. *)
Theorem reads_outcomes wp rps sched :
  let s := run_schedule sched (init_cstate wp rps) in
  forall o, In o (all_outs s) -> out_ok (sh_hist (c_sh s)) o.
Proof. cbv zeta. apply all_outs_ok, run_schedule_ginv, ginv_init. Qed.

(** The reads that are safe in the real protocol, in terms of what the reader itself saw:
    a Get that did not see its own version as latestVersion (it did not look, or saw another
    value), and an iteration that saw another latestVersion, return exactly the contents of
    their version as of its commit. *)
Theorem reads_linearize_safe wp rps sched :
  let s := run_schedule sched (init_cstate wp rps) in
  (forall v k r b1 lat, In (OGet v k r b1 lat) (all_outs s) -> lat <> Some v ->
     exists c, lookup v (sh_hist (c_sh s)) = Some c /\ r = assoc k c) /\
  (forall v r lat b2, In (OIter v r lat b2) (all_outs s) -> lat <> v ->
     exists c, lookup v (sh_hist (c_sh s)) = Some c /\ r = c) /\
  (* ghost view: the fast node was read / the iterator created while v was the newest batch *)
  (forall v k r lat, In (OGet v k r v lat) (all_outs s) ->
     exists c, lookup v (sh_hist (c_sh s)) = Some c /\ r = assoc k c) /\
  (forall v r lat, In (OIter v r lat v) (all_outs s) ->
     exists c, lookup v (sh_hist (c_sh s)) = Some c /\ r = c) /\
  (* a Get never invents a value: the only wrong answer is "absent" *)
  (forall v k r b1 lat val, In (OGet v k r b1 lat) (all_outs s) -> r = Some val ->
     exists c, lookup v (sh_hist (c_sh s)) = Some c /\ assoc k c = Some val).
Proof.
  cbv zeta. pose proof (reads_outcomes wp rps sched) as RO. cbv zeta in RO.
  split; [|split; [|split; [|split]]].
  - intros v k r b1 lat Hin Hl. destruct (RO _ Hin) as (c & L & [->|(_ & E & _)]); [eauto|congruence].
  - intros v r lat b2 Hin Hl. destruct (RO _ Hin) as (c & L & [->|(E & _)]); [eauto|congruence].
  - intros v k r lat Hin. destruct (RO _ Hin) as (c & L & [->|(E & _)]); [eauto|lia].
  - intros v r lat Hin. destruct (RO _ Hin) as (c & L & [->|(_ & E & _)]); [eauto|lia].
  - intros v k r b1 lat val Hin ->. destruct (RO _ Hin) as (c & L & [E|(_ & _ & E)]); [eauto|discriminate].
Qed.

(** * The variant protocol: publish inside the critical section of the batch write *)
Definition out_right (h : list (Z * kvs)) (o : rout) : Prop :=
  match o with
  | OGet v k r _ _ => exists c, lookup v h = Some c /\ r = assoc k c
  | OIter v r _ _ => exists c, lookup v h = Some c /\ r = c
  | _ => True
  end.

Definition wvariant (s : wstep) : bool :=
  match s with WCommitBatch _ | WPublish => false | _ => true end.
Definition rvariant (o : rop) : bool := match o with RIter _ => false | _ => true end.

(** published = batch, and the writer will keep it so *)
Definition vbase (s : cstate) : Prop :=
  sh_latest (c_sh s) = sh_batch (c_sh s) /\ forallb wvariant (w_prog (c_w s)) = true.

(** Get part: the latestVersion a Get saw is at least the batch version its fast read saw *)
Definition out_vg (o : rout) : Prop :=
  match o with OGet _ _ _ b1 (Some lat) => b1 <= lat | _ => True end.
Definition pc_vg (p : rpc) : Prop :=
  match p with PGetWalk _ _ b1 (Some lat) => b1 <= lat | _ => True end.
Definition r_vg (r : rstate) : Prop := pc_vg (r_pc r) /\ Forall out_vg (r_out r).

(** Iterator part (needs the atomic creation): an iteration that saw its own version as
    latestVersion was created while it was the batch version *)
Definition out_vi (o : rout) : Prop :=
  match o with OIter v _ lat b2 => lat = v -> b2 = v | _ => True end.
Definition pc_vi (p : rpc) : Prop :=
  match p with PIterScan _ _ => False | PIterWalk v lat => lat <> v | _ => True end.
Definition r_vi (r : rstate) : Prop :=
  forallb rvariant (r_prog r) = true /\ pc_vi (r_pc r) /\ Forall out_vi (r_out r).

Lemma forallb_tl {A} (f : A -> bool) l : forallb f l = true -> forallb f (tl l) = true.
Proof. destruct l; cbn; [auto|]. intros H. apply andb_true_iff in H. tauto. Qed.

Lemma rstep_vg sh r :
  sh_latest sh = sh_batch sh -> pc_ok sh (r_pc r) -> r_vg r -> r_vg (snd (rstep sh r)).
Proof.
  intros PB PC (VC & VO). destruct r as [prog pc out]. cbn [r_prog r_pc r_out] in *.
  assert (DONE : forall o, out_vg o -> r_vg (r_done (RState prog pc out) o)).
  { intros o Ho. unfold r_vg. cbn [r_done r_prog r_pc r_out pc_vg].
    split; [exact Logic.I|apply Forall_snoc; assumption]. }
  assert (GOTO : forall p, pc_vg p -> r_vg (r_goto (RState prog pc out) p)).
  { intros p Hp. unfold r_vg. cbn [r_goto r_prog r_pc r_out]. auto. }
  unfold rstep. cbn [r_pc r_prog].
  destruct pc as [|v k b1|v k b1 lat|v lat|v lat].
  - destruct prog as [|[v k|v|v|v|v] rest].
    + cbn [snd]. unfold r_vg. auto.
    + destruct (has_version v (sh_forest sh)); cbn [negb]; [|apply DONE; exact Logic.I].
      destruct (fassoc k (sh_fast sh)) as [[u val]|]; [|apply GOTO; exact Logic.I].
      destruct (u <=? v); [apply DONE|apply GOTO]; exact Logic.I.
    + destruct (has_version v (sh_forest sh)); cbn [negb]; [|apply DONE; exact Logic.I].
      destruct (v =? sh_latest sh); apply GOTO; exact Logic.I.
    + destruct (has_version v (sh_forest sh)); cbn [negb]; [|apply DONE; exact Logic.I].
      destruct (v =? sh_latest sh); [apply DONE|apply GOTO]; exact Logic.I.
    + destruct (has_version v (sh_forest sh)); cbn [negb snd]; apply DONE; exact Logic.I.
    + cbn [snd]. apply DONE. exact Logic.I.
  - cbn [pc_ok] in PC. destruct PC as (_ & Hb & _).
    destruct (v =? sh_latest sh); [apply DONE|apply GOTO]; cbn [out_vg pc_vg]; lia.
  - destruct (lookup v (sh_forest sh)); cbn [snd]; apply DONE; [|exact Logic.I].
    cbn [out_vg]. destruct lat as [l|]; [exact VC|exact Logic.I].
  - cbn [snd]. apply DONE. exact Logic.I.
  - destruct (lookup v (sh_forest sh)); cbn [snd]; apply DONE; exact Logic.I.
Qed.

Lemma rstep_vi sh r :
  sh_latest sh = sh_batch sh -> r_vi r -> r_vi (snd (rstep sh r)).
Proof.
  intros PB (VP & VC & VO). destruct r as [prog pc out]. cbn [r_prog r_pc r_out] in *.
  assert (DONE : forall o, out_vi o -> r_vi (r_done (RState prog pc out) o)).
  { intros o Ho. unfold r_vi. cbn [r_done r_prog r_pc r_out pc_vi].
    split; [apply forallb_tl, VP|]. split; [exact Logic.I|apply Forall_snoc; assumption]. }
  assert (GOTO : forall p, pc_vi p -> r_vi (r_goto (RState prog pc out) p)).
  { intros p Hp. unfold r_vi. cbn [r_goto r_prog r_pc r_out]. auto. }
  unfold rstep. cbn [r_pc r_prog].
  destruct pc as [|v k b1|v k b1 lat|v lat|v lat].
  - destruct prog as [|[v k|v|v|v|v] rest].
    + cbn [snd]. unfold r_vi. auto.
    + destruct (has_version v (sh_forest sh)); cbn [negb]; [|apply DONE; exact Logic.I].
      destruct (fassoc k (sh_fast sh)) as [[u val]|]; [|apply GOTO; exact Logic.I].
      destruct (u <=? v); [apply DONE|apply GOTO]; exact Logic.I.
    + cbn [forallb rvariant andb] in VP. discriminate.
    + destruct (has_version v (sh_forest sh)); cbn [negb]; [|apply DONE; exact Logic.I].
      destruct (v =? sh_latest sh) eqn:E.
      * apply Z.eqb_eq in E. apply DONE. cbn [out_vi]. intros _. rewrite <- PB. symmetry. exact E.
      * apply Z.eqb_neq in E. apply GOTO. cbn [pc_vi]. congruence.
    + destruct (has_version v (sh_forest sh)); cbn [negb snd]; apply DONE; exact Logic.I.
    + cbn [snd]. apply DONE. exact Logic.I.
  - destruct (v =? sh_latest sh); [apply DONE|apply GOTO]; exact Logic.I.
  - destruct (lookup v (sh_forest sh)); cbn [snd]; apply DONE; exact Logic.I.
  - cbn [pc_vi] in VC. contradiction.
  - cbn [pc_vi] in VC. destruct (lookup v (sh_forest sh)); cbn [snd]; apply DONE; [|exact Logic.I].
    cbn [out_vi]. intros E. congruence.
Qed.

Lemma wexec_v sh ok s :
  wvariant s = true -> sh_latest sh = sh_batch sh ->
  sh_latest (fst (fst (wexec sh ok s))) = sh_batch (fst (fst (wexec sh ok s))).
Proof.
  destruct s as [c| |c|n|n]; cbn [wvariant wexec fst]; intros V PB; try discriminate; auto.
  destruct ok; cbn [fst prune_del sh_latest sh_batch]; exact PB.
Qed.

(** one scheduler step keeps [vbase] and, for any per-reader property [Q] preserved by reader
    steps under [vbase], keeps [Forall Q] *)
Lemma sched_step_v (Q : rstate -> Prop) tid s :
  (forall sh r, sh_latest sh = sh_batch sh -> pc_ok sh (r_pc r) -> Q r -> Q (snd (rstep sh r))) ->
  ginv s -> vbase s -> Forall Q (c_rs s) ->
  vbase (sched_step tid s) /\ Forall Q (c_rs (sched_step tid s)).
Proof.
  intros HQ [I RS] (PB & VW) VR. destruct tid as [|i]; cbn [sched_step].
  - unfold wstep_thread. destruct (w_prog (c_w s)) as [|st rest] eqn:EP.
    { unfold vbase. cbn [c_sh c_w c_rs]. rewrite EP. auto. }
    cbn [forallb] in VW. apply andb_true_iff in VW. destruct VW as [V1 V2].
    pose proof (wexec_v (c_sh s) (w_ok (c_w s)) st V1 PB) as PB'.
    destruct (wexec (c_sh s) (w_ok (c_w s)) st) as [[sh' ok'] o]. cbn [fst] in *.
    split; [split; [exact PB'|exact V2]|exact VR].
  - destruct (nth_error (c_rs s) i) as [r|] eqn:N; [|unfold vbase; auto].
    destruct (nth_error_Forall _ _ _ _ RS N) as [PC OUT].
    pose proof (nth_error_Forall _ _ _ _ VR N) as Vr.
    destruct (rstep_ok (c_sh s) r I PC OUT) as ((_ & _ & El & _ & Eb) & _ & _).
    pose proof (HQ (c_sh s) r PB PC Vr) as Vr'.
    destruct (rstep (c_sh s) r) as [sh' r']. cbn [fst snd] in *.
    split; cbn [c_sh c_w c_rs]; [split; [cbn [c_sh]; congruence|exact VW]|].
    apply Forall_upd_nth; assumption.
Qed.

Lemma run_schedule_v (Q : rstate -> Prop) sched :
  (forall sh r, sh_latest sh = sh_batch sh -> pc_ok sh (r_pc r) -> Q r -> Q (snd (rstep sh r))) ->
  forall s, ginv s -> vbase s -> Forall Q (c_rs s) ->
  Forall Q (c_rs (run_schedule sched s)).
Proof.
  intros HQ. unfold run_schedule. induction sched as [|tid sched IH]; intros s G V F; [exact F|].
  cbn [fold_left]. destruct (sched_step_v Q tid s HQ G V F) as [V' F'].
  apply IH; [apply sched_step_ginv, G|exact V'|exact F'].
Qed.

Lemma init_Forall (Q : rstate -> Prop) wp rps :
  (forall p, In p rps -> Q (RState p PIdle [])) -> Forall Q (c_rs (init_cstate wp rps)).
Proof.
  intros H. cbn [init_cstate c_rs]. apply Forall_forall. intros r Hr. apply in_map_iff in Hr.
  destruct Hr as (p & <- & Hp). auto.
Qed.

Lemma in_all_outs s o : In o (all_outs s) -> exists r, In r (c_rs s) /\ In o (r_out r).
Proof. unfold all_outs. intros H. apply in_flat_map in H. exact H. Qed.

(** In the variant protocol EVERY completed Get of every interleaving is right, whatever
    the readers do. *)
Theorem get_linearize_variant wp rps sched :
  forallb wvariant wp = true ->
  let s := run_schedule sched (init_cstate wp rps) in
  forall v k r b1 lat, In (OGet v k r b1 lat) (all_outs s) ->
    exists c, lookup v (sh_hist (c_sh s)) = Some c /\ r = assoc k c.
Proof.
  intros VW. cbv zeta. intros v k res b1 lat Ho.
  pose proof (run_schedule_ginv sched _ (ginv_init wp rps)) as G.
  assert (V : Forall r_vg (c_rs (run_schedule sched (init_cstate wp rps)))).
  { apply run_schedule_v; [exact rstep_vg|apply ginv_init|split; [reflexivity|exact VW]|].
    apply init_Forall. intros p _. split; [exact Logic.I|constructor]. }
  pose proof (all_outs_ok _ G _ Ho) as OK.
  destruct (in_all_outs _ _ Ho) as (r & Hr & Hor).
  rewrite Forall_forall in V. destruct (V r Hr) as (_ & OV). rewrite Forall_forall in OV.
  specialize (OV _ Hor). cbn [out_ok out_vg] in *.
  destruct OK as (c & L & [->|(Lt & -> & _)]); [eauto|]. exfalso. lia.
Qed.

(** ... and with the atomic iterator creation ([RIterAtomic] instead of [RIter]) every
    completed read returns exactly the contents of its version as of its commit. *)
Theorem reads_linearize_variant wp rps sched :
  forallb wvariant wp = true -> Forall (fun p => forallb rvariant p = true) rps ->
  let s := run_schedule sched (init_cstate wp rps) in
  forall o, In o (all_outs s) -> out_right (sh_hist (c_sh s)) o.
Proof.
  intros VW VR. cbv zeta. intros o Ho.
  destruct o as [v k res b1 lat|v res lat b2| | |]; cbn [out_right]; auto.
  { eapply (get_linearize_variant wp rps sched VW); exact Ho. }
  pose proof (run_schedule_ginv sched _ (ginv_init wp rps)) as G.
  assert (V : Forall r_vi (c_rs (run_schedule sched (init_cstate wp rps)))).
  { apply run_schedule_v; [intros sh r PB _; apply rstep_vi, PB|apply ginv_init|split; [reflexivity|exact VW]|].
    apply init_Forall. intros p Hp. rewrite Forall_forall in VR.
    split; [apply VR, Hp|]. split; [exact Logic.I|constructor]. }
  pose proof (all_outs_ok _ G _ Ho) as OK.
  destruct (in_all_outs _ _ Ho) as (r & Hr & Hor).
  rewrite Forall_forall in V. destruct (V r Hr) as (_ & _ & OV). rewrite Forall_forall in OV.
  specialize (OV _ Hor). cbn [out_ok out_vi] in *.
  destruct OK as (c & L & [->|(E & Lt & _)]); [eauto|]. exfalso. specialize (OV E). lia.
Qed.

(** * The real protocol is NOT linearizable for readers of the published latest version *)
Definition ex_ka : bytes := [97%N].
Definition ex_kb : bytes := [98%N].
Definition ex_c1 : kvs := [(ex_ka, [1%N]); (ex_kb, [2%N])].
Definition ex_c2 : kvs := [(ex_kb, [2%N])].             (* version 2 removes "a" *)

(** Writer: SaveVersion(c1) = version 1, SaveVersion(c2) = version 2, real protocol.
    Reader 0 holds version 1 (the published latest) and calls Get("a"); reader 1 holds
    version 1 and iterates.  Schedule: commit+publish v1; reader 1 checks latest (= 1: fast
    iterator); the writer writes the batch of v2; reader 0 reads the fast node of "a" (gone)
    and latestVersion (still 1): "absent"; reader 1 creates the fast iterator: sees v2;
    the writer publishes v2. *)
Theorem commit_window_refuted :
  exists (wp : list wstep) (rps : list (list rop)) (sched : list nat),
    wp = save_real ex_c1 ++ save_real ex_c2 /\
    let s := run_schedule sched (init_cstate wp rps) in
    lookup 1 (sh_hist (c_sh s)) = Some ex_c1 /\ assoc ex_ka ex_c1 = Some [1%N] /\
    In (OGet 1 ex_ka None 2 (Some 1)) (all_outs s) /\
    In (OIter 1 ex_c2 1 2) (all_outs s) /\ ex_c2 <> ex_c1.
Proof.
  exists (save_real ex_c1 ++ save_real ex_c2), [[RGet 1 ex_ka]; [RIter 1]],
         [0; 0; 2; 0; 1; 1; 2; 0]%nat.
  split; [reflexivity|]. vm_compute.
  split; [reflexivity|]. split; [reflexivity|]. split; [left; reflexivity|].
  split; [right; left; reflexivity|discriminate].
Qed.

(** The variant protocol does not repair the non-atomic [RIter]: latestVersion is checked,
    a whole SaveVersion happens, then the iterator is created. *)
Theorem iter_toctou_variant_refuted :
  exists (wp : list wstep) (rps : list (list rop)) (sched : list nat),
    wp = save_variant ex_c1 ++ save_variant ex_c2 /\
    let s := run_schedule sched (init_cstate wp rps) in
    lookup 1 (sh_hist (c_sh s)) = Some ex_c1 /\
    In (OIter 1 ex_c2 1 2) (all_outs s) /\ ex_c2 <> ex_c1.
Proof.
  exists (save_variant ex_c1 ++ save_variant ex_c2), [[RIter 1]], [0; 1; 0; 1]%nat.
  split; [reflexivity|]. vm_compute.
  split; [reflexivity|]. split; [left; reflexivity|discriminate].
Qed.

(** * Pins *)
Lemma pin_count_In v p : pin_count v p <> 0%nat -> In (v, pin_count v p) p.
Proof.
  induction p as [|[w n] p IH]; cbn [pin_count]; [congruence|].
  destruct (w =? v) eqn:E; intros H.
  - apply Z.eqb_eq in E. subst. left. reflexivity.
  - right. apply IH, H.
Qed.

Lemma pin_count_set_same v n p : pin_count v (pin_set v n p) = n.
Proof.
  induction p as [|[w m] p IH]; cbn [pin_set pin_count]; [rewrite Z.eqb_refl; reflexivity|].
  destruct (w =? v) eqn:E; cbn [pin_count]; rewrite E; [reflexivity|exact IH].
Qed.

Lemma pin_count_set_other v w n p : w <> v -> pin_count w (pin_set v n p) = pin_count w p.
Proof.
  intros N. induction p as [|[x m] p IH]; cbn [pin_set pin_count].
  - replace (v =? w) with false by (symmetry; apply Z.eqb_neq; congruence). reflexivity.
  - destruct (x =? v) eqn:E; cbn [pin_count].
    + apply Z.eqb_eq in E. subst x.
      replace (v =? w) with false by (symmetry; apply Z.eqb_neq; congruence). reflexivity.
    + destruct (x =? w); [reflexivity|exact IH].
Qed.

(** While version [v] is pinned (an export of it is open), DeleteVersionsTo(n) with
    first <= v <= n is refused by its check, and the deletion loop that follows a refused
    check deletes nothing -- whatever happened in between. *)
Theorem pin_blocks_delete sh ok n v :
  (0 < pin_count v (sh_pins sh))%nat -> first_of (sh_forest sh) <= v <= n ->
  wexec sh ok (WPruneCheck n) = (sh, false, WRefused) /\
  forall sh', wexec sh' false (WPruneDel n) = (sh', false, WRefused).
Proof.
  intros Hp Hv. split; [|reflexivity]. cbn [wexec].
  assert (C : prune_check sh n = false).
  { unfold prune_check. destruct (sh_latest sh <=? n); [reflexivity|].
    apply negb_false_iff. unfold pinned_in. apply existsb_exists.
    exists (v, pin_count v (sh_pins sh)). split; [apply pin_count_In; lia|].
    cbn [fst snd]. apply andb_true_iff. split; [apply andb_true_iff; split; apply Z.leb_le; lia|].
    apply negb_true_iff. apply Nat.eqb_neq. lia. }
  rewrite C. reflexivity.
Qed.

(** Export open / close are exactly pin / unpin of the version *)
Theorem export_pins sh prog out v :
  has_version v (sh_forest sh) = true ->
  pin_count v (sh_pins (fst (rstep sh (RState (RExportOpen v :: prog) PIdle out))))
    = S (pin_count v (sh_pins sh)) /\
  pin_count v (sh_pins (fst (rstep sh (RState (RExportClose v :: prog) PIdle out))))
    = Nat.pred (pin_count v (sh_pins sh)).
Proof.
  intros HV. unfold rstep. cbn [r_pc r_prog]. rewrite HV. cbn [negb fst set_pins sh_pins].
  split; apply pin_count_set_same.
Qed.

(** when nothing in [first, n] is pinned and n is below the published latest version, the
    check passes and the deletion removes exactly the versions <= n *)
Theorem unpinned_delete_proceeds sh ok n :
  pinned_in (first_of (sh_forest sh)) n (sh_pins sh) = false -> n < sh_latest sh ->
  wexec sh ok (WPruneCheck n) = (sh, true, WOk) /\
  forall v, lookup v (sh_forest (fst (fst (wexec sh true (WPruneDel n)))))
            = if n <? v then lookup v (sh_forest sh) else None.
Proof.
  intros NP Hn. split.
  - cbn [wexec]. unfold prune_check. replace (sh_latest sh <=? n) with false by (symmetry; apply Z.leb_gt; lia).
    rewrite NP. reflexivity.
  - intros v. cbn [wexec fst prune_del sh_forest]. apply lookup_filter_gt.
Qed.

(** The check and the deletion are two critical sections: a pin taken in between is NOT
    honoured.  (Export of a version that a concurrent DeleteVersionsTo is about to delete.) *)
Theorem late_pin_refuted :
  exists (wp : list wstep) (rps : list (list rop)) (sched : list nat),
    wp = save_real ex_c1 ++ save_real ex_c2 ++ prune 1 /\
    let s := run_schedule sched (init_cstate wp rps) in
    In (OPin 1) (all_outs s) /\ ~ In (OUnpin 1) (all_outs s) /\
    pin_count 1 (sh_pins (c_sh s)) = 1%nat /\
    lookup 1 (sh_forest (c_sh s)) = None /\ w_log (c_w s) = [WOk; WOk; WOk; WOk; WOk; WOk].
Proof.
  exists (save_real ex_c1 ++ save_real ex_c2 ++ prune 1), [[RExportOpen 1]],
         [0; 0; 0; 0; 0; 1; 0]%nat.
  split; [reflexivity|]. vm_compute.
  split; [left; reflexivity|]. split; [intros [H|[]]; discriminate|]. repeat split.
Qed.

(** * Footprints: committed versions are immutable *)
Lemma rstep_frame sh r : same_but_pins sh (fst (rstep sh r)).
Proof.
  destruct r as [prog pc out]. unfold rstep. cbn [r_pc r_prog].
  destruct pc as [|v k b1|v k b1 lat|v lat|v lat].
  - destruct prog as [|[v k|v|v|v|v] rest]; cbn [fst]; try apply same_but_pins_refl.
    + destruct (negb (has_version v (sh_forest sh))); [apply same_but_pins_refl|].
      destruct (fassoc k (sh_fast sh)) as [[u val]|]; [destruct (u <=? v)|]; apply same_but_pins_refl.
    + destruct (negb (has_version v (sh_forest sh))); [apply same_but_pins_refl|].
      destruct (v =? sh_latest sh); apply same_but_pins_refl.
    + destruct (negb (has_version v (sh_forest sh))); [apply same_but_pins_refl|].
      destruct (v =? sh_latest sh); apply same_but_pins_refl.
    + destruct (negb (has_version v (sh_forest sh))); cbn [fst]; repeat split.
    + repeat split.
  - destruct (v =? sh_latest sh); apply same_but_pins_refl.
  - destruct (lookup v (sh_forest sh)); apply same_but_pins_refl.
  - apply same_but_pins_refl.
  - destruct (lookup v (sh_forest sh)); apply same_but_pins_refl.
Qed.

(** No step of anybody rewrites the contents of a committed version: a writer step leaves
    each version of the store as it is, or (only [WPruneDel]) deletes it wholesale; it writes
    only the objects of its footprint; readers write nothing but the pins. *)
Theorem persisted_immutable sh ok s :
  inv sh ->
  let sh' := fst (fst (wexec sh ok s)) in
  (forall v c, lookup v (sh_forest sh) = Some c ->
     lookup v (sh_forest sh') = Some c \/
     (In ODelVersions (wfootprint s) /\ lookup v (sh_forest sh') = None)) /\
  (~ In ONewVersion (wfootprint s) -> ~ In ODelVersions (wfootprint s) ->
     sh_forest sh' = sh_forest sh) /\
  (~ In OFast (wfootprint s) -> sh_fast sh' = sh_fast sh) /\
  (~ In OLatest (wfootprint s) -> sh_latest sh' = sh_latest sh) /\
  sh_pins sh' = sh_pins sh /\
  (forall r, same_but_pins sh (fst (rstep sh r))).
Proof.
  intros I. cbv zeta.
  assert (NEW : forall c v cv, lookup v (sh_forest sh) = Some cv ->
            lookup v (sh_forest sh ++ [(sh_batch sh + 1, c)]) = Some cv).
  { intros c v cv L. rewrite lookup_app, L. reflexivity. }
  split; [|split; [|split; [|split; [|split]]]].
  - intros v c L. destruct s as [c0| |c0|n|n]; cbn [wexec fst wfootprint].
    + left. apply NEW, L.
    + left. exact L.
    + left. cbn [publish commit_batch sh_forest]. apply NEW, L.
    + left. exact L.
    + destruct ok; cbn [fst]; [|left; exact L].
      cbn [prune_del sh_forest]. rewrite lookup_filter_gt. destruct (n <? v); [left; exact L|].
      right. split; [left; reflexivity|reflexivity].
  - destruct s as [c0| |c0|n|n]; cbn [wexec fst wfootprint In]; intros H1 H2; try reflexivity;
      try (exfalso; apply H1; auto; fail); try (exfalso; apply H2; auto; fail).
  - destruct s as [c0| |c0|n|n]; cbn [wexec fst wfootprint In]; intros H1; try reflexivity;
      try (exfalso; apply H1; auto; fail).
    destruct ok; reflexivity.
  - destruct s as [c0| |c0|n|n]; cbn [wexec fst wfootprint In]; intros H1; try reflexivity;
      try (exfalso; apply H1; auto; fail).
    destruct ok; reflexivity.
  - destruct s as [c0| |c0|n|n]; cbn [wexec fst]; try reflexivity. destruct ok; reflexivity.
  - apply rstep_frame.
Qed.

(** the ghost history records the contents of each version as of its commit, for ever *)
Theorem hist_records_commit sh c :
  inv sh ->
  lookup (sh_batch sh + 1) (sh_hist (commit_batch sh c)) = Some c /\
  sh_batch (commit_batch sh c) = sh_batch sh + 1.
Proof.
  intros I. split; [|reflexivity]. cbn [commit_batch sh_hist].
  rewrite lookup_snoc, Z.eqb_refl; [reflexivity|].
  apply (lookup_above _ (sh_batch sh)); [apply (i_bound _ I)|lia].
Qed.

Theorem hist_stable sched : forall s v c,
  ginv s -> lookup v (sh_hist (c_sh s)) = Some c ->
  lookup v (sh_hist (c_sh (run_schedule sched s))) = Some c.
Proof.
  unfold run_schedule. induction sched as [|tid sched IH]; intros s v c G L; [exact L|].
  cbn [fold_left]. apply IH; [apply sched_step_ginv, G|].
  destruct G as [I RS]. destruct tid as [|i]; cbn [sched_step].
  - unfold wstep_thread. destruct (w_prog (c_w s)) as [|st rest]; [exact L|].
    destruct (wexec_inv (c_sh s) (w_ok (c_w s)) st I) as [_ [_ E]].
    destruct (wexec (c_sh s) (w_ok (c_w s)) st) as [[sh' ok'] o]. cbn [fst c_sh] in *.
    rewrite E; [exact L|]. eapply lookup_bound; [apply (i_bound _ I)|exact L].
  - destruct (nth_error (c_rs s) i) as [r|]; [|exact L].
    pose proof (rstep_frame (c_sh s) r) as (_ & _ & _ & Eh & _).
    destruct (rstep (c_sh s) r) as [sh' r']. cbn [fst c_sh] in *. rewrite Eh. exact L.
Qed.
