(** The abstract specification: a sorted association list per version ("plain
    versioned map").  Everything here is list-level; no trees. *)
From IAVL Require Import Bytes.
Local Open Scope Z_scope.

Definition kvs := list (bytes * bytes).

Fixpoint ins (k v : bytes) (l : kvs) : kvs :=
  match l with
  | [] => [(k, v)]
  | (k', v') :: rest =>
      match bcmp k k' with
      | Lt => (k, v) :: l
      | Eq => (k, v) :: rest
      | Gt => (k', v') :: ins k v rest
      end
  end.

Fixpoint del (k : bytes) (l : kvs) : kvs :=
  match l with
  | [] => []
  | (k', v') :: rest =>
      match bcmp k k' with
      | Lt => l
      | Eq => rest
      | Gt => (k', v') :: del k rest
      end
  end.

Fixpoint assoc (k : bytes) (l : kvs) : option bytes :=
  match l with
  | [] => None
  | (k', v') :: rest => if beq k k' then Some v' else assoc k rest
  end.

Definition mem (k : bytes) (l : kvs) : bool :=
  match assoc k l with Some _ => true | None => false end.

(** number of stored keys strictly below [k]: the rank [k] has or would take *)
Definition rank (k : bytes) (l : kvs) : Z :=
  Z.of_nat (length (filter (fun p => blt (fst p) k) l)).

Definition keys_lt (l : kvs) (b : bytes) : Prop := Forall (fun p => fst p <b b) l.
Definition keys_ge (l : kvs) (b : bytes) : Prop := Forall (fun p => b <=b fst p) l.

Fixpoint sorted (l : kvs) : Prop :=
  match l with
  | [] => True
  | (k, _) :: rest => Forall (fun p => k <b fst p) rest /\ sorted rest
  end.
