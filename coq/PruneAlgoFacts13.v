(** PruneAlgoFacts13 (Stage 2, the deleted keys): the keys that disappear from the store when
    deleteVersion(v) runs are exactly the keys that [Store.prune_version_ops] deletes (those of them
    that were present).  Together with [PruneAlgoFacts10.delete_version_first] (the effective
    result of the physical deleteVersion is [phys_of (rk_next v rn r) f']) this ties the physical
    algorithm to the per-version specification. *)
From Coq Require Import Lia Sorted.
From IAVL Require Import Bytes Varint Tree VMap TreeFacts MTree MTreeFacts HashFacts VersionFacts
  Store StoreFacts PruneAlgo PruneAlgoFacts1 PruneAlgoFacts2 PruneAlgoFacts3 PruneAlgoFacts4
  PruneAlgoFacts5 PruneAlgoFacts6 PruneAlgoFacts7 PruneAlgoFacts8.
Local Open Scope Z_scope.

Definition del_keys (ops : list wop) : list nodekey :=
  flat_map (fun o => match o with WDel (KNode k) => [k] | _ => [] end) ops.

Lemma del_keys_app a b : del_keys (a ++ b) = del_keys a ++ del_keys b.
Proof. unfold del_keys. apply flat_map_app. Qed.

Lemma mhas_false_notin (k : nodekey) (l : list (nodekey * snode)) :
  mhas kcmp k l = false <-> ~ In k (map fst l).
Proof.
  unfold mhas. split.
  - destruct (mfind kcmp k l) eqn:F; [discriminate|]. intros _. exact (mfind_None_notin kcmp kcmp_ok k l F).
  - intros N. rewrite (notin_mfind_None kcmp kcmp_ok k l N). reflexivity.
Qed.

Section Keys.
  Variable f : forest_t.
  Variable iv : Z.
  Hypothesis FI : forest_inv f.
  Hypothesis ND : NoDup (map fst f).
  Hypothesis OK : forest_ok f iv.
  Variables (v : Z) (rv rn : option node) (f'' : forest_t) (r : list Z).
  Hypothesis Ef : f = (v, rv) :: (v + 1, rn) :: f''.
  Hypothesis RK : rekey_ok r f.

  Notation f' := ((v + 1, rn) :: f'').
  Notation r' := (rk_next v rn r).

  Lemma Hz : map fst ((v, rv) :: (v + 1, rn) :: f'') = zseq v (length ((v, rv) :: (v + 1, rn) :: f'')).
  Proof. pose proof (forest_ok_zseq f iv OK) as Z0. rewrite Ef in Z0. exact Z0. Qed.

  Lemma Suf : f = [] ++ (v, rv) :: (v + 1, rn) :: f''.
  Proof. exact Ef. Qed.

  Lemma r_below w : In w r -> w < v.
  Proof. intros I. destruct RK as [_ R]. destruct (R w I) as [A _]. rewrite Ef in A. exact A. Qed.

  Lemma In_v : In (v, rv) f. Proof. rewrite Ef. left. reflexivity. Qed.
  Lemma In_v1 : In (v + 1, rn) f. Proof. rewrite Ef. right. left. reflexivity. Qed.

  Lemma FI' : forest_inv f'.
  Proof.
    replace f' with (filter (fun q => v <? fst q) f); [apply forest_inv_filter, FI|].
    assert (Z0 : map fst f = zseq v (length f)).
    { pose proof (forest_ok_zseq f iv OK) as Z0. rewrite Ef in Z0 at 2. exact Z0. }
    rewrite (filter_gt_skipn f v v Z0).
    replace (Z.to_nat (v + 1 - v)) with 1%nat by lia. rewrite Ef. reflexivity.
  Qed.

  Lemma ND' : NoDup (map fst f').
  Proof. pose proof ND as N. rewrite Ef in N. cbn [map fst] in N. inversion N; assumption. Qed.

  Lemma sub_cases x : sub_of f x <-> sub_of f' x \/ (exists tv, rv = Some tv /\ subtree x tv).
  Proof.
    rewrite Ef. split.
    - intros (w & t & [Q|I] & S).
      + inversion Q; subst. right. eauto.
      + left. exists w, t. auto.
    - intros [(w & t & I & S)|(tv & -> & S)].
      + exists w, t. split; [right; exact I|exact S].
      + exists v, tv. split; [left; reflexivity|exact S].
  Qed.

  Lemma above w rt : In (w, rt) f' -> v < w.
  Proof. exact (f'_above v rv rn f'' Hz w rt). Qed.

  (** a node of tree [v] outside tree [v+1] is in no later tree *)
  Lemma orphan_gone tv u : rv = Some tv -> subtree u tv -> ~ inn rn u -> ~ sub_of f' u.
  Proof. exact (fun E => HN_v f iv FI ND OK v rv rn f'' [] Suf Hz tv E u). Qed.

  Lemma r'_cases : r' = r \/ (exists tn, rn = Some tn /\ node_key tn = (v, 1) /\ r' = v :: r).
  Proof.
    unfold rk_next. destruct rn as [tn|]; [|left; reflexivity].
    destruct (keqb (node_key tn) (v, 1)) eqn:K; [|left; reflexivity].
    apply keqb_true in K. right. exists tn. auto.
  Qed.

  Lemma r'_not_rekey : (forall tn, rn = Some tn -> node_key tn <> (v, 1)) -> r' = r.
  Proof.
    intros N. unfold rk_next. destruct rn as [tn|]; [|reflexivity].
    destruct (keqb (node_key tn) (v, 1)) eqn:K; [|reflexivity].
    apply keqb_true in K. exfalso. exact (N tn eq_refl K).
  Qed.

  (** the orphans of the specification *)
  Lemma spec_orphans tv p :
    rv = Some tv ->
    In p (filter (fun p => negb (mhas kcmp (fst p) (match rn with Some t => nodes_of t | None => [] end)))
            (nodes_of tv)) <->
    exists u, subtree u tv /\ ~ inn rn u /\ p = (node_key u, snode_of u).
  Proof.
    intros Erv. pose proof In_v as Iv0. pose proof In_v1 as Iv1.
    rewrite filter_In, Bool.negb_true_iff, mhas_false_notin. split.
    - intros [I N]. destruct p as [k sn]. apply nodes_of_In in I. destruct I as (u & Su & -> & ->).
      exists u. split; [exact Su|]. split; [|reflexivity].
      intros (tn & Ern & Sn). apply N. rewrite Ern. cbn [fst]. apply in_map_iff.
      exists (node_key u, snode_of u). split; [reflexivity|]. apply nodes_of_In. exists u. auto.
    - intros (u & Su & Nu & ->). split; [apply nodes_of_In; exists u; auto|].
      cbn [fst]. intros I. apply Nu. destruct rn as [tn|] eqn:Ern; [|contradiction].
      apply in_map_iff in I. destruct I as ([k sn] & Ek & I). cbn [fst] in Ek. subst k.
      apply nodes_of_In in I. destruct I as (u' & Su' & Ku & _).
      assert (u = u').
      { apply (fi_coh f FI); [| |exact Ku].
        - exists v, tv. split; [rewrite <- Erv; exact Iv0|exact Su].
        - exists (v + 1), tn. split; [exact Iv1|exact Su']. }
      subst u'. exists tn. auto.
  Qed.

  (** THE DELETED KEYS: present before, absent after  <->  deleted by the specification *)
  Theorem version_keys_exact k :
    (mfind kcmp k (phys_of r f) <> None /\ mfind kcmp k (phys_of r' f') = None) <->
    (In k (del_keys (prune_version_ops f v)) /\ mfind kcmp k (phys_of r f) <> None).
  Proof.
    pose proof (phys_pst f FI ND r) as [_ P]. pose proof (phys_pst f' FI' ND' r') as [_ P'].
    assert (Lk : lookup v f = Some rv) by (rewrite Ef; cbn [lookup]; rewrite Z.eqb_refl; reflexivity).
    assert (Lk1 : lookup (v + 1) f = Some rn).
    { rewrite Ef. cbn [lookup]. replace (v =? v + 1) with false by (symmetry; apply Z.eqb_neq; lia).
      rewrite Z.eqb_refl. reflexivity. }
    unfold prune_version_ops. rewrite Lk, Lk1. rewrite !del_keys_app, !in_app_iff.
    (* the three groups of deletions *)
    set (orph := match rv with
                 | Some t => filter (fun p => negb (mhas kcmp (fst p)
                               (match rn with Some t => nodes_of t | None => [] end))) (nodes_of t)
                 | None => []
                 end).
    assert (G1 : In k (del_keys (flat_map (fun p => let k := fst p in
                      if (snd k =? 1) && (fst k <? v) then [del_node k; del_node (fst k, 0)]
                      else [del_node k]) orph)) <->
                 exists tv u, rv = Some tv /\ subtree u tv /\ ~ inn rn u /\
                   (k = node_key u \/ (nonce (nmeta u) = 1 /\ ver (nmeta u) < v /\ k = (ver (nmeta u), 0)))).
    { unfold del_keys. rewrite in_flat_map. split.
      - intros (o & Io & Ik). apply in_flat_map in Io. destruct Io as (p & Ip & Io).
        unfold orph in Ip. destruct (opt_cases rv) as [(tv & Erv)|Erv]; rewrite Erv in Ip; [|contradiction].
        apply (spec_orphans tv p Erv) in Ip. destruct Ip as (u & Su & Nu & ->).
        exists tv, u. split; [exact Erv|]. split; [exact Su|]. split; [exact Nu|].
        cbv zeta in Io. cbn [fst snd node_key] in Io.
        destruct ((nonce (nmeta u) =? 1) && (ver (nmeta u) <? v)) eqn:T.
        + apply andb_prop in T. destruct T as [T1 T2]. apply Z.eqb_eq in T1. apply Z.ltb_lt in T2.
          destruct Io as [<-|[<-|[]]]; cbn [del_node] in Ik; destruct Ik as [<-|[]]; auto.
        + destruct Io as [<-|[]]. cbn [del_node] in Ik. destruct Ik as [<-|[]]. auto.
      - intros (tv & u & Erv & Su & Nu & Kk).
        assert (Ip : In (node_key u, snode_of u) orph).
        { unfold orph. rewrite Erv. apply (spec_orphans tv _ Erv). exists u. auto. }
        destruct Kk as [->|(N1 & Lt & ->)].
        + exists (del_node (node_key u)). split; [|left; reflexivity].
          apply in_flat_map. exists (node_key u, snode_of u). split; [exact Ip|]. cbv zeta. cbn [fst].
          destruct ((snd (node_key u) =? 1) && (fst (node_key u) <? v)); left; reflexivity.
        + exists (del_node (ver (nmeta u), 0)). split; [|left; reflexivity].
          apply in_flat_map. exists (node_key u, snode_of u). split; [exact Ip|]. cbv zeta.
          cbn [fst snd node_key]. rewrite N1. cbn [Z.eqb Pos.eqb andb].
          replace (ver (nmeta u) <? v) with true by (symmetry; apply Z.ltb_lt; exact Lt).
          right. left. reflexivity. }
    assert (G2 : In k (del_keys (match root_entry v rv with Some _ => [del_node (v, 1)] | None => [] end)) <->
                 (exists e, root_entry v rv = Some ((v, 1), e)) /\ k = (v, 1)).
    { destruct (root_entry v rv) as [[k0 e0]|] eqn:Er.
      - destruct (root_entry_Some _ _ _ _ Er) as [-> _]. cbn. split.
        + intros [<-|[]]. eauto.
        + intros [_ ->]. auto.
      - cbn. split; [tauto|]. intros [[e Q] _]. discriminate. }
    assert (G3 : In k (del_keys (match rn with
                       | Some t => if keqb (node_key t) (v, 1)
                                   then [set_node ((v, 0), ENode (snode_of t)); del_node (v, 1)] else []
                       | None => []
                       end)) <->
                 (exists tn, rn = Some tn /\ node_key tn = (v, 1)) /\ k = (v, 1)).
    { destruct rn as [tn|] eqn:Ern.
      - destruct (keqb (node_key tn) (v, 1)) eqn:K.
        + apply keqb_true in K. cbn. split.
          * intros [<-|[]]. eauto.
          * intros [_ ->]. auto.
        + apply keqb_false in K. cbn. split; [tauto|]. intros [(t & Q & Kt) _]. inversion Q; subst. contradiction.
      - cbn. split; [tauto|]. intros [(t & Q & _) _]. discriminate. }
    fold orph. rewrite G1, G2, G3. clear G1 G2 G3 orph.
    split.
    - (* disappeared -> deleted by the specification *)
      intros [Pr Ab]. split; [|exact Pr].
      assert (Live : forall u, sub_of f' u -> mfind kcmp (pkey r u) (phys_of r' f') = None ->
                (exists tn, rn = Some tn /\ node_key tn = (v, 1)) /\ pkey r u = (v, 1)).
      { intros u Su' Ab'.
        destruct (pkey_cases r u) as [(N1 & Ir & K)|(Nr & K)].
        - exfalso. assert (F' : mfind kcmp (pkey r u) (phys_of r' f') = Some (ENode (snode_of u))); [|congruence].
          apply P'. left. exists u. split; [exact Su'|]. split; [|reflexivity].
          rewrite K. destruct (pkey_cases r' u) as [(_ & _ & K')|([A|A] & _)]; [symmetry; exact K'|contradiction|].
          exfalso. apply A. destruct r'_cases as [->|(_ & _ & _ & ->)]; [exact Ir|right; exact Ir].
        - destruct (pkey_cases r' u) as [(N1 & Ir' & K')|(_ & K')].
          + destruct r'_cases as [E|(tn & Ern & Kt & E)]; rewrite E in Ir'.
            * exfalso. destruct Nr as [A|A]; contradiction.
            * destruct Ir' as [Q|Ir']; [|exfalso; destruct Nr as [A|A]; contradiction].
              split; [exists tn; auto|]. rewrite K. unfold node_key. rewrite N1, <- Q. reflexivity.
          + exfalso. assert (F' : mfind kcmp (pkey r u) (phys_of r' f') = Some (ENode (snode_of u))); [|congruence].
            apply P'. left. exists u. rewrite K, K'. auto. }
      destruct (mfind kcmp k (phys_of r f)) as [e|] eqn:F; [|congruence]. apply P in F.
      destruct F as [(u & Su & -> & ->)|(w & rt & I & Er)].
      + apply sub_cases in Su. destruct Su as [Su'|(tv & Erv & Su)].
        * right. right. exact (Live u Su' Ab).
        * destruct (insub rn u) eqn:Iu.
          -- apply insub_true in Iu. right. right. exact (Live u (HS_v f v rv rn f'' [] Suf Hz u Iu) Ab).
          -- left. exists tv, u. split; [exact Erv|]. split; [exact Su|]. split.
             ++ intros C. apply insub_true in C. congruence.
             ++ destruct (pkey_cases r u) as [(N1 & Ir & K)|(_ & K)]; rewrite K.
                ** right. split; [exact N1|]. split; [exact (r_below _ Ir)|reflexivity].
                ** left. reflexivity.
      + (* a root entry: only that of version v disappears *)
        rewrite Ef in I. destruct I as [Q|I'].
        * inversion Q; subst w rt. destruct (root_entry_Some _ _ _ _ Er) as [-> _].
          right. left. split; [eauto|reflexivity].
        * exfalso. assert (F' : mfind kcmp k (phys_of r' f') = Some e); [|congruence].
          apply P'. right. exists w, rt. auto.
    - (* deleted by the specification and present -> disappeared *)
      intros [D Pr]. split; [exact Pr|].
      destruct (mfind kcmp k (phys_of r' f')) as [e|] eqn:F'; [|reflexivity]. exfalso. apply P' in F'.
      destruct D as [(tv & u & Erv & Su & Nu & Kk)|[[(e0 & Er) ->]|[(tn & Ern & Kt) ->]]].
      + (* an orphan key cannot hold anything afterwards *)
        pose proof (orphan_gone tv u Erv Su Nu) as Gone.
        assert (Suf0 : sub_of f u) by (apply sub_cases; right; eauto).
        destruct F' as [(u' & Su' & K' & _)|(w & rt & I & Er)].
        * assert (Eu : node_key u' = node_key u).
          { pose proof (sub_of_nonce f' FI' u' Su') as Nn'. pose proof (sub_of_nonce f FI u Suf0) as Nn.
            destruct Kk as [->|(N1 & Lt & ->)]; destruct (pkey_cases r' u') as [(N1' & _ & Q)|(_ & Q)];
              rewrite Q in K'; unfold node_key in *; inversion K'; try lia; congruence. }
          apply Gone. assert (u' = u); [|subst; exact Su'].
          apply (fi_coh f FI); [apply sub_cases; left; exact Su'|exact Suf0|exact Eu].
        * destruct (root_entry_Some _ _ _ _ Er) as [Kw _].
          destruct Kk as [->|(_ & _ & ->)]; [|inversion Kw].
          assert (Iw : In (w, rt) f) by (rewrite Ef; right; exact I).
          pose proof (fi_root f FI w rt u Iw Suf0 Kw) as ->.
          apply Gone. exists w, u. split; [exact I|apply sub_refl].
      + (* the root entry of version v *)
        destruct F' as [(u' & Su' & K' & _)|(w & rt & I & Er')].
        * assert (Ku : node_key u' = (v, 1)).
          { destruct (pkey_cases r' u') as [(_ & _ & Q)|(_ & Q)]; rewrite Q in K'; [inversion K'|symmetry; exact K']. }
          pose proof (fi_root f FI v rv u' In_v (proj2 (sub_cases u') (or_introl Su')) Ku) as Erv.
          rewrite Erv, (root_entry_root _ _ Ku) in Er. discriminate.
        * destruct (root_entry_Some _ _ _ _ Er') as [Kw _]. inversion Kw; subst w.
          pose proof (above _ _ I). lia.
      + (* (v,1) after the re-keying *)
        destruct F' as [(u' & Su' & K' & _)|(w & rt & I & Er')].
        * assert (Er' : r' = v :: r).
          { unfold rk_next. rewrite Ern, Kt, (proj2 (keqb_true _ _) eq_refl). reflexivity. }
          destruct (pkey_cases r' u') as [(_ & _ & Q)|([A|A] & Q)]; rewrite Q in K'; [inversion K'| |];
            unfold node_key in K'; inversion K' as [[Qv Qn]].
          -- apply A. symmetry. exact Qn.
          -- apply A. rewrite Er', <- Qv. left. reflexivity.
        * destruct (root_entry_Some _ _ _ _ Er') as [Kw _]. inversion Kw; subst w.
          pose proof (above _ _ I). lia.
  Qed.
End Keys.
