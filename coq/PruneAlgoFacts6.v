(** PruneAlgoFacts6: the whole loop of deleteVersionsTo and the final store.
    [delete_range_ok]: the invariant after versions first..to; [final_store]: after the commit
    the disk is [phys_of (rekeyed disk) f'], and its normal form is [expected_store f']. *)
From Coq Require Import Lia Sorted.
From IAVL Require Import Bytes Varint Tree VMap TreeFacts MTree MTreeFacts HashFacts VersionFacts
  Store StoreFacts PruneAlgo PruneAlgoFacts1 PruneAlgoFacts2 PruneAlgoFacts3 PruneAlgoFacts4
  PruneAlgoFacts5.
Local Open Scope Z_scope.

(** ** Versions and forests *)
Lemma versions_from_to_zseq first to :
  versions_from_to first to = zseq first (Z.to_nat (to + 1 - first)).
Proof.
  unfold versions_from_to. generalize (Z.to_nat (to + 1 - first)) as n. intros n.
  assert (G : forall k, map (fun i => first + Z.of_nat i) (seq k n) = zseq (first + Z.of_nat k) n).
  { induction n as [|n IH]; intros k; cbn [seq map zseq]; [reflexivity|].
    rewrite IH. do 2 f_equal. lia. }
  rewrite G. f_equal. lia.
Qed.

Lemma first_of_forest_eq f : first_of_forest f = first_of f.
Proof. destruct f as [|[v r] f]; reflexivity. Qed.

Lemma latest_of_forest_eq f : latest_of_forest f = latest_of f.
Proof. reflexivity. Qed.

Lemma filter_gt_skipn (f : forest_t) : forall a n,
  map fst f = zseq a (length f) ->
  filter (fun p => n <? fst p) f = skipn (Z.to_nat (n + 1 - a)) f.
Proof.
  induction f as [|[w x] f IH]; intros a n Hz.
  - rewrite skipn_nil. reflexivity.
  - cbn [map fst length zseq] in Hz. injection Hz as Ew Hz'. subst w.
    destruct (n <? a) eqn:C.
    + apply Z.ltb_lt in C. replace (Z.to_nat (n + 1 - a)) with 0%nat by lia. cbn [skipn].
      apply filter_all. intros [w y] I. cbn [fst]. apply Z.ltb_lt.
      destruct I as [Q|I]; [inversion Q; lia|].
      assert (Iw : In w (map fst f)) by (apply in_map_iff; exists (w, y); auto).
      rewrite Hz' in Iw. apply In_zseq in Iw. lia.
    + apply Z.ltb_ge in C. cbn [filter fst]. replace (n <? a) with false by (symmetry; apply Z.ltb_ge; lia).
      replace (Z.to_nat (n + 1 - a)) with (S (Z.to_nat (n + 1 - (a + 1)))) by lia. cbn [skipn].
      apply IH. exact Hz'.
Qed.

Lemma forest_ok_zseq {A} (f : list (Z * A)) iv :
  forest_ok f iv -> map fst f = zseq (first_of f) (length f).
Proof.
  intros [C _]. unfold consecutive in C. rewrite map_length in C.
  destruct f as [|[v a] f]; [reflexivity|]. exact C.
Qed.

(** ** The re-keyed versions of a sorted store are ascending *)
Lemma rekeyed_cons k e st :
  rekeyed ((k, e) :: st) = if snd k =? 0 then fst k :: rekeyed st else rekeyed st.
Proof. unfold rekeyed. cbn [filter fst snd]. destruct (snd k =? 0); reflexivity. Qed.

Lemma rekeyed_In st w : In w (rekeyed st) <-> exists e, In ((w, 0), e) st.
Proof.
  unfold rekeyed. rewrite in_map_iff. split.
  - intros ([[a b] e] & <- & I). apply filter_In in I. destruct I as [I Q]. cbn [fst snd] in *.
    apply Z.eqb_eq in Q. subst b. eauto.
  - intros (e & I). exists ((w, 0), e). split; [reflexivity|]. apply filter_In. auto.
Qed.

Lemma rekeyed_sorted st : msorted kcmp st -> StronglySorted Z.lt (rekeyed st).
Proof.
  induction st as [|[k e] st IH]; intros S; [constructor|].
  cbn [msorted] in S. destruct S as [F S]. rewrite rekeyed_cons.
  destruct (snd k =? 0) eqn:Q; [|auto]. apply Z.eqb_eq in Q. constructor; [auto|].
  apply Forall_forall. intros w Iw. apply rekeyed_In in Iw. destruct Iw as (e' & I').
  rewrite Forall_forall in F. specialize (F _ I'). cbn [fst] in F. apply kcmp_Lt in F.
  unfold klt in F. cbn [fst snd] in F. lia.
Qed.

(** ** The relation between a forest and the list of re-keyed versions *)
Definition rekey_ok (r : list Z) (f : forest_t) : Prop :=
  StronglySorted Z.lt r /\
  forall w, In w r -> w < first_of_forest f /\ exists u, sub_of f u /\ node_key u = (w, 1).

(** the re-keyed versions after [n] deleteVersion calls *)
Fixpoint rk_run (n : nat) (fc : forest_t) (r : list Z) : list Z :=
  match n with
  | O => r
  | S n =>
      match fc with
      | (v, _) :: (((_, rn) :: _) as f') => rk_run n f' (rk_next v rn r)
      | _ => r
      end
  end.

Section Range.
  Variable H : bytes -> bytes.
  Variable f0 : forest_t.
  Variable iv : Z.
  Hypothesis FI : forest_inv f0.
  Hypothesis ND : NoDup (map fst f0).
  Hypothesis OK0 : forest_ok f0 iv.
  Hypothesis WF0 : forall w t, In (w, Some t) f0 -> wf t.
  Hypothesis NC0 : forall w t u c, In (w, Some t) f0 -> subtree u t -> subtree c t ->
                                   fhash H u = fhash H c -> u = c.
  Variable fuel : nat.
  Hypothesis Hfuel : forall w t, In (w, Some t) f0 -> (2 * ncount t + 1 <= fuel)%nat.

  Theorem delete_range_ok : forall (n : nat) fc done v p c r,
    f0 = done ++ fc -> map fst fc = zseq v (length fc) -> (n < length fc)%nat ->
    ST f0 p c fc r v ->
    exists p' c', delete_range H fuel (zseq v n) p c = POk p' /\
                  ST f0 p' c' (skipn n fc) (rk_run n fc r) (v + Z.of_nat n).
  Proof.
    induction n as [|n IH]; intros fc done v p c r Suf Hz Ln HS.
    - exists p, c. cbn [zseq delete_range skipn rk_run]. split; [reflexivity|].
      replace (v + Z.of_nat 0) with v by lia. exact HS.
    - destruct fc as [|[v0 rv] [|[v1 rn] f'']]; cbn [length] in Ln; try lia.
      assert (E0 : v0 = v /\ v1 = v + 1).
      { cbn [map fst length zseq] in Hz. injection Hz as A B _. auto. }
      destruct E0 as [-> ->].
      destruct (delete_version_ok H f0 iv FI ND OK0 WF0 NC0 fuel Hfuel v rv rn f'' done Suf Hz p c r HS)
        as (p1 & c1 & E1 & HS1).
      cbn [zseq delete_range]. rewrite E1.
      destruct (IH ((v + 1, rn) :: f'') (done ++ [(v, rv)]) (v + 1) p1 c1 (rk_next v rn r))
        as (p' & c' & E' & HS').
      + rewrite Suf, <- app_assoc. reflexivity.
      + cbn [map fst length zseq] in Hz |- *. injection Hz as Hz'. rewrite Hz'. reflexivity.
      + cbn [length]. lia.
      + exact HS1.
      + exists p', c'. split; [exact E'|]. cbn [skipn rk_run].
        replace (v + Z.of_nat (S n)) with (v + 1 + Z.of_nat n) by lia. exact HS'.
  Qed.

  (** the initial state of the call *)
  Lemma ST_init r sched eff :
    f0 <> [] -> (forall w, In w r -> w < first_of f0) ->
    ST f0 (Pdb (phys_of r f0) [] sched [] [] eff [] [phys_of r f0]) rkc_new f0 r (first_of f0).
  Proof.
    intros NE Hr.
    destruct (forest_ok_range f0 iv OK0 NE) as (R1 & _ & R).
    assert (Cx : ctx f0 (sub_of f0) f0 f0 r (first_of f0)).
    { constructor.
      - constructor; [auto|apply incl_refl|].
        intros w Iw w' rt I. specialize (Hr w Iw).
        assert (Iw' : In w' (map fst f0)) by (apply in_map_iff; exists (w', rt); auto).
        apply (forest_ok_In f0 iv w' OK0) in Iw'. lia.
      - apply incl_refl.
      - intros w t I. exists w, t. split; [exact I|apply sub_refl].
      - exact Hr. }
    pose proof (phys_pst f0 FI ND r) as PV.
    pose proof (vgood_of_pst f0 FI _ f0 f0 r (first_of f0) _ Cx PV) as (S & K & R0').
    split; [split; [exact Cx|]|apply cache_ok_new; lia].
    constructor; unfold Vof; cbn [disk pend dhist sapply_all fold_left]; auto.
    split; auto.
  Qed.
End Range.
