(** PruneAlgoFacts12 (Stage 5): the two ways of indexing the flush schedule.

    Every run with [effmode = true] (one boolean per EFFECTIVE write, an ineffective deletion never
    flushes) is the run with [effmode = false] of a schedule obtained by inserting [false] at the
    ineffective writes (and padding with [false]): same disk, same batch, same writes issued, same
    effective writes, same disk history ([tw]).  The schedule is built write by write
    ([simp_pwrite]); the rest is a simulation through the code. *)
From Coq Require Import Lia.
From IAVL Require Import Bytes Varint Tree MTree Store PruneAlgo PruneAlgoFacts5.
Local Open Scope Z_scope.

Definition tw (p q : pdb) : Prop :=
  disk p = disk q /\ pend p = pend q /\ wlog p = wlog q /\ elog p = elog q /\ dhist p = dhist q /\
  effmode p = true /\ effmode q = false.

Definition twr (a b : pres pdb) : Prop :=
  match a, b with
  | POk p, POk q => tw p q
  | PNoVersion, PNoVersion | PErr, PErr | PFuel, PFuel => True
  | _, _ => False
  end.

(** [F] run in effective mode from [p] is matched by [F] run in plain mode on [sg ++ tau] *)
Definition sim {X} (F : pdb -> pres pdb * X) : Prop :=
  forall p, effmode p = true ->
  exists sg,
    (forall p', fst (F p) = POk p' -> effmode p' = true) /\
    forall q tau, tw p q -> sched q = sg ++ tau ->
      twr (fst (F p)) (fst (F q)) /\ snd (F p) = snd (F q) /\
      (forall q', fst (F q) = POk q' -> sched q' = tau).

Definition simp (F : pdb -> pdb) : Prop := sim (fun p => (POk (F p), tt)).

Lemma sim_ext {X} (F G : pdb -> pres pdb * X) : (forall p, F p = G p) -> sim F -> sim G.
Proof.
  intros E S p Ep. destruct (S p Ep) as (sg & A & B). exists sg. rewrite <- E. split; [exact A|].
  intros q tau T Sq. rewrite <- E. exact (B q tau T Sq).
Qed.

Lemma sim_ret {X} (x : X) : sim (fun p => (POk p, x)).
Proof.
  intros p Ep. exists []. cbn [fst snd]. split; [intros p' Q; inversion Q; subst; exact Ep|].
  intros q tau T Sq. split; [exact T|]. split; [reflexivity|]. intros q' Q. inversion Q; subst. exact Sq.
Qed.

Lemma sim_err {X} (e : pres pdb) (x : X) :
  match e with POk _ => False | _ => True end -> sim (fun _ => (e, x)).
Proof.
  intros Ne p Ep. exists []. cbn [fst snd]. split; [intros p' Q; rewrite Q in Ne; contradiction|].
  intros q tau T Sq. split; [destruct e; try exact I; contradiction|]. split; [reflexivity|].
  intros q' Q. rewrite Q in Ne. contradiction.
Qed.

Lemma sim_bind {X Y} (F : pdb -> pres pdb * X) (G : X -> pdb -> pres pdb * Y) (h : pres pdb -> X -> Y) :
  sim F -> (forall x, sim (G x)) ->
  sim (fun p => match F p with
                | (POk p', x) => G x p'
                | (e, x) => (e, h e x)
                end).
Proof.
  intros SF SG p Ep. destruct (SF p Ep) as (s1 & A1 & B1).
  destruct (F p) as [[p'| | |] x] eqn:EF; cbn [fst snd] in *.
  - destruct (SG x p' (A1 p' eq_refl)) as (s2 & A2 & B2). exists (s1 ++ s2). split; [exact A2|].
    intros q tau T Sq. rewrite <- app_assoc in Sq. destruct (B1 q (s2 ++ tau) T Sq) as (R & Ex & Sc).
    destruct (F q) as [[q'| | |] x'] eqn:EQ; cbn [fst snd twr] in *; try contradiction. subst x'.
    exact (B2 q' tau R (Sc q' eq_refl)).
  - exists s1. split; [discriminate|]. intros q tau T Sq. destruct (B1 q tau T Sq) as (R & Ex & _).
    destruct (F q) as [[q'| | |] x'] eqn:EQ; cbn [fst snd twr] in *; try contradiction. subst x'.
    split; [exact I|]. split; [reflexivity|discriminate].
  - exists s1. split; [discriminate|]. intros q tau T Sq. destruct (B1 q tau T Sq) as (R & Ex & _).
    destruct (F q) as [[q'| | |] x'] eqn:EQ; cbn [fst snd twr] in *; try contradiction. subst x'.
    split; [exact I|]. split; [reflexivity|discriminate].
  - exists s1. split; [discriminate|]. intros q tau T Sq. destruct (B1 q tau T Sq) as (R & Ex & _).
    destruct (F q) as [[q'| | |] x'] eqn:EQ; cbn [fst snd twr] in *; try contradiction. subst x'.
    split; [exact I|]. split; [reflexivity|discriminate].
Qed.

(** reads go to the disk, which the two runs share *)
Lemma sim_read {X} (K : store -> pdb -> pres pdb * X) :
  (forall d, sim (K d)) -> sim (fun p => K (disk p) p).
Proof.
  intros S p Ep. destruct (S (disk p) p Ep) as (sg & A & B). exists sg. split; [exact A|].
  intros q tau T Sq. pose proof T as (Ed & _). rewrite <- Ed. exact (B q tau T Sq).
Qed.

Lemma sim_pre {X} (x0 : X) (F : pdb -> pdb) (G : pdb -> pres pdb * X) :
  simp F -> sim G -> sim (fun p => G (F p)).
Proof.
  intros SF SG.
  apply (sim_ext (fun p => match (POk (F p), tt) with
                           | (POk p', x) => G p'
                           | (e, x) => (e, x0)
                           end)); [reflexivity|].
  exact (sim_bind (fun p => (POk (F p), tt)) (fun _ => G) (fun _ _ => x0) SF (fun _ => SG)).
Qed.

Lemma simp_comp (F G : pdb -> pdb) : simp F -> simp G -> simp (fun p => G (F p)).
Proof. intros SF SG. exact (sim_pre tt F (fun p => (POk (G p), tt)) SF SG). Qed.

Lemma sim_snd {X Y} (F : pdb -> pres pdb * X) (y : Y) : sim F -> sim (fun p => (fst (F p), y)).
Proof.
  intros S p Ep. destruct (S p Ep) as (sg & A & B). exists sg. cbn [fst snd]. split; [exact A|].
  intros q tau T Sq. destruct (B q tau T Sq) as (R & _ & Sc). auto.
Qed.

(** ** One write: this is where the schedule is built *)
Lemma effective_tw p q o : tw p q -> effective p o = effective q o.
Proof. intros (Ed & Ep & _). unfold effective. rewrite Ed, Ep. reflexivity. Qed.

Lemma simp_pwrite o : simp (fun p => pwrite p o).
Proof.
  intros p Ep. unfold pwrite. cbv zeta. rewrite Ep. cbn [andb].
  destruct (effective p o) eqn:Ef; cbn [negb].
  - (* an effective write consumes one boolean of the schedule *)
    destruct (sched p) as [|[|] rest] eqn:Sp.
    + exists [false]. cbn [fst snd]. split; [intros p' Q; inversion Q; subst; reflexivity|].
      intros q tau T Sq. pose proof (effective_tw p q o T) as Eq. rewrite Ef in Eq.
      destruct T as (Ed & Epd & Ew & Ee & Eh & _ & Eq0). unfold pwrite. cbv zeta.
      rewrite Eq0, <- Eq, Sq. cbn [andb app].
      split; [|split; [reflexivity|intros q' Q; inversion Q; subst; reflexivity]].
      cbn [twr]. unfold tw. cbn [disk pend wlog elog dhist effmode]. rewrite Ed, Epd, Ew, Ee, Eh. auto 10.
    + exists [true]. cbn [fst snd]. split; [intros p' Q; inversion Q; subst; reflexivity|].
      intros q tau T Sq. pose proof (effective_tw p q o T) as Eq. rewrite Ef in Eq.
      destruct T as (Ed & Epd & Ew & Ee & Eh & _ & Eq0). unfold pwrite. cbv zeta.
      rewrite Eq0, <- Eq, Sq. cbn [andb app].
      split; [|split; [reflexivity|intros q' Q; inversion Q; subst; reflexivity]].
      cbn [twr]. unfold tw. cbn [disk pend wlog elog dhist effmode]. rewrite Ed, Epd, Ew, Ee, Eh. auto 10.
    + exists [false]. cbn [fst snd]. split; [intros p' Q; inversion Q; subst; reflexivity|].
      intros q tau T Sq. pose proof (effective_tw p q o T) as Eq. rewrite Ef in Eq.
      destruct T as (Ed & Epd & Ew & Ee & Eh & _ & Eq0). unfold pwrite. cbv zeta.
      rewrite Eq0, <- Eq, Sq. cbn [andb app].
      split; [|split; [reflexivity|intros q' Q; inversion Q; subst; reflexivity]].
      cbn [twr]. unfold tw. cbn [disk pend wlog elog dhist effmode]. rewrite Ed, Epd, Ew, Ee, Eh. auto 10.
  - (* an ineffective deletion never flushes: [false] is inserted *)
    exists [false]. cbn [fst snd]. split; [intros p' Q; inversion Q; subst; reflexivity|].
    intros q tau T Sq. pose proof (effective_tw p q o T) as Eq. rewrite Ef in Eq.
    destruct T as (Ed & Epd & Ew & Ee & Eh & _ & Eq0). unfold pwrite. cbv zeta.
    rewrite Eq0, <- Eq, Sq. cbn [andb app].
    split; [|split; [reflexivity|intros q' Q; inversion Q; subst; reflexivity]].
    cbn [twr]. unfold tw. cbn [disk pend wlog elog dhist effmode]. rewrite Ed, Epd, Ew, Ee, Eh. auto 10.
Qed.

Lemma simp_on_orphan v k : simp (fun p => on_orphan v p k).
Proof.
  unfold on_orphan. destruct ((snd k =? 1) && (fst k <? v)).
  - exact (simp_comp _ _ (simp_pwrite (del_node k)) (simp_pwrite (del_node (fst k, 0)))).
  - apply simp_pwrite.
Qed.

(** ** The simulation through the code *)
Section SimRun.
  Variable H : bytes -> bytes.

  Lemma loop_not_nov : forall fuel v p cur prev org,
    orphans_loop H fuel v p cur prev org <> PNoVersion.
  Proof.
    induction fuel as [|fuel IH]; intros v p cur prev org; cbn [orphans_loop]; [discriminate|].
    destruct (negb (nit_valid prev)).
    { destruct (nerr cur); [discriminate|]. destruct (nerr prev); discriminate. }
    destruct (nerr cur); [discriminate|].
    assert (B : match nstack prev with
                | (pk, pn) :: _ =>
                    if match org with
                       | Some (ok, on) => beq (fetched_hash H pk pn) (fetched_hash H ok on)
                       | None => false
                       end
                    then orphans_loop H fuel v p cur (nit_next (disk p) prev true) None
                    else orphans_loop H fuel v (on_orphan v p pk) cur
                           (nit_next (disk (on_orphan v p pk)) prev false) org
                | [] => PErr
                end <> PNoVersion).
    { destruct (nstack prev) as [|[pk pn] rest]; [discriminate|].
      destruct (match org with Some (ok, on) => _ | None => false end); apply IH. }
    destruct org as [[ok on]|]; [exact B|].
    destruct (nit_valid cur); [|exact B].
    destruct (nstack cur) as [|[k n] rest]; [discriminate|].
    destruct (fst k <=? v); apply IH.
  Qed.

  Lemma sim_loop : forall fuel v cur prev org,
    sim (fun p => (orphans_loop H fuel v p cur prev org, tt)).
  Proof.
    induction fuel as [|fuel IH]; intros v cur prev org; cbn [orphans_loop].
    { apply sim_err. exact I. }
    destruct (negb (nit_valid prev)).
    { destruct (nerr cur); [apply sim_err; exact I|].
      destruct (nerr prev); [apply sim_err; exact I|apply sim_ret]. }
    destruct (nerr cur); [apply sim_err; exact I|].
    assert (B : sim (fun p =>
                (match nstack prev with
                 | (pk, pn) :: _ =>
                     if match org with
                        | Some (ok, on) => beq (fetched_hash H pk pn) (fetched_hash H ok on)
                        | None => false
                        end
                     then orphans_loop H fuel v p cur (nit_next (disk p) prev true) None
                     else orphans_loop H fuel v (on_orphan v p pk) cur
                            (nit_next (disk (on_orphan v p pk)) prev false) org
                 | [] => PErr
                 end, tt))).
    { destruct (nstack prev) as [|[pk pn] rest]; [apply sim_err; exact I|].
      destruct (match org with Some (ok, on) => _ | None => false end).
      - apply (sim_read (fun d p => (orphans_loop H fuel v p cur (nit_next d prev true) None, tt))).
        intros d. apply IH.
      - apply (sim_pre tt (fun p => on_orphan v p pk)
                 (fun p' => (orphans_loop H fuel v p' cur (nit_next (disk p') prev false) org, tt))).
        + apply simp_on_orphan.
        + apply (sim_read (fun d p' => (orphans_loop H fuel v p' cur (nit_next d prev false) org, tt))).
          intros d. apply IH. }
    destruct org as [[ok on]|]; [exact B|].
    destruct (nit_valid cur); [|exact B].
    destruct (nstack cur) as [|[k n] rest]; [apply sim_err; exact I|].
    destruct (fst k <=? v).
    - apply (sim_read (fun d p => (orphans_loop H fuel v p (nit_next d cur true) prev (Some (k, n)), tt))).
      intros d. apply IH.
    - apply (sim_read (fun d p => (orphans_loop H fuel v p (nit_next d cur false) prev None, tt))).
      intros d. apply IH.
  Qed.

  (** [traverse_orphans] with the disk it reads made explicit *)
  Definition trav_d (fuel : nat) (v : Z) (c : rkc) (d : store) (p : pdb) : pres pdb * rkc :=
    match rkc_get c d (v + 1) with
    | (POk curk, c1) =>
        match nit_new d curk with
        | None => (PErr, c1)
        | Some cur =>
            match rkc_get c1 d v with
            | (POk prevk, c2) =>
                match nit_new d prevk with
                | None => (PErr, c2)
                | Some prev => (orphans_loop H fuel v p cur prev None, c2)
                end
            | (PNoVersion, c2) => (PNoVersion, c2)
            | (PErr, c2) => (PErr, c2)
            | (PFuel, c2) => (PFuel, c2)
            end
        end
    | (PNoVersion, c1) => (PNoVersion, c1)
    | (PErr, c1) => (PErr, c1)
    | (PFuel, c1) => (PFuel, c1)
    end.

  Lemma trav_eq fuel v p c : traverse_orphans H fuel v p c = trav_d fuel v c (disk p) p.
  Proof. reflexivity. Qed.

  Definition step1_d (fuel : nat) (v : Z) (c1 : rkc) (rootk : option nodekey) (d : store) (p : pdb)
    : pres pdb * rkc :=
    match rootk with
    | Some _ =>
        match trav_d fuel v c1 d p with
        | (POk p', c2) => (POk p', c2)
        | (PNoVersion, c2) => (POk p, c2)
        | (e, c2) => (e, c2)
        end
    | None => (POk p, c1)
    end.

  Lemma step1_eq fuel v p c1 rootk : dv_step1 H fuel v p c1 rootk = step1_d fuel v c1 rootk (disk p) p.
  Proof. reflexivity. Qed.

  Lemma sim_step1_d fuel v c1 rootk d : sim (step1_d fuel v c1 rootk d).
  Proof.
    unfold step1_d. destruct rootk as [k|]; [|apply sim_ret]. unfold trav_d.
    destruct (rkc_get c1 d (v + 1)) as [[curk| | |] c2]; cbv iota beta;
      try (apply sim_err; exact I); try apply sim_ret.
    destruct (nit_new d curk) as [cur|]; cbv iota beta; [|apply sim_err; exact I].
    destruct (rkc_get c2 d v) as [[prevk| | |] c3]; cbv iota beta;
      try (apply sim_err; exact I); try apply sim_ret.
    destruct (nit_new d prevk) as [prev|]; cbv iota beta; [|apply sim_err; exact I].
    apply (sim_ext (fun p => (fst (orphans_loop H fuel v p cur prev None, tt), c3))).
    - intros p. cbn [fst]. pose proof (loop_not_nov fuel v p cur prev None) as N.
      destruct (orphans_loop H fuel v p cur prev None); try reflexivity. contradiction.
    - apply sim_snd, sim_loop.
  Qed.

  (** [dv_tail] with the disk it reads made explicit *)
  Definition tail_d (v : Z) (c2 : rkc) (d : store) (p2 : pdb) : pres pdb * rkc :=
    match rkc_get c2 d (v + 1) with
    | (PErr, c3) => (PErr, c3)
    | (PFuel, c3) => (PFuel, c3)
    | (r3, c3) =>
        let nextk := match r3 with POk k => k | _ => None end in
        match nextk with
        | Some nk =>
            if keqb nk (v, 1) then
              match get_node d nk with
              | None => (PErr, c3)
              | Some root =>
                  let p3 := pwrite p2 (set_node ((v, 0), ENode root)) in
                  (POk (pwrite p3 (del_node (v, 1))), c3)
              end
            else (POk p2, c3)
        | None => (POk p2, c3)
        end
    end.

  Lemma tail_eq v p2 c2 : dv_tail v p2 c2 = tail_d v c2 (disk p2) p2.
  Proof. reflexivity. Qed.

  Lemma sim_tail_d v c2 d : sim (tail_d v c2 d).
  Proof.
    unfold tail_d.
    assert (G : forall (nextk : option nodekey) (c3 : rkc),
              sim (fun p2 => match nextk with
                             | Some nk =>
                                 if keqb nk (v, 1) then
                                   match get_node d nk with
                                   | None => (PErr, c3)
                                   | Some root =>
                                       (POk (pwrite (pwrite p2 (set_node ((v, 0), ENode root)))
                                                    (del_node (v, 1))), c3)
                                   end
                                 else (POk p2, c3)
                             | None => (POk p2, c3)
                             end)).
    { intros nextk c3. destruct nextk as [nk|]; [|apply sim_ret].
      destruct (keqb nk (v, 1)); [|apply sim_ret].
      destruct (get_node d nk) as [root|]; [|apply sim_err; exact I].
      apply (sim_snd (fun p2 => (POk (pwrite (pwrite p2 (set_node ((v, 0), ENode root))) (del_node (v, 1))), tt)) c3).
      exact (simp_comp _ _ (simp_pwrite _) (simp_pwrite _)). }
    destruct (rkc_get c2 d (v + 1)) as [[k| | |] c3]; cbv iota beta zeta.
    - apply G.
    - apply sim_ret.
    - apply sim_err. exact I.
    - apply sim_err. exact I.
  Qed.

  Lemma simp_p2 v rootk : simp (dv_p2 v rootk).
  Proof.
    unfold dv_p2. destruct rootk as [k|]; [destruct (keqb k (v, 1))|]; try apply simp_pwrite.
    exact (sim_ret tt).
  Qed.

  Lemma sim_delete_version fuel v c : sim (fun p => delete_version H fuel v p c).
  Proof.
    pose (K := fun (d : store) (p : pdb) =>
                 match rkc_get c d v with
                 | (PErr, c1) => (PErr, c1)
                 | (PFuel, c1) => (PFuel, c1)
                 | (r, c1) =>
                     let rootk := match r with POk k => k | _ => None end in
                     match dv_step1 H fuel v p c1 rootk with
                     | (POk p1, c2) => dv_tail v (dv_p2 v rootk p1) c2
                     | (e, c2) => (e, c2)
                     end
                 end).
    apply (sim_ext (fun p => K (disk p) p)).
    { intros p. symmetry. apply dv_eq. }
    apply (sim_read K). intros d. unfold K. clear K.
    assert (Body : forall rootk c1,
              sim (fun p => match dv_step1 H fuel v p c1 rootk with
                            | (POk p1, c2) => dv_tail v (dv_p2 v rootk p1) c2
                            | (e, c2) => (e, c2)
                            end)).
    { intros rootk c1.
      apply (sim_bind (fun p => dv_step1 H fuel v p c1 rootk)
               (fun c2 p1 => dv_tail v (dv_p2 v rootk p1) c2) (fun _ c2 => c2)).
      - apply (sim_ext (fun p => step1_d fuel v c1 rootk (disk p) p)); [intros p; symmetry; apply step1_eq|].
        apply sim_read. intros d'. apply sim_step1_d.
      - intros c2. apply (sim_pre c2 (dv_p2 v rootk) (fun p2 => dv_tail v p2 c2)); [apply simp_p2|].
        apply (sim_ext (fun p2 => tail_d v c2 (disk p2) p2)); [intros p2; symmetry; apply tail_eq|].
        apply sim_read. intros d'. apply sim_tail_d. }
    destruct (rkc_get c d v) as [[rootk| | |] c1]; cbv iota beta zeta.
    - apply Body.
    - apply Body.
    - apply sim_err. exact I.
    - apply sim_err. exact I.
  Qed.

  Lemma sim_delete_range fuel vs : forall c, sim (fun p => (delete_range H fuel vs p c, tt)).
  Proof.
    induction vs as [|v rest IH]; intros c; cbn [delete_range]; [apply sim_ret|].
    apply (sim_ext (fun p => match delete_version H fuel v p c with
                             | (POk p', c') => (delete_range H fuel rest p' c', tt)
                             | (e, c') => (e, tt)
                             end)).
    { intros p. destruct (delete_version H fuel v p c) as [[p'| | |] c']; reflexivity. }
    apply (sim_bind (fun p => delete_version H fuel v p c)
             (fun c' p' => (delete_range H fuel rest p' c', tt)) (fun _ _ => tt)).
    - apply sim_delete_version.
    - intros c'. apply IH.
  Qed.

  (** ** Stage 5: every run in effective mode is a run in plain mode *)
  Theorem eff_run_is_plain_run fuel vs st schedule c :
    exists schedule',
      twr (delete_range H fuel vs (Pdb st [] schedule [] [] true [] [st]) c)
          (delete_range H fuel vs (Pdb st [] schedule' [] [] false [] [st]) c).
  Proof.
    destruct (sim_delete_range fuel vs c (Pdb st [] schedule [] [] true [] [st]) eq_refl)
      as (sg & _ & B).
    exists sg.
    destruct (B (Pdb st [] sg [] [] false [] [st]) []) as (R & _).
    - unfold tw. cbn. auto 10.
    - cbn [sched]. rewrite app_nil_r. reflexivity.
    - exact R.
  Qed.

  (** same disk states, same final store *)
  Corollary eff_disks_plain st schedule first latest to :
    exists schedule',
      prune_phys_disks H true st schedule first latest to =
      prune_phys_disks H false st schedule' first latest to.
  Proof.
    destruct (eff_run_is_plain_run (prune_fuel st) (versions_from_to first to) st schedule rkc_new)
      as (s' & R).
    exists s'. unfold prune_phys_disks. destruct (latest <=? to); [reflexivity|]. cbv zeta.
    destruct (delete_range H (prune_fuel st) (versions_from_to first to)
                (Pdb st [] schedule [] [] true [] [st]) rkc_new) as [p| | |];
      destruct (delete_range H (prune_fuel st) (versions_from_to first to)
                  (Pdb st [] s' [] [] false [] [st]) rkc_new) as [q| | |];
      cbn [twr] in R; try contradiction; try reflexivity.
    destruct R as (Ed & Ep & _ & _ & Eh & _). unfold pflush. cbn [dhist]. rewrite Ed, Ep, Eh. reflexivity.
  Qed.

  Corollary eff_store_plain st schedule first latest to :
    exists schedule',
      match prune_phys H true st schedule first latest to,
            prune_phys H false st schedule' first latest to with
      | POk (d1, _, _), POk (d2, _, _) => d1 = d2
      | PNoVersion, PNoVersion | PErr, PErr | PFuel, PFuel => True
      | _, _ => False
      end.
  Proof.
    destruct (eff_run_is_plain_run (prune_fuel st) (versions_from_to first to) st schedule rkc_new)
      as (s' & R).
    exists s'. unfold prune_phys. destruct (latest <=? to); [exact I|]. cbv zeta.
    destruct (delete_range H (prune_fuel st) (versions_from_to first to)
                (Pdb st [] schedule [] [] true [] [st]) rkc_new) as [p| | |];
      destruct (delete_range H (prune_fuel st) (versions_from_to first to)
                  (Pdb st [] s' [] [] false [] [st]) rkc_new) as [q| | |];
      cbn [twr] in R; try contradiction; try exact I.
    destruct R as (Ed & Ep & _). unfold pflush. cbn [disk]. rewrite Ed, Ep. reflexivity.
  Qed.
End SimRun.
