(** FastLifeFacts: the fast-index life cycle (FastLife.v) serves exactly the logical answers.

    - [fcoh] (FastLifeFacts2) is the coherence invariant; [fcoh_spec] below restates it in one
      flat conjunction; [fcoh_init] / [fcoh_step] (FastLifeFacts3) establish and preserve it.
    - [fstep_logical]: in a coherent state every operation leaves the logical state exactly as
      MTree does and returns MTree's answer, whatever path through the index the code takes.
    - [frun_logical]: lifted to every history from a freshly opened tree.
    - Refutations: the hash function matters for idempotent re-commits
      ([recommit_colliding_hash_refuted]), the label must be dropped by
      LoadVersionForOverwriting even when the index is off ([drop_label_refuted]), the index
      must be rebuilt from the LATEST version ([rebuild_from_loaded_refuted], and
      [rebuild_from_loaded_unobservable] for why the model's own operations cannot show it).
    - FastLifeFacts4 discharges the hypothesis [save_honest] for a collision-free hash function
      ([recommit_honest_or_collision], [frun_logical_collision_free]). *)
From Coq Require Import Lia.
From IAVL Require Import Bytes Varint Sha256 Tree VMap TreeFacts MTree MTreeFacts VersionFacts
  Store StoreFacts FastLife FastLifeFacts1 FastLifeFacts2 FastLifeFacts3.
Local Open Scope Z_scope.

(** ** The invariant, flat *)
Theorem fcoh_spec st :
  fcoh st <->
  (dlabel st = mlabel st /\
   (skipf st = false -> mlabel st = Some (latest_version (ms st))) /\
   (forall u, dlabel st = Some u -> u <= latest_version (ms st)) /\
   (forall u, dlabel st = Some u -> u = latest_version (ms st) -> idx_valid (ms st) (fidx st)) /\
   (skipf st = true -> adds st = [] /\ rems st = []) /\
   msorted bcmp (adds st) /\ msorted bcmp (rems st) /\
   (forall k, mfind bcmp k (adds st) <> None -> mfind bcmp k (rems st) = None) /\
   (skipf st = false -> unsaved_ok (ms st) (adds st) (rems st)) /\
   adds_stamped (ms st) (adds st)).
Proof.
  split.
  - intros [[A B C] [D E F G J K] On].
    exact (conj A (conj On (conj B (conj C (conj D (conj E (conj F (conj G (conj J K))))))))).
  - intros (A & On & B & C & D & E & F & G & J & K). constructor; [constructor|constructor|]; auto.
Qed.

(** the unsaved changes are relative to the retained tree of [version] *)
Lemma last_saved_is_version_tree s :
  contig s ->
  (forest s = [] /\ version s = 0 /\ last_saved s = None) \/
  lookup (version s) (forest s) = Some (last_saved s).
Proof.
  intros C. destruct (contig_saved s C) as [(A & B & D)|(_ & L & _)]; [left|right]; auto.
Qed.

(** ** What the index answers *)

(** the two ways ImmutableTree.Get trusts the index, for a tree [t] with version field [tv] *)
Definition idx_answers (st : fstate) (t : option node) (tv : Z) (k : bytes) : Prop :=
  (forall u v, mfind bcmp k (fidx st) = Some (u, v) -> u <= tv -> walk_get t k = Some v) /\
  (mfind bcmp k (fidx st) = None -> tv = latest_version (ms st) -> walk_get t k = None).

Lemma imm_get_gen st t tv k :
  (skipf st = false -> mlabel st <> None -> idx_answers st t tv k) ->
  imm_get st t tv k = walk_get t k.
Proof.
  intros A. unfold imm_get. destruct t as [n|]; [|reflexivity].
  destruct (skipf st) eqn:Sk; [reflexivity|].
  destruct (mlabel st) as [l|] eqn:ML; [|reflexivity].
  destruct k as [|b k']; [reflexivity|].
  destruct (A eq_refl ltac:(discriminate)) as [A1 A2].
  destruct (mfind bcmp (b :: k') (fidx st)) as [[u v]|] eqn:F.
  - destruct (u <=? tv) eqn:Le; [|reflexivity]. apply Z.leb_le in Le. symmetry.
    exact (A1 u v eq_refl Le).
  - destruct (tv =? latest_version (ms st)) eqn:Eq; [|reflexivity]. apply Z.eqb_eq in Eq.
    symmetry. exact (A2 eq_refl Eq).
Qed.

(** in a coherent state the index answers for every retained version *)
Lemma idx_answers_retained st t tv k :
  contig (ms st) -> fcoh st -> skipf st = false ->
  lookup tv (forest (ms st)) = Some t -> idx_answers st t tv k.
Proof.
  intros C [[A B D] _ On] Sk L. specialize (On Sk).
  assert (Vd : idx_valid (ms st) (fidx st)).
  { apply (D (latest_version (ms st))); [rewrite A; exact On|reflexivity]. }
  pose proof (retained_le_latest (ms st) tv t C L) as R. split.
  - intros u v F Le. destruct (iv_some _ _ Vd k u v F) as [_ P]. apply (P tv t L). lia.
  - intros F Eq. subst tv. rewrite <- (ltree_lookup (ms st) t L). apply (iv_none _ _ Vd k F).
Qed.

Lemma idx_valid_on st :
  fcoh st -> skipf st = false -> idx_valid (ms st) (fidx st).
Proof.
  intros [[A B D] _ On] Sk. specialize (On Sk).
  apply (D (latest_version (ms st))); [rewrite A; exact On|reflexivity].
Qed.

Lemma idx_empty_store st :
  fcoh st -> skipf st = false -> forest (ms st) = [] -> fidx st = [].
Proof.
  intros Co Sk F. pose proof (iv_vals _ _ (idx_valid_on st Co Sk)) as Vs.
  rewrite (ltree_empty _ F) in Vs. cbn [oelems] in Vs.
  destruct (fidx st); [reflexivity|discriminate Vs].
Qed.

(** ... and for the last saved tree with the version field of the working tree *)
Lemma idx_answers_saved st k :
  contig (ms st) -> fcoh st -> skipf st = false ->
  idx_answers st (last_saved (ms st)) (version (ms st)) k.
Proof.
  intros C Co Sk. destruct (contig_saved (ms st) C) as [(V & F & LS)|(_ & L & _)].
  - unfold idx_answers. rewrite LS, (idx_empty_store st Co Sk F). split.
    + intros u v Q. discriminate Q.
    + reflexivity.
  - apply idx_answers_retained; assumption.
Qed.

Lemma idx_answers_walk st t t' tv k :
  walk_get t k = walk_get t' k -> idx_answers st t' tv k -> idx_answers st t tv k.
Proof. unfold idx_answers. intros ->. tauto. Qed.

(** MutableTree.Get *)
Lemma mut_get_correct st k :
  contig (ms st) -> fcoh st -> mut_get st k = walk_get (root (ms st)) k.
Proof.
  intros C Co. unfold mut_get. destruct (root (ms st)) as [n|] eqn:R; [|reflexivity].
  rewrite <- R. destruct (skipf st) eqn:Sk.
  - apply imm_get_gen. intros Q. congruence.
  - pose proof (uo_unsaved _ _ _ _ (fc_uns st Co) Sk k) as U.
    destruct (mfind bcmp k (adds st)) as [[e v]|]; [symmetry; exact U|].
    destruct (mfind bcmp k (rems st)) as [u|]; [symmetry; exact U|].
    apply imm_get_gen. intros _ _.
    apply (idx_answers_walk st _ _ _ _ U). apply idx_answers_saved; assumption.
Qed.

(** GetImmutable(v).Get *)
Lemma imm_get_correct st t tv k :
  contig (ms st) -> fcoh st -> lookup tv (forest (ms st)) = Some t ->
  imm_get st t tv k = walk_get t k.
Proof.
  intros C Co L. apply imm_get_gen. intros Sk _. apply idx_answers_retained; assumption.
Qed.

(** the full-range ascending iterator specification is the list itself *)
Lemma range_all (l : list (bytes * bytes)) : range_spec l None None false true = l.
Proof.
  unfold range_spec. apply filter_all. intros x _. reflexivity.
Qed.

(** the saved tree is the latest tree when the working tree is based on the latest version *)
Lemma saved_walk_latest s k :
  contig s -> version s = latest_version s -> walk_get (last_saved s) k = walk_get (ltree s) k.
Proof.
  intros C V. destruct (contig_saved s C) as [(_ & F & LS)|(_ & L & _)].
  - rewrite LS, (ltree_empty s F). reflexivity.
  - rewrite V in L. rewrite (ltree_lookup s _ L). reflexivity.
Qed.

(** UnsavedFastIterator over the whole range *)
Lemma overlay_correct st :
  state_inv (ms st) -> contig (ms st) -> fcoh st -> skipf st = false ->
  version (ms st) = latest_version (ms st) ->
  overlay st = oelems (root (ms st)).
Proof.
  intros I C Co Sk V. pose proof (idx_valid_on st Co Sk) as Vd.
  destruct (fc_uns st Co) as [U1 U2 U3 U4 U5 U6]. specialize (U5 Sk).
  pose proof (ltree_oinv (ms st) I) as OL.
  assert (Sb : msorted bcmp (map (fun p => (fst p, snd (snd p))) (fidx st))).
  { exact (msorted_mapv bcmp (fun e : Z * bytes => snd e) _ (iv_sorted _ _ Vd)). }
  assert (Sd : msorted bcmp (fold_left (fun acc r => mdel bcmp (fst r) acc) (rems st)
                 (map (fun p => (fst p, snd (snd p))) (fidx st))))
    by (apply (msorted_fold_mdel bcmp), Sb).
  apply (msorted_ext bcmp bcmp_ok).
  - unfold overlay. apply (msorted_fold_mset_vals bcmp bcmp_ok (fun e : Z * bytes => snd e)), Sd.
  - apply oelems_msorted, I.
  - intros k. unfold overlay.
    rewrite (mfind_fold_mset_vals bcmp bcmp_ok (fun e : Z * bytes => snd e) k (adds st) _ U2),
      (mfind_fold_mdel bcmp bcmp_ok k (rems st) _ Sb).
    change (map (fun p => (fst p, snd (snd p))) (fidx st)) with (mapv (fun e : Z * bytes => snd e) (fidx st)).
    rewrite (iv_vals _ _ Vd), <- (walk_get_assoc _ k OL), <- (walk_get_assoc _ k (inv_root _ I)),
      (U5 k), (saved_walk_latest (ms st) k C V).
    destruct (mfind bcmp k (adds st)) as [[e v]|]; reflexivity.
Qed.

Definition is_openat (o : fop) : bool := match o with FOpenAt _ _ => true | _ => false end.

(** the load of a new tree object succeeds *)
Definition openat_ok (st : fstate) (o : fop) : Prop :=
  match o with
  | FOpenAt _ v => snd (do_load (fresh_ms (ms st)) v) <> XErr
  | _ => True
  end.

(** what the caller sees of the logical outputs: the Load() MTree performs before the
    LoadVersion of a new tree object is not an operation of the caller *)
Fixpoint visible (ops : list fop) (xs : list out) : list out :=
  match ops with
  | [] => []
  | o :: rest =>
      match o with
      | FOpenAt _ _ => match xs with _ :: x :: xs' => x :: visible rest xs' | _ => [] end
      | _ => match xs with x :: xs' => x :: visible rest xs' | [] => [] end
      end
  end.

Section Main.
  Variable H : bytes -> bytes.

  (** ** The logical state is untouched by the index machinery *)
  Lemma fstep_ms st o :
    is_openat o = false -> ms (fst (fstep H st o)) = fst (step H (ms st) (logical o)).
  Proof.
    intros NO. destruct o; cbn [fstep logical]; cbn [is_openat] in NO.
    - destruct (step H (ms st) (OSet k v)) as [s' x]. destruct (skipf st); reflexivity.
    - destruct (step H (ms st) (ORemove k)) as [s' x]. cbn [fst].
      destruct x as [| | | | | | |a b]; try reflexivity.
      destruct b as [| |[|]| | | | |]; try reflexivity. destruct (skipf st); reflexivity.
    - destruct (step H (ms st) OSave) as [s' x]. cbn [fst].
      destruct x; try reflexivity;
        destruct (version_exists (ms st) (working_version (ms st))); try reflexivity;
        destruct (skipf st); reflexivity.
    - destruct (step H (ms st) ORollback) as [s' x]. cbn [fst]. unfold clear_unsaved.
      cbn [with_ms skipf]. destruct (skipf st); reflexivity.
    - destruct (step H (ms st) OReopen) as [s' x]. cbn [fst].
      destruct x; try reflexivity. apply enable_ms.
    - discriminate NO.
    - destruct (step H (ms st) (OLoad v)) as [s' x]. cbn [fst].
      destruct x; try reflexivity. destruct (forest (ms st)); rewrite enable_ms; [reflexivity|].
      unfold clear_unsaved. cbn [with_ms skipf]. destruct (skipf st); reflexivity.
    - cbn [step]. unfold do_lvfo. destruct (do_load (ms st) v) as [s1 x1].
      destruct x1; try reflexivity. cbn [fst]. rewrite enable_ms.
      match goal with |- context [if ?c then _ else _] => destruct c end; [reflexivity|].
      match goal with |- context [match mlabel ?s with _ => _ end] => destruct (mlabel s) end;
        reflexivity.
    - destruct (step H (ms st) (OPrune n)) as [s' x]. reflexivity.
    - reflexivity.
    - cbn [step]. unfold tree_of. destruct (lookup v (forest (ms st))); reflexivity.
    - cbn [step]. unfold tree_of. destruct (lookup v (forest (ms st))) as [[n|]|]; reflexivity.
    - reflexivity.
    - cbn [step]. unfold tree_of. destruct (lookup v (forest (ms st))); reflexivity.
  Qed.

  (** ** The answers are the logical ones *)
  Lemma fstep_out st o :
    is_openat o = false ->
    state_inv (ms st) -> contig (ms st) -> fcoh st ->
    snd (fstep H st o) = snd (step H (ms st) (logical o)).
  Proof.
    intros NO I C Co. destruct o; cbn [fstep logical]; cbn [is_openat] in NO.
    - destruct (step H (ms st) (OSet k v)) as [s' x]. reflexivity.
    - destruct (step H (ms st) (ORemove k)) as [s' x]. reflexivity.
    - destruct (step H (ms st) OSave) as [s' x]. reflexivity.
    - destruct (step H (ms st) ORollback) as [s' x]. reflexivity.
    - destruct (step H (ms st) OReopen) as [s' x]. reflexivity.
    - discriminate NO.
    - destruct (step H (ms st) (OLoad v)) as [s' x]. reflexivity.
    - cbn [step]. unfold do_lvfo. destruct (do_load (ms st) v) as [s1 x1].
      destruct x1; reflexivity.
    - destruct (step H (ms st) (OPrune n)) as [s' x]. reflexivity.
    - cbn [step snd tree_read]. rewrite (mut_get_correct st k C Co). reflexivity.
    - cbn [step]. unfold tree_of. destruct (lookup v (forest (ms st))) as [t|] eqn:L; [|reflexivity].
      cbn [snd tree_read]. rewrite (imm_get_correct st t v k C Co L). reflexivity.
    - cbn [step]. unfold tree_of. destruct (lookup v (forest (ms st))) as [t|] eqn:L.
      + pose proof (imm_get_correct st t v k C Co L) as Slow.
        assert (Goal : (if skipf st then imm_get st t v k
                        else if fast_enabled st (version (ms st)) then
                          match k with
                          | [] => imm_get st t v k
                          | _ :: _ =>
                              match mfind bcmp k (fidx st) with
                              | None => if v =? latest_version (ms st) then None else imm_get st t v k
                              | Some (u, val) => if u <=? v then Some val else imm_get st t v k
                              end
                          end
                        else imm_get st t v k) = walk_get t k).
        { destruct (skipf st) eqn:Sk; [exact Slow|].
          destruct (fast_enabled st (version (ms st))); [|exact Slow].
          destruct k as [|b k']; [exact Slow|].
          destruct (idx_answers_retained st t v (b :: k') C Co Sk L) as [A1 A2].
          destruct (mfind bcmp (b :: k') (fidx st)) as [[u val]|] eqn:F.
          - destruct (u <=? v) eqn:Le; [|exact Slow]. apply Z.leb_le in Le. symmetry.
            exact (A1 u val eq_refl Le).
          - destruct (v =? latest_version (ms st)) eqn:Eq; [|exact Slow]. apply Z.eqb_eq in Eq.
            symmetry. exact (A2 eq_refl Eq). }
        cbn [snd]. rewrite Goal. destruct t; reflexivity.
      + reflexivity.
    - cbn [step snd tree_read]. rewrite range_all.
      destruct (skipf st) eqn:Sk; cbn [negb andb]; [reflexivity|].
      unfold fast_enabled. destruct (version (ms st) =? latest_version (ms st)) eqn:V;
        cbn [andb]; [|reflexivity].
      destruct (mlabel st); [|reflexivity]. apply Z.eqb_eq in V.
      rewrite (overlay_correct st I C Co Sk V). reflexivity.
    - cbn [step]. unfold tree_of. destruct (lookup v (forest (ms st))) as [t|] eqn:L; [|reflexivity].
      cbn [snd tree_read]. rewrite range_all.
      destruct (skipf st) eqn:Sk; cbn [negb andb]; [reflexivity|].
      unfold fast_enabled. destruct (v =? latest_version (ms st)) eqn:V; cbn [andb]; [|reflexivity].
      destruct (mlabel st); [|reflexivity]. apply Z.eqb_eq in V. subst v.
      change (map (fun p => (fst p, snd (snd p))) (fidx st))
        with (mapv (fun e : Z * bytes => snd e) (fidx st)).
      rewrite (iv_vals _ _ (idx_valid_on st Co Sk)), (ltree_lookup _ _ L). reflexivity.
  Qed.

  (** ** A new tree object that loads a version directly *)
  Lemma fstep_openat st skip v :
    ms (fst (fstep H st (FOpenAt skip v))) = fst (do_load (fresh_ms (ms st)) v) /\
    snd (fstep H st (FOpenAt skip v)) = snd (do_load (fresh_ms (ms st)) v).
  Proof.
    cbn [fstep step].
    change (MState None 0 None (forest (ms st)) (init_ver (ms st)) (init_opt (ms st))
                   (init_opt (ms st))) with (fresh_ms (ms st)).
    destruct (do_load (fresh_ms (ms st)) v) as [s' x]. cbn [fst snd]. split; [|reflexivity].
    destruct x; try reflexivity. apply enable_ms.
  Qed.

  (** (b) when the load succeeds the state is the one MTree reaches by [OReopen; OLoad v] and
      the answer is the last answer of that run *)
  Theorem fstep_logical_openat st skip v :
    contig (ms st) -> snd (do_load (fresh_ms (ms st)) v) <> XErr ->
    ms (fst (fstep H st (FOpenAt skip v))) = fst (run H (ms st) [OReopen; OLoad v]) /\
    snd (fstep H st (FOpenAt skip v)) = last (snd (run H (ms st) [OReopen; OLoad v])) XErr.
  Proof.
    intros C Ok. destruct (fstep_openat st skip v) as [E1 E2].
    destruct (openat_logical H (ms st) v C) as [A B]. rewrite E1, E2. split; [apply B, Ok|exact A].
  Qed.

  (** when the load fails the answer is still MTree's ([XErr]), but the object stays unloaded:
      its logical state is [fresh_ms], not the state after [OReopen; OLoad v] (where the
      failed load leaves the latest version loaded); the label has not been compared with the
      store *)
  Theorem fstep_openat_error st skip v :
    contig (ms st) -> snd (do_load (fresh_ms (ms st)) v) = XErr ->
    fstep H st (FOpenAt skip v) =
      (FS (fresh_ms (ms st)) (fidx st) (dlabel st) (dlabel st) skip [] [], XErr) /\
    last (snd (run H (ms st) [OReopen; OLoad v])) XErr = XErr /\
    fst (run H (ms st) [OReopen; OLoad v]) = fst (step H (ms st) OReopen).
  Proof.
    intros C E. split; [apply openat_error, E|].
    destruct (openat_logical H (ms st) v C) as [A _]. rewrite <- A. split; [exact E|].
    cbn [run step]. destruct (do_reopen_spec (ms st) (contig_forest_ok _ C))
      as [(F & Er)|(NE & r & L & Er)]; rewrite Er.
    - unfold fresh_ms in E. rewrite F in E.
      destruct (do_load_cases (MState None 0 None [] (init_ver (ms st)) (init_opt (ms st))
                                      (init_opt (ms st))) v) as [E1|[(_ & _ & E1)|(tv & r & _ & E1)]];
        rewrite E1 in *; cbn [snd] in E; try discriminate E. reflexivity.
    - destruct (do_load_fresh (forest (ms st)) (init_ver (ms st)) (init_opt (ms st))
                  (init_opt (ms st)) r (latest_version (ms st)) v NE) as [A' _].
      unfold fresh_ms in E. rewrite A' in E.
      destruct (do_load_cases (MState r (latest_version (ms st)) r (forest (ms st))
                  (init_ver (ms st)) (init_opt (ms st)) (init_opt (ms st))) v)
        as [E1|[(_ & _ & E1)|(tv & r' & _ & E1)]];
        rewrite E1 in *; cbn [snd] in E; try discriminate E. reflexivity.
  Qed.

  (** THE MAIN THEOREM, for the operations of an open tree object (the usage contract is not
      even needed for one step: it is what keeps the state coherent, [fcoh_step]) *)
  Theorem fstep_logical_any st o :
    is_openat o = false ->
    state_inv (ms st) -> contig (ms st) -> fcoh st ->
    ms (fst (fstep H st o)) = fst (step H (ms st) (logical o)) /\
    snd (fstep H st o) = snd (step H (ms st) (logical o)).
  Proof.
    intros NO I C Co. split; [apply fstep_ms, NO|apply fstep_out; assumption].
  Qed.

  Lemma run_single s x : run H s [x] = (fst (step H s x), [snd (step H s x)]).
  Proof. rewrite run_cons. reflexivity. Qed.

  Lemma logical_ops_single o : is_openat o = false -> logical_ops o = [logical o].
  Proof. destruct o; cbn [is_openat]; try discriminate; reflexivity. Qed.

  (** THE MAIN THEOREM, every operation: the logical state is the one MTree reaches by
      [logical_ops o] and the answer is MTree's (last) answer *)
  Theorem fstep_logical st o :
    state_inv (ms st) -> contig (ms st) -> fin_contract H st o -> fcoh st ->
    ms (fst (fstep H st o)) = fst (run H (ms st) (logical_ops o)) /\
    snd (fstep H st o) = last (snd (run H (ms st) (logical_ops o))) XErr.
  Proof.
    intros I C [_ FC] Co. destruct (is_openat o) eqn:NO.
    - destruct o; try discriminate NO. cbn [logical_ops]. apply fstep_logical_openat; assumption.
    - rewrite (logical_ops_single o NO), run_single. cbn [fst snd last].
      apply fstep_logical_any; assumption.
  Qed.

  (** ** Histories *)
  Fixpoint frun_ok (st : fstate) (ops : list fop) : Prop :=
    match ops with
    | [] => True
    | o :: rest => fin_contract H st o /\ frun_ok (fst (fstep H st o)) rest
    end.

  Lemma frun_cons st o ops :
    frun H st (o :: ops) =
      (fst (frun H (fst (fstep H st o)) ops),
       snd (fstep H st o) :: snd (frun H (fst (fstep H st o)) ops)).
  Proof.
    cbn [frun]. destruct (fstep H st o) as [s1 x]. cbn [fst snd].
    destruct (frun H s1 ops) as [s2 xs]. reflexivity.
  Qed.

  Lemma logical_ops_ok st o : fin_contract H st o -> run_ok H (ms st) (logical_ops o).
  Proof.
    intros [IC _]. destruct o; cbn [logical_ops logical run_ok in_contract] in *; auto.
  Qed.

  (** all four invariants travel together along a history in contract *)
  Record fgood (st : fstate) : Prop := FGood {
    fg_inv : state_inv (ms st);
    fg_contig : contig (ms st);
    fg_coh : fcoh st
  }.

  Lemma fgood_step st o : fgood st -> fin_contract H st o -> fgood (fst (fstep H st o)).
  Proof.
    intros [I C Co] FC. destruct (fstep_logical st o I C FC Co) as [M _]. constructor.
    - rewrite M. apply run_inv, I.
    - rewrite M. apply run_contig; [exact C|apply logical_ops_ok, FC].
    - apply fcoh_step; assumption.
  Qed.

  Lemma visible_cons o ops s xs :
    visible (o :: ops) (snd (run H s (logical_ops o)) ++ xs) =
    last (snd (run H s (logical_ops o))) XErr :: visible ops xs.
  Proof.
    destruct o; cbn [logical_ops]; rewrite ?run_single; try reflexivity.
    rewrite run_cons, run_single. reflexivity.
  Qed.

  (** (c) the lift: the logical history is the concatenation of [logical_ops]; every
      [FOpenAt] of the history succeeds (part of [fin_contract]) *)
  Theorem frun_logical_from ops : forall st,
    fgood st -> frun_ok st ops ->
    fgood (fst (frun H st ops)) /\
    ms (fst (frun H st ops)) = fst (run H (ms st) (concat (map logical_ops ops))) /\
    snd (frun H st ops) = visible ops (snd (run H (ms st) (concat (map logical_ops ops)))).
  Proof.
    induction ops as [|o ops IH]; intros st G R.
    - cbn [frun run map concat visible fst snd]. auto.
    - destruct R as [FC R]. pose proof (fgood_step st o G FC) as G1.
      destruct (IH _ G1 R) as (G2 & E1 & E2).
      destruct (fstep_logical st o (fg_inv st G) (fg_contig st G) FC (fg_coh st G)) as [M X].
      rewrite frun_cons. cbn [map concat]. rewrite run_app. cbn [fst snd].
      rewrite visible_cons, <- M, <- X, <- E1, <- E2. auto.
  Qed.

  Lemma fgood_finit iv b : init_ok iv b -> fgood (finit iv b).
  Proof.
    intros IO. constructor; cbn [finit ms].
    - apply state_inv_init. unfold init_ok in IO. destruct b; lia.
    - apply contig_init, IO.
    - apply fcoh_finit.
  Qed.

  Lemma fgood_opened iv b skip :
    init_ok iv b -> fgood (fst (fstep H (finit iv b) (FOpen skip))).
  Proof. intros IO. apply fgood_step; [apply fgood_finit, IO|split; exact Logic.I]. Qed.

  (** every history from a freshly opened tree, all of whose operations are in contract:
      the answers computed through the index are MTree's answers *)
  Theorem frun_logical iv b skip0 ops :
    init_ok iv b ->
    let st0 := fst (fstep H (finit iv b) (FOpen skip0)) in
    frun_ok st0 ops ->
    ms st0 = fst (step H (init_state iv b) OReopen) /\
    ms (fst (frun H st0 ops)) = fst (run H (ms st0) (concat (map logical_ops ops))) /\
    snd (frun H st0 ops) = visible ops (snd (run H (ms st0) (concat (map logical_ops ops)))) /\
    fcoh (fst (frun H st0 ops)).
  Proof.
    intros IO st0 R. split; [exact (fstep_ms (finit iv b) (FOpen skip0) eq_refl)|].
    destruct (frun_logical_from ops st0 (fgood_opened iv b skip0 IO) R) as (G & E1 & E2).
    split; [exact E1|]. split; [exact E2|exact (fg_coh _ G)].
  Qed.

  (** the same, counting the opening step: the whole history against MTree from [init_state] *)
  Corollary frun_logical_from_init iv b skip0 ops :
    init_ok iv b ->
    frun_ok (fst (fstep H (finit iv b) (FOpen skip0))) ops ->
    snd (frun H (finit iv b) (FOpen skip0 :: ops)) =
    visible (FOpen skip0 :: ops)
      (snd (run H (init_state iv b) (concat (map logical_ops (FOpen skip0 :: ops))))).
  Proof.
    intros IO R.
    destruct (frun_logical_from (FOpen skip0 :: ops) (finit iv b) (fgood_finit iv b IO))
      as (_ & _ & E); [|exact E].
    split; [split; exact Logic.I|exact R].
  Qed.

  (** ** Executable contract check (for the examples) *)
  Fixpoint kvs_eqb (a b : list (bytes * bytes)) : bool :=
    match a, b with
    | [], [] => true
    | (k, v) :: a', (k', v') :: b' => beq k k' && beq v v' && kvs_eqb a' b'
    | _, _ => false
    end.

  Lemma kvs_eqb_true a : forall b, kvs_eqb a b = true -> a = b.
  Proof.
    induction a as [|[k v] a IH]; intros [|[k' v'] b]; cbn [kvs_eqb]; try discriminate;
      [reflexivity|].
    intros E. apply andb_true_iff in E. destruct E as [E E3].
    apply andb_true_iff in E. destruct E as [E1 E2].
    apply beq_true in E1, E2. subst. f_equal. apply IH, E3.
  Qed.

  Definition is_err (x : out) : bool := match x with XErr => true | _ => false end.

  Definition save_honestb (s : mstate) : bool :=
    match lookup (working_version s) (forest s) with
    | Some e => is_err (snd (do_save H s)) || kvs_eqb (oelems e) (oelems (root s))
    | None => true
    end.

  Lemma save_honestb_sound s : save_honestb s = true -> save_honest H s.
  Proof.
    unfold save_honestb, save_honest. intros B e L NE. rewrite L in B.
    apply orb_true_iff in B. destruct B as [B|B].
    - destruct (snd (do_save H s)); try discriminate B. congruence.
    - apply kvs_eqb_true, B.
  Qed.

  Definition fin_contractb (st : fstate) (o : fop) : bool :=
    in_contractb (ms st) (logical o) &&
    match o with
    | FSave => save_honestb (ms st)
    | FOpenAt _ v => negb (is_err (snd (do_load (fresh_ms (ms st)) v)))
    | _ => true
    end.

  Lemma fin_contractb_sound st o : fin_contractb st o = true -> fin_contract H st o.
  Proof.
    unfold fin_contractb, fin_contract. intros B. apply andb_true_iff in B. destruct B as [B1 B2].
    split; [apply in_contractb_iff, B1|]. destruct o; try exact Logic.I.
    - apply save_honestb_sound, B2.
    - destruct (snd (do_load (fresh_ms (ms st)) v)); try discriminate; discriminate B2.
  Qed.

  Fixpoint frun_okb (st : fstate) (ops : list fop) : bool :=
    match ops with
    | [] => true
    | o :: rest => fin_contractb st o && frun_okb (fst (fstep H st o)) rest
    end.

  Lemma frun_okb_sound ops : forall st, frun_okb st ops = true -> frun_ok st ops.
  Proof.
    induction ops as [|o ops IH]; intros st; cbn [frun_okb frun_ok]; [tauto|].
    intros B. apply andb_true_iff in B. destruct B as [B1 B2].
    split; [apply fin_contractb_sound, B1|apply IH, B2].
  Qed.
End Main.

(** ** Variants of the code, to document why two details matter *)
Section Variants.
  Variable H : bytes -> bytes.

  Fixpoint frun_with (f : fstate -> fop -> fstate * out) (st : fstate) (ops : list fop)
    : fstate * list out :=
    match ops with
    | [] => (st, [])
    | o :: rest =>
        let (s1, x) := f st o in
        let (s2, xs) := frun_with f s1 rest in
        (s2, x :: xs)
    end.

  (** (a) LoadVersionForOverwriting that keeps the label when the index is off *)
  Definition fstep_nodrop (st : fstate) (o : fop) : fstate * out :=
    match o with
    | FLvfo v =>
        let (s1, x1) := step H (ms st) (OLoad v) in
        match x1 with
        | XInt _ =>
            let st1 :=
              match forest (ms st) with
              | [] => enable_if_needed (with_ms st s1)
              | _ => enable_if_needed (clear_unsaved (with_ms st s1))
              end in
            let (s2, x2) := step H (ms st) (OLvfo v) in
            let st2 :=
              if latest_version (ms st) <? v + 1 then with_ms st1 s2
              else
                match mlabel st1 with
                | Some _ =>
                    if skipf st1 then with_ms st1 s2          (* <- the label survives *)
                    else FS s2 (fidx st1) None None (skipf st1) (adds st1) (rems st1)
                | None => with_ms st1 s2
                end in
            (enable_if_needed st2, x2)
        | _ => (with_ms st s1, XErr)
        end
    | _ => fstep H st o
    end.

  (** (b) enableFastStorageAndCommit that walks the LOADED tree (stamping its version) and labels
      the index with the latest version, as upstream did *)
  Definition rebuild_loaded (s : mstate) : list (bytes * (Z * bytes)) * option Z :=
    let lv := version s in
    let t := match lookup lv (forest s) with Some t => t | None => None end in
    (map (fun p => (fst p, (lv, snd p))) (oelems t), Some (latest_version s)).

  Definition enable_loaded (st : fstate) : fstate :=
    if upgradeable st then
      let (ix, l) := rebuild_loaded (ms st) in
      FS (ms st) ix l l (skipf st) (adds st) (rems st)
    else st.

  Definition fstep_loaded (st : fstate) (o : fop) : fstate * out :=
    match o with
    | FOpen skip =>
        let (s', x) := step H (ms st) OReopen in
        let st1 := FS s' (fidx st) (dlabel st) (dlabel st) skip [] [] in
        (match x with XOk => enable_loaded st1 | _ => st1 end, x)
    | FOpenAt skip v =>
        let fresh := MState None 0 None (forest (ms st)) (init_ver (ms st))
                            (init_opt (ms st)) (init_opt (ms st)) in
        let st0 := FS fresh (fidx st) (dlabel st) (dlabel st) skip [] [] in
        let (s', x) := step H fresh (OLoad v) in
        (match x with
         | XInt _ => enable_loaded (with_ms st0 s')
         | _ => with_ms st0 s'
         end, x)
    | FLoad v =>
        let (s', x) := step H (ms st) (OLoad v) in
        (match x with
         | XInt _ =>
             match forest (ms st) with
             | [] => enable_loaded (with_ms st s')
             | _ => enable_loaded (clear_unsaved (with_ms st s'))
             end
         | _ => with_ms st s'
         end, x)
    | FLvfo v =>
        let (s1, x1) := step H (ms st) (OLoad v) in
        match x1 with
        | XInt _ =>
            let st1 :=
              match forest (ms st) with
              | [] => enable_loaded (with_ms st s1)
              | _ => enable_loaded (clear_unsaved (with_ms st s1))
              end in
            let (s2, x2) := step H (ms st) (OLvfo v) in
            let st2 :=
              if latest_version (ms st) <? v + 1 then with_ms st1 s2
              else
                match mlabel st1 with
                | Some _ => FS s2 (fidx st1) None None (skipf st1) (adds st1) (rems st1)
                | None => with_ms st1 s2
                end in
            (enable_loaded st2, x2)
        | _ => (with_ms st s1, XErr)
        end
    | _ => fstep H st o
    end.

  (** With the operations of an OPEN tree object the variant (b) cannot be observed: every
      rebuild of a coherent state happens with the latest version loaded ([FOpen] loads the
      latest version before anything else, a later [FLoad] finds the label current, and
      LoadVersionForOverwriting rebuilds after the later versions are gone).  Only [FOpenAt]
      (a new object that loads an old version first) exposes it:
      [rebuild_from_loaded_refuted]. *)
  Lemma enable_loaded_eq st :
    (upgradeable st = true -> version (ms st) = latest_version (ms st)) ->
    enable_loaded st = enable_if_needed st.
  Proof.
    intros A. unfold enable_loaded, enable_if_needed. destruct (upgradeable st); [|reflexivity].
    unfold rebuild_loaded, rebuild. rewrite (A eq_refl). reflexivity.
  Qed.

  Lemma upgradeable_clear_on st s' :
    latest_version s' = latest_version (ms st) ->
    (skipf st = false -> mlabel st = Some (latest_version (ms st))) ->
    upgradeable (clear_unsaved (with_ms st s')) = false /\ upgradeable (with_ms st s') = false.
  Proof.
    intros EL On. unfold upgradeable, clear_unsaved, with_ms. cbn [skipf].
    destruct (skipf st) eqn:Sk; cbn [skipf mlabel ms negb andb]; [auto|].
    rewrite (On eq_refl), EL, Z.eqb_refl. auto.
  Qed.

  Theorem rebuild_from_loaded_unobservable st o :
    is_openat o = false ->
    contig (ms st) -> in_contract (ms st) (logical o) -> fcoh st ->
    fstep_loaded st o = fstep H st o.
  Proof.
    intros NO C IC Co. destruct o; try reflexivity; try discriminate NO;
      cbn [fstep_loaded fstep].
    - destruct (reopen_spec H (ms st) C) as (E & _ & _ & _ & EL & _ & _ & _ & EV & _).
      rewrite E. rewrite enable_loaded_eq; [reflexivity|]. intros _. cbn [ms]. congruence.
    - cbn [step]. destruct (do_load_cases (ms st) v) as [E|[(F & _ & E)|(tv & r & L & E)]];
        rewrite E; [reflexivity| |].
      + rewrite F. rewrite enable_loaded_eq; [reflexivity|]. intros U. exfalso.
        destruct (upgradeable_clear_on st (ms st) eq_refl (fc_on st Co)) as [_ N]. congruence.
      + destruct (forest (ms st)) as [|p f] eqn:F; [discriminate L|]. rewrite <- F.
        rewrite enable_loaded_eq; [reflexivity|]. intros U. exfalso.
        match type of U with upgradeable (clear_unsaved (with_ms st ?s')) = true =>
          destruct (upgradeable_clear_on st s' eq_refl (fc_on st Co)) as [N _] end. congruence.
    - cbn [logical in_contract] in IC. cbn [step].
      destruct (do_load_pos (ms st) v) as [E|(r & L & E)]; [lia| |]; rewrite E; [reflexivity|].
      assert (IR : in_range (ms st) v) by (apply (in_range_lookup _ _ C); eauto).
      destruct (lvfo_removes_exactly H (ms st) v C IR) as (r2 & _ & E2 & _ & _ & _ & EL2 & _).
      cbn [step] in E2, EL2. rewrite E2 in *. cbn [fst] in EL2.
      destruct (forest (ms st)) as [|p f] eqn:F; [discriminate L|]. rewrite <- F in *.
      set (s1 := MState r v r (forest (ms st)) (init_ver (ms st)) (init_set (ms st))
                        (init_opt (ms st))) in *.
      assert (E1 : enable_loaded (clear_unsaved (with_ms st s1)) =
                   enable_if_needed (clear_unsaved (with_ms st s1))).
      { apply enable_loaded_eq. intros U. exfalso.
        destruct (upgradeable_clear_on st s1 eq_refl (fc_on st Co)) as [N _]. congruence. }
      rewrite E1. f_equal. apply enable_loaded_eq. intros _.
      assert (V2 : forall st', version (ms (with_ms st' (MState r2 v r2
                     (filter (fun p => fst p <=? v) (forest (ms st)))
                     (init_ver (ms st)) (init_set (ms st)) (init_opt (ms st))))) = v)
        by reflexivity.
      destruct (latest_version (ms st) <? v + 1); [cbn [with_ms ms version]; congruence|].
      destruct (mlabel (enable_if_needed (clear_unsaved (with_ms st s1))));
        cbn [with_ms ms version]; congruence.
  Qed.
End Variants.

(** ** Refutations *)
Definition xk1 : bytes := [107%N; 49%N].
Definition xk2 : bytes := [107%N; 50%N].
Definition xk3 : bytes := [107%N; 51%N].
Definition xva : bytes := [97%N].
Definition xvb : bytes := [98%N].
Definition xvc : bytes := [99%N].

(** the tree opened with the index on, on an empty store *)
Definition st_on (H : bytes -> bytes) : fstate := fst (fstep H (finit 0 false) (FOpen false)).
Definition st_off (H : bytes -> bytes) : fstate := fst (fstep H (finit 0 false) (FOpen true)).

(** [fstep_logical] / [frun_logical] need [save_honest]: with a colliding hash function an
    "idempotent" re-commit replaces the working tree by a DIFFERENT stored tree while the unsaved
    additions of the replaced tree keep being served.  (With a collision-free hash function the
    hash test of SaveVersion implies equal contents; the examples below check [save_honest]
    by computation for SHA-256.) *)
Definition ops_collide : list fop :=
  [FSet xk1 xva; FSave; FSet xk1 xvb; FSave; FLoad 1; FSet xk1 xvc; FSave; FGet xk1].

Theorem recommit_colliding_hash_refuted :
  exists (H : bytes -> bytes) (ops : list fop),
    let st0 := st_on H in
    state_inv (ms st0) /\ contig (ms st0) /\ fcoh st0 /\
    run_okb H (ms st0) (map logical ops) = true /\
    last (snd (frun H st0 ops)) XErr = XBytes (Some xvc) /\
    last (snd (run H (ms st0) (map logical ops))) XErr = XBytes (Some xvb).
Proof.
  exists (fun _ => []), ops_collide. cbv zeta.
  destruct (fgood_opened (fun _ => []) 0 false false) as [I C Co]; [unfold init_ok; lia|].
  split; [exact I|]. split; [exact C|]. split; [exact Co|].
  vm_compute. repeat split; reflexivity.
Qed.

(** (a) If LoadVersionForOverwriting kept the label while the index is off, a later history
    that reaches the same version number with different contents would be served from the
    stale index. *)
Definition ops_drop : list fop :=
  [FSet xk1 xva; FSave; FSet xk1 xvb; FSave; FOpen true; FLvfo 1; FSet xk1 xvc; FSave;
   FOpen false; FGet xk1].

Theorem drop_label_refuted :
  exists ops : list fop,
    let st0 := st_on sha256 in
    frun_okb sha256 st0 ops = true /\
    last (snd (frun_with (fstep_nodrop sha256) st0 ops)) XErr = XBytes (Some xvb) /\
    last (snd (run sha256 (ms st0) (map logical ops))) XErr = XBytes (Some xvc) /\
    last (snd (frun sha256 st0 ops)) XErr = XBytes (Some xvc).
Proof. exists ops_drop. vm_compute. repeat split; reflexivity. Qed.

(** (b) If the index were rebuilt from the loaded tree (stamped with its version, labelled with
    the latest version, as upstream did), a new tree object that loads an old version first
    would serve version 1's values for version 2: index off, two commits, then
    [FOpenAt false 1]. *)
Definition ops_loaded : list fop :=
  [FSet xk1 xva; FSave; FSet xk1 xvb; FSave; FOpenAt false 1; FGetImm 2 xk1;
   FGetVersioned xk1 2].

Theorem rebuild_from_loaded_refuted :
  exists ops : list fop,
    let st0 := st_off sha256 in
    frun_okb sha256 st0 ops = true /\
    skipn 5 (snd (frun_with (fstep_loaded sha256) st0 ops)) =
      [XBytes (Some xva); XBytes (Some xva)] /\
    skipn 5 (visible ops (snd (run sha256 (ms st0) (concat (map logical_ops ops))))) =
      [XBytes (Some xvb); XBytes (Some xvb)] /\
    skipn 5 (snd (frun sha256 st0 ops)) = [XBytes (Some xvb); XBytes (Some xvb)].
Proof. exists ops_loaded. vm_compute. repeat split; reflexivity. Qed.

(** A finding: a tree object whose first LoadVersion FAILED (or that has not loaded anything
    yet) is outside the invariant: it was created with the index on, nothing has compared the
    persisted label with the store, and GetImmutable(v).Get goes through the stale index.
    Index on, two commits, reopen with the index off, a third commit changing the key, then
    [FOpenAt false 9] (fails: no such version), then [FGetImm 3 k]: the code answers version
    2's value.  ([fin_contract] excludes failing [FOpenAt]s for this reason.) *)
Definition ops_failed : list fop :=
  [FSet xk1 xva; FSave; FSet xk1 xvb; FSave; FOpen true; FSet xk1 xvc; FSave; FOpenAt false 9;
   FGetImm 3 xk1].

Theorem openat_failed_refuted :
  exists ops : list fop,
    let st0 := st_on sha256 in
    frun_okb sha256 st0 (firstn 7 ops) = true /\
    skipn 7 (snd (frun sha256 st0 ops)) = [XErr; XBytes (Some xvb)] /\
    skipn 7 (visible ops (snd (run sha256 (ms st0) (concat (map logical_ops ops))))) =
      [XErr; XBytes (Some xvc)] /\
    let st := fst (frun sha256 st0 (firstn 8 ops)) in
    skipf st = false /\ mlabel st = Some 2 /\ latest_version (ms st) = 3.
Proof. exists ops_failed. vm_compute. repeat split; reflexivity. Qed.

(** ** Examples: a history with the index toggled across reopens, a load of an old version, an
    idempotent re-commit, a rollback, LoadVersionForOverwriting, a different re-commit of the
    same version number, pruning, and new tree objects that load a version directly (one of
    them an old version while the label is stale, so that the index is rebuilt from the latest
    version while an older one is loaded) *)
Definition ops_example : list fop :=
  [FSet xk1 xva; FSet xk2 xvb; FSave; FGet xk1; FIter; FSet xk1 xvc; FRemove xk2; FGet xk2; FIter;
   FSave; FGetImm 1 xk2; FGetVersioned xk1 1; FOpen true; FSet xk3 xva; FSave; FOpen false;
   FGet xk3; FIterImm 3; FLoad 2; FGet xk1; FIter; FSet xk3 xva; FSave; FGet xk3; FIter;
   FSet xk2 xva; FRollback; FGet xk2; FLvfo 2; FGet xk3; FIter; FSet xk1 xva; FSave; FGet xk1;
   FGetImm 3 xk1; FGetImm 2 xk1; FPrune 1; FGetVersioned xk1 2; FGetVersioned xk1 1;
   FIterImm 3; FIterImm 2;
   FOpen true; FSet xk2 xvb; FSave; FOpenAt false 3; FGet xk2; FGetImm 4 xk2;
   FGetVersioned xk2 4; FIter; FIterImm 4; FSet xk2 xvb; FSave; FGet xk2; FIter;
   FOpenAt true 2; FGet xk1; FOpenAt false 0; FGet xk2; FIter].

Example example_in_contract :
  init_ok 0 false /\ frun_okb sha256 (st_on sha256) ops_example = true.
Proof. split; [unfold init_ok; lia|vm_compute; reflexivity]. Qed.

Definition example_outs : list out := snd (frun sha256 (st_on sha256) ops_example).
Definition example_final : fstate := fst (frun sha256 (st_on sha256) ops_example).

(** the idempotent re-commits (23rd and 52nd operations) succeed and return the hash of the
    first commit of that version; the [FOpenAt false 3] with a stale label rebuilds the index
    for version 4 while version 3 is loaded; the index is in use at the end *)
Example example_nontrivial :
  nth 22 example_outs XErr = nth 14 example_outs XOk /\
  nth 14 example_outs XErr <> XErr /\
  nth 51 example_outs XErr = nth 43 example_outs XOk /\
  nth 43 example_outs XErr <> XErr /\
  (let st := fst (frun sha256 (st_on sha256) (firstn 45 ops_example)) in
   version (ms st) = 3 /\ latest_version (ms st) = 4 /\ dlabel st = Some 4 /\
   fidx st = [(xk1, (4, xva)); (xk2, (4, xvb))]) /\
  nth 45 example_outs XErr = XBytes None /\
  nth 46 example_outs XErr = XBytes (Some xvb) /\
  fidx example_final = [(xk1, (4, xva)); (xk2, (4, xvb))] /\
  dlabel example_final = Some 4 /\ skipf example_final = false /\
  available (ms example_final) = [2; 3; 4].
Proof.
  vm_compute. split; [reflexivity|]. split; [discriminate|]. split; [reflexivity|].
  split; [discriminate|]. repeat split; reflexivity.
Qed.

Example fcoh_init_example : fcoh (st_on sha256) /\ fcoh (st_off sha256).
Proof. split; apply fcoh_init; unfold init_ok; lia. Qed.

Lemma example_good :
  fgood example_final /\
  ms example_final =
    fst (run sha256 (ms (st_on sha256)) (concat (map logical_ops ops_example))) /\
  example_outs =
    visible ops_example
      (snd (run sha256 (ms (st_on sha256)) (concat (map logical_ops ops_example)))).
Proof.
  exact (frun_logical_from sha256 ops_example (st_on sha256)
           (fgood_opened sha256 0 false false (proj1 example_in_contract))
           (frun_okb_sound sha256 _ _ (proj2 example_in_contract))).
Qed.

Example fcoh_step_example :
  fcoh example_final /\
  fcoh (fst (fstep sha256 example_final (FSet xk2 xvb))) /\
  fcoh (fst (fstep sha256 example_final (FOpenAt false 2))).
Proof.
  destruct example_good as (G & _ & _).
  split; [exact (fg_coh _ G)|]. split.
  - apply fcoh_step; [exact (fg_inv _ G)|exact (fg_contig _ G)| |exact (fg_coh _ G)].
    split; exact Logic.I.
  - apply fcoh_step; [exact (fg_inv _ G)|exact (fg_contig _ G)| |exact (fg_coh _ G)].
    split; [exact Logic.I|]. apply (proj2 (fin_contractb_sound sha256 example_final (FOpenAt false 2)
      ltac:(vm_compute; reflexivity))).
Qed.

(** the answers computed through the index agree with MTree on the whole history, by
    computation and by the theorem *)
Example frun_logical_example_computed :
  snd (frun sha256 (st_on sha256) ops_example) =
  visible ops_example
    (snd (run sha256 (ms (st_on sha256)) (concat (map logical_ops ops_example)))).
Proof. vm_compute. reflexivity. Qed.

Example frun_logical_example :
  example_outs =
    visible ops_example
      (snd (run sha256 (ms (st_on sha256)) (concat (map logical_ops ops_example)))) /\
  fcoh example_final.
Proof. destruct example_good as (G & _ & E). split; [exact E|exact (fg_coh _ G)]. Qed.

Example fstep_logical_example :
  let st := fst (frun sha256 (st_on sha256) (firstn 19 ops_example)) in
  (* index on, version 2 loaded while 3 is the latest *)
  skipf st = false /\ version (ms st) = 2 /\ latest_version (ms st) = 3 /\
  snd (fstep sha256 st (FGet xk3)) = XBytes None /\
  snd (fstep sha256 st (FGet xk3)) = snd (step sha256 (ms st) (logical (FGet xk3))) /\
  snd (fstep sha256 st (FGetImm 3 xk3)) = XBytes (Some xva) /\
  snd (fstep sha256 st (FGetImm 3 xk3)) = snd (step sha256 (ms st) (logical (FGetImm 3 xk3))).
Proof. vm_compute. repeat split; reflexivity. Qed.

(** a new tree object loading version 2 directly, against MTree's [OReopen; OLoad 2] *)
Example fstep_logical_openat_example :
  let st := fst (frun sha256 (st_on sha256) (firstn 44 ops_example)) in
  (* index off, label stale: Some 3 while 4 is the latest *)
  skipf st = true /\ dlabel st = Some 3 /\ latest_version (ms st) = 4 /\
  snd (do_load (fresh_ms (ms st)) 2) <> XErr /\
  ms (fst (fstep sha256 st (FOpenAt false 2))) = fst (run sha256 (ms st) [OReopen; OLoad 2]) /\
  snd (fstep sha256 st (FOpenAt false 2)) = XInt 4 /\
  last (snd (run sha256 (ms st) [OReopen; OLoad 2])) XErr = XInt 4 /\
  dlabel (fst (fstep sha256 st (FOpenAt false 2))) = Some 4 /\
  (* a failing one: the object stays unloaded *)
  fstep sha256 st (FOpenAt false 7) =
    (FS (fresh_ms (ms st)) (fidx st) (dlabel st) (dlabel st) false [] [], XErr).
Proof.
  vm_compute. split; [reflexivity|]. split; [reflexivity|]. split; [reflexivity|].
  split; [discriminate|]. repeat split; reflexivity.
Qed.

(** the persisted invariant, observed: the values of the index are the pairs of the latest
    tree at the end of the history *)
Example idx_valid_example :
  mapv (fun e : Z * bytes => snd e) (fidx example_final) = oelems (ltree (ms example_final)).
Proof. vm_compute. reflexivity. Qed.

Print Assumptions fcoh_init.
Print Assumptions fcoh_step.
Print Assumptions fstep_logical.
Print Assumptions fstep_logical_openat.
Print Assumptions fstep_openat_error.
Print Assumptions frun_logical.
Print Assumptions frun_logical_from_init.
Print Assumptions recommit_colliding_hash_refuted.
Print Assumptions drop_label_refuted.
Print Assumptions rebuild_from_loaded_refuted.
Print Assumptions openat_failed_refuted.
Print Assumptions rebuild_from_loaded_unobservable.
