(** Proofs about the codec model (Codec.v): round trips, decoder guards, absence of panics,
    order preservation of node keys, root entry classification, storage labels, size hints. *)
From IAVL Require Import Bytes Varint VarintFacts Codec.
From Coq Require Import Lia ZifyBool ZifyNat ZifyN.
Local Open Scope Z_scope.

(** ** ranges *)

Definition in_int8 (z : Z) : Prop := -128 <= z <= 127.
Definition in_int64 (z : Z) : Prop := - 2 ^ 63 <= z < 2 ^ 63.
Definition in_uint32 (z : Z) : Prop := 0 <= z < 2 ^ 32.
(** byte strings [DecodeBytes] can return: [len < MaxInt] *)
Definition short (b : bytes) : Prop := (N.of_nat (length b) < 2 ^ 63 - 1)%N.

Lemma to_int8_fix z : z = to_int8 z <-> in_int8 z.
Proof. unfold to_int8, in_int8. split; intros H; Z.div_mod_to_equations; lia. Qed.

Lemma to_uint32_fix z : z = to_uint32 z <-> in_uint32 z.
Proof. unfold to_uint32, in_uint32. split; intros H; Z.div_mod_to_equations; lia. Qed.

Lemma to_uint64_bound z : (to_uint64 z < 2 ^ 64)%N.
Proof.
  unfold to_uint64. pose proof (Z.mod_pos_bound z (2 ^ 64) ltac:(lia)). lia.
Qed.

Lemma to_uint64_nonneg z : 0 <= z < 2 ^ 63 -> to_uint64 z = Z.to_N z.
Proof. intros H. unfold to_uint64. rewrite Z.mod_small by lia. reflexivity. Qed.

Lemma to_int64_to_uint64 z : in_int64 z -> to_int64 (to_uint64 z) = z.
Proof.
  unfold in_int64, to_int64, to_uint64. intros H.
  pose proof (Z.mod_pos_bound z (2 ^ 64) ltac:(lia)) as Hb.
  rewrite Z2N.id by lia. rewrite Z.mod_mod by lia.
  destruct (z mod 2 ^ 64 <? 2 ^ 63) eqn:E; Z.div_mod_to_equations; lia.
Qed.

Lemma to_int64_range u : in_int64 (to_int64 u).
Proof.
  unfold in_int64, to_int64.
  pose proof (Z.mod_pos_bound (Z.of_N u) (2 ^ 64) ltac:(lia)) as Hb.
  destruct (Z.of_N u mod 2 ^ 64 <? 2 ^ 63) eqn:E; lia.
Qed.

(** ** list helpers *)

Lemma firstn_app_exact {A} k (a b : list A) : length a = k -> firstn k (a ++ b) = a.
Proof. intros <-. apply firstn_length_app. Qed.

Lemma skipn_app_exact {A} k (a b : list A) : length a = k -> skipn k (a ++ b) = b.
Proof. intros <-. apply skipn_length_app. Qed.

(** ** node keys *)

Lemma node_key_bytes_length v n : length (node_key_bytes v n) = 12%nat.
Proof. unfold node_key_bytes. rewrite app_length, !be_enc_length. reflexivity. Qed.

Lemma node_key_bytes_wf v n : well_formed (node_key_bytes v n).
Proof. unfold node_key_bytes. apply well_formed_app. split; apply be_enc_wf. Qed.

Lemma pow256_8 : (256 ^ N.of_nat 8 = 2 ^ 64)%N. Proof. reflexivity. Qed.
Lemma pow256_4 : (256 ^ N.of_nat 4 = 2 ^ 32)%N. Proof. reflexivity. Qed.

Theorem parse_node_key_roundtrip v n :
  in_int64 v -> in_uint32 n -> parse_node_key (node_key_bytes v n) = DOk (v, n).
Proof.
  intros Hv Hn. unfold parse_node_key.
  rewrite node_key_bytes_length. cbn [Nat.ltb Nat.leb].
  unfold node_key_bytes.
  rewrite (firstn_app_exact 8) by apply be_enc_length.
  rewrite (skipn_app_exact 8) by apply be_enc_length.
  rewrite firstn_all2 by (rewrite be_enc_length; lia).
  rewrite be_roundtrip by (rewrite pow256_8; apply to_uint64_bound).
  unfold in_uint32 in Hn.
  rewrite be_roundtrip by (rewrite pow256_4; rewrite Z.mod_small by lia; lia).
  rewrite to_int64_to_uint64 by exact Hv.
  rewrite Z.mod_small by lia. rewrite Z2N.id by lia. reflexivity.
Qed.

Lemma parse_node_key_ok k : (12 <= length k)%nat -> exists v n, parse_node_key k = DOk (v, n).
Proof.
  intros H. unfold parse_node_key.
  destruct (length k <? 12)%nat eqn:E; [lia|]. eauto.
Qed.

Lemma parse_node_key_panic k : parse_node_key k = DPanic <-> (length k < 12)%nat.
Proof.
  unfold parse_node_key. destruct (length k <? 12)%nat eqn:E; split; intros H;
    try discriminate; try reflexivity; lia.
Qed.

(** the (version, nonce) layout is order preserving: lexicographic byte order of keys =
    lexicographic order of (version, nonce) *)
Theorem node_key_compare v n v' n' :
  0 <= v < 2 ^ 63 -> 0 <= v' < 2 ^ 63 -> in_uint32 n -> in_uint32 n' ->
  bcmp (node_key_bytes v n) (node_key_bytes v' n') =
  match v ?= v' with Eq => n ?= n' | c => c end.
Proof.
  unfold in_uint32. intros Hv Hv' Hn Hn'. unfold node_key_bytes.
  rewrite bcmp_app by (now rewrite !be_enc_length).
  rewrite !to_uint64_nonneg by assumption.
  rewrite !Z.mod_small by lia.
  rewrite !be_enc_compare by (rewrite ?pow256_8, ?pow256_4; lia).
  rewrite !Z2N.inj_compare by lia. reflexivity.
Qed.

Theorem node_key_order v n v' n' :
  0 <= v < 2 ^ 63 -> 0 <= v' < 2 ^ 63 -> in_uint32 n -> in_uint32 n' ->
  (bcmp (node_key_bytes v n) (node_key_bytes v' n') = Lt <-> (v < v' \/ (v = v' /\ n < n'))).
Proof.
  intros Hv Hv' Hn Hn'. rewrite node_key_compare by assumption.
  destruct (Z.compare_spec v v') as [E|L|G].
  - rewrite Z.compare_lt_iff. lia.
  - split; [lia | reflexivity].
  - split; [discriminate | lia].
Qed.

Corollary node_key_inj v n v' n' :
  0 <= v < 2 ^ 63 -> 0 <= v' < 2 ^ 63 -> in_uint32 n -> in_uint32 n' ->
  node_key_bytes v n = node_key_bytes v' n' -> v = v' /\ n = n'.
Proof.
  intros Hv Hv' Hn Hn' E.
  pose proof (node_key_compare v n v' n' Hv Hv' Hn Hn') as H.
  rewrite E, bcmp_refl in H.
  destruct (Z.compare_spec v v') as [E1|L|G]; try discriminate.
  symmetry in H. apply Z.compare_eq_iff in H. auto.
Qed.

(** db keys: the 's' prefix does not disturb the order; a version's keys share the 9-byte
    prefix used by prefix scans and range deletes *)
Lemma pad_right_exact w b : length b = w -> pad_right w b = b.
Proof.
  intros <-. unfold pad_right. rewrite firstn_all, Nat.sub_diag. cbn. apply app_nil_r.
Qed.

Lemma db_node_key_exact nk : length nk = 12%nat -> db_node_key nk = prefix_node :: nk.
Proof. intros H. unfold db_node_key, fpf_key. now rewrite pad_right_exact. Qed.

Lemma db_node_key_order v n v' n' :
  0 <= v < 2 ^ 63 -> 0 <= v' < 2 ^ 63 -> in_uint32 n -> in_uint32 n' ->
  (bcmp (db_node_key (node_key_bytes v n)) (db_node_key (node_key_bytes v' n')) = Lt
   <-> (v < v' \/ (v = v' /\ n < n'))).
Proof.
  intros. rewrite !db_node_key_exact by apply node_key_bytes_length.
  cbn [bcmp]. rewrite N.compare_refl. now apply node_key_order.
Qed.

Lemma is_prefix_app a b : is_prefix a (a ++ b) = true.
Proof. induction a as [|x a IH]; cbn; auto. rewrite N.eqb_refl, IH. reflexivity. Qed.

Lemma db_node_prefix_key_prefix v n :
  is_prefix (db_node_prefix_key v) (db_node_key (node_key_bytes v n)) = true.
Proof.
  rewrite db_node_key_exact by apply node_key_bytes_length.
  unfold db_node_prefix_key, node_key_bytes.
  change (prefix_node :: be_enc 8 (to_uint64 v) ++ ?x)
    with ((prefix_node :: be_enc 8 (to_uint64 v)) ++ x).
  apply is_prefix_app.
Qed.

(** the key spaces of the six formats are pairwise disjoint (distinct first byte) *)
Lemma db_key_spaces_disjoint nk k h v :
  db_node_key nk <> db_fast_key k /\ db_node_key nk <> db_legacy_node_key h /\
  db_node_key nk <> db_legacy_root_key v /\ db_node_key nk <> db_meta_key /\
  db_fast_key k <> db_legacy_node_key h /\ db_fast_key k <> db_legacy_root_key v /\
  db_fast_key k <> db_meta_key /\ db_legacy_node_key h <> db_legacy_root_key v /\
  db_legacy_node_key h <> db_meta_key /\ db_legacy_root_key v <> db_meta_key.
Proof. repeat split; intros H; discriminate H. Qed.

(** ** readers *)

Lemma rd_varint_enc c x rest :
  in_int64 x ->
  rd_varint (c, varint_enc x ++ rest) = Some (x, ((c + length (varint_enc x))%nat, rest)).
Proof.
  intros Hx. unfold rd_varint. cbn [fst snd].
  rewrite varint_roundtrip by exact Hx. rewrite skipn_length_app. reflexivity.
Qed.

Lemma rd_bytes_enc c b rest :
  short b ->
  rd_bytes (c, bytes_enc b ++ rest) = Some (b, ((c + length (bytes_enc b))%nat, rest)).
Proof.
  intros Hb. unfold rd_bytes. cbn [fst snd].
  rewrite bytes_roundtrip by exact Hb. rewrite skipn_length_app. reflexivity.
Qed.

Lemma enc32_bytes_enc h : length h = 32%nat -> enc32 h = bytes_enc h.
Proof. intros H. unfold bytes_enc. rewrite H. reflexivity. Qed.

(** reader invariant: consumed + remaining = total *)
Definition st_ok (L : nat) (st : rstate) : Prop := (fst st + length (snd st) = L)%nat.

Lemma rd_varint_guard L st x st' :
  rd_varint st = Some (x, st') -> st_ok L st ->
  st_ok L st' /\ (fst st < fst st')%nat /\
  (well_formed (snd st) -> in_int64 x /\ well_formed (snd st')).
Proof.
  unfold rd_varint, st_ok. destruct (varint_dec (snd st)) as [[y n]|] eqn:E; [|discriminate].
  intros H HL. inversion H; subst; clear H. cbn [fst snd].
  destruct (varint_dec_guard _ _ _ E) as (H1 & H2 & H3).
  pose proof (length_skipn_eq n (snd st) ltac:(lia)).
  repeat split; try lia; try (apply H3; assumption).
  apply well_formed_skipn; assumption.
Qed.

Lemma rd_bytes_guard L st b st' :
  rd_bytes st = Some (b, st') -> st_ok L st ->
  st_ok L st' /\ (fst st < fst st')%nat /\ (length b <= L)%nat /\ short b /\
  (well_formed (snd st) -> well_formed b /\ well_formed (snd st')).
Proof.
  unfold rd_bytes, st_ok. destruct (bytes_dec (snd st)) as [[y n]|] eqn:E; [|discriminate].
  intros H HL. inversion H; subst; clear H. cbn [fst snd].
  destruct (bytes_dec_guard _ _ _ E) as (H1 & H2 & H3 & _).
  pose proof (length_skipn_eq n (snd st) ltac:(lia)).
  assert (Hs : short b).
  { unfold short. unfold bytes_dec in E.
    destruct (uvarint_dec (snd st)) as [[s m]|]; [|discriminate].
    destruct (max_int <=? s)%N eqn:E1; [discriminate|].
    destruct (N.of_nat (length (skipn m (snd st))) <? s)%N eqn:E2; [discriminate|].
    inversion E; subst; clear E.
    rewrite firstn_length. unfold max_int in E1. lia. }
  repeat split; try lia; try exact Hs.
  - eapply bytes_dec_wf; eauto.
  - apply well_formed_skipn; assumption.
Qed.

(** ** new-format nodes *)

Definition wf_child (c : child_ref) : Prop :=
  match c with
  | RefNone => False
  | RefNew v n => in_int64 v /\ in_uint32 n
  | RefLegacy h => length h = 32%nat
  end.

(** nodes [writeBytes]/[MakeNode] round-trip on: what [SaveNode] is given in a sane tree *)
Definition wf_raw (n : raw_node) : Prop :=
  in_int8 (rn_height n) /\ in_int64 (rn_size n) /\ short (rn_key n) /\
  if rn_height n =? 0 then
    (exists v, rn_value n = Some v /\ short v) /\
    rn_hash n = [] /\ rn_left n = RefNone /\ rn_right n = RefNone
  else
    rn_value n = None /\ length (rn_hash n) = 32%nat /\
    wf_child (rn_left n) /\ wf_child (rn_right n).

Lemma rd_child_enc c k rest :
  wf_child c ->
  rd_child (child_is_legacy c) (k, encode_child c ++ rest)
  = Some (c, ((k + length (encode_child c))%nat, rest)).
Proof.
  destruct c as [|v n|h]; cbn [wf_child child_is_legacy encode_child rd_child]; intros H.
  - contradiction.
  - destruct H as [Hv Hn].
    rewrite <- app_assoc. rewrite rd_varint_enc by exact Hv. cbn [obind].
    rewrite rd_varint_enc by (unfold in_int64, in_uint32 in *; lia). cbn [obind].
    apply to_uint32_fix in Hn.
    destruct (n =? to_uint32 n) eqn:E; [|lia]. cbn [negb].
    rewrite app_length, Nat.add_assoc. reflexivity.
  - rewrite enc32_bytes_enc by exact H.
    rewrite rd_bytes_enc by (unfold short; rewrite H; lia). cbn [obind].
    rewrite H. reflexivity.
Qed.

Lemma node_mode_bits l r :
  negb (Z.land (node_mode l r) 1 =? 0) = child_is_legacy l /\
  negb (Z.land (node_mode l r) 2 =? 0) = child_is_legacy r /\
  0 <= node_mode l r <= 3.
Proof.
  unfold node_mode. destruct (child_is_legacy l), (child_is_legacy r); cbn; lia.
Qed.

Theorem decode_node_n_roundtrip nk n rest :
  wf_raw n -> length nk = 12%nat ->
  decode_node_n nk (encode_node n ++ rest) = DOk (n, length (encode_node n)).
Proof.
  destruct n as [h s k val hash l r]. unfold wf_raw. cbn [rn_height rn_size rn_key rn_value rn_hash rn_left rn_right].
  intros (Hh & Hs & Hk & Hbody) Hnk.
  unfold decode_node_n, encode_node, decode_node_header.
  rewrite Hnk. cbn [Nat.eqb negb].
  cbn [rn_height rn_size rn_key rn_value rn_hash rn_left rn_right].
  rewrite <- !app_assoc.
  rewrite rd_varint_enc by (unfold in_int8, in_int64 in *; lia). cbn [obind].
  assert (Hfix : (h =? to_int8 h) = true) by (apply to_int8_fix in Hh; lia).
  rewrite Hfix. cbn [negb].
  rewrite rd_varint_enc by exact Hs. cbn [obind].
  rewrite rd_bytes_enc by exact Hk. cbn [obind].
  destruct (parse_node_key_ok nk ltac:(lia)) as (v0 & n0 & ->).
  unfold decode_node_body.
  destruct (h =? 0) eqn:Eh.
  - destruct Hbody as ((v & -> & Hv) & -> & -> & ->). cbn [opt_bytes].
    rewrite rd_bytes_enc by exact Hv. cbn [obind of_opt fst].
    f_equal. f_equal. rewrite !app_length. lia.
  - destruct Hbody as (-> & Hhash & Hl & Hr).
    rewrite <- !app_assoc.
    rewrite (enc32_bytes_enc hash Hhash).
    rewrite rd_bytes_enc by (unfold short; rewrite Hhash; lia). cbn [obind].
    destruct (node_mode_bits l r) as (Hb1 & Hb2 & Hm).
    rewrite rd_varint_enc by (unfold in_int64; lia). cbn [obind].
    destruct ((node_mode l r <? 0) || (3 <? node_mode l r)) eqn:Em; [lia|].
    rewrite Hb1, Hb2.
    rewrite rd_child_enc by exact Hl. cbn [obind].
    rewrite rd_child_enc by exact Hr. cbn [obind of_opt fst].
    f_equal. f_equal. rewrite !app_length. lia.
Qed.

Theorem decode_node_roundtrip nk n rest :
  wf_raw n -> length nk = 12%nat -> decode_node nk (encode_node n ++ rest) = DOk n.
Proof.
  intros Hw Hnk. unfold decode_node. rewrite decode_node_n_roundtrip by assumption. reflexivity.
Qed.

(** on sane nodes the Go-exact writer agrees with [encode_node] *)
Theorem write_node_encode n : wf_raw n -> write_node n = DOk (encode_node n).
Proof.
  destruct n as [h s k val hash l r]. unfold wf_raw, write_node, encode_node.
  cbn [rn_height rn_size rn_key rn_value rn_hash rn_left rn_right].
  intros (Hh & Hs & Hk & Hbody).
  destruct (h =? 0) eqn:Eh.
  - rewrite <- !app_assoc. reflexivity.
  - destruct Hbody as (_ & _ & Hl & Hr).
    assert (Hc : forall c, wf_child c ->
              exists kb, child_key_bytes c = Some kb /\
                         (length kb =? 32)%nat = child_is_legacy c /\
                         write_child (child_is_legacy c) kb = DOk (encode_child c)).
    { intros [|v n|hh]; cbn [wf_child child_key_bytes child_is_legacy encode_child];
        intros Hc; [contradiction| |].
      - destruct Hc as [Hv Hn]. eexists; split; [reflexivity|].
        rewrite node_key_bytes_length. split; [reflexivity|].
        unfold write_child. rewrite parse_node_key_roundtrip by assumption. reflexivity.
      - eexists; split; [reflexivity|]. rewrite Hc. split; reflexivity. }
    destruct (Hc l Hl) as (lk & -> & Hll & Hwl).
    destruct (Hc r Hr) as (rk & -> & Hrl & Hwr).
    cbn [opt_bytes]. rewrite Hll, Hrl, Hwl, Hwr.
    unfold node_mode. rewrite <- !app_assoc. reflexivity.
Qed.

(** what [MakeNode] guarantees about its result *)
Definition child_guard (L : nat) (c : child_ref) : Prop :=
  match c with
  | RefNone => False
  | RefNew v n => in_uint32 n
  | RefLegacy h => length h = 32%nat /\ (32 <= L)%nat
  end.

Definition child_guard_wf (c : child_ref) : Prop :=
  match c with
  | RefNone => False
  | RefNew v n => in_int64 v
  | RefLegacy h => well_formed h
  end.

Lemma rd_child_guard L b st c st' :
  rd_child b st = Some (c, st') -> st_ok L st ->
  st_ok L st' /\ (fst st < fst st')%nat /\ child_guard L c /\
  child_is_legacy c = b /\
  (well_formed (snd st) -> child_guard_wf c /\ well_formed (snd st')).
Proof.
  unfold rd_child. intros H HL. destruct b.
  - destruct (rd_bytes st) as [[h st1]|] eqn:E1; cbn [obind] in H; [|discriminate].
    destruct (length h =? 32)%nat eqn:E32; cbn [negb] in H; [|discriminate].
    inversion H; subst; clear H.
    destruct (rd_bytes_guard L _ _ _ E1 HL) as (A1 & A2 & A3 & _ & A4).
    cbn [child_guard child_guard_wf child_is_legacy].
    split; [exact A1|]. split; [exact A2|]. split; [lia|]. split; [reflexivity|].
    exact A4.
  - destruct (rd_varint st) as [[ver st1]|] eqn:E1; cbn [obind] in H; [|discriminate].
    destruct (rd_varint st1) as [[nonce st2]|] eqn:E2; cbn [obind] in H; [|discriminate].
    destruct (nonce =? to_uint32 nonce) eqn:E3; cbn [negb] in H; [|discriminate].
    inversion H; subst; clear H.
    destruct (rd_varint_guard L _ _ _ E1 HL) as (A1 & A2 & A3).
    destruct (rd_varint_guard L _ _ _ E2 A1) as (B1 & B2 & B3).
    cbn [child_guard child_guard_wf child_is_legacy].
    split; [exact B1|]. split; [lia|]. split; [apply to_uint32_fix; lia|].
    split; [reflexivity|]. intros Hw. split; [apply A3, Hw | apply B3, A3, Hw].
Qed.

(** Decoder guard for [MakeNode]: the bytes looked at lie within the buffer, the height
    fits int8, child nonces fit uint32, every byte string returned is no longer than the
    input; a leaf has a value and no children, an inner node has both children. With a
    byte-valued buffer, all integers are int64 and all outputs byte-valued. *)
Definition node_guard (L : nat) (n : raw_node) : Prop :=
  in_int8 (rn_height n) /\ (length (rn_key n) <= L)%nat /\
  if rn_height n =? 0 then
    (exists v, rn_value n = Some v /\ (length v <= L)%nat) /\
    rn_hash n = [] /\ rn_left n = RefNone /\ rn_right n = RefNone
  else
    rn_value n = None /\ (length (rn_hash n) <= L)%nat /\
    child_guard L (rn_left n) /\ child_guard L (rn_right n).

Definition node_guard_wf (n : raw_node) : Prop :=
  in_int64 (rn_size n) /\ well_formed (rn_key n) /\
  if rn_height n =? 0 then (exists v, rn_value n = Some v /\ well_formed v)
  else well_formed (rn_hash n) /\ child_guard_wf (rn_left n) /\ child_guard_wf (rn_right n).

Theorem decode_node_n_guard nk buf n c :
  decode_node_n nk buf = DOk (n, c) ->
  (0 < c <= length buf)%nat /\ length nk = 12%nat /\
  node_guard (length buf) n /\ (well_formed buf -> node_guard_wf n).
Proof.
  unfold decode_node_n, decode_node_header. intros H.
  destruct (length nk =? 12)%nat eqn:Enk12; cbn [negb] in H; [|discriminate].
  set (L := length buf) in *.
  assert (H0 : st_ok L (0%nat, buf)) by reflexivity.
  destruct (rd_varint (0%nat, buf)) as [[h st1]|] eqn:E1; cbn [obind] in H; [|discriminate].
  destruct (h =? to_int8 h) eqn:Eh; cbn [negb] in H; [|discriminate].
  destruct (rd_varint st1) as [[s st2]|] eqn:E2; cbn [obind] in H; [|discriminate].
  destruct (rd_bytes st2) as [[k st3]|] eqn:E3; cbn [obind] in H; [|discriminate].
  destruct (parse_node_key nk) as [[v0 n0]| |] eqn:Enk; try discriminate.
  assert (Hnk : length nk = 12%nat) by lia.
  destruct (rd_varint_guard L _ _ _ E1 H0) as (A1 & A2 & A3). cbn [fst snd] in A2, A3.
  destruct (rd_varint_guard L _ _ _ E2 A1) as (B1 & B2 & B3).
  destruct (rd_bytes_guard L _ _ _ E3 B1) as (C1 & C2 & C3 & _ & C4).
  assert (Hh8 : in_int8 h) by (apply to_int8_fix; lia).
  unfold decode_node_body in H.
  destruct (h =? 0) eqn:Ez.
  - destruct (rd_bytes st3) as [[val st4]|] eqn:E4; cbn [obind of_opt] in H; [|discriminate].
    inversion H; subst; clear H.
    destruct (rd_bytes_guard L _ _ _ E4 C1) as (D1 & D2 & D3 & _ & D4).
    unfold node_guard, node_guard_wf. cbn [rn_height rn_size rn_key rn_value rn_hash rn_left rn_right].
    rewrite Ez. unfold st_ok in D1.
    split; [lia|]. split; [exact Hnk|]. split.
    + repeat split; eauto; unfold in_int8, in_int64 in *; lia.
    + intros Hw. destruct (A3 Hw) as [a1 a2]. destruct (B3 a2) as [b1 b2].
      destruct (C4 b2) as [c1 c2]. destruct (D4 c2) as [d1 d2].
      repeat split; eauto; unfold in_int64 in *; lia.
  - destruct (rd_bytes st3) as [[hash st4]|] eqn:E4; cbn [obind] in H; [|discriminate].
    destruct (rd_varint st4) as [[mode st5]|] eqn:E5; cbn [obind] in H; [|discriminate].
    destruct ((mode <? 0) || (3 <? mode)) eqn:Em; [discriminate|].
    destruct (rd_child (negb (Z.land mode 1 =? 0)) st5) as [[l st6]|] eqn:E6;
      cbn [obind] in H; [|discriminate].
    destruct (rd_child (negb (Z.land mode 2 =? 0)) st6) as [[r st7]|] eqn:E7;
      cbn [obind of_opt] in H; [|discriminate].
    inversion H; subst; clear H.
    destruct (rd_bytes_guard L _ _ _ E4 C1) as (D1 & D2 & D3 & _ & D4).
    destruct (rd_varint_guard L _ _ _ E5 D1) as (F1 & F2 & F3).
    destruct (rd_child_guard L _ _ _ _ E6 F1) as (G1 & G2 & G3 & _ & G4).
    destruct (rd_child_guard L _ _ _ _ E7 G1) as (I1 & I2 & I3 & _ & I4).
    unfold node_guard, node_guard_wf. cbn [rn_height rn_size rn_key rn_value rn_hash rn_left rn_right].
    rewrite Ez. unfold st_ok in I1.
    split; [lia|]. split; [exact Hnk|]. split.
    + repeat split; eauto; unfold in_int8, in_int64 in *; lia.
    + intros Hw. destruct (A3 Hw) as [a1 a2]. destruct (B3 a2) as [b1 b2].
      destruct (C4 b2) as [c1 c2]. destruct (D4 c2) as [d1 d2]. destruct (F3 d2) as [f1 f2].
      destruct (G4 f2) as [g1 g2]. destruct (I4 g2) as [i1 i2].
      repeat split; eauto; unfold in_int64 in *; lia.
Qed.

(** [MakeNode] never panics: the node key length is checked before anything else *)
Theorem decode_node_n_never_panics nk buf : decode_node_n nk buf <> DPanic.
Proof.
  unfold decode_node_n.
  destruct (length nk =? 12)%nat eqn:E; cbn [negb]; [|discriminate].
  destruct (decode_node_header buf) as [[[[h s] k] st]|]; [|discriminate].
  destruct (parse_node_key nk) as [[v n]| |] eqn:Enk.
  - destruct (decode_node_body h s k st); cbn [of_opt]; discriminate.
  - discriminate.
  - apply parse_node_key_panic in Enk. lia.
Qed.

Theorem decode_node_never_panics nk buf : decode_node nk buf <> DPanic.
Proof.
  unfold decode_node. pose proof (decode_node_n_never_panics nk buf) as H.
  destruct (decode_node_n nk buf); cbn [dmap]; congruence.
Qed.

Theorem decode_node_bad_key nk buf : length nk <> 12%nat -> decode_node nk buf = DErr.
Proof.
  intros H. unfold decode_node, decode_node_n.
  destruct (length nk =? 12)%nat eqn:E; [lia|]. reflexivity.
Qed.

(** the former panic inputs are now errors: a short node key, and a "legacy" child
    reference that is not 32 bytes long *)
Theorem decode_node_former_panics :
  decode_node [1; 2; 3; 4; 5]%N [0; 2; 1; 97; 1; 98]%N = DErr /\
  decode_node (node_key_bytes 1 1) [2; 4; 1; 97; 0; 2; 5; 1; 2; 3; 4; 5; 2; 4]%N = DErr.
Proof. vm_compute. split; reflexivity. Qed.

(** whatever [MakeNode] returns can be re-encoded and sized without error or panic *)
Lemma child_guard_writes L c :
  child_guard L c ->
  exists kb, child_key_bytes c = Some kb /\
    (exists b, write_child (length kb =? 32)%nat kb = DOk b) /\
    (exists sz, child_size c = DOk sz).
Proof.
  destruct c as [|v n|h]; cbn [child_guard child_key_bytes]; intros H; [contradiction| |].
  - eexists; split; [reflexivity|]. unfold child_size. cbn [child_key_bytes].
    rewrite node_key_bytes_length. cbn [Nat.eqb]. unfold write_child.
    destruct (parse_node_key_ok (node_key_bytes v n)) as (v0 & n0 & ->);
      [rewrite node_key_bytes_length; lia|]. eauto.
  - destruct H as [H _]. eexists; split; [reflexivity|]. unfold child_size. cbn [child_key_bytes].
    rewrite H. cbn [Nat.eqb write_child].
    destruct (parse_node_key_ok h) as (v0 & n0 & ->); [lia|]. eauto.
Qed.

Theorem decoded_node_writes nk buf n c :
  decode_node_n nk buf = DOk (n, c) ->
  (exists bz, write_node n = DOk bz) /\ (exists sz, encoded_size n = DOk sz).
Proof.
  intros H. destruct (decode_node_n_guard _ _ _ _ H) as (_ & _ & (_ & _ & Hg) & _).
  unfold write_node, encoded_size.
  destruct (rn_height n =? 0) eqn:Ez; [eauto|].
  destruct Hg as (_ & _ & Hl & Hr).
  destruct (child_guard_writes _ _ Hl) as (lk & -> & (lb & Hlb) & (ls & ->)).
  destruct (child_guard_writes _ _ Hr) as (rk & -> & (rb & Hrb) & (rs & ->)).
  cbn [opt_bytes]. rewrite Hlb, Hrb. eauto.
Qed.

(** [writeBytes]/[encodedSize] still index a child key of fewer than 12 bytes
    ([write_node]/[encoded_size] = [DPanic]), but no decoder produces such a key any more:
    [MakeNode] yields 12-byte keys or 32-byte hashes ([decode_node_n_guard]) and
    [MakeLegacyNode] 32-byte hashes ([decode_legacy_node_n_guard]); on those both functions
    return [DOk] ([decoded_node_writes]). Only a hand-built [Node] can trigger the panic. *)
Theorem write_node_panic_handbuilt :
  let n := mk_raw_node 1 2 [97%N] None (repeat 7%N 32) (RefLegacy [1; 2; 3; 4; 5]%N) (RefNew 1 2) in
  write_node n = DPanic /\ encoded_size n = DPanic /\
  decode_legacy_node (repeat 5%N 32) [2; 4; 2; 1; 97; 5; 1; 2; 3; 4; 5; 0]%N = DErr.
Proof. vm_compute. auto. Qed.

(** ** legacy nodes *)

Definition wf_legacy (n : raw_legacy_node) : Prop :=
  in_int8 (ln_height n) /\ in_int64 (ln_size n) /\ in_int64 (ln_version n) /\ short (ln_key n) /\
  if ln_height n =? 0 then
    (exists v, ln_value n = Some v /\ short v) /\ ln_left n = [] /\ ln_right n = []
  else
    ln_value n = None /\ length (ln_left n) = 32%nat /\ length (ln_right n) = 32%nat.

Theorem decode_legacy_node_n_roundtrip hash n rest :
  wf_legacy n ->
  decode_legacy_node_n hash (encode_legacy_node n ++ rest)
  = DOk (n, length (encode_legacy_node n)).
Proof.
  destruct n as [h s ver k val l r]. unfold wf_legacy.
  cbn [ln_height ln_size ln_version ln_key ln_value ln_left ln_right].
  intros (Hh & Hs & Hv & Hk & Hbody).
  unfold decode_legacy_node_n, decode_legacy_node_o, encode_legacy_node.
  cbn [ln_height ln_size ln_version ln_key ln_value ln_left ln_right].
  rewrite <- !app_assoc.
  rewrite rd_varint_enc by (unfold in_int8, in_int64 in *; lia). cbn [obind].
  destruct ((h <? -128) || (127 <? h)) eqn:E8; [unfold in_int8 in Hh; lia|].
  rewrite rd_varint_enc by exact Hs. cbn [obind].
  rewrite rd_varint_enc by exact Hv. cbn [obind].
  rewrite rd_bytes_enc by exact Hk. cbn [obind].
  destruct (h =? 0) eqn:Eh.
  - destruct Hbody as ((v & -> & Hval) & -> & ->). cbn [opt_bytes].
    rewrite rd_bytes_enc by exact Hval. cbn [obind of_opt fst].
    f_equal. f_equal. rewrite !app_length. lia.
  - destruct Hbody as (-> & Hl & Hr).
    rewrite <- !app_assoc.
    rewrite rd_bytes_enc by (unfold short; rewrite Hl; lia). cbn [obind].
    rewrite rd_bytes_enc by (unfold short; rewrite Hr; lia). cbn [obind].
    rewrite Hl, Hr. cbn [Nat.eqb negb orb of_opt fst].
    f_equal. f_equal. rewrite !app_length. lia.
Qed.

Theorem decode_legacy_node_roundtrip hash n rest :
  wf_legacy n -> decode_legacy_node hash (encode_legacy_node n ++ rest) = DOk n.
Proof.
  intros Hw. unfold decode_legacy_node. rewrite decode_legacy_node_n_roundtrip by assumption.
  reflexivity.
Qed.

Definition legacy_guard (L : nat) (n : raw_legacy_node) : Prop :=
  in_int8 (ln_height n) /\ (length (ln_key n) <= L)%nat /\
  if ln_height n =? 0 then
    (exists v, ln_value n = Some v /\ (length v <= L)%nat) /\ ln_left n = [] /\ ln_right n = []
  else
    ln_value n = None /\ length (ln_left n) = 32%nat /\ length (ln_right n) = 32%nat /\
    (32 <= L)%nat.

Definition legacy_guard_wf (n : raw_legacy_node) : Prop :=
  in_int64 (ln_size n) /\ in_int64 (ln_version n) /\ well_formed (ln_key n) /\
  if ln_height n =? 0 then (exists v, ln_value n = Some v /\ well_formed v)
  else well_formed (ln_left n) /\ well_formed (ln_right n).

Theorem decode_legacy_node_n_guard hash buf n c :
  decode_legacy_node_n hash buf = DOk (n, c) ->
  (0 < c <= length buf)%nat /\ legacy_guard (length buf) n /\
  (well_formed buf -> legacy_guard_wf n).
Proof.
  unfold decode_legacy_node_n, decode_legacy_node_o. intros H.
  set (L := length buf) in *.
  assert (H0 : st_ok L (0%nat, buf)) by reflexivity.
  destruct (rd_varint (0%nat, buf)) as [[h st1]|] eqn:E1; cbn [obind of_opt] in H; [|discriminate].
  destruct ((h <? -128) || (127 <? h)) eqn:Eh; [discriminate|].
  destruct (rd_varint st1) as [[s st2]|] eqn:E2; cbn [obind of_opt] in H; [|discriminate].
  destruct (rd_varint st2) as [[ver st3]|] eqn:E3; cbn [obind of_opt] in H; [|discriminate].
  destruct (rd_bytes st3) as [[k st4]|] eqn:E4; cbn [obind of_opt] in H; [|discriminate].
  destruct (rd_varint_guard L _ _ _ E1 H0) as (A1 & A2 & A3). cbn [fst snd] in A2, A3.
  destruct (rd_varint_guard L _ _ _ E2 A1) as (B1 & B2 & B3).
  destruct (rd_varint_guard L _ _ _ E3 B1) as (C1 & C2 & C3).
  destruct (rd_bytes_guard L _ _ _ E4 C1) as (D1 & D2 & D3 & _ & D4).
  assert (Hh8 : in_int8 h) by (unfold in_int8; lia).
  destruct (h =? 0) eqn:Ez.
  - destruct (rd_bytes st4) as [[val st5]|] eqn:E5; cbn [obind of_opt] in H; [|discriminate].
    inversion H; subst; clear H.
    destruct (rd_bytes_guard L _ _ _ E5 D1) as (F1 & F2 & F3 & _ & F4).
    unfold legacy_guard, legacy_guard_wf.
    cbn [ln_height ln_size ln_version ln_key ln_value ln_left ln_right].
    rewrite Ez. unfold st_ok in F1.
    split; [lia|]. split.
    + repeat split; eauto; unfold in_int8, in_int64 in *; lia.
    + intros Hw. destruct (A3 Hw) as [a1 a2]. destruct (B3 a2) as [b1 b2].
      destruct (C3 b2) as [c1 c2]. destruct (D4 c2) as [d1 d2]. destruct (F4 d2) as [f1 f2].
      repeat split; eauto; unfold in_int64 in *; lia.
  - destruct (rd_bytes st4) as [[lh st5]|] eqn:E5; cbn [obind of_opt] in H; [|discriminate].
    destruct (rd_bytes st5) as [[rh st6]|] eqn:E6; cbn [obind of_opt] in H; [|discriminate].
    destruct (negb (length lh =? 32)%nat || negb (length rh =? 32)%nat) eqn:E32;
      cbn [of_opt] in H; [discriminate|].
    inversion H; subst; clear H.
    destruct (rd_bytes_guard L _ _ _ E5 D1) as (F1 & F2 & F3 & _ & F4).
    destruct (rd_bytes_guard L _ _ _ E6 F1) as (G1 & G2 & G3 & _ & G4).
    unfold legacy_guard, legacy_guard_wf.
    cbn [ln_height ln_size ln_version ln_key ln_value ln_left ln_right].
    rewrite Ez. unfold st_ok in G1.
    split; [lia|]. split.
    + repeat split; eauto; unfold in_int8, in_int64 in *; lia.
    + intros Hw. destruct (A3 Hw) as [a1 a2]. destruct (B3 a2) as [b1 b2].
      destruct (C3 b2) as [c1 c2]. destruct (D4 c2) as [d1 d2]. destruct (F4 d2) as [f1 f2].
      destruct (G4 f2) as [g1 g2].
      repeat split; eauto; unfold in_int64 in *; lia.
Qed.

Theorem decode_legacy_node_no_panic hash buf : decode_legacy_node hash buf <> DPanic.
Proof.
  unfold decode_legacy_node, decode_legacy_node_n.
  destruct (decode_legacy_node_o buf); cbn; discriminate.
Qed.

(** ** fast nodes *)

Theorem decode_fast_node_n_roundtrip key version value rest :
  in_int64 version -> short value ->
  decode_fast_node_n key (encode_fast_node version value ++ rest)
  = DOk (mk_raw_fast_node key version value, length (encode_fast_node version value)).
Proof.
  intros Hv Hval. unfold decode_fast_node_n, decode_fast_node_o, encode_fast_node.
  rewrite <- !app_assoc.
  rewrite rd_varint_enc by exact Hv. cbn [obind].
  rewrite rd_bytes_enc by exact Hval. cbn [obind of_opt fst].
  f_equal. f_equal. rewrite !app_length. lia.
Qed.

Theorem decode_fast_node_roundtrip key version value rest :
  in_int64 version -> short value ->
  decode_fast_node key (encode_fast_node version value ++ rest)
  = DOk (mk_raw_fast_node key version value).
Proof.
  intros Hv Hval. unfold decode_fast_node.
  rewrite decode_fast_node_n_roundtrip by assumption. reflexivity.
Qed.

Theorem decode_fast_node_n_guard key buf n c :
  decode_fast_node_n key buf = DOk (n, c) ->
  (0 < c <= length buf)%nat /\ fn_key n = key /\ (length (fn_value n) <= length buf)%nat /\
  (well_formed buf -> in_int64 (fn_version n) /\ well_formed (fn_value n)).
Proof.
  unfold decode_fast_node_n, decode_fast_node_o. intros H.
  set (L := length buf) in *.
  assert (H0 : st_ok L (0%nat, buf)) by reflexivity.
  destruct (rd_varint (0%nat, buf)) as [[v st1]|] eqn:E1; cbn [obind of_opt] in H; [|discriminate].
  destruct (rd_bytes st1) as [[val st2]|] eqn:E2; cbn [obind of_opt] in H; [|discriminate].
  inversion H; subst; clear H.
  destruct (rd_varint_guard L _ _ _ E1 H0) as (A1 & A2 & A3). cbn [fst snd] in A2, A3.
  destruct (rd_bytes_guard L _ _ _ E2 A1) as (B1 & B2 & B3 & _ & B4).
  cbn [fn_key fn_version fn_value]. unfold st_ok in B1.
  split; [lia|]. split; [reflexivity|]. split; [lia|].
  intros Hw. destruct (A3 Hw) as [a1 a2]. destruct (B4 a2) as [b1 b2]. split; assumption.
Qed.

Theorem decode_fast_node_no_panic key buf : decode_fast_node key buf <> DPanic.
Proof.
  unfold decode_fast_node, decode_fast_node_n.
  destruct (decode_fast_node_o key buf); cbn; discriminate.
Qed.

(** ** root entries *)

Lemma uvarint_enc_head u :
  exists b tl, uvarint_enc u = b :: tl /\ ((u < 128 /\ b = u) \/ (128 <= u /\ 128 <= b))%N.
Proof.
  unfold uvarint_enc. cbn [uvarint_enc_fuel].
  destruct (u <? 128)%N eqn:E.
  - exists u, []. split; [reflexivity|]. left. lia.
  - eexists _, _. split; [reflexivity|]. right. lia.
Qed.

Lemma zigzag_115 x : zigzag x = 115%N -> x = -58.
Proof.
  intros H. rewrite <- (unzigzag_zigzag x), H. reflexivity.
Qed.

(** A node body is never taken for a reference or an empty root, except at the (never
    produced, but accepted by [MakeNode]) height -58 whose varint is the byte 's'. *)
Theorem classify_root_node n :
  rn_height n <> -58 -> classify_root (encode_node n) = RootNode.
Proof.
  intros Hh. unfold encode_node, varint_enc.
  destruct (uvarint_enc_head (zigzag (rn_height n))) as (b & tl & -> & Hb).
  cbn [app classify_root]. unfold prefix_node.
  destruct (b =? 115)%N eqn:E; [|reflexivity].
  exfalso. apply Hh, zigzag_115. lia.
Qed.

Theorem classify_root_ref13 v n :
  in_int64 v -> in_uint32 n -> classify_root (root_ref_value v n) = RootRef13 v n.
Proof.
  intros Hv Hn. unfold root_ref_value.
  rewrite db_node_key_exact by apply node_key_bytes_length.
  unfold classify_root. rewrite N.eqb_refl.
  cbn [length]. rewrite node_key_bytes_length. cbn [Nat.eqb].
  rewrite parse_node_key_roundtrip by assumption. reflexivity.
Qed.

Theorem classify_root_ref9 v :
  in_int64 v -> classify_root (db_node_prefix_key v) = RootRef9 v.
Proof.
  intros Hv. unfold db_node_prefix_key, classify_root. rewrite N.eqb_refl.
  cbn [length]. rewrite be_enc_length. cbn [Nat.eqb].
  rewrite be_roundtrip by (rewrite pow256_8; apply to_uint64_bound).
  rewrite to_int64_to_uint64 by exact Hv. reflexivity.
Qed.

Theorem classify_root_empty v : classify_root v = RootEmpty <-> v = [].
Proof.
  split; [|intros ->; reflexivity].
  destruct v as [|b tl]; [reflexivity|]. cbn [classify_root].
  destruct (b =? prefix_node)%N; [|discriminate].
  destruct (length (b :: tl) =? 13)%nat.
  - destruct (parse_node_key tl) as [[? ?]| |]; discriminate.
  - destruct (length (b :: tl) =? 9)%nat; discriminate.
Qed.

(** the three things [SaveVersion] can store under a root key are pairwise distinct *)
Theorem root_kinds_distinct n v k :
  rn_height n <> -58 -> in_int64 v -> in_uint32 k ->
  encode_node n <> root_ref_value v k /\ encode_node n <> root_empty_value /\
  root_ref_value v k <> root_empty_value.
Proof.
  intros Hh Hv Hk.
  pose proof (classify_root_node n Hh) as H1.
  pose proof (classify_root_ref13 v k Hv Hk) as H2.
  repeat split; intros E.
  - rewrite E in H1. congruence.
  - rewrite E in H1. discriminate.
  - rewrite E in H2. discriminate.
Qed.

(** at height -58 the body starts with 's'; with a 32-byte hash it is longer than 13 bytes,
    so GetRoot answers "invalid reference root" rather than following a bogus reference *)
Theorem classify_root_height_m58 :
  exists n, rn_height n = -58 /\ classify_root (encode_node n) = RootBadRef /\
            decode_node (node_key_bytes 1 1) (encode_node n) = DOk n.
Proof.
  exists (mk_raw_node (-58) 2 [97%N] None (repeat 7%N 32) (RefNew 1 2) (RefNew 1 3)).
  vm_compute. auto.
Qed.

Lemma encode_child_length_pos c : wf_child c -> (2 <= length (encode_child c))%nat.
Proof.
  destruct c as [|v k|h]; cbn [wf_child encode_child]; [contradiction| |].
  - intros _. rewrite app_length.
    pose proof (varint_enc_length v). pose proof (varint_enc_length k). lia.
  - intros H. unfold enc32. cbn [length]. lia.
Qed.

Theorem classify_root_inner_never_ref n :
  wf_raw n -> rn_height n <> 0 ->
  classify_root (encode_node n) = RootNode \/ classify_root (encode_node n) = RootBadRef.
Proof.
  intros Hw Hz.
  destruct (Z.eq_dec (rn_height n) (-58)) as [E|E]; [|left; apply classify_root_node, E].
  right.
  assert (Hlen : (13 < length (encode_node n))%nat).
  { destruct Hw as (_ & _ & _ & Hb). unfold encode_node.
    destruct (rn_height n =? 0) eqn:E0; [lia|].
    destruct Hb as (_ & Hhash & Hl & Hr).
    rewrite !app_length. unfold enc32. cbn [length]. rewrite Hhash.
    pose proof (encode_child_length_pos _ Hl). lia. }
  unfold encode_node, varint_enc in *. rewrite E in *.
  change (uvarint_enc (zigzag (-58))) with [115%N] in *.
  cbn [app] in *. unfold classify_root. unfold prefix_node. rewrite N.eqb_refl.
  match goal with |- context [(length ?l =? 13)%nat] =>
    destruct (length l =? 13)%nat eqn:E13; [lia|];
    destruct (length l =? 9)%nat eqn:E9; [lia|] end.
  reflexivity.
Qed.

(** ** storage version label *)

Lemma dec_val_snoc a c : dec_val (a ++ [c]) = (dec_val a * 10 + (c - 48))%N.
Proof. unfold dec_val. rewrite fold_left_app. reflexivity. Qed.

Lemma all_digits_app a b : all_digits (a ++ b) = all_digits a && all_digits b.
Proof. unfold all_digits. apply forallb_app. Qed.

Lemma digits_fuel_spec f : forall n,
  (n < 2 ^ N.of_nat f)%N ->
  dec_val (digits_fuel (S f) n) = n /\ all_digits (digits_fuel (S f) n) = true /\
  digits_fuel (S f) n <> [].
Proof.
  induction f as [|f IH]; intros n Hn.
  - cbn in Hn. assert (n = 0%N) by lia. subst. cbn. repeat split; auto. discriminate.
  - change (digits_fuel (S (S f)) n)
      with (if (n <? 10)%N then [(48 + n)%N]
            else digits_fuel (S f) (n / 10)%N ++ [(48 + n mod 10)%N]).
    destruct (n <? 10)%N eqn:E.
    + repeat split; try discriminate.
      * unfold dec_val. cbn [fold_left]. lia.
      * unfold all_digits. cbn [forallb]. lia.
    + assert (Hd : (n / 10 < 2 ^ N.of_nat f)%N).
      { apply N.div_lt_upper_bound; [lia|].
        rewrite Nat2N.inj_succ, N.pow_succ_r' in Hn. lia. }
      destruct (IH _ Hd) as (H1 & H2 & H3).
      pose proof (N.mod_lt n 10 ltac:(lia)).
      repeat split.
      * rewrite dec_val_snoc, H1. pose proof (N.div_mod n 10 ltac:(lia)). lia.
      * rewrite all_digits_app, H2. unfold all_digits. cbn [forallb]. lia.
      * intros Hnil. apply app_eq_nil in Hnil. destruct Hnil; discriminate.
Qed.

Lemma digits_spec n :
  dec_val (digits n) = n /\ all_digits (digits n) = true /\ digits n <> [].
Proof.
  unfold digits. apply digits_fuel_spec. rewrite N2Nat.id. apply N.size_gt.
Qed.

Lemma all_digits_head c s : all_digits (c :: s) = true -> (c =? 45)%N = false.
Proof. unfold all_digits. cbn [forallb]. lia. Qed.

Theorem atoi_itoa z : atoi (itoa z) = Some z.
Proof.
  unfold itoa. destruct (z <? 0) eqn:E.
  - destruct (digits_spec (Z.to_N (- z))) as (H1 & H2 & H3).
    unfold atoi. rewrite N.eqb_refl.
    destruct (digits (Z.to_N (- z))) as [|c s] eqn:Ed; [congruence|].
    rewrite H2, H1. f_equal. lia.
  - destruct (digits_spec (Z.to_N z)) as (H1 & H2 & H3).
    unfold atoi.
    destruct (digits (Z.to_N z)) as [|c s] eqn:Ed; [congruence|].
    rewrite (all_digits_head _ _ H2), H2, H1. f_equal. lia.
Qed.

Corollary itoa_inj z z' : itoa z = itoa z' -> z = z'.
Proof.
  intros H. pose proof (atoi_itoa z) as H1. rewrite H, atoi_itoa in H1. congruence.
Qed.

Lemma split_on_no_sep sep s :
  forallb (fun c => negb (c =? sep)%N) s = true -> split_on sep s = [s].
Proof.
  induction s as [|c s IH]; cbn [forallb split_on]; [reflexivity|].
  intros H. apply andb_true_iff in H. destruct H as [Hc Hs].
  destruct (c =? sep)%N; [discriminate|]. rewrite IH by exact Hs. reflexivity.
Qed.

Lemma all_digits_no_dash s :
  all_digits s = true -> forallb (fun c => negb (c =? storage_delim)%N) s = true.
Proof.
  unfold all_digits, storage_delim. induction s as [|c s IH]; cbn [forallb]; [reflexivity|].
  intros H. apply andb_true_iff in H. destruct H as [Hc Hs].
  rewrite IH by exact Hs. lia.
Qed.

Lemma split_label z :
  0 <= z -> split_on storage_delim (fast_storage_label z) = [fast_storage_version; itoa z].
Proof.
  intros Hz. unfold fast_storage_label, fast_storage_version.
  cbn [app split_on]. unfold storage_delim at 1 2 3 4 5 6. cbn [N.eqb Pos.eqb].
  assert (Hi : split_on storage_delim (itoa z) = [itoa z]).
  { apply split_on_no_sep, all_digits_no_dash.
    unfold itoa. destruct (z <? 0) eqn:E; [lia|]. apply digits_spec. }
  rewrite Hi. reflexivity.
Qed.

(** the label written at version [v] triggers a forced re-upgrade exactly when the latest
    version differs *)
Theorem should_force_upgrade_label v latest :
  0 <= v -> should_force_upgrade (fast_storage_label v) latest = negb (v =? latest).
Proof.
  intros Hv. unfold should_force_upgrade. rewrite split_label by exact Hv.
  destruct (beq (itoa v) (itoa latest)) eqn:E; btests.
  - apply itoa_inj in E. subst. rewrite Z.eqb_refl. reflexivity.
  - destruct (v =? latest) eqn:E2; [|reflexivity]. exfalso. apply E. f_equal. lia.
Qed.

Theorem parse_storage_label_roundtrip v :
  0 <= v -> parse_storage_label (fast_storage_label v) = Some (fast_storage_version, Some v).
Proof.
  intros Hv. unfold parse_storage_label. rewrite split_label by exact Hv.
  rewrite atoi_itoa. reflexivity.
Qed.

Theorem set_fast_storage_version_label v latest :
  0 <= v -> set_fast_storage_version (fast_storage_label v) latest = Some (fast_storage_label latest).
Proof.
  intros Hv. unfold set_fast_storage_version.
  assert (Hf : has_fast_storage (fast_storage_label v) = true) by reflexivity.
  rewrite Hf, split_label by exact Hv. reflexivity.
Qed.

Theorem set_fast_storage_version_default latest :
  set_fast_storage_version default_storage_version latest = Some (fast_storage_label latest).
Proof. reflexivity. Qed.

(** ** size hints *)

Lemma size_small u : (0 < u < 128)%N -> (1 <= N.size u <= 7)%N.
Proof.
  intros H. pose proof (N.size_gt u) as Hg. pose proof (N.size_le u) as Hl.
  split.
  - destruct (N.size u) eqn:E; [cbn in Hg; lia | lia].
  - destruct (N.le_gt_cases (N.size u) 7) as [|Hgt]; [assumption|].
    assert (2 ^ 8 <= 2 ^ N.size u)%N by (apply N.pow_le_mono_r; lia).
    change (2 ^ 8)%N with 256%N in *. rewrite N.succ_double_spec in Hl. lia.
Qed.

Lemma size_div128 u : (128 <= u)%N -> (N.size (u / 128) = N.size u - 7 /\ 8 <= N.size u)%N.
Proof.
  intros H.
  assert (Hq : (0 < u / 128)%N).
  { apply N.div_str_pos. lia. }
  rewrite !N.size_log2 by lia.
  change 128%N with (2 ^ 7)%N. rewrite <- N.shiftr_div_pow2, N.log2_shiftr.
  assert (7 <= N.log2 u)%N.
  { change 7%N with (N.log2 128). apply N.log2_le_mono, H. }
  lia.
Qed.

Lemma uvarint_size_fuel f : forall u,
  (1 <= f)%nat -> (u < 2 ^ (7 * N.of_nat f))%N ->
  length (uvarint_enc_fuel f u) = uvarint_size u.
Proof.
  induction f as [|f IH]; intros u Hf Hu; [lia|].
  cbn [uvarint_enc_fuel]. unfold uvarint_size.
  destruct (u <? 128)%N eqn:E.
  - cbn [length]. destruct (u =? 0)%N eqn:E0; [reflexivity|].
    pose proof (size_small u ltac:(lia)) as Hs.
    assert (((N.size u + 6) / 7 = 1)%N) as ->; [|reflexivity].
    symmetry. apply N.div_unique with (r := (N.size u - 1)%N); lia.
  - destruct (size_div128 u ltac:(lia)) as (Hs & Hs8).
    assert (Hf' : (1 <= f)%nat).
    { destruct f; [|lia]. change (2 ^ (7 * N.of_nat 1))%N with 128%N in Hu. lia. }
    cbn [length]. rewrite IH; [|exact Hf'|].
    + unfold uvarint_size.
      assert (Hq : (0 < u / 128)%N) by (apply N.div_str_pos; lia).
      destruct (u / 128 =? 0)%N eqn:E1; [lia|].
      destruct (u =? 0)%N eqn:E0; [lia|].
      rewrite Hs.
      pose proof (N.div_mod (N.size u - 7 + 6) 7 ltac:(lia)).
      pose proof (N.mod_lt (N.size u - 7 + 6) 7 ltac:(lia)).
      pose proof (N.div_mod (N.size u + 6) 7 ltac:(lia)).
      pose proof (N.mod_lt (N.size u + 6) 7 ltac:(lia)).
      lia.
    + apply N.div_lt_upper_bound; [lia|].
      replace (7 * N.of_nat (S f))%N with (7 * N.of_nat f + 7)%N in Hu by lia.
      rewrite pow2_split in Hu. exact Hu.
Qed.

Theorem uvarint_size_spec u : (u < 2 ^ 64)%N -> uvarint_size u = length (uvarint_enc u).
Proof.
  intros Hu. symmetry. apply uvarint_size_fuel; [lia|].
  apply N.lt_le_trans with (2 ^ 64)%N; [exact Hu|]. apply N.pow_le_mono_r; lia.
Qed.

Theorem varint_size_spec x : in_int64 x -> varint_size x = length (varint_enc x).
Proof. intros Hx. apply uvarint_size_spec, zigzag_range, Hx. Qed.

Theorem bytes_size_spec b : short b -> bytes_size b = length (bytes_enc b).
Proof.
  intros Hb. unfold bytes_size. rewrite bytes_enc_length.
  rewrite uvarint_size_spec by (unfold short in Hb; lia). reflexivity.
Qed.

Theorem fast_encoded_size_spec version value :
  in_int64 version -> short value ->
  fast_encoded_size version value = length (encode_fast_node version value).
Proof.
  intros Hv Hb. unfold fast_encoded_size, encode_fast_node.
  rewrite app_length, varint_size_spec, bytes_size_spec by assumption. reflexivity.
Qed.

Lemma varint_enc_length_small h : -64 <= h <= 63 -> length (varint_enc h) = 1%nat.
Proof.
  intros H. unfold varint_enc, uvarint_enc. cbn [uvarint_enc_fuel].
  assert (zigzag h <? 128 = true)%N as ->; [|reflexivity].
  unfold zigzag. destruct (h <? 0); lia.
Qed.

(** [encodedSize] is exact for leaves (height byte counted as 1) ... *)
Theorem encoded_size_leaf n :
  wf_raw n -> rn_height n = 0 -> encoded_size n = DOk (length (encode_node n)).
Proof.
  intros (Hh & Hs & Hk & Hb) Hz. unfold encoded_size, encode_node. rewrite Hz in *.
  cbn [Z.eqb] in *. destruct Hb as ((v & Hv & Hsv) & _). rewrite Hv. cbn [opt_bytes].
  rewrite !app_length, varint_size_spec, !bytes_size_spec by assumption.
  rewrite (varint_enc_length_small 0) by lia. f_equal. lia.
Qed.

(** ... and one byte short (the mode byte) for inner nodes with two new-format children *)
Theorem encoded_size_inner_new n lv ln rv rn :
  wf_raw n -> 0 < rn_height n <= 63 ->
  rn_left n = RefNew lv ln -> rn_right n = RefNew rv rn ->
  encoded_size n = DOk (length (encode_node n) - 1)%nat.
Proof.
  intros (Hh & Hs & Hk & Hb) Hz Hl Hr. unfold encoded_size, encode_node.
  destruct (rn_height n =? 0) eqn:E0; [lia|].
  destruct Hb as (_ & Hhash & Hwl & Hwr). rewrite Hl, Hr in *.
  cbn [wf_child] in Hwl, Hwr. destruct Hwl as [Hlv Hln]. destruct Hwr as [Hrv Hrn].
  unfold child_size. cbn [child_key_bytes].
  rewrite !parse_node_key_roundtrip by assumption.
  cbn [node_mode child_is_legacy encode_child].
  rewrite !app_length. unfold enc32. cbn [length].
  assert (Hi : forall z, in_uint32 z -> in_int64 z) by (unfold in_uint32, in_int64; lia).
  rewrite !varint_size_spec, !bytes_size_spec by auto.
  rewrite bytes_size_spec by (unfold short; rewrite Hhash; lia).
  rewrite !bytes_enc_length, Hhash.
  rewrite (varint_enc_length_small (rn_height n)) by lia.
  change (node_mode (RefNew lv ln) (RefNew rv rn)) with 0.
  change (length (uvarint_enc (N.of_nat 32))) with 1%nat.
  change (length (varint_enc 0)) with 1%nat.
  f_equal. lia.
Qed.

(** [encodedSize] is not the encoded length in general: it forgets the mode byte, and it
    sizes a 32-byte legacy child by reading its first 12 bytes as (version, nonce). *)
Theorem encoded_size_refuted :
  exists n, wf_raw n /\ exists sz, encoded_size n = DOk sz /\ (sz < length (encode_node n))%nat.
Proof.
  exists (mk_raw_node 1 2 [97%N] None (repeat 7%N 32) (RefNew 1 2) (RefLegacy (repeat 0%N 32))).
  split.
  - unfold wf_raw, in_int8, in_int64, in_uint32, short. cbn. repeat split; try lia; try discriminate.
  - eexists. split; [vm_compute; reflexivity|]. vm_compute. lia.
Qed.
