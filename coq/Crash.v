(** Crash images and recovery (property C05).

    BatchWithFlusher (batch.go) writes a batch to the database whenever its estimated size would
    exceed the flush threshold, so the writes of ONE logical operation reach the database as
    SEVERAL physical batches, each atomic, in order.  A physical segmentation of an operation is
    any split of its write list into consecutive chunks; a process that stops between two
    physical writes leaves the database with the first [i] chunks applied.  Every such image is
    the image of a prefix of the write list ([CrashFacts.chunk_image_prefix]) and every prefix is
    the image of some segmentation ([CrashFacts.prefix_is_chunk_image]): quantifying over all
    prefixes covers every flush threshold.

    [recover] models what reopening does to the stored data: MutableTree.Load = LoadVersion(0)
    on a fresh nodeDB (no cached first / latest version). *)
From IAVL Require Import Bytes Varint Tree MTree Store.
Local Open Scope Z_scope.

Definition image (d : db) (ops : list wop) (i : nat) : db := apply_ops d (firstn i ops).

Definition chunk_image (d : db) (chunks : list (list wop)) (i : nat) : db :=
  apply_ops d (concat (firstn i chunks)).

Inductive rerr :=
| ErrInitialVersion          (* "initial version set to .., but found earlier version .." *)
| ErrVersionDoesNotExist     (* ErrVersionDoesNotExist *)
| ErrValueMissing            (* GetNode: "Value missing for key .." / undecodable node *)
| ErrFuel.                   (* the model's loop fuel ran out (never, for versions < 2^64) *)

Inductive recovered :=
| REmpty (rebuild : bool)                                          (* no version stored *)
| ROk (latest first : Z) (rootkey : option nodekey) (rebuild : bool)
| RErr (e : rerr).

(** getFirstVersion: binary search for the first version whose root key exists
    ([for first < latest { mid := (latest+first)>>1; if has(mid) {latest = mid} else {first = mid+1} }]) *)
Fixpoint first_search (fuel : nat) (has : Z -> bool) (lo hi : Z) : option Z :=
  if lo <? hi then
    match fuel with
    | O => None
    | S fuel' =>
        let mid := Z.shiftr (hi + lo) 1 in
        if has mid then first_search fuel' has lo mid else first_search fuel' has (mid + 1) hi
    end
  else Some hi.

Definition search_fuel : nat := 64.

(** GetRoot(v) *)
Inductive root_res := RootMissing | RootNil | RootKey (k : nodekey).

Definition get_root (st : store) (v : Z) : root_res :=
  match mfind kcmp (v, 1) st with
  | None => RootMissing
  | Some EEmpty => RootNil
  | Some (ERef k) =>
      if mhas kcmp k st then RootKey k
      else if mhas kcmp (fst k, 0) st then RootKey (fst k, 0)   (* root re-keyed by pruning *)
      else RootMissing
  | Some (ENode _) => RootKey (v, 1)
  end.

(** GetNode(k), with the (v,1) -> (v,0) fallback; a reference or an empty value found under a
    node key does not decode *)
Definition get_node (st : store) (k : nodekey) : option snode :=
  match mfind kcmp k st with
  | Some (ENode n) => Some n
  | Some _ => None
  | None =>
      if snd k =? 1 then
        match mfind kcmp (fst k, 0) st with Some (ENode n) => Some n | _ => None end
      else None
  end.

(** IsUpgradeable: the label is absent / default, or names another version than the latest *)
Definition needs_rebuild (lbl : option Z) (latest : Z) : bool :=
  match lbl with None => true | Some l => negb (l =? latest) end.

(** Load() = LoadVersion(0).  [iv] is Options.InitialVersion.  The result records the latest and
    first version found, the resolved root key of the latest version and whether the fast index
    is going to be rebuilt (enableFastStorageAndCommitIfNotEnabled).  The rebuild itself (a full
    traversal of the latest tree followed by [Store.rebuild_ops]) is not executed here, and the
    nodes below the root are not read: like Go, a Load that succeeds says nothing about them. *)
Definition recover (iv : Z) (d : db) : recovered :=
  let st := nodes d in
  let latest := store_latest st in
  match first_search search_fuel (fun v => mhas kcmp (v, 1) st) 0 latest with
  | None => RErr ErrFuel
  | Some first =>
      if (0 <? first) && (first <? iv) then RErr ErrInitialVersion
      else if latest <=? 0 then REmpty (needs_rebuild (label d) 0)
      else if negb (first <=? latest) then RErr ErrVersionDoesNotExist
      else
        match get_root st latest with
        | RootMissing => RErr ErrVersionDoesNotExist
        | RootNil => ROk latest first None (needs_rebuild (label d) latest)
        | RootKey k =>
            match get_node st k with
            | None => RErr ErrValueMissing
            | Some _ => ROk latest first (Some k) (needs_rebuild (label d) latest)
            end
        end
  end.

Definition set_rebuild (r : recovered) (b : bool) : recovered :=
  match r with
  | REmpty _ => REmpty b
  | ROk l f k _ => ROk l f k b
  | RErr e => RErr e
  end.

Definition is_err (r : recovered) : bool := match r with RErr _ => true | _ => false end.

(** all images of an operation under all cut points (for the harness: the model's prediction
    of what reopening reports at each crash point) *)
Definition crash_table (iv : Z) (d : db) (ops : list wop) : list recovered :=
  map (fun i => recover iv (image d ops i)) (seq 0 (S (length ops))).
