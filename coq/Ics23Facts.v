(** C03: facts about the ICS-23 proof model (Ics23.v).

    Completeness: the proofs built by [get_membership_proof] / [get_nonmembership_proof]
    verify with the transcribed ICS-23 verifier against the tree's root hash.
    Soundness (constructive collision form): a membership proof that verifies against the
    root hash of a tree either states a true membership or exhibits two different inputs of
    [H] with the same hash. *)
From IAVL Require Import Bytes Varint VarintFacts Tree VMap TreeFacts HashFacts Sha256 Ics23.
From Coq Require Import Lia ZifyBool ZifyNat ZifyN.
Local Open Scope Z_scope.

(** * Small helpers *)
Lemma blen_app a b : blen (a ++ b) = blen a + blen b.
Proof. unfold blen. rewrite app_length. lia. Qed.
Lemma blen_cons x a : blen (x :: a) = 1 + blen a.
Proof. unfold blen. cbn [length]. lia. Qed.
Lemma blen_nil : blen [] = 0.
Proof. reflexivity. Qed.
Lemma blen_nonneg a : 0 <= blen a.
Proof. unfold blen. lia. Qed.

Lemma beq_refl a : beq a a = true.
Proof. apply beq_true. reflexivity. Qed.

Lemma beq_len_false a b : length a <> length b -> beq a b = false.
Proof. intros L. apply beq_false. intros ->. apply L. reflexivity. Qed.

Lemma app_eq_len {A} (a c b d : list A) :
  a ++ b = c ++ d -> length a = length c -> a = c /\ b = d.
Proof.
  revert c. induction a as [|x a IH]; intros [|y c] E L; cbn in *; try discriminate.
  - split; [reflexivity|exact E].
  - inversion E; subst. destruct (IH c H1 ltac:(lia)) as [-> ->]. split; reflexivity.
Qed.

Lemma forallb_rev {A} (f : A -> bool) l : forallb f (rev l) = forallb f l.
Proof.
  induction l as [|x l IH]; [reflexivity|]. cbn [rev forallb].
  rewrite forallb_app, IH. cbn [forallb]. destruct (f x), (forallb f l); reflexivity.
Qed.

(** * Varints *)
Definition i63 (x : Z) : Prop := 0 <= x < 2 ^ 63.

Lemma varint_enc_0 : varint_enc 0 = [0%N].
Proof. reflexivity. Qed.
Lemma varint_enc_1 : varint_enc 1 = [2%N].
Proof. reflexivity. Qed.
Lemma uvarint_enc_32 : uvarint_enc 32 = [32%N].
Proof. reflexivity. Qed.

Lemma varint_first_nonzero h : 1 <= h -> exists b rest, varint_enc h = b :: rest /\ b <> 0%N.
Proof.
  intros Hh. unfold varint_enc, uvarint_enc. cbn [uvarint_enc_fuel].
  assert (Z : zigzag h <> 0%N). { unfold zigzag. destruct (h <? 0) eqn:E; lia. }
  destruct (zigzag h <? 128)%N eqn:E.
  - eexists _, _. split; [reflexivity|exact Z].
  - eexists _, _. split; [reflexivity|]. lia.
Qed.

(** length of a varint: [x < 2^(7n-1)] fits in [n] bytes *)
Lemma uvarint_enc_fuel_len_le f : forall n u, (n <= f)%nat -> (0 < n)%nat ->
  (u < 2 ^ (7 * N.of_nat n))%N -> (length (uvarint_enc_fuel f u) <= n)%nat.
Proof.
  induction f as [|f IH]; intros n u Hn Hp Hu; [lia|].
  cbn [uvarint_enc_fuel]. destruct (u <? 128)%N eqn:E; [cbn [length]; lia|].
  cbn [length]. destruct n as [|n]; [lia|]. destruct n as [|n].
  - cbn in Hu. lia.
  - apply le_n_S. apply IH; try lia.
    replace (7 * N.of_nat (S (S n)))%N with (7 * N.of_nat (S n) + 7)%N in Hu by lia.
    rewrite N.pow_add_r in Hu. apply N.div_lt_upper_bound; lia.
Qed.

Lemma varint_enc_len_le (n : nat) x : (0 < n <= 10)%nat -> 0 <= x < 2 ^ (7 * Z.of_nat n - 1) ->
  (length (varint_enc x) <= n)%nat.
Proof.
  intros Hn Hx. unfold varint_enc, uvarint_enc. apply uvarint_enc_fuel_len_le; try lia.
  unfold zigzag. replace (x <? 0) with false by lia.
  assert (2 * x < 2 ^ (7 * Z.of_nat n)).
  { replace (7 * Z.of_nat n) with (7 * Z.of_nat n - 1 + 1) by lia.
    rewrite Z.pow_add_r by lia. lia. }
  assert (E : (2 ^ (7 * N.of_nat n))%N = Z.to_N (2 ^ (7 * Z.of_nat n))).
  { rewrite Z2N.inj_pow by lia. f_equal. lia. }
  rewrite E. lia.
Qed.

Lemma varint_dec_app buf rest x n :
  varint_dec buf = Some (x, n) -> varint_dec (buf ++ rest) = Some (x, n).
Proof.
  intros E. pose proof (varint_dec_prefix buf x n (skipn n buf ++ rest) E) as P.
  rewrite app_assoc, firstn_skipn in P. exact P.
Qed.

Lemma skipn_app_le {A} n (a b : list A) : (n <= length a)%nat -> skipn n (a ++ b) = skipn n a ++ b.
Proof.
  intros L. rewrite skipn_app. replace (n - length a)%nat with 0%nat by lia. reflexivity.
Qed.

(** the number of bytes taken by the three leading varints of an op prefix *)
Definition hdr_len (buf : bytes) : option nat :=
  match varint_dec buf with
  | None => None
  | Some (_, n0) =>
      match varint_dec (skipn n0 buf) with
      | None => None
      | Some (_, n1) =>
          match varint_dec (skipn n1 (skipn n0 buf)) with
          | None => None
          | Some (_, n2) => Some (n0 + n1 + n2)%nat
          end
      end
  end.

Lemma hdr_len_le buf n : hdr_len buf = Some n -> (0 < n <= length buf)%nat.
Proof.
  unfold hdr_len.
  destruct (varint_dec buf) as [[x0 n0]|] eqn:E0; [|discriminate].
  destruct (varint_dec (skipn n0 buf)) as [[x1 n1]|] eqn:E1; [|discriminate].
  destruct (varint_dec (skipn n1 (skipn n0 buf))) as [[x2 n2]|] eqn:E2; [|discriminate].
  intros E; inversion E; subst.
  destruct (varint_dec_guard _ _ _ E0) as (A0 & _).
  destruct (varint_dec_guard _ _ _ E1) as (A1 & _).
  destruct (varint_dec_guard _ _ _ E2) as (A2 & _).
  repeat rewrite skipn_length in A1. repeat rewrite skipn_length in A2. lia.
Qed.

Lemma hdr_len_app buf rest n : hdr_len buf = Some n -> hdr_len (buf ++ rest) = Some n.
Proof.
  unfold hdr_len.
  destruct (varint_dec buf) as [[x0 n0]|] eqn:E0; [|discriminate].
  destruct (varint_dec (skipn n0 buf)) as [[x1 n1]|] eqn:E1; [|discriminate].
  destruct (varint_dec (skipn n1 (skipn n0 buf))) as [[x2 n2]|] eqn:E2; [|discriminate].
  intros E; inversion E; subst.
  destruct (varint_dec_guard _ _ _ E0) as (A0 & _).
  destruct (varint_dec_guard _ _ _ E1) as (A1 & _).
  rewrite (varint_dec_app _ rest _ _ E0).
  rewrite (skipn_app_le n0 buf rest) by lia.
  rewrite (varint_dec_app _ rest _ _ E1).
  rewrite (skipn_app_le n1 (skipn n0 buf) rest) by lia.
  rewrite (varint_dec_app _ rest _ _ E2). reflexivity.
Qed.

Definition vlen (a b c : Z) : nat :=
  (length (varint_enc a) + length (varint_enc b) + length (varint_enc c))%nat.

Definition int64 (x : Z) : Prop := - 2 ^ 63 <= x < 2 ^ 63.

Lemma hdr_len_enc a b c rest : int64 a -> int64 b -> int64 c ->
  hdr_len (varint_enc a ++ varint_enc b ++ varint_enc c ++ rest) = Some (vlen a b c).
Proof.
  intros Ha Hb Hc. unfold hdr_len.
  rewrite (varint_roundtrip a _ Ha). rewrite skipn_length_app.
  rewrite (varint_roundtrip b _ Hb). rewrite skipn_length_app.
  rewrite (varint_roundtrip c _ Hc). reflexivity.
Qed.

Lemma vlen_bounds a b c : (3 <= vlen a b c <= 30)%nat.
Proof.
  unfold vlen. pose proof (varint_enc_length a). pose proof (varint_enc_length b).
  pose proof (varint_enc_length c). lia.
Qed.

(** [validate_iavl_ops] on a prefix produced by the iavl code *)
Lemma validate_produced a b c rest layer : i63 a -> i63 b -> i63 c ->
  validate_iavl_ops (varint_enc a ++ varint_enc b ++ varint_enc c ++ rest) layer =
    if a <? layer then false
    else if layer =? 0 then blen rest =? 0 else (blen rest =? 1) || (blen rest =? 34).
Proof.
  unfold i63. intros Ha Hb Hc. unfold validate_iavl_ops.
  rewrite (varint_roundtrip a) by (unfold int64; lia). rewrite skipn_length_app.
  replace (a <? 0) with false by lia.
  rewrite (varint_roundtrip b) by (unfold int64; lia). rewrite skipn_length_app.
  replace (b <? 0) with false by lia.
  rewrite (varint_roundtrip c) by (unfold int64; lia). rewrite skipn_length_app.
  replace (c <? 0) with false by lia. reflexivity.
Qed.

(** what a successful validation says about an arbitrary prefix *)
Lemma validate_inv prefix layer : validate_iavl_ops prefix layer = true ->
  exists n, hdr_len prefix = Some n /\
    (if layer =? 0 then length prefix = n
     else length prefix = (n + 1)%nat \/ length prefix = (n + 34)%nat).
Proof.
  unfold validate_iavl_ops, hdr_len.
  destruct (varint_dec prefix) as [[x0 n0]|] eqn:E0; [|discriminate].
  destruct (x0 <? 0); [discriminate|].
  destruct (varint_dec (skipn n0 prefix)) as [[x1 n1]|] eqn:E1; [|discriminate].
  destruct (x1 <? 0); [discriminate|].
  destruct (varint_dec (skipn n1 (skipn n0 prefix))) as [[x2 n2]|] eqn:E2; [|discriminate].
  destruct (x2 <? 0); [discriminate|].
  destruct (x0 <? layer); [discriminate|].
  destruct (varint_dec_guard _ _ _ E0) as (A0 & _).
  destruct (varint_dec_guard _ _ _ E1) as (A1 & _).
  destruct (varint_dec_guard _ _ _ E2) as (A2 & _).
  repeat rewrite skipn_length in A1. repeat rewrite skipn_length in A2.
  unfold blen. repeat rewrite skipn_length.
  intros V. exists (n0 + n1 + n2)%nat. split; [reflexivity|].
  revert V. destruct (layer =? 0); lia.
Qed.

(** * Trees: bounds needed by the spec's prefix window *)
Section Facts.
  Variable H : bytes -> bytes.
  Hypothesis Hlen : forall x, length (H x) = 32%nat.
  Variable wv : Z.

  Notation ph := (pure_hash H wv).

  Lemma ph_len t : length (ph t) = 32%nat.
  Proof. destruct t; apply Hlen. Qed.

  Lemma len32_cons (x : bytes) : length x = 32%nat -> exists b r, x = b :: r.
  Proof. destruct x as [|b r]; [discriminate|]. eauto. Qed.

  (** The explicit guard: every height / size / effective version is a non-negative int64,
      heights are at most 128 (they are int8 in Go), and on every inner node the three
      varints take at most 11 bytes, so that the inner-op prefix (varints + 1 byte, or
      varints + 34 bytes) lies in the spec's window 4..12 (+33). *)
  Fixpoint bounds (t : node) : Prop :=
    match t with
    | Leaf _ _ m => i63 (eff_ver wv m)
    | Inner _ h s m l r =>
        i63 h /\ h <= 128 /\ i63 s /\ i63 (eff_ver wv m) /\
        (vlen h s (eff_ver wv m) <= 11)%nat /\ bounds l /\ bounds r
    end.

  Lemma bounds_leaf k v m : bounds (Leaf k v m) <-> 0 <= eff_ver wv m < 2 ^ 63.
  Proof. reflexivity. Qed.

  Lemma bounds_inner k h s m l r :
    bounds (Inner k h s m l r) <->
    (0 <= h < 2 ^ 63) /\ h <= 128 /\ (0 <= s < 2 ^ 63) /\ (0 <= eff_ver wv m < 2 ^ 63) /\
    (length (varint_enc h) + length (varint_enc s) + length (varint_enc (eff_ver wv m)) <= 11)%nat /\
    bounds l /\ bounds r.
  Proof. reflexivity. Qed.

  (** a simple sufficient condition: heights < 64, sizes and versions < 2^34 *)
  Fixpoint simple_bounds (t : node) : Prop :=
    match t with
    | Leaf _ _ m => 0 <= eff_ver wv m < 2 ^ 34
    | Inner _ h s m l r =>
        0 <= h < 64 /\ 0 <= s < 2 ^ 34 /\ 0 <= eff_ver wv m < 2 ^ 34 /\
        simple_bounds l /\ simple_bounds r
    end.

  Lemma simple_bounds_ok t : simple_bounds t -> bounds t.
  Proof.
    clear Hlen H.
    induction t as [k v m|k h s m l IHl r IHr]; cbn [simple_bounds bounds].
    - unfold i63. lia.
    - intros (A & B & C & D & E). unfold i63.
      repeat split; try lia; auto.
      unfold vlen.
      pose proof (varint_enc_len_le 1 h ltac:(lia) ltac:(cbn; lia)).
      pose proof (varint_enc_len_le 5 s ltac:(lia) ltac:(cbn; lia)).
      pose proof (varint_enc_len_le 5 (eff_ver wv m) ltac:(lia) ltac:(cbn; lia)).
      lia.
  Qed.

  (** * apply_path *)
  Lemma apply_path_app c a b :
    apply_path H c (a ++ b) =
      match apply_path H c a with Some c' => apply_path H c' b | None => None end.
  Proof.
    revert c. induction a as [|x a IH]; intros c; [reflexivity|].
    cbn [app apply_path]. destruct (inner_apply H x c) as [r|]; [|reflexivity].
    destruct (33 <? blen r); [reflexivity|]. apply IH.
  Qed.

  Lemma apply_path_len c p c' : length c = 32%nat -> apply_path H c p = Some c' -> length c' = 32%nat.
  Proof.
    revert c. induction p as [|x p IH]; intros c L; cbn [apply_path].
    - intros E; inversion E; subst; exact L.
    - unfold inner_apply. destruct c as [|b0 c0]; [discriminate|].
      destruct (33 <? blen _); [discriminate|]. apply IH. apply Hlen.
  Qed.

  Lemma inner_apply_32 io c : length c = 32%nat ->
    inner_apply H io c = Some (H (io_prefix io ++ c ++ io_suffix io)).
  Proof. intros L. destruct c; [discriminate|]. reflexivity. Qed.

  Lemma step_32 io c rest : length c = 32%nat ->
    apply_path H c (io :: rest) = apply_path H (H (io_prefix io ++ c ++ io_suffix io)) rest.
  Proof.
    intros L. cbn [apply_path]. rewrite (inner_apply_32 io c L).
    replace (33 <? blen _) with false; [reflexivity|].
    unfold blen. rewrite Hlen. reflexivity.
  Qed.

  (** * The two kinds of inner ops produced *)
  Definition pre3 (h s v : Z) : bytes := varint_enc h ++ varint_enc s ++ varint_enc v.

  Lemma pre3_len h s v : length (pre3 h s v) = vlen h s v.
  Proof. unfold pre3, vlen. rewrite !app_length. lia. Qed.

  Lemma conv_left h s v rh :
    convert_inner_op (PIN h s v [] rh) = InnerOp (pre3 h s v ++ [32%N]) (32%N :: rh).
  Proof. reflexivity. Qed.

  Lemma conv_right h s v lh : length lh = 32%nat ->
    convert_inner_op (PIN h s v lh []) = InnerOp (pre3 h s v ++ [32%N] ++ lh ++ [32%N]) [].
  Proof. intros L. destruct lh; [discriminate|]. reflexivity. Qed.

  Lemma step_left h s v c rh : length c = 32%nat ->
    io_prefix (InnerOp (pre3 h s v ++ [32%N]) (32%N :: rh)) ++ c ++
    io_suffix (InnerOp (pre3 h s v ++ [32%N]) (32%N :: rh)) = inner_preimage h s v c rh.
  Proof.
    intros _. cbn [io_prefix io_suffix]. unfold inner_preimage, pre3.
    repeat rewrite <- app_assoc. reflexivity.
  Qed.

  Lemma step_right h s v lh c :
    io_prefix (InnerOp (pre3 h s v ++ [32%N] ++ lh ++ [32%N]) []) ++ c ++
    io_suffix (InnerOp (pre3 h s v ++ [32%N] ++ lh ++ [32%N]) []) = inner_preimage h s v lh c.
  Proof.
    cbn [io_prefix io_suffix]. unfold inner_preimage, pre3.
    repeat rewrite <- app_assoc. cbn [app]. rewrite app_nil_r.
    repeat rewrite <- app_assoc. reflexivity.
  Qed.

  Lemma convert_inner_ops_cons pin p :
    convert_inner_ops (pin :: p) = convert_inner_ops p ++ [convert_inner_op pin].
  Proof. unfold convert_inner_ops. cbn [rev]. rewrite map_app. reflexivity. Qed.

  Lemma convert_inner_ops_length p : length (convert_inner_ops p) = length p.
  Proof. unfold convert_inner_ops. rewrite map_length, rev_length. reflexivity. Qed.

  (** * 1. The existence proof recomputes the root *)
  Lemma calc_path t : forall k p lk lv m ok,
    path_to_leaf ph wv t k = (p, (lk, lv, m), ok) ->
    apply_path H (H (leaf_preimage H (eff_ver wv m) lk lv)) (convert_inner_ops p) = Some (ph t).
  Proof.
    induction t as [k0 v0 m0|nk h s m0 l IHl r IHr]; intros k p lk lv m ok E.
    - cbn [path_to_leaf] in E. inversion E; subst. reflexivity.
    - cbn [path_to_leaf] in E. destruct (blt k nk).
      + destruct (path_to_leaf ph wv l k) as [[p' [[lk' lv'] m']] ok'] eqn:E'.
        inversion E; subst. rewrite convert_inner_ops_cons, apply_path_app.
        rewrite (IHl _ _ _ _ _ _ E'). rewrite conv_left.
        rewrite (step_32 _ _ _ (ph_len l)). rewrite (step_left _ _ _ _ _ (ph_len l)).
        reflexivity.
      + destruct (path_to_leaf ph wv r k) as [[p' [[lk' lv'] m']] ok'] eqn:E'.
        inversion E; subst. rewrite convert_inner_ops_cons, apply_path_app.
        rewrite (IHr _ _ _ _ _ _ E'). rewrite (conv_right _ _ _ _ (ph_len l)).
        rewrite (step_32 _ _ _ (ph_len r)). rewrite step_right.
        reflexivity.
  Qed.

  Lemma leaf_apply_produced v k val : k <> [] -> val <> [] ->
    leaf_apply H (convert_leaf_op v) k val = Some (H (leaf_preimage H v k val)).
  Proof.
    intros Hk Hv. destruct k as [|k0 k']; [contradiction|]. destruct val as [|v0 v']; [contradiction|].
    cbn [leaf_apply convert_leaf_op lo_prefix]. f_equal. f_equal.
    unfold leaf_preimage, var_proto. repeat rewrite <- app_assoc. do 4 f_equal.
    unfold bytes_enc. rewrite Hlen. reflexivity.
  Qed.

  Definition mk_ep (p : list proof_inner_node) (lk lv : bytes) (m : meta) : existence_proof :=
    ExistenceProof lk lv (convert_leaf_op (eff_ver wv m)) (convert_inner_ops p).

  Theorem calculate_path t k p lv m :
    path_to_leaf ph wv t k = (p, (k, lv, m), true) -> k <> [] -> lv <> [] ->
    calculate H (mk_ep p k lv m) = Some (ph t).
  Proof.
    intros E Hk Hv. unfold calculate, mk_ep. cbn [ep_leaf ep_key ep_value ep_path].
    rewrite (leaf_apply_produced _ _ _ Hk Hv). apply (calc_path _ _ _ _ _ _ _ E).
  Qed.

  (** * path_to_leaf versus get *)
  Lemma path_get (hf : node -> bytes) t : forall k p lk lv m ok,
    path_to_leaf hf wv t k = (p, (lk, lv, m), ok) ->
    if ok then lk = k /\ snd (get t k) = Some lv else snd (get t k) = None.
  Proof.
    induction t as [k0 v0 m0|nk h s m0 l IHl r IHr]; intros k p lk lv m ok E.
    - cbn [path_to_leaf get] in *. inversion E; subst. unfold beq.
      bcases lk k; cbn; auto.
    - cbn [path_to_leaf get] in *. destruct (blt k nk).
      + destruct (path_to_leaf hf wv l k) as [[p' [[lk' lv'] m']] ok'] eqn:E'.
        inversion E; subst. apply (IHl _ _ _ _ _ _ E').
      + destruct (path_to_leaf hf wv r k) as [[p' [[lk' lv'] m']] ok'] eqn:E'.
        inversion E; subst. specialize (IHr _ _ _ _ _ _ E').
        destruct (get r k) as [i v]. exact IHr.
  Qed.

  Lemma get_path (hf : node -> bytes) t k v : snd (get t k) = Some v ->
    exists p m, path_to_leaf hf wv t k = (p, (k, v, m), true).
  Proof.
    intros G. destruct (path_to_leaf hf wv t k) as [[p [[lk lv] m]] ok] eqn:E.
    pose proof (path_get hf t _ _ _ _ _ _ E) as P. destruct ok.
    - destruct P as [-> P]. rewrite G in P. inversion P; subst. eauto.
    - rewrite G in P. discriminate.
  Qed.

  (** * check_against_spec on produced proofs *)
  Lemma inner_checks_app a x b :
    inner_checks (a ++ [x]) b =
      inner_checks a b && inner_check_against_spec x (b + Z.of_nat (length a)).
  Proof.
    revert b. induction a as [|y a IH]; intros b.
    - cbn [app inner_checks length]. rewrite Z.add_0_r, andb_true_r. reflexivity.
    - cbn [app inner_checks length]. rewrite IH, andb_assoc. do 2 f_equal. lia.
  Qed.

  Lemma pre3_not_zero h s v rest : 1 <= h -> is_prefix [0%N] (pre3 h s v ++ rest) = false.
  Proof.
    intros Hh. destruct (varint_first_nonzero h Hh) as (b & r & E & Nz).
    unfold pre3. rewrite E. cbn [app is_prefix]. apply andb_false_intro1. apply N.eqb_neq. lia.
  Qed.

  Lemma check_left h s v rh layer :
    i63 h -> i63 s -> i63 v -> (vlen h s v <= 11)%nat -> 1 <= layer <= h -> length rh = 32%nat ->
    inner_check_against_spec (InnerOp (pre3 h s v ++ [32%N]) (32%N :: rh)) layer = true.
  Proof.
    intros Hh Hs Hv Hl Hy Hr. unfold inner_check_against_spec. cbn [io_prefix io_suffix].
    rewrite (pre3_not_zero h s v _ ltac:(lia)).
    rewrite blen_app, blen_cons. unfold blen. rewrite pre3_len. cbn [length]. rewrite Hr.
    pose proof (vlen_bounds h s v).
    unfold pre3. repeat rewrite <- app_assoc. rewrite (validate_produced h s v _ layer Hh Hs Hv).
    replace (h <? layer) with false by lia. replace (layer =? 0) with false by lia.
    change (blen [32%N]) with 1. change (Z.of_nat 33 mod 33 =? 0) with true.
    change (Z.of_nat 0) with 0. lia.
  Qed.

  Lemma check_right h s v lh layer :
    i63 h -> i63 s -> i63 v -> (vlen h s v <= 11)%nat -> 1 <= layer <= h -> length lh = 32%nat ->
    inner_check_against_spec (InnerOp (pre3 h s v ++ [32%N] ++ lh ++ [32%N]) []) layer = true.
  Proof.
    intros Hh Hs Hv Hl Hy Hr. unfold inner_check_against_spec. cbn [io_prefix io_suffix].
    rewrite (pre3_not_zero h s v _ ltac:(lia)).
    rewrite blen_app. unfold blen. rewrite pre3_len. rewrite !app_length. cbn [length]. rewrite Hr.
    pose proof (vlen_bounds h s v).
    unfold pre3. repeat rewrite <- app_assoc. rewrite (validate_produced h s v _ layer Hh Hs Hv).
    replace (h <? layer) with false by lia. replace (layer =? 0) with false by lia.
    unfold blen. rewrite !app_length. cbn [length]. rewrite Hr.
    change (Z.of_nat 0 mod 33 =? 0) with true. lia.
  Qed.

  Lemma path_checks t : wf t -> bounds t -> forall k p lf ok,
    path_to_leaf ph wv t k = (p, lf, ok) ->
    Z.of_nat (length p) <= height t /\ inner_checks (convert_inner_ops p) 1 = true.
  Proof.
    induction t as [k0 v0 m0|nk h s m0 l IHl r IHr]; intros W B k p lf ok E.
    - cbn [path_to_leaf] in E. inversion E; subst. cbn. split; [lia|reflexivity].
    - cbn [wf] in W. destruct W as (Wl & Wr & _ & _ & _ & Hh & _).
      cbn [bounds] in B. destruct B as (Bh & Bh' & Bs & Bv & Bl & Bbl & Bbr).
      pose proof (height_nonneg l Wl). pose proof (height_nonneg r Wr).
      cbn [path_to_leaf] in E. cbn [height]. destruct (blt k nk).
      + destruct (path_to_leaf ph wv l k) as [[p' lf'] ok'] eqn:E'.
        inversion E; subst p lf ok. destruct (IHl Wl Bbl _ _ _ _ E') as [L C].
        cbn [length]. split; [lia|].
        rewrite convert_inner_ops_cons, inner_checks_app, C, convert_inner_ops_length.
        rewrite conv_left. apply check_left; auto; try lia. apply ph_len.
      + destruct (path_to_leaf ph wv r k) as [[p' lf'] ok'] eqn:E'.
        inversion E; subst p lf ok. destruct (IHr Wr Bbr _ _ _ _ E') as [L C].
        cbn [length]. split; [lia|].
        rewrite convert_inner_ops_cons, inner_checks_app, C, convert_inner_ops_length.
        rewrite (conv_right _ _ _ _ (ph_len l)). apply check_right; auto; try lia. apply ph_len.
  Qed.

  Lemma leaf_check_produced v : i63 v -> leaf_check_against_spec (convert_leaf_op v) = true.
  Proof.
    intros Hv. unfold leaf_check_against_spec, convert_leaf_op. cbn [lo_prefix].
    rewrite <- (app_nil_r (varint_enc v)). repeat rewrite <- app_assoc.
    rewrite (validate_produced 0 1 v [] 0); try (unfold i63; lia); auto.
  Qed.

  Lemma path_leaf_bounds (hf : node -> bytes) t : bounds t -> forall k p lk lv m ok,
    path_to_leaf hf wv t k = (p, (lk, lv, m), ok) -> i63 (eff_ver wv m).
  Proof.
    induction t as [k0 v0 m0|nk h s m0 l IHl r IHr]; intros B k p lk lv m ok E.
    - cbn [path_to_leaf] in E. inversion E; subst. exact B.
    - cbn [bounds] in B. destruct B as (_ & _ & _ & _ & _ & Bbl & Bbr).
      cbn [path_to_leaf] in E. destruct (blt k nk).
      + destruct (path_to_leaf hf wv l k) as [[p' [[lk' lv'] m']] ok'] eqn:E'.
        inversion E; subst. apply (IHl Bbl _ _ _ _ _ _ E').
      + destruct (path_to_leaf hf wv r k) as [[p' [[lk' lv'] m']] ok'] eqn:E'.
        inversion E; subst. apply (IHr Bbr _ _ _ _ _ _ E').
  Qed.

  Lemma height_le_128 t : bounds t -> wf t -> height t <= 128.
  Proof.
    destruct t; cbn [bounds height]; intros B W; [lia|]. tauto.
  Qed.

  (** the existence proof of a reachable leaf verifies *)
  Lemma ep_verifies t k p lv m :
    wf t -> bounds t -> path_to_leaf ph wv t k = (p, (k, lv, m), true) -> k <> [] -> lv <> [] ->
    verify_existence H (ph t) (mk_ep p k lv m) k lv = true.
  Proof.
    intros W B E Hk Hv. unfold verify_existence.
    rewrite (calculate_path _ _ _ _ _ E Hk Hv).
    destruct (path_checks t W B _ _ _ _ E) as [L C].
    unfold check_against_spec, mk_ep. cbn [ep_leaf ep_path ep_key ep_value].
    rewrite (leaf_check_produced _ (path_leaf_bounds _ _ B _ _ _ _ _ _ E)).
    rewrite C, convert_inner_ops_length, !beq_refl.
    pose proof (height_le_128 t B W).
    replace (Z.of_nat (length p) <=? 128) with true by lia. reflexivity.
  Qed.

  (** * 2. Completeness of membership proofs *)
  Theorem complete_member_pure t k v :
    wf t -> bounds t -> snd (get t k) = Some v -> k <> [] -> v <> [] ->
    exists ep, get_membership_proof_gen ph wv (Some t) k = Some (PExist ep) /\
               ep_key ep = k /\ ep_value ep = v /\
               calculate H ep = Some (ph t) /\
               verify_membership H (ph t) (PExist ep) k v = true.
  Proof.
    intros W B G Hk Hv. destruct (get_path ph t k v G) as (p & m & E).
    exists (mk_ep p k v m). unfold get_membership_proof_gen, create_existence_proof.
    rewrite E. split; [reflexivity|]. split; [reflexivity|]. split; [reflexivity|].
    split; [apply (calculate_path _ _ _ _ _ E Hk Hv)|].
    unfold verify_membership. cbn [mk_ep ep_key]. rewrite beq_refl.
    apply ep_verifies; auto.
  Qed.

  (** * Paddings of the produced ops *)
  Lemma has_padding_true io minp maxp suf :
    minp <= blen (io_prefix io) <= maxp -> blen (io_suffix io) = suf ->
    has_padding io minp maxp suf = true.
  Proof.
    intros A B. unfold has_padding.
    replace (blen (io_prefix io) <? minp) with false by lia.
    replace (maxp <? blen (io_prefix io)) with false by lia. lia.
  Qed.

  Lemma has_padding_long io minp maxp suf :
    maxp < blen (io_prefix io) -> has_padding io minp maxp suf = false.
  Proof.
    intros A. unfold has_padding.
    destruct (blen (io_prefix io) <? minp); [reflexivity|].
    replace (maxp <? blen (io_prefix io)) with true by lia. reflexivity.
  Qed.

  Lemma left_op_blen h s v rh : length rh = 32%nat ->
    blen (io_prefix (InnerOp (pre3 h s v ++ [32%N]) (32%N :: rh))) = Z.of_nat (vlen h s v) + 1 /\
    blen (io_suffix (InnerOp (pre3 h s v ++ [32%N]) (32%N :: rh))) = 33.
  Proof.
    intros Hr. cbn [io_prefix io_suffix]. unfold blen. rewrite app_length, pre3_len.
    cbn [length]. rewrite Hr. lia.
  Qed.

  Lemma right_op_blen h s v lh : length lh = 32%nat ->
    blen (io_prefix (InnerOp (pre3 h s v ++ [32%N] ++ lh ++ [32%N]) [])) = Z.of_nat (vlen h s v) + 34 /\
    blen (io_suffix (InnerOp (pre3 h s v ++ [32%N] ++ lh ++ [32%N]) [])) = 0.
  Proof.
    intros Hr. cbn [io_prefix io_suffix]. unfold blen. rewrite !app_length, pre3_len.
    cbn [length]. rewrite Hr. lia.
  Qed.

  Lemma pad_left h s v rh : (vlen h s v <= 11)%nat -> length rh = 32%nat ->
    has_padding_for (InnerOp (pre3 h s v ++ [32%N]) (32%N :: rh)) 0 = true.
  Proof.
    intros Hl Hr. destruct (left_op_blen h s v rh Hr) as [A B]. pose proof (vlen_bounds h s v).
    unfold has_padding_for, get_padding. apply has_padding_true; lia.
  Qed.

  Lemma pad_right h s v lh : (vlen h s v <= 11)%nat -> length lh = 32%nat ->
    has_padding_for (InnerOp (pre3 h s v ++ [32%N] ++ lh ++ [32%N]) []) 1 = true.
  Proof.
    intros Hl Hr. destruct (right_op_blen h s v lh Hr) as [A B]. pose proof (vlen_bounds h s v).
    unfold has_padding_for, get_padding. apply has_padding_true; lia.
  Qed.

  Lemma order_left h s v rh : (vlen h s v <= 11)%nat -> length rh = 32%nat ->
    order_from_padding (InnerOp (pre3 h s v ++ [32%N]) (32%N :: rh)) = Some 0.
  Proof. intros Hl Hr. unfold order_from_padding. rewrite pad_left; auto. Qed.

  Lemma order_right h s v lh : (vlen h s v <= 11)%nat -> length lh = 32%nat ->
    order_from_padding (InnerOp (pre3 h s v ++ [32%N] ++ lh ++ [32%N]) []) = Some 1.
  Proof.
    intros Hl Hr. unfold order_from_padding. rewrite pad_right; auto.
    destruct (right_op_blen h s v lh Hr) as [A B]. pose proof (vlen_bounds h s v).
    replace (has_padding_for _ 0) with false; [reflexivity|].
    symmetry. unfold has_padding_for, get_padding. apply has_padding_long. lia.
  Qed.

  Lemma left_right_neq h s v lh rh : length lh = 32%nat ->
    inner_op_eqb (InnerOp (pre3 h s v ++ [32%N]) (32%N :: rh))
                 (InnerOp (pre3 h s v ++ [32%N] ++ lh ++ [32%N]) []) = false.
  Proof.
    intros Hl. unfold inner_op_eqb. cbn [io_prefix io_suffix].
    rewrite beq_len_false; [reflexivity|]. rewrite !app_length. cbn [length]. lia.
  Qed.

  (** * get_by_index and routing *)
  Lemma gbi_keys_all (P : bytes -> Prop) t : forall j a va,
    get_by_index t j = Some (a, va) -> keys_all P t -> P a.
  Proof.
    induction t as [k0 v0 m0|nk h s m0 l IHl r IHr]; intros j a va G K;
      cbn [get_by_index keys_all] in *.
    - destruct (j =? 0); inversion G; subst; exact K.
    - destruct K as [Kl Kr]. destruct (j <? size l); eauto.
  Qed.

  Lemma gbi_nth t j : wf t -> 0 <= j ->
    get_by_index t j = nth_error (elems t) (Z.to_nat j).
  Proof.
    intros W Hj. rewrite (get_by_index_spec t j W). replace (j <? 0) with false by lia. reflexivity.
  Qed.

  Lemma gbi_range t j x : wf t -> get_by_index t j = Some x -> 0 <= j < size t.
  Proof.
    intros W G. rewrite (get_by_index_spec t j W) in G. destruct (j <? 0) eqn:E; [discriminate|].
    assert (N : nth_error (elems t) (Z.to_nat j) <> None) by congruence.
    apply nth_error_Some in N. rewrite (size_elems t W). lia.
  Qed.

  Lemma gbi_some t j : wf t -> 0 <= j < size t -> exists a va, get_by_index t j = Some (a, va).
  Proof.
    intros W Hj. rewrite (gbi_nth t j W) by lia. rewrite (size_elems t W) in Hj.
    destruct (nth_error (elems t) (Z.to_nat j)) as [[a va]|] eqn:E; [eauto|].
    apply nth_error_None in E. lia.
  Qed.

  Lemma gbi_none t j : wf t -> size t <= j -> get_by_index t j = None.
  Proof.
    intros W Hj. pose proof (size_pos t W). rewrite (gbi_nth t j W) by lia.
    apply nth_error_None. rewrite (size_elems t W) in Hj. lia.
  Qed.

  Lemma gbi_get t j a va : wf t -> get_by_index t j = Some (a, va) -> get t a = (j, Some va).
  Proof.
    intros W G. pose proof (gbi_range t j _ W G) as R. rewrite (gbi_nth t j W) in G by lia.
    destruct (sorted_nth_rank _ _ _ _ (wf_sorted t W) G) as [A B].
    rewrite (get_spec t a W), A, B. f_equal. lia.
  Qed.

  (** * Left-most / right-most / neighbouring paths *)
  Lemma first_leftmost t : wf t -> bounds t -> forall a va p lf ok,
    get_by_index t 0 = Some (a, va) -> path_to_leaf ph wv t a = (p, lf, ok) ->
    is_left_most (convert_inner_ops p) = true.
  Proof.
    induction t as [k0 v0 m0|nk h s m0 l IHl r IHr]; intros W B a va p lf ok G E.
    - cbn [path_to_leaf] in E. inversion E; subst. reflexivity.
    - cbn [wf] in W. destruct W as (Wl & Wr & Kl & Kr & _).
      cbn [bounds] in B. destruct B as (_ & _ & _ & _ & Bl & Bbl & Bbr).
      pose proof (size_pos l Wl) as Sl.
      cbn [get_by_index] in G. replace (0 <? size l) with true in G by lia.
      pose proof (gbi_keys_all (fun x => x <b nk) l 0 a va G Kl) as Lt. cbn beta in Lt.
      cbn [path_to_leaf] in E. replace (blt a nk) with true in E by (symmetry; apply blt_true; exact Lt).
      destruct (path_to_leaf ph wv l a) as [[p' lf'] ok'] eqn:E'. inversion E; subst p lf ok.
      rewrite convert_inner_ops_cons. unfold is_left_most. rewrite forallb_app.
      fold (is_left_most (convert_inner_ops p')). rewrite (IHl Wl Bbl _ _ _ _ _ G E').
      cbn [forallb]. rewrite conv_left, (pad_left _ _ _ _ Bl (ph_len r)). reflexivity.
  Qed.

  Lemma last_rightmost t : wf t -> bounds t -> forall a va p lf ok,
    get_by_index t (size t - 1) = Some (a, va) -> path_to_leaf ph wv t a = (p, lf, ok) ->
    is_right_most (convert_inner_ops p) = true.
  Proof.
    induction t as [k0 v0 m0|nk h s m0 l IHl r IHr]; intros W B a va p lf ok G E.
    - cbn [path_to_leaf] in E. inversion E; subst. reflexivity.
    - cbn [wf] in W. destruct W as (Wl & Wr & Kl & Kr & _ & _ & Hs).
      cbn [bounds] in B. destruct B as (_ & _ & _ & _ & Bl & Bbl & Bbr).
      pose proof (size_pos l Wl) as Sl. pose proof (size_pos r Wr) as Sr.
      cbn [get_by_index size] in G. replace (s - 1 <? size l) with false in G by lia.
      replace (s - 1 - size l) with (size r - 1) in G by lia.
      pose proof (gbi_keys_all (fun x => nk <=b x) r _ a va G Kr) as Ge. cbn beta in Ge.
      cbn [path_to_leaf] in E. replace (blt a nk) with false in E by (symmetry; apply blt_false; exact Ge).
      destruct (path_to_leaf ph wv r a) as [[p' lf'] ok'] eqn:E'. inversion E; subst p lf ok.
      rewrite convert_inner_ops_cons. unfold is_right_most. rewrite forallb_app.
      fold (is_right_most (convert_inner_ops p')). rewrite (IHr Wr Bbr _ _ _ _ _ G E').
      cbn [forallb]. rewrite (conv_right _ _ _ _ (ph_len l)), (pad_right _ _ _ _ Bl (ph_len l)).
      reflexivity.
  Qed.

  (** the body of [is_left_neighbor] on root-first lists *)
  Definition nb_root (l r : list inner_op) : option bool :=
    match strip_common l r with
    | None => None
    | Some (topleft, l', topright, r') =>
        match order_from_padding topleft, order_from_padding topright with
        | Some li, Some ri =>
            if negb (ri =? li + 1) then Some false
            else if negb (is_right_most (rev l')) then Some false
            else if negb (is_left_most (rev r')) then Some false
            else Some true
        | _, _ => None
        end
    end.

  Lemma is_left_neighbor_eq l r : is_left_neighbor l r = nb_root (rev l) (rev r).
  Proof. reflexivity. Qed.

  Lemma nb_root_same x a b : nb_root (x :: a) (x :: b) = nb_root a b.
  Proof. unfold nb_root. cbn [strip_common]. unfold inner_op_eqb. rewrite !beq_refl. reflexivity. Qed.

  Lemma rev_convert p : rev (convert_inner_ops p) = map convert_inner_op p.
  Proof. unfold convert_inner_ops. rewrite map_rev, rev_involutive. reflexivity. Qed.

  Lemma rev_map_convert p : rev (map convert_inner_op p) = convert_inner_ops p.
  Proof. unfold convert_inner_ops. rewrite map_rev. reflexivity. Qed.

  Lemma neighbor_paths t : wf t -> bounds t -> forall j a va b vb pa lfa oka pb lfb okb,
    get_by_index t j = Some (a, va) -> get_by_index t (j + 1) = Some (b, vb) ->
    path_to_leaf ph wv t a = (pa, lfa, oka) -> path_to_leaf ph wv t b = (pb, lfb, okb) ->
    nb_root (map convert_inner_op pa) (map convert_inner_op pb) = Some true.
  Proof.
    induction t as [k0 v0 m0|nk h s m0 l IHl r IHr];
      intros W B j a va b vb pa lfa oka pb lfb okb Ga Gb Ea Eb.
    - exfalso. cbn [get_by_index] in Ga, Gb.
      destruct (j =? 0) eqn:J; [|discriminate]. replace (j + 1 =? 0) with false in Gb by lia.
      discriminate.
    - pose proof W as W0. cbn [wf] in W. destruct W as (Wl & Wr & Kl & Kr & _ & _ & Hs).
      pose proof B as B0. cbn [bounds] in B. destruct B as (_ & _ & _ & _ & Bl & Bbl & Bbr).
      pose proof (size_pos l Wl) as Sl. pose proof (size_pos r Wr) as Sr.
      cbn [get_by_index] in Ga, Gb. cbn [path_to_leaf] in Ea, Eb.
      destruct (j <? size l) eqn:Ja; destruct (j + 1 <? size l) eqn:Jb.
      + (* both in the left subtree *)
        pose proof (gbi_keys_all (fun x => x <b nk) l _ a va Ga Kl) as La.
        pose proof (gbi_keys_all (fun x => x <b nk) l _ b vb Gb Kl) as Lb. cbn beta in La, Lb.
        replace (blt a nk) with true in Ea by (symmetry; apply blt_true; exact La).
        replace (blt b nk) with true in Eb by (symmetry; apply blt_true; exact Lb).
        destruct (path_to_leaf ph wv l a) as [[pa' lfa'] oka'] eqn:Ea'.
        destruct (path_to_leaf ph wv l b) as [[pb' lfb'] okb'] eqn:Eb'.
        inversion Ea; subst pa lfa oka. inversion Eb; subst pb lfb okb.
        cbn [map]. rewrite nb_root_same.
        apply (IHl Wl Bbl j a va b vb _ _ _ _ _ _ Ga Gb Ea' Eb').
      + (* a is the last leaf of the left subtree, b the first of the right one *)
        assert (J : j = size l - 1) by lia. subst j.
        replace (size l - 1 + 1 - size l) with 0 in Gb by lia.
        pose proof (gbi_keys_all (fun x => x <b nk) l _ a va Ga Kl) as La.
        pose proof (gbi_keys_all (fun x => nk <=b x) r _ b vb Gb Kr) as Lb. cbn beta in La, Lb.
        replace (blt a nk) with true in Ea by (symmetry; apply blt_true; exact La).
        replace (blt b nk) with false in Eb by (symmetry; apply blt_false; exact Lb).
        destruct (path_to_leaf ph wv l a) as [[pa' lfa'] oka'] eqn:Ea'.
        destruct (path_to_leaf ph wv r b) as [[pb' lfb'] okb'] eqn:Eb'.
        inversion Ea; subst pa lfa oka. inversion Eb; subst pb lfb okb.
        cbn [map]. rewrite conv_left, (conv_right _ _ _ _ (ph_len l)).
        unfold nb_root. cbn [strip_common]. rewrite (left_right_neq _ _ _ _ _ (ph_len l)).
        rewrite (order_left _ _ _ _ Bl (ph_len r)), (order_right _ _ _ _ Bl (ph_len l)).
        rewrite !rev_map_convert.
        rewrite (last_rightmost l Wl Bbl _ _ _ _ _ Ga Ea').
        rewrite (first_leftmost r Wr Bbr _ _ _ _ _ Gb Eb'). reflexivity.
      + lia.
      + (* both in the right subtree *)
        replace (j + 1 - size l) with (j - size l + 1) in Gb by lia.
        pose proof (gbi_keys_all (fun x => nk <=b x) r _ a va Ga Kr) as La.
        pose proof (gbi_keys_all (fun x => nk <=b x) r _ b vb Gb Kr) as Lb. cbn beta in La, Lb.
        replace (blt a nk) with false in Ea by (symmetry; apply blt_false; exact La).
        replace (blt b nk) with false in Eb by (symmetry; apply blt_false; exact Lb).
        destruct (path_to_leaf ph wv r a) as [[pa' lfa'] oka'] eqn:Ea'.
        destruct (path_to_leaf ph wv r b) as [[pb' lfb'] okb'] eqn:Eb'.
        inversion Ea; subst pa lfa oka. inversion Eb; subst pb lfb okb.
        cbn [map]. rewrite nb_root_same.
        apply (IHr Wr Bbr (j - size l) a va b vb _ _ _ _ _ _ Ga Gb Ea' Eb').
  Qed.

  (** * Bracketing: the leaves at [rank - 1] and [rank] surround an absent key *)
  Lemma rank_cons k k' v' rest :
    rank k ((k', v') :: rest) = (if blt k' k then 1 else 0) + rank k rest.
  Proof. unfold rank. cbn [filter fst]. destruct (blt k' k); cbn [length]; lia. Qed.

  Lemma rank_nonneg k l : 0 <= rank k l.
  Proof. unfold rank. lia. Qed.

  Lemma rank_le_length k l : rank k l <= Z.of_nat (length l).
  Proof.
    unfold rank. induction l as [|x l IH]; cbn [filter length]; [lia|].
    destruct (blt (fst x) k); cbn [length]; lia.
  Qed.

  Lemma sorted_bracket l : forall k n a va, sorted l -> assoc k l = None ->
    nth_error l n = Some (a, va) ->
    (Z.of_nat n < rank k l -> a <b k) /\ (rank k l <= Z.of_nat n -> k <b a).
  Proof.
    induction l as [|[k' v'] rest IH]; intros k n a va S A N.
    - destruct n; discriminate.
    - cbn [sorted] in S. destruct S as [F S]. cbn [assoc] in A.
      destruct (beq k k') eqn:B; [discriminate|]. btests.
      rewrite rank_cons. pose proof (rank_nonneg k rest) as Rn.
      destruct (blt k' k) eqn:C; btests.
      + destruct n as [|n]; cbn [nth_error] in N.
        * inversion N; subst. split; [auto|lia].
        * destruct (IH k n a va S A N) as [I1 I2]. split; intros; [apply I1|apply I2]; lia.
      + assert (K : k <b k') by border.
        assert (R0 : rank k rest = 0).
        { apply rank_all_ge. eapply Forall_impl; [|exact F]. intros; border. }
        rewrite R0. destruct n as [|n]; cbn [nth_error] in N.
        * inversion N; subst. split; [lia|auto].
        * split; [lia|]. intros _. apply nth_error_In in N. rewrite Forall_forall in F.
          specialize (F _ N). cbn [fst] in F. border.
  Qed.

  (** * 3. Completeness of non-membership proofs *)
  Definition kv_of (e : existence_proof) : bytes * bytes := (ep_key e, ep_value e).
  Definition nonempty_kvs (t : node) : Prop :=
    Forall (fun p => fst p <> [] /\ snd p <> []) (elems t).

  Lemma leaf_info t j : wf t -> nonempty_kvs t -> 0 <= j < size t ->
    exists a va p m, get_by_index t j = Some (a, va) /\
      nth_error (elems t) (Z.to_nat j) = Some (a, va) /\
      path_to_leaf ph wv t a = (p, (a, va, m), true) /\ a <> [] /\ va <> [].
  Proof.
    intros W Ne Hj. destruct (gbi_some t j W Hj) as (a & va & G).
    pose proof (gbi_get t j a va W G) as Gg.
    destruct (get_path ph t a va ltac:(rewrite Gg; reflexivity)) as (p & m & E).
    pose proof G as Gn. rewrite (gbi_nth t j W) in Gn by lia.
    pose proof (nth_error_In _ _ Gn) as I. unfold nonempty_kvs in Ne. rewrite Forall_forall in Ne.
    destruct (Ne _ I) as [N1 N2]. cbn [fst snd] in N1, N2.
    exists a, va, p, m. repeat split; auto.
  Qed.

  Lemma nv_both root k k0 l r :
    verify_existence H root l (ep_key l) (ep_value l) = true ->
    verify_existence H root r (ep_key r) (ep_value r) = true ->
    ep_key l <b k -> k <b ep_key r ->
    is_left_neighbor (ep_path l) (ep_path r) = Some true ->
    verify_nonmembership_x H root (PNonexist (NonExistenceProof k0 (Some l) (Some r))) k = Some true.
  Proof.
    intros Vl Vr Ll Lr Nb. apply blt_true in Ll. apply blt_true in Lr.
    unfold verify_nonmembership_x, nonexist_verify. cbn [np_left np_right].
    rewrite Ll, Lr, Vl, Vr. cbn [andb negb]. exact Nb.
  Qed.

  Lemma nv_right_only root k k0 r :
    verify_existence H root r (ep_key r) (ep_value r) = true ->
    k <b ep_key r -> is_left_most (ep_path r) = true ->
    verify_nonmembership_x H root (PNonexist (NonExistenceProof k0 None (Some r))) k = Some true.
  Proof.
    intros Vr Lr Nb. apply blt_true in Lr.
    unfold verify_nonmembership_x, nonexist_verify. cbn [np_left np_right].
    rewrite Lr, Vr. cbn [andb negb]. rewrite Nb. reflexivity.
  Qed.

  Lemma nv_left_only root k k0 l :
    verify_existence H root l (ep_key l) (ep_value l) = true ->
    ep_key l <b k -> is_right_most (ep_path l) = true ->
    verify_nonmembership_x H root (PNonexist (NonExistenceProof k0 (Some l) None)) k = Some true.
  Proof.
    intros Vl Ll Nb. apply blt_true in Ll.
    unfold verify_nonmembership_x, nonexist_verify. cbn [np_left np_right].
    rewrite Ll, Vl. cbn [andb negb]. rewrite Nb. reflexivity.
  Qed.

  Theorem complete_nonmember_pure t k :
    wf t -> bounds t -> nonempty_kvs t -> snd (get t k) = None ->
    exists np, get_nonmembership_proof_gen ph wv (Some t) k = Some (PNonexist np) /\
      np_key np = k /\
      option_map kv_of (np_left np) =
        (if 1 <=? rank k (elems t) then nth_error (elems t) (Z.to_nat (rank k (elems t) - 1)) else None) /\
      option_map kv_of (np_right np) = nth_error (elems t) (Z.to_nat (rank k (elems t))) /\
      (forall e, np_left np = Some e ->
         ep_key e <b k /\ create_existence_proof ph wv (Some t) (ep_key e) = Some e /\
         calculate H e = Some (ph t) /\
         verify_existence H (ph t) e (ep_key e) (ep_value e) = true) /\
      (forall e, np_right np = Some e ->
         k <b ep_key e /\ create_existence_proof ph wv (Some t) (ep_key e) = Some e /\
         calculate H e = Some (ph t) /\
         verify_existence H (ph t) e (ep_key e) (ep_value e) = true) /\
      verify_nonmembership_x H (ph t) (PNonexist np) k = Some true.
  Proof.
    intros W B Ne G. pose proof (get_spec t k W) as Gs. rewrite Gs in G. cbn [snd] in G.
    set (i := rank k (elems t)) in *.
    assert (Ri : 0 <= i <= size t).
    { subst i. pose proof (rank_nonneg k (elems t)). pose proof (rank_le_length k (elems t)).
      rewrite (size_elems t W). lia. }
    pose proof (size_pos t W) as Sp. pose proof (wf_sorted t W) as Srt.
    unfold get_nonmembership_proof_gen, get_with_index, get_by_index_o. rewrite Gs, G.
    (* facts about a present neighbour *)
    assert (NB : forall j, 0 <= j < size t ->
      exists a va p m, get_by_index t j = Some (a, va) /\
        nth_error (elems t) (Z.to_nat j) = Some (a, va) /\
        path_to_leaf ph wv t a = (p, (a, va, m), true) /\
        create_existence_proof ph wv (Some t) a = Some (mk_ep p a va m) /\
        calculate H (mk_ep p a va m) = Some (ph t) /\
        verify_existence H (ph t) (mk_ep p a va m) a va = true /\
        (j < i -> a <b k) /\ (i <= j -> k <b a)).
    { intros j Hj. destruct (leaf_info t j W Ne Hj) as (a & va & p & m & Gj & Nj & Ej & Na & Nva).
      exists a, va, p, m. split; [exact Gj|]. split; [exact Nj|]. split; [exact Ej|].
      split; [unfold create_existence_proof; rewrite Ej; reflexivity|].
      split; [apply (calculate_path _ _ _ _ _ Ej Na Nva)|].
      split; [apply ep_verifies; auto|].
      destruct (sorted_bracket _ k _ a va Srt G Nj) as [S1 S2]. fold i in S1, S2.
      split; intros; [apply S1|apply S2]; lia. }
    destruct (1 <=? i) eqn:I1.
    - (* a left neighbour exists *)
      destruct (NB (i - 1) ltac:(lia)) as (a & va & pa & ma & Ga & Na & Ea & Ca & Cca & Va & La & _).
      rewrite Ga, Ca.
      destruct (i <? size t) eqn:I2.
      + destruct (NB i ltac:(lia)) as (b & vb & pb & mb & Gb & Nb & Eb & Cb & Ccb & Vb & _ & Lb).
        rewrite Gb, Cb. eexists. split; [reflexivity|]. cbn [np_key np_left np_right option_map].
        split; [reflexivity|]. split; [symmetry; exact Na|]. split; [symmetry; exact Nb|].
        split; [intros e Ee; inversion Ee; subst e; cbn [mk_ep ep_key ep_value];
                repeat split; auto; apply La; lia|].
        split; [intros e Ee; inversion Ee; subst e; cbn [mk_ep ep_key ep_value];
                repeat split; auto; apply Lb; lia|].
        apply nv_both; cbn [mk_ep ep_key ep_value ep_path]; auto; try (apply La; lia); try (apply Lb; lia).
        rewrite is_left_neighbor_eq, !rev_convert.
        replace i with (i - 1 + 1) in Gb by lia.
        eapply (neighbor_paths t W B (i - 1)); eauto.
      + rewrite (gbi_none t i W ltac:(lia)).
        eexists. split; [reflexivity|]. cbn [np_key np_left np_right option_map].
        split; [reflexivity|]. split; [symmetry; exact Na|].
        split; [symmetry; apply nth_error_None; rewrite (size_elems t W) in *; lia|].
        split; [intros e Ee; inversion Ee; subst e; cbn [mk_ep ep_key ep_value];
                repeat split; auto; apply La; lia|].
        split; [intros e Ee; discriminate|].
        apply nv_left_only; cbn [mk_ep ep_key ep_value ep_path]; auto; try (apply La; lia).
        assert (Ei : i - 1 = size t - 1) by lia. rewrite Ei in Ga.
        eapply last_rightmost; eauto.
    - (* no left neighbour: the key is below the least key *)
      assert (I0 : i = 0) by lia.
      destruct (NB i ltac:(lia)) as (b & vb & pb & mb & Gb & Nb & Eb & Cb & Ccb & Vb & _ & Lb).
      rewrite Gb, Cb. eexists. split; [reflexivity|]. cbn [np_key np_left np_right option_map].
      split; [reflexivity|]. split; [reflexivity|]. split; [symmetry; exact Nb|].
      split; [intros e Ee; discriminate|].
      split; [intros e Ee; inversion Ee; subst e; cbn [mk_ep ep_key ep_value];
              repeat split; auto; apply Lb; lia|].
      apply nv_right_only; cbn [mk_ep ep_key ep_value ep_path]; auto; try (apply Lb; lia).
      rewrite I0 in Gb. eapply first_leftmost; eauto.
  Qed.
  (** * 4. Wrong-kind requests and the empty tree *)
  Theorem member_absent_none (hf : node -> bytes) t k :
    snd (get t k) = None -> get_membership_proof_gen hf wv (Some t) k = None.
  Proof.
    intros G. unfold get_membership_proof_gen, create_existence_proof.
    destruct (path_to_leaf hf wv t k) as [[p [[lk lv] m]] ok] eqn:E.
    pose proof (path_get hf t _ _ _ _ _ _ E) as P. destruct ok; [|reflexivity].
    destruct P as [_ P]. congruence.
  Qed.

  Theorem nonmember_present_none (hf : node -> bytes) t k v :
    snd (get t k) = Some v -> get_nonmembership_proof_gen hf wv (Some t) k = None.
  Proof.
    intros G. unfold get_nonmembership_proof_gen, get_with_index.
    destruct (get t k) as [i o]. cbn [snd] in G. subst. reflexivity.
  Qed.

  (** On the empty tree [GetMembershipProof] and [GetProof] fail; [GetNonMembershipProof]
      returns (without error) a proof with no neighbour, which the verifier rejects. *)
  Theorem empty_tree_errors (hf : node -> bytes) k :
    get_membership_proof_gen hf wv None k = None /\
    get_proof_gen hf wv None k = None /\
    get_nonmembership_proof_gen hf wv None k = Some (PNonexist (NonExistenceProof k None None)) /\
    forall root k', verify_nonmembership_x H root (PNonexist (NonExistenceProof k None None)) k' = Some false.
  Proof. repeat split. Qed.

  Theorem get_proof_kind (hf : node -> bytes) t k : wf t ->
    get_proof_gen hf wv (Some t) k =
      match snd (get t k) with
      | Some _ => get_membership_proof_gen hf wv (Some t) k
      | None => get_nonmembership_proof_gen hf wv (Some t) k
      end.
  Proof.
    intros W. unfold get_proof_gen. rewrite (has_spec t k W), (get_spec t k W). cbn [snd].
    unfold mem. destruct (assoc k (elems t)); reflexivity.
  Qed.

  (** * The entry points (sibling hashes = [node_hash]) on hash-consistent trees *)
  Lemma path_node_hash t : hash_ok H t -> forall k,
    path_to_leaf (node_hash H wv) wv t k = path_to_leaf ph wv t k.
  Proof.
    induction t as [k0 v0 m0|nk h s m0 l IHl r IHr]; intros Hok k; [reflexivity|].
    destruct (hash_ok_children H _ _ _ _ _ _ Hok) as [Hl Hr]. cbn [path_to_leaf].
    rewrite (IHl Hl), (IHr Hr), (node_hash_pure H wv l Hl), (node_hash_pure H wv r Hr).
    reflexivity.
  Qed.

  Lemma create_node_hash t k : hash_ok H t ->
    create_existence_proof (node_hash H wv) wv (Some t) k = create_existence_proof ph wv (Some t) k.
  Proof. intros Hok. unfold create_existence_proof. rewrite (path_node_hash t Hok). reflexivity. Qed.

  Lemma membership_node_hash t k : hash_ok H t ->
    get_membership_proof H wv (Some t) k = get_membership_proof_gen ph wv (Some t) k.
  Proof.
    intros Hok. unfold get_membership_proof, get_membership_proof_gen.
    rewrite (create_node_hash t k Hok). reflexivity.
  Qed.

  Lemma nonmembership_node_hash t k : hash_ok H t ->
    get_nonmembership_proof H wv (Some t) k = get_nonmembership_proof_gen ph wv (Some t) k.
  Proof.
    intros Hok. unfold get_nonmembership_proof, get_nonmembership_proof_gen.
    destruct (get_with_index (Some t) k) as [i o]. destruct o; [reflexivity|].
    destruct (1 <=? i).
    - rewrite (create_node_hash t _ Hok).
      destruct (create_existence_proof ph wv (Some t) _); [|reflexivity].
      destruct (get_by_index_o (Some t) i) as [[rk rv]|]; [|reflexivity].
      rewrite (create_node_hash t _ Hok). reflexivity.
    - destruct (get_by_index_o (Some t) i) as [[rk rv]|]; [|reflexivity].
      rewrite (create_node_hash t _ Hok). reflexivity.
  Qed.

  Lemma get_proof_node_hash t k : hash_ok H t ->
    get_proof H wv (Some t) k = get_proof_gen ph wv (Some t) k.
  Proof.
    intros Hok. unfold get_proof, get_proof_gen.
    fold (get_membership_proof H wv (Some t) k). fold (get_nonmembership_proof H wv (Some t) k).
    rewrite (membership_node_hash t k Hok), (nonmembership_node_hash t k Hok). reflexivity.
  Qed.

  (** 2'. completeness of membership proofs, for the code's hashes *)
  Theorem complete_member t k v :
    wf t -> hash_ok H t -> bounds t -> snd (get t k) = Some v -> k <> [] -> v <> [] ->
    exists ep, get_membership_proof H wv (Some t) k = Some (PExist ep) /\
               get_proof H wv (Some t) k = Some (PExist ep) /\
               ep_key ep = k /\ ep_value ep = v /\
               calculate H ep = Some (node_hash H wv t) /\
               verify_membership H (node_hash H wv t) (PExist ep) k v = true.
  Proof.
    intros W Hok B G Hk Hv.
    destruct (complete_member_pure t k v W B G Hk Hv) as (ep & A1 & A2 & A3 & A4 & A5).
    exists ep. rewrite (get_proof_node_hash t k Hok), (get_proof_kind ph t k W), G.
    rewrite (membership_node_hash t k Hok), (node_hash_pure H wv t Hok). repeat split; auto.
  Qed.

  (** 3'. completeness of non-membership proofs, for the code's hashes *)
  Theorem complete_nonmember t k :
    wf t -> hash_ok H t -> bounds t -> nonempty_kvs t -> snd (get t k) = None ->
    exists np, get_nonmembership_proof H wv (Some t) k = Some (PNonexist np) /\
      get_proof H wv (Some t) k = Some (PNonexist np) /\
      np_key np = k /\
      option_map kv_of (np_left np) =
        (if 1 <=? rank k (elems t) then nth_error (elems t) (Z.to_nat (rank k (elems t) - 1)) else None) /\
      option_map kv_of (np_right np) = nth_error (elems t) (Z.to_nat (rank k (elems t))) /\
      (forall e, np_left np = Some e ->
         ep_key e <b k /\ get_membership_proof H wv (Some t) (ep_key e) = Some (PExist e) /\
         calculate H e = Some (node_hash H wv t)) /\
      (forall e, np_right np = Some e ->
         k <b ep_key e /\ get_membership_proof H wv (Some t) (ep_key e) = Some (PExist e) /\
         calculate H e = Some (node_hash H wv t)) /\
      verify_nonmembership H (node_hash H wv t) (PNonexist np) k = true.
  Proof.
    intros W Hok B Ne G.
    destruct (complete_nonmember_pure t k W B Ne G) as (np & A1 & A2 & A3 & A4 & A5 & A6 & A7).
    exists np. rewrite (get_proof_node_hash t k Hok), (get_proof_kind ph t k W), G.
    rewrite (nonmembership_node_hash t k Hok), (node_hash_pure H wv t Hok).
    split; [exact A1|]. split; [exact A1|]. split; [exact A2|]. split; [exact A3|].
    split; [exact A4|].
    assert (T : forall e, create_existence_proof ph wv (Some t) (ep_key e) = Some e ->
                get_membership_proof H wv (Some t) (ep_key e) = Some (PExist e)).
    { intros e Ce. rewrite (membership_node_hash t _ Hok). unfold get_membership_proof_gen.
      rewrite Ce. reflexivity. }
    split.
    { intros e Ee. destruct (A5 e Ee) as (X1 & X2 & X3 & X4). auto. }
    split.
    { intros e Ee. destruct (A6 e Ee) as (X1 & X2 & X3 & X4). auto. }
    unfold verify_nonmembership. rewrite A7. reflexivity.
  Qed.

  (** * 5. Empty keys and values have no verifying proof *)
  Lemma verify_existence_empty_value root ep k v :
    ep_value ep = [] -> verify_existence H root ep k v = false.
  Proof.
    intros E. unfold verify_existence, calculate. rewrite E.
    replace (leaf_apply H (ep_leaf ep) (ep_key ep) []) with (@None bytes)
      by (unfold leaf_apply; destruct (ep_key ep); reflexivity).
    apply andb_false_r.
  Qed.

  Lemma verify_existence_empty_key root ep k v :
    ep_key ep = [] -> verify_existence H root ep k v = false.
  Proof.
    intros E. unfold verify_existence, calculate. rewrite E. cbn [leaf_apply]. apply andb_false_r.
  Qed.

  Theorem empty_value_no_proof root p k : verify_membership H root p k [] = false.
  Proof.
    destruct p as [ep|np]; [|reflexivity]. cbn [verify_membership].
    destruct (beq (ep_key ep) k); [|reflexivity].
    destruct (beq [] (ep_value ep)) eqn:B.
    - apply beq_true in B. apply verify_existence_empty_value. auto.
    - unfold verify_existence. rewrite B. rewrite andb_false_r. reflexivity.
  Qed.

  Theorem empty_key_no_proof root p v : verify_membership H root p [] v = false.
  Proof.
    destruct p as [ep|np]; [|reflexivity]. cbn [verify_membership].
    destruct (beq (ep_key ep) []) eqn:B; [|reflexivity].
    apply beq_true in B. apply verify_existence_empty_key. exact B.
  Qed.

  (** an empty-valued (or empty-keyed) neighbour spoils the non-membership proof as well *)
  Theorem empty_neighbour_no_proof root np k :
    (exists l, np_left np = Some l /\ (ep_value l = [] \/ ep_key l = [])) \/
    (exists r, np_right np = Some r /\ (ep_value r = [] \/ ep_key r = [])) ->
    verify_nonmembership H root (PNonexist np) k = false.
  Proof.
    intros Hn. unfold verify_nonmembership, verify_nonmembership_x.
    destruct (_ && _); [|reflexivity]. unfold nonexist_verify.
    destruct Hn as [(l & El & Ev)|(r & Er & Ev)].
    - rewrite El.
      replace (verify_existence H root l (ep_key l) (ep_value l)) with false; [reflexivity|].
      symmetry. destruct Ev; [apply verify_existence_empty_value|apply verify_existence_empty_key]; auto.
    - rewrite Er. destruct (negb _); [reflexivity|].
      replace (verify_existence H root r (ep_key r) (ep_value r)) with false; [reflexivity|].
      symmetry. destruct Ev; [apply verify_existence_empty_value|apply verify_existence_empty_key]; auto.
  Qed.
  (** * 6. Soundness of membership proofs (constructive collision form) *)

  (** Go slices have fewer than 2^63 bytes; the length prefix is injective below that. *)
  Definition klen_ok (k : bytes) : Prop := (N.of_nat (length k) < 2 ^ 63 - 1)%N.

  Fixpoint int64_tree (t : node) : Prop :=
    match t with
    | Leaf _ _ m => int64 (eff_ver wv m)
    | Inner _ h s m l r =>
        int64 h /\ int64 s /\ int64 (eff_ver wv m) /\ int64_tree l /\ int64_tree r
    end.

  Lemma bounds_int64_tree t : bounds t -> int64_tree t.
  Proof.
    clear Hlen H.
    induction t as [k v m|k h s m l IHl r IHr]; cbn [bounds int64_tree]; unfold i63, int64.
    - lia.
    - intros (A & B & C & D & E & F & G). repeat split; try lia; auto.
  Qed.

  (** the input of [H] that gives the hash of a node *)
  Definition node_preimage (t : node) : bytes :=
    match t with
    | Leaf k v m => leaf_preimage H (eff_ver wv m) k v
    | Inner _ h s m l r => inner_preimage h s (eff_ver wv m) (ph l) (ph r)
    end.

  Lemma ph_preimage t : ph t = H (node_preimage t).
  Proof. destruct t; reflexivity. Qed.

  (** all inputs of [H] used when hashing the tree: node pre-images and leaf values *)
  Fixpoint tree_inputs (t : node) : list bytes :=
    match t with
    | Leaf k v m => [node_preimage t; v]
    | Inner _ _ _ _ l r => node_preimage t :: tree_inputs l ++ tree_inputs r
    end.

  Lemma node_preimage_in t : In (node_preimage t) (tree_inputs t).
  Proof. destruct t; left; reflexivity. Qed.

  (** all inputs of [H] used when recomputing the root from a proof *)
  Fixpoint path_preimages (res : bytes) (path : list inner_op) : list bytes :=
    match path with
    | [] => []
    | io :: rest =>
        let x := io_prefix io ++ res ++ io_suffix io in x :: path_preimages (H x) rest
    end.

  Definition leaf_input (ep : existence_proof) : bytes :=
    lo_prefix (ep_leaf ep) ++ var_proto (ep_key ep) ++ var_proto (H (ep_value ep)).

  Definition proof_inputs (ep : existence_proof) : list bytes :=
    ep_value ep :: leaf_input ep :: path_preimages (H (leaf_input ep)) (ep_path ep).

  Definition collision_in (A B : list bytes) : Prop :=
    exists x y, In x A /\ In y B /\ x <> y /\ H x = H y.

  Lemma collision_in_incl A B A' B' :
    collision_in A B -> incl A A' -> incl B B' -> collision_in A' B'.
  Proof. intros (x & y & Ix & Iy & N & E) IA IB. exists x, y. auto. Qed.

  (** an explicit search for the collision *)
  Definition is_collision (xy : bytes * bytes) : bool :=
    negb (beq (fst xy) (snd xy)) && beq (H (fst xy)) (H (snd xy)).
  Definition find_collision_in (A B : list bytes) : option (bytes * bytes) :=
    find is_collision (list_prod A B).
  Definition find_collision (t : node) (ep : existence_proof) : option (bytes * bytes) :=
    find_collision_in (proof_inputs ep) (tree_inputs t).

  Lemma is_collision_spec x y : is_collision (x, y) = true <-> x <> y /\ H x = H y.
  Proof.
    unfold is_collision. cbn [fst snd]. rewrite andb_true_iff, negb_true_iff, beq_false, beq_true.
    reflexivity.
  Qed.

  Lemma find_collision_in_spec A B : collision_in A B ->
    exists x y, find_collision_in A B = Some (x, y) /\ x <> y /\ H x = H y.
  Proof.
    intros (x & y & Ix & Iy & N & E). unfold find_collision_in.
    destruct (find is_collision (list_prod A B)) as [[x' y']|] eqn:F.
    - apply find_some in F. destruct F as [_ F]. apply is_collision_spec in F.
      exists x', y'. split; [reflexivity|exact F].
    - exfalso. pose proof (find_none _ _ F (x, y) (in_prod _ _ _ _ Ix Iy)) as C.
      assert (C' : is_collision (x, y) = true) by (apply is_collision_spec; auto).
      congruence.
  Qed.

  Lemma path_preimages_snoc a : forall c op c', length c = 32%nat ->
    apply_path H c a = Some c' ->
    path_preimages c (a ++ [op]) = path_preimages c a ++ [io_prefix op ++ c' ++ io_suffix op].
  Proof.
    induction a as [|x a IH]; intros c op c' L E.
    - cbn [apply_path] in E. inversion E; subst. reflexivity.
    - rewrite (step_32 _ _ _ L) in E. cbn [app path_preimages]. f_equal.
      apply IH; [apply Hlen|exact E].
  Qed.

  Lemma inner_checks_forall path : forall b, 1 <= b -> inner_checks path b = true ->
    Forall (fun io => exists b', 1 <= b' /\ inner_check_against_spec io b' = true) path.
  Proof.
    induction path as [|io rest IH]; intros b Hb C; [constructor|].
    cbn [inner_checks] in C. apply andb_prop in C. destruct C as [C1 C2].
    constructor; [exists b; auto|]. apply (IH (b + 1)); [lia|exact C2].
  Qed.

  Lemma is_prefix_0 (p : bytes) : is_prefix [0%N] p = true -> exists p', p = 0%N :: p'.
  Proof.
    destruct p as [|b p']; cbn [is_prefix]; [discriminate|]. rewrite andb_true_r.
    intros E. apply N.eqb_eq in E. subst. eauto.
  Qed.

  Lemma is_prefix_not0 (p : bytes) : is_prefix [0%N] p = false -> p <> [] ->
    exists b p', p = b :: p' /\ b <> 0%N.
  Proof.
    destruct p as [|b p']; cbn [is_prefix]; [intros _ C; contradiction|]. rewrite andb_true_r.
    intros E _. apply N.eqb_neq in E. exists b, p'. split; [reflexivity|]. intros ->. apply E. reflexivity.
  Qed.

  Lemma bytes_enc_inj_prefix k k' x y : klen_ok k -> klen_ok k' ->
    bytes_enc k ++ x = bytes_enc k' ++ y -> k = k' /\ x = y.
  Proof.
    intros Lk Lk' E. pose proof (bytes_roundtrip k x Lk) as R1.
    pose proof (bytes_roundtrip k' y Lk') as R2. rewrite E, R2 in R1.
    inversion R1; subst. split; [reflexivity|]. apply app_inv_head in E. exact E.
  Qed.

  Lemma in_elems_get t k v : wf t -> In (k, v) (elems t) -> snd (get t k) = Some v.
  Proof.
    intros W I. apply In_nth_error in I. destruct I as [n I].
    destruct (sorted_nth_rank _ _ _ _ (wf_sorted t W) I) as [A _].
    rewrite (get_spec t k W). exact A.
  Qed.

  (** the direction taken by an op (suffix present = the sibling is on the right = the
      child is the left one) and the leaf index reached by a root-first list of ops *)
  Definition goes_right (io : inner_op) : bool :=
    match io_suffix io with [] => true | _ :: _ => false end.

  Fixpoint walk (t : node) (rops : list inner_op) : option Z :=
    match t, rops with
    | Leaf _ _ _, [] => Some 0
    | Inner _ _ _ _ l r, op :: rest =>
        if goes_right op then option_map (Z.add (size l)) (walk r rest) else walk l rest
    | _, _ => None
    end.

  Section Core.
    Variables (lp k v : bytes).
    Hypothesis Lchk : leaf_check_against_spec (LeafOp lp) = true.
    Hypothesis Kok : klen_ok k.
    Let li := lp ++ var_proto k ++ var_proto (H v).

    Lemma sound_core : forall rops t,
      wf t -> int64_tree t -> Forall (fun p => klen_ok (fst p)) (elems t) ->
      Forall (fun io => exists b, 1 <= b /\ inner_check_against_spec io b = true) rops ->
      apply_path H (H li) (rev rops) = Some (ph t) ->
      (exists j, walk t rops = Some j /\ get_by_index t j = Some (k, v)) \/
      collision_in (v :: li :: path_preimages (H li) (rev rops)) (tree_inputs t).
    Proof.
      unfold leaf_check_against_spec in Lchk. cbn [lo_prefix] in Lchk.
      apply andb_prop in Lchk. destruct Lchk as [Lv Lz].
      destruct (validate_inv lp 0 Lv) as (n0 & Hn0 & Ln0). cbn in Ln0.
      destruct (is_prefix_0 lp Lz) as (lp' & Elp).
      induction rops as [|op rops IH]; intros t W I64 Kt Fo Ap.
      - (* the leaf op alone reaches the root *)
        cbn [rev apply_path] in Ap. inversion Ap as [Hh]. rewrite ph_preimage in Hh.
        destruct (beq li (node_preimage t)) eqn:Bq; btests.
        2:{ right. exists li, (node_preimage t). cbn [rev path_preimages].
            split; [right; left; reflexivity|]. split; [apply node_preimage_in|]. auto. }
        destruct t as [k' v' m|nk h s m l r].
        + cbn [node_preimage] in Bq. unfold leaf_preimage in Bq. subst li.
          cbn [int64_tree] in I64.
          pose proof (hdr_len_app lp (var_proto k ++ var_proto (H v)) n0 Hn0) as H1.
          rewrite Bq in H1.
          rewrite (hdr_len_enc 0 1 (eff_ver wv m)) in H1 by (unfold int64 in *; lia).
          inversion H1 as [Hn]. clear H1.
          rewrite !app_assoc in Bq. rewrite <- !app_assoc in Bq.
          assert (Bq' : lp ++ (var_proto k ++ var_proto (H v)) =
                        pre3 0 1 (eff_ver wv m) ++ (bytes_enc k' ++ 32%N :: H v')).
          { rewrite Bq. unfold pre3. rewrite <- !app_assoc. reflexivity. }
          destruct (app_eq_len _ _ _ _ Bq') as [_ Tl]; [rewrite pre3_len; lia|].
          unfold var_proto in Tl.
          cbn [elems] in Kt. inversion Kt as [|? ? Kk' _]; subst. cbn [fst] in Kk'.
          destruct (bytes_enc_inj_prefix _ _ _ _ Kok Kk' Tl) as [-> Tl2].
          unfold bytes_enc in Tl2. rewrite Hlen in Tl2. cbn in Tl2. inversion Tl2 as [Hv].
          destruct (beq v v') eqn:Bv; btests.
          * subst. left. exists 0. split; reflexivity.
          * right. exists v, v'. split; [left; reflexivity|].
            split; [right; left; reflexivity|]. auto.
        + exfalso. cbn [node_preimage] in Bq. unfold inner_preimage in Bq. subst li.
          cbn [wf] in W. destruct W as (Wl & Wr & _ & _ & _ & Hh' & _).
          pose proof (height_nonneg l Wl). pose proof (height_nonneg r Wr).
          destruct (varint_first_nonzero h ltac:(lia)) as (b & rest & Eb & Nz).
          rewrite Elp, Eb in Bq. cbn [app] in Bq. inversion Bq. congruence.
      - (* the last op produces the root *)
        cbn [rev] in Ap. rewrite apply_path_app in Ap.
        destruct (apply_path H (H li) (rev rops)) as [c|] eqn:Ec; [|discriminate].
        pose proof (apply_path_len _ _ _ (Hlen li) Ec) as Lc.
        rewrite (step_32 _ _ _ Lc) in Ap. cbn [apply_path] in Ap. inversion Ap as [Hh].
        rewrite ph_preimage in Hh.
        cbn [rev]. rewrite (path_preimages_snoc _ _ op _ (Hlen li) Ec).
        set (X := io_prefix op ++ c ++ io_suffix op) in *.
        inversion Fo as [|? ? (b & Hb & Chk) Fo']; subst.
        destruct (beq X (node_preimage t)) eqn:Bq; btests.
        2:{ right. exists X, (node_preimage t).
            split; [right; right; apply in_or_app; right; left; reflexivity|].
            split; [apply node_preimage_in|]. auto. }
        unfold inner_check_against_spec in Chk.
        apply andb_prop in Chk. destruct Chk as [Chk _].
        apply andb_prop in Chk. destruct Chk as [Chk _].
        apply andb_prop in Chk. destruct Chk as [Chk _].
        apply andb_prop in Chk. destruct Chk as [Cv Cz]. apply negb_true_iff in Cz.
        destruct (validate_inv _ _ Cv) as (n & Hn & Ln).
        replace (b =? 0) with false in Ln by lia.
        pose proof (hdr_len_le _ _ Hn) as Lnp.
        destruct t as [k' v' m|nk h s m l r].
        + exfalso. cbn [node_preimage] in Bq. unfold leaf_preimage in Bq.
          destruct (is_prefix_not0 _ Cz) as (b0 & p' & Ep & Nz).
          { intros E0. rewrite E0 in Lnp. cbn in Lnp. lia. }
          subst X. rewrite Ep, varint_enc_0 in Bq. cbn [app] in Bq. inversion Bq. congruence.
        + cbn [node_preimage] in Bq. unfold inner_preimage in Bq.
          cbn [int64_tree] in I64. destruct I64 as (Ih & Is & Iv & Il & Ir).
          cbn [wf] in W. destruct W as (Wl & Wr & _).
          cbn [elems] in Kt. apply Forall_app in Kt. destruct Kt as [Ktl Ktr].
          pose proof (hdr_len_app _ (c ++ io_suffix op) n Hn) as H1. fold X in H1.
          rewrite Bq in H1. rewrite (hdr_len_enc h s (eff_ver wv m) _ Ih Is Iv) in H1.
          inversion H1 as [Hn']. clear H1.
          assert (Bq' : firstn n (io_prefix op) ++ (skipn n (io_prefix op) ++ c ++ io_suffix op) =
                        pre3 h s (eff_ver wv m) ++ ((32%N :: ph l) ++ 32%N :: ph r)).
          { rewrite app_assoc, firstn_skipn. fold X. rewrite Bq. unfold pre3.
            rewrite <- !app_assoc. reflexivity. }
          destruct (app_eq_len _ _ _ _ Bq') as [_ Tl].
          { rewrite pre3_len, firstn_length. lia. }
          assert (Lq : length (skipn n (io_prefix op)) = 1%nat \/
                       length (skipn n (io_prefix op)) = 34%nat).
          { rewrite skipn_length. lia. }
          set (q := skipn n (io_prefix op)) in *.
          assert (Sub : (c = ph l /\ goes_right op = false) \/ (c = ph r /\ goes_right op = true)).
          { destruct Lq as [Lq|Lq].
            - left. destruct q as [|x [|y q']]; try discriminate. cbn [app] in Tl.
              inversion Tl as [[Hx Tl']].
              destruct (app_eq_len _ _ _ _ Tl') as [Cc Sx]; [rewrite ph_len; exact Lc|].
              split; [exact Cc|]. unfold goes_right. rewrite Sx. reflexivity.
            - right.
              assert (Tl' : q ++ (c ++ io_suffix op) = (32%N :: ph l ++ [32%N]) ++ (ph r ++ [])).
              { rewrite Tl. cbn [app]. rewrite <- !app_assoc. cbn [app]. rewrite app_nil_r. reflexivity. }
              destruct (app_eq_len _ _ _ _ Tl') as [_ Tl2].
              { cbn [length]. rewrite app_length, ph_len. cbn [length]. lia. }
              destruct (app_eq_len _ _ _ _ Tl2) as [Cc Sx]; [rewrite ph_len; exact Lc|].
              split; [exact Cc|]. unfold goes_right. rewrite Sx. reflexivity. }
          destruct Sub as [[Sub Dir]|[Sub Dir]]; subst c.
          * destruct (IH l Wl Il Ktl Fo' eq_refl) as [(j & Wj & Gj)|Col].
            -- left. exists j. cbn [walk get_by_index]. rewrite Dir. split; [exact Wj|].
               pose proof (gbi_range l j _ Wl Gj). replace (j <? size l) with true by lia. exact Gj.
            -- right. eapply collision_in_incl; [exact Col| |].
               ++ intros z Iz. destruct Iz as [<-|[<-|Iz]]; [left; reflexivity|right; left; reflexivity|].
                  right. right. apply in_or_app. left. exact Iz.
               ++ intros z Iz. cbn [tree_inputs]. right. apply in_or_app. left. exact Iz.
          * destruct (IH r Wr Ir Ktr Fo' eq_refl) as [(j & Wj & Gj)|Col].
            -- left. exists (size l + j). cbn [walk get_by_index]. rewrite Dir, Wj.
               split; [reflexivity|].
               pose proof (gbi_range r j _ Wr Gj). replace (size l + j <? size l) with false by lia.
               replace (size l + j - size l) with j by lia. exact Gj.
            -- right. eapply collision_in_incl; [exact Col| |].
               ++ intros z Iz. destruct Iz as [<-|[<-|Iz]]; [left; reflexivity|right; left; reflexivity|].
                  right. right. apply in_or_app. left. exact Iz.
               ++ intros z Iz. cbn [tree_inputs]. right. apply in_or_app. right. exact Iz.
    Qed.
  End Core.

  Definition keys_len_ok (t : node) : Prop := Forall (fun p => klen_ok (fst p)) (elems t).

  (** a computable sufficient test *)
  Lemma keys_len_ok_small t :
    forallb (fun p => (N.of_nat (length (fst p)) <=? 1000000)%N) (elems t) = true -> keys_len_ok t.
  Proof.
    clear Hlen H. intros F. unfold keys_len_ok. rewrite forallb_forall in F. apply Forall_forall.
    intros p I. specialize (F p I). apply N.leb_le in F. unfold klen_ok.
    assert (B : (1000000 < 2 ^ 63 - 1)%N) by reflexivity.
    eapply N.le_lt_trans; [exact F|exact B].
  Qed.

  (** An existence proof accepted against the root hash of [t] walks a real path of [t] down
      to a leaf carrying the claimed key and value, or exhibits a collision. *)
  Lemma sound_existence t ep k v :
    wf t -> int64_tree t -> keys_len_ok t -> klen_ok k ->
    verify_existence H (ph t) ep k v = true ->
    ep_key ep = k /\ ep_value ep = v /\
    ((exists j, walk t (rev (ep_path ep)) = Some j /\ get_by_index t j = Some (k, v)) \/
     collision_in (proof_inputs ep) (tree_inputs t)).
  Proof.
    intros W I64 Kt Kk V. unfold verify_existence in V.
    apply andb_prop in V. destruct V as [V Vc].
    apply andb_prop in V. destruct V as [V Vv].
    apply andb_prop in V. destruct V as [Vs Vk]. btests.
    unfold check_against_spec in Vs.
    apply andb_prop in Vs. destruct Vs as [Vs Vp].
    apply andb_prop in Vs. destruct Vs as [Vl _].
    destruct (calculate H ep) as [c|] eqn:Ec; [|discriminate]. btests. subst c.
    split; [auto|]. split; [auto|].
    unfold calculate in Ec.
    destruct (leaf_apply H (ep_leaf ep) (ep_key ep) (ep_value ep)) as [c0|] eqn:El; [|discriminate].
    unfold leaf_apply in El. destruct (ep_key ep) as [|kb kr] eqn:Ek; [discriminate|].
    destruct (ep_value ep) as [|vb vr] eqn:Ev; [discriminate|].
    inversion El; subst c0. clear El. rewrite <- Ek, <- Ev in Ec.
    assert (Lc : leaf_check_against_spec (LeafOp (lo_prefix (ep_leaf ep))) = true).
    { destruct (ep_leaf ep). exact Vl. }
    rewrite <- (rev_involutive (ep_path ep)) in Ec.
    assert (Fo : Forall (fun io => exists b, 1 <= b /\ inner_check_against_spec io b = true)
                        (rev (ep_path ep))).
    { apply Forall_rev. apply (inner_checks_forall _ 1); [lia|exact Vp]. }
    assert (Kk' : klen_ok (ep_key ep)) by (rewrite Ek, <- Vk; exact Kk).
    destruct (sound_core _ _ _ Lc Kk' _ t W I64 Kt Fo Ec) as [(j & Wj & Gj)|C].
    - left. exists j. split; [exact Wj|]. rewrite Ek, <- Vk, Ev, <- Vv in Gj. exact Gj.
    - right. rewrite rev_involutive in C. exact C.
  Qed.

  (** Any membership proof that the ICS-23 verifier accepts against the root hash of [t]
      states a true membership of [t], or two different inputs with the same hash occur
      among the inputs hashed by the verifier and those hashed by the tree. *)
  Theorem sound_member_in t p k v :
    wf t -> int64_tree t -> keys_len_ok t -> klen_ok k ->
    verify_membership H (ph t) p k v = true ->
    snd (get t k) = Some v \/
    exists ep, p = PExist ep /\ collision_in (proof_inputs ep) (tree_inputs t).
  Proof.
    intros W I64 Kt Kk V. destruct p as [ep|np]; [|discriminate]. cbn [verify_membership] in V.
    destruct (beq (ep_key ep) k) eqn:Bk; [|discriminate].
    destruct (sound_existence t ep k v W I64 Kt Kk V) as (_ & _ & [(j & _ & Gj)|C]).
    - left. rewrite (gbi_get t j k v W Gj). reflexivity.
    - right. exists ep. auto.
  Qed.

  (** the same with the collision given by the search function [find_collision] *)
  Theorem sound_member t p k v :
    wf t -> int64_tree t -> keys_len_ok t -> klen_ok k ->
    verify_membership H (ph t) p k v = true ->
    snd (get t k) = Some v \/
    exists ep x y, p = PExist ep /\ find_collision t ep = Some (x, y) /\ x <> y /\ H x = H y.
  Proof.
    intros W I64 Kt Kk V. destruct (sound_member_in t p k v W I64 Kt Kk V) as [G|(ep & -> & C)].
    - left. exact G.
    - right. destruct (find_collision_in_spec _ _ C) as (x & y & F & N & E).
      exists ep, x, y. auto.
  Qed.

  (** for the code's root hash *)
  Corollary sound_member_node_hash t p k v :
    wf t -> hash_ok H t -> int64_tree t -> keys_len_ok t -> klen_ok k ->
    verify_membership H (node_hash H wv t) p k v = true ->
    snd (get t k) = Some v \/
    exists ep x y, p = PExist ep /\ find_collision t ep = Some (x, y) /\ x <> y /\ H x = H y.
  Proof. intros W Hok. rewrite (node_hash_pure H wv t Hok). apply sound_member; exact W. Qed.

  (** A proof produced for [k] on [t] is accepted (against whatever root) only for the key
      [k] and the value stored under [k] in [t]: no hash assumption is needed. *)
  Theorem produced_only_for_its_claim (hf : node -> bytes) t k p root k' v' :
    get_membership_proof_gen hf wv (Some t) k = Some p ->
    verify_membership H root p k' v' = true ->
    k' = k /\ snd (get t k) = Some v'.
  Proof.
    unfold get_membership_proof_gen, create_existence_proof.
    destruct (path_to_leaf hf wv t k) as [[pa [[lk lv] m]] ok] eqn:E.
    pose proof (path_get hf t _ _ _ _ _ _ E) as P.
    destruct ok; [|discriminate]. destruct P as [-> G]. intros Ep; inversion Ep; subst p.
    cbn [verify_membership ep_key]. destruct (beq k k') eqn:B; [|discriminate]. btests. subst k'.
    unfold verify_existence. cbn [ep_value]. intros V.
    apply andb_prop in V. destruct V as [V _]. apply andb_prop in V. destruct V as [_ Vv]. btests.
    subst. auto.
  Qed.

  (** ... and against the root of another tree [t'] only if the claim is true there, or a
      collision is exhibited *)
  Corollary produced_other_root (hf : node -> bytes) t k p t' v :
    get_membership_proof_gen hf wv (Some t) k = Some p ->
    wf t' -> int64_tree t' -> keys_len_ok t' -> klen_ok k ->
    verify_membership H (ph t') p k v = true ->
    snd (get t' k) = Some v \/
    exists ep x y, p = PExist ep /\ find_collision t' ep = Some (x, y) /\ x <> y /\ H x = H y.
  Proof. intros _. apply sound_member. Qed.
  (** * 7. Soundness of non-membership proofs (constructive collision form) *)

  Lemma order_from_padding_cases io idx : order_from_padding io = Some idx ->
    (idx = 0 /\ has_padding_for io 0 = true) \/ (idx = 1 /\ has_padding_for io 1 = true).
  Proof.
    unfold order_from_padding. destruct (has_padding_for io 0) eqn:P0.
    - intros E; inversion E; auto.
    - destruct (has_padding_for io 1) eqn:P1; [|discriminate]. intros E; inversion E; auto.
  Qed.

  Lemma has_padding_inv io minp maxp suf : has_padding io minp maxp suf = true ->
    minp <= blen (io_prefix io) <= maxp /\ blen (io_suffix io) = suf.
  Proof.
    unfold has_padding. destruct (blen (io_prefix io) <? minp) eqn:A; [discriminate|].
    destruct (maxp <? blen (io_prefix io)) eqn:B; [discriminate|]. lia.
  Qed.

  Lemma pad0_goes_left io : has_padding_for io 0 = true -> goes_right io = false.
  Proof.
    unfold has_padding_for, get_padding. intros P. apply has_padding_inv in P. destruct P as [_ P].
    unfold goes_right. destruct (io_suffix io); [discriminate|reflexivity].
  Qed.

  Lemma pad1_goes_right io : has_padding_for io 1 = true -> goes_right io = true.
  Proof.
    unfold has_padding_for, get_padding. intros P. apply has_padding_inv in P. destruct P as [_ P].
    unfold goes_right. destruct (io_suffix io) as [|x sx]; [reflexivity|]. rewrite blen_cons in P.
    pose proof (blen_nonneg sx). lia.
  Qed.

  Lemma beq_nil_cons (x : N) (r : bytes) : beq [] (x :: r) = false.
  Proof. reflexivity. Qed.

  (** with [EmptyChild = nil] the placeholder tests never succeed *)
  Lemma right_branches_are_empty_false io : right_branches_are_empty io = false.
  Proof.
    unfold right_branches_are_empty. destruct (order_from_padding io) as [idx|] eqn:O; [|reflexivity].
    destruct (order_from_padding_cases io idx O) as [[-> P]|[-> P]]; [|reflexivity].
    unfold has_padding_for, get_padding in P. apply has_padding_inv in P. destruct P as [_ P].
    cbn [Z.sub Z.eqb Z.mul Z.add Z.opp Z.pos_sub Pos.mul Pos.pred_double]. 
    replace (blen (io_suffix io) =? 33) with true by lia. cbn [negb].
    change (zrange 1) with [0]. cbn [forallb]. unfold slice. cbn [Z.mul Z.to_nat skipn].
    destruct (io_suffix io) as [|x r]; [discriminate|]. reflexivity.
  Qed.

  Lemma left_branches_are_empty_false io : left_branches_are_empty io = false.
  Proof.
    unfold left_branches_are_empty. destruct (order_from_padding io) as [idx|] eqn:O; [|reflexivity].
    destruct (order_from_padding_cases io idx O) as [[-> P]|[-> P]]; [reflexivity|].
    unfold has_padding_for, get_padding in P. apply has_padding_inv in P. destruct P as [P _].
    replace (1 =? 0) with false by reflexivity.
    destruct (blen (io_prefix io) - 1 * 33 <? 0) eqn:A; [reflexivity|].
    change (zrange 1) with [0]. cbn [forallb]. rewrite andb_true_r. unfold slice.
    replace (blen (io_prefix io) - 1 * 33 + 0 * 33) with (blen (io_prefix io) - 33) by lia.
    assert (L : length (firstn (Z.to_nat 33) (skipn (Z.to_nat (blen (io_prefix io) - 33)) (io_prefix io))) = 33%nat).
    { rewrite firstn_length, skipn_length. unfold blen in *. lia. }
    destruct (firstn _ _) as [|x r]; [discriminate|]. reflexivity.
  Qed.

  Lemma is_left_most_dirs path : is_left_most path = true ->
    Forall (fun io => goes_right io = false) path.
  Proof.
    unfold is_left_most. intros F. rewrite forallb_forall in F. apply Forall_forall. intros io I.
    specialize (F io I). rewrite left_branches_are_empty_false, orb_false_r in F.
    apply pad0_goes_left, F.
  Qed.

  Lemma is_right_most_dirs path : is_right_most path = true ->
    Forall (fun io => goes_right io = true) path.
  Proof.
    unfold is_right_most. intros F. rewrite forallb_forall in F. apply Forall_forall. intros io I.
    specialize (F io I). rewrite right_branches_are_empty_false, orb_false_r in F.
    apply pad1_goes_right, F.
  Qed.

  Lemma walk_all_left t : forall rops j,
    Forall (fun io => goes_right io = false) rops -> walk t rops = Some j -> j = 0.
  Proof.
    induction t as [k0 v0 m0|nk h s m0 l IHl r IHr]; intros rops j F Wk.
    - destruct rops; cbn [walk] in Wk; [inversion Wk; reflexivity|discriminate].
    - destruct rops as [|op rest]; cbn [walk] in Wk; [discriminate|].
      inversion F as [|? ? D F']; subst. rewrite D in Wk. apply (IHl _ _ F' Wk).
  Qed.

  Lemma walk_all_right t : wf t -> forall rops j,
    Forall (fun io => goes_right io = true) rops -> walk t rops = Some j -> j = size t - 1.
  Proof.
    induction t as [k0 v0 m0|nk h s m0 l IHl r IHr]; intros W rops j F Wk.
    - destruct rops; cbn [walk] in Wk; [inversion Wk; reflexivity|discriminate].
    - destruct rops as [|op rest]; cbn [walk] in Wk; [discriminate|].
      cbn [wf] in W. destruct W as (Wl & Wr & _ & _ & _ & _ & Hs).
      inversion F as [|? ? D F']; subst. rewrite D in Wk.
      destruct (walk r rest) as [j'|] eqn:Wr'; [|discriminate]. cbn [option_map] in Wk.
      inversion Wk; subst. rewrite (IHr Wr _ _ F' Wr'). cbn [size]. lia.
  Qed.

  Lemma inner_op_eqb_eq a b : inner_op_eqb a b = true -> a = b.
  Proof.
    unfold inner_op_eqb. intros E. apply andb_prop in E. destruct E as [E1 E2]. btests.
    destruct a, b. cbn in *. subst. reflexivity.
  Qed.

  (** the adjacency argument: paths accepted by [IsLeftNeighbor] end in consecutive leaves *)
  Lemma neighbor_walks t : wf t -> forall rl rr jl jr,
    nb_root rl rr = Some true -> walk t rl = Some jl -> walk t rr = Some jr -> jr = jl + 1.
  Proof.
    induction t as [k0 v0 m0|nk h s m0 l IHl r IHr]; intros W rl rr jl jr Nb Wl' Wr'.
    - destruct rl; cbn [walk] in Wl'; [|discriminate]. unfold nb_root in Nb. cbn in Nb. discriminate.
    - destruct rl as [|x rl]; cbn [walk] in Wl'; [discriminate|].
      destruct rr as [|y rr]; cbn [walk] in Wr'; [discriminate|].
      pose proof W as W0. cbn [wf] in W. destruct W as (Wl & Wr & _ & _ & _ & _ & Hs).
      unfold nb_root in Nb. cbn [strip_common] in Nb.
      destruct (inner_op_eqb x y) eqn:Exy.
      + apply inner_op_eqb_eq in Exy. subst y. fold (nb_root rl rr) in Nb.
        destruct (goes_right x).
        * destruct (walk r rl) as [a|] eqn:Wa; [|discriminate].
          destruct (walk r rr) as [b|] eqn:Wb; [|discriminate].
          cbn [option_map] in Wl', Wr'. inversion Wl'; inversion Wr'; subst.
          rewrite (IHr Wr _ _ _ _ Nb Wa Wb). lia.
        * apply (IHl Wl _ _ _ _ Nb Wl' Wr').
      + destruct (order_from_padding x) as [li|] eqn:Ox; [|discriminate].
        destruct (order_from_padding y) as [ri|] eqn:Oy; [|discriminate].
        destruct (negb (ri =? li + 1)) eqn:Step; [discriminate|].
        destruct (negb (is_right_most (rev rl))) eqn:Rm; [discriminate|].
        destruct (negb (is_left_most (rev rr))) eqn:Lm; [discriminate|].
        apply negb_false_iff in Step, Rm, Lm.
        unfold is_right_most in Rm. rewrite forallb_rev in Rm. fold (is_right_most rl) in Rm.
        unfold is_left_most in Lm. rewrite forallb_rev in Lm. fold (is_left_most rr) in Lm.
        destruct (order_from_padding_cases x li Ox) as [[-> Px]|[-> Px]];
          destruct (order_from_padding_cases y ri Oy) as [[-> Py]|[-> Py]]; try discriminate.
        rewrite (pad0_goes_left x Px) in Wl'. rewrite (pad1_goes_right y Py) in Wr'.
        destruct (walk r rr) as [b|] eqn:Wb; [|discriminate]. cbn [option_map] in Wr'.
        inversion Wr'; subst.
        rewrite (walk_all_right l Wl _ _ (is_right_most_dirs _ Rm) Wl').
        rewrite (walk_all_left r _ _ (is_left_most_dirs _ Lm) Wb). lia.
  Qed.

  (** a key strictly between the leaves [j-1] and [j] of a sorted sequence is absent *)
  Lemma assoc_none_lt k l : Forall (fun p => k <b fst p) l -> assoc k l = None.
  Proof.
    induction l as [|[k' v'] l IH]; intros F; [reflexivity|]. inversion F; subst. cbn [fst] in *.
    cbn [assoc]. replace (beq k k') with false by (symmetry; apply beq_false; intro; subst; border).
    apply IH. assumption.
  Qed.

  Lemma sorted_gap l : forall (j : nat) k, sorted l -> (j <= length l)%nat ->
    (forall j' a va, j = S j' -> nth_error l j' = Some (a, va) -> a <b k) ->
    (forall b vb, nth_error l j = Some (b, vb) -> k <b b) ->
    assoc k l = None.
  Proof.
    induction l as [|[k0 v0] rest IH]; intros j k Hs Lj Hl Hr; [reflexivity|].
    cbn [sorted] in Hs. destruct Hs as [F Hs]. cbn [length] in Lj.
    destruct j as [|j'].
    - specialize (Hr k0 v0 eq_refl). apply assoc_none_lt. constructor; [exact Hr|].
      eapply Forall_impl; [|exact F]. intros p Hp. cbn beta in *. border.
    - assert (K0 : k0 <b k).
      { destruct j' as [|j''].
        - apply (Hl 0%nat k0 v0 eq_refl eq_refl).
        - destruct (nth_error rest j'') as [[a va]|] eqn:N.
          + pose proof (Hl (S j'') a va eq_refl N) as A.
            apply nth_error_In in N. rewrite Forall_forall in F. specialize (F _ N). cbn [fst] in F.
            border.
          + apply nth_error_None in N. lia. }
      cbn [assoc]. replace (beq k k0) with false by (symmetry; apply beq_false; intro; subst; border).
      apply (IH j' k Hs ltac:(lia)).
      + intros j'' a va -> N. apply (Hl (S j'') a va eq_refl N).
      + intros b vb N. apply (Hr b vb N).
  Qed.

  Definition np_inputs (np : nonexistence_proof) : list bytes :=
    match np_left np with Some l => proof_inputs l | None => [] end ++
    match np_right np with Some r => proof_inputs r | None => [] end.

  Definition find_collision_non (t : node) (np : nonexistence_proof) : option (bytes * bytes) :=
    find_collision_in (np_inputs np) (tree_inputs t).

  Definition sub_key_ok (o : option existence_proof) : Prop :=
    match o with Some e => klen_ok (ep_key e) | None => True end.

  Theorem sound_nonmember_in t p k :
    wf t -> int64_tree t -> keys_len_ok t ->
    (forall np, p = PNonexist np -> sub_key_ok (np_left np) /\ sub_key_ok (np_right np)) ->
    verify_nonmembership H (ph t) p k = true ->
    snd (get t k) = None \/
    exists np, p = PNonexist np /\ collision_in (np_inputs np) (tree_inputs t).
  Proof.
    intros W I64 Kt Ks V. unfold verify_nonmembership in V.
    destruct (verify_nonmembership_x H (ph t) p k) as [b|] eqn:Vx; [|discriminate]. subst b.
    destruct p as [ep|np]; [discriminate|]. destruct (Ks np eq_refl) as [Ksl Ksr]. clear Ks.
    cbn [verify_nonmembership_x] in Vx. destruct (_ && _) eqn:LR; [|discriminate]. clear LR.
    unfold nonexist_verify in Vx. unfold np_inputs.
    pose proof (wf_sorted t W) as Srt. pose proof (size_elems t W) as Sz.
    rewrite (get_spec t k W). cbn [snd].
    destruct (np_left np) as [l|] eqn:El; destruct (np_right np) as [r|] eqn:Er;
      cbn [sub_key_ok] in Ksl, Ksr.
    - (* both neighbours *)
      destruct (verify_existence H (ph t) l (ep_key l) (ep_value l)) eqn:Vl; [|discriminate].
      destruct (verify_existence H (ph t) r (ep_key r) (ep_value r)) eqn:Vr; [|discriminate].
      cbn [negb] in Vx.
      destruct (blt k (ep_key r)) eqn:Br; [|discriminate].
      destruct (blt (ep_key l) k) eqn:Bl; [|discriminate]. cbn [negb] in Vx. btests.
      destruct (sound_existence t l _ _ W I64 Kt Ksl Vl) as (_ & _ & [(jl & Wl' & Gl)|C]).
      2:{ right. exists np. split; [reflexivity|]. unfold np_inputs. rewrite El, Er. eapply collision_in_incl; [exact C| |apply incl_refl].
          apply incl_appl, incl_refl. }
      destruct (sound_existence t r _ _ W I64 Kt Ksr Vr) as (_ & _ & [(jr & Wr' & Gr)|C]).
      2:{ right. exists np. split; [reflexivity|]. unfold np_inputs. rewrite El, Er. eapply collision_in_incl; [exact C| |apply incl_refl].
          apply incl_appr, incl_refl. }
      left. rewrite is_left_neighbor_eq in Vx.
      pose proof (neighbor_walks t W _ _ _ _ Vx Wl' Wr') as Adj. subst jr.
      pose proof (gbi_range t _ _ W Gl) as Rl. pose proof (gbi_range t _ _ W Gr) as Rr.
      rewrite (gbi_nth t _ W) in Gl by lia. rewrite (gbi_nth t _ W) in Gr by lia.
      apply (sorted_gap _ (Z.to_nat (jl + 1)) k Srt); [lia| |].
      + intros j' a va Ej N. replace j' with (Z.to_nat jl) in N by lia.
        rewrite Gl in N. inversion N; subst. exact Bl.
      + intros b vb N. rewrite Gr in N. inversion N; subst. exact Br.
    - (* left neighbour only: it must be the last leaf *)
      destruct (verify_existence H (ph t) l (ep_key l) (ep_value l)) eqn:Vl; [|discriminate].
      cbn [negb] in Vx.
      destruct (blt (ep_key l) k) eqn:Bl; [|discriminate]. cbn [negb] in Vx. btests.
      inversion Vx as [Rm].
      destruct (sound_existence t l _ _ W I64 Kt Ksl Vl) as (_ & _ & [(jl & Wl' & Gl)|C]).
      2:{ right. exists np. split; [reflexivity|]. unfold np_inputs. rewrite El, Er. rewrite app_nil_r. exact C. }
      left. apply is_right_most_dirs in Rm. apply Forall_rev in Rm.
      pose proof (walk_all_right t W _ _ Rm Wl') as Jl. subst jl.
      pose proof (gbi_range t _ _ W Gl) as Rl. rewrite (gbi_nth t _ W) in Gl by lia.
      apply (sorted_gap _ (length (elems t)) k Srt); [lia| |].
      + intros j' a va Ej N. replace j' with (Z.to_nat (size t - 1)) in N by lia.
        rewrite Gl in N. inversion N; subst. exact Bl.
      + intros b vb N. assert (X : nth_error (elems t) (length (elems t)) = None)
          by (apply nth_error_None; lia). congruence.
    - (* right neighbour only: it must be the first leaf *)
      destruct (verify_existence H (ph t) r (ep_key r) (ep_value r)) eqn:Vr; [|discriminate].
      cbn [negb] in Vx.
      destruct (blt k (ep_key r)) eqn:Br; [|discriminate]. cbn [negb] in Vx. btests.
      inversion Vx as [Lm].
      destruct (sound_existence t r _ _ W I64 Kt Ksr Vr) as (_ & _ & [(jr & Wr' & Gr)|C]).
      2:{ right. exists np. split; [reflexivity|]. unfold np_inputs. rewrite El, Er. exact C. }
      left. apply is_left_most_dirs in Lm. apply Forall_rev in Lm.
      pose proof (walk_all_left t _ _ Lm Wr') as Jr. subst jr.
      rewrite (gbi_nth t _ W) in Gr by lia.
      apply (sorted_gap _ 0%nat k Srt); [lia| |].
      + intros j' a va Ej. discriminate.
      + intros b vb N. change (Z.to_nat 0) with 0%nat in Gr. rewrite Gr in N.
        inversion N; subst. exact Br.
    - discriminate.
  Qed.

  (** Any non-membership proof accepted against the root hash of [t] states a true absence,
      or [find_collision_non] returns two different inputs with the same hash. *)
  Theorem sound_nonmember t p k :
    wf t -> int64_tree t -> keys_len_ok t ->
    (forall np, p = PNonexist np -> sub_key_ok (np_left np) /\ sub_key_ok (np_right np)) ->
    verify_nonmembership H (ph t) p k = true ->
    snd (get t k) = None \/
    exists np x y, p = PNonexist np /\ find_collision_non t np = Some (x, y) /\ x <> y /\ H x = H y.
  Proof.
    intros W I64 Kt Ks V. destruct (sound_nonmember_in t p k W I64 Kt Ks V) as [G|(np & -> & C)].
    - left. exact G.
    - right. destruct (find_collision_in_spec _ _ C) as (x & y & F & N & E).
      exists np, x, y. auto.
  Qed.

  Corollary sound_nonmember_node_hash t p k :
    wf t -> hash_ok H t -> int64_tree t -> keys_len_ok t ->
    (forall np, p = PNonexist np -> sub_key_ok (np_left np) /\ sub_key_ok (np_right np)) ->
    verify_nonmembership H (node_hash H wv t) p k = true ->
    snd (get t k) = None \/
    exists np x y, p = PNonexist np /\ find_collision_non t np = Some (x, y) /\ x <> y /\ H x = H y.
  Proof. intros W Hok. rewrite (node_hash_pure H wv t Hok). apply sound_nonmember; exact W. Qed.
End Facts.

(** * The executable SHA-256 satisfies the length hypothesis *)
Lemma sha_round_len st kw : length st = 8%nat -> length (Sha256.round st kw) = 8%nat.
Proof.
  intros L. do 8 (destruct st as [|? st]; [discriminate|]). destruct st; [|discriminate].
  reflexivity.
Qed.

Lemma sha_rounds_len xs : forall st, length st = 8%nat -> length (fold_left Sha256.round xs st) = 8%nat.
Proof.
  induction xs as [|x xs IH]; intros st L; [exact L|]. cbn [fold_left]. apply IH, sha_round_len, L.
Qed.

Lemma sha_compress_len st blk : length st = 8%nat -> length (compress st blk) = 8%nat.
Proof.
  intros L. unfold compress. rewrite map_length, combine_length, sha_rounds_len, L; auto.
Qed.

Lemma sha_blocks_len bs : forall st, length st = 8%nat -> length (fold_left compress bs st) = 8%nat.
Proof.
  induction bs as [|b bs IH]; intros st L; [exact L|]. cbn [fold_left]. apply IH, sha_compress_len, L.
Qed.

Lemma flat_map_words_len ws : length (flat_map bytes_of_word ws) = (4 * length ws)%nat.
Proof.
  induction ws as [|w ws IH]; [reflexivity|]. cbn [flat_map length]. rewrite app_length, IH.
  cbn [bytes_of_word length]. lia.
Qed.

Theorem sha256_length x : length (sha256 x) = 32%nat.
Proof.
  unfold sha256. rewrite flat_map_words_len, sha_blocks_len; reflexivity.
Qed.

(** * 5'. The finding: a stored empty value has no verifying proof.
    [complete_member] without the hypothesis [v <> []] is false: *)
Theorem empty_value_refuted :
  exists (t : node) (k v : bytes),
    wf t /\ snd (get t k) = Some v /\ k <> [] /\
    forall (H : bytes -> bytes) (wv : Z), 0 <= wv < 2 ^ 34 ->
      hash_ok H t /\ bounds wv t /\
      exists p, get_membership_proof H wv (Some t) k = Some p /\
                verify_membership H (node_hash H wv t) p k v = false.
Proof.
  exists (Leaf [1%N] [] new_meta), [1%N], [].
  split; [exact I|]. split; [reflexivity|]. split; [discriminate|].
  intros H wv Hwv. split; [apply hash_ok_new_leaf|]. split; [cbn; unfold i63; lia|].
  eexists. split; [reflexivity|]. apply empty_value_no_proof.
Qed.

(** * 4'. Wrong-kind requests, for the entry points *)
Theorem kind_errors (H : bytes -> bytes) (wv : Z) (t : node) (k : bytes) :
  (snd (get t k) = None -> get_membership_proof H wv (Some t) k = None) /\
  (forall v, snd (get t k) = Some v -> get_nonmembership_proof H wv (Some t) k = None) /\
  get_membership_proof H wv None k = None /\
  get_proof H wv None k = None.
Proof.
  split; [apply member_absent_none|]. split; [intros v; apply nonmember_present_none|].
  split; reflexivity.
Qed.
