(** C03: facts about the ICS-23 proof model (Ics23.v).

    Completeness: the proofs built by [get_membership_proof] / [get_nonmembership_proof]
    verify with the transcribed ICS-23 verifier against the tree's root hash.
    Soundness (constructive collision form): a membership proof that verifies against the
    root hash of a tree either states a true membership or exhibits two different inputs of
    [H] with the same hash. *)
From IAVL Require Import Bytes Varint VarintFacts Tree VMap TreeFacts HashFacts Sha256 Ics23.
From Coq Require Import Lia ZifyBool ZifyNat ZifyN.
Local Open Scope Z_scope.

(** * Small helpers *)
Lemma blen_app a b : blen (a ++ b) = blen a + blen b.
Proof. unfold blen. rewrite app_length. lia. Qed.
Lemma blen_cons x a : blen (x :: a) = 1 + blen a.
Proof. unfold blen. cbn [length]. lia. Qed.
Lemma blen_nil : blen [] = 0.
Proof. reflexivity. Qed.
Lemma blen_nonneg a : 0 <= blen a.
Proof. unfold blen. lia. Qed.

Lemma beq_refl a : beq a a = true.
Proof. apply beq_true. reflexivity. Qed.

Lemma beq_len_false a b : length a <> length b -> beq a b = false.
Proof. intros L. apply beq_false. intros ->. apply L. reflexivity. Qed.

Lemma app_eq_len {A} (a c b d : list A) :
  a ++ b = c ++ d -> length a = length c -> a = c /\ b = d.
Proof.
  revert c. induction a as [|x a IH]; intros [|y c] E L; cbn in *; try discriminate.
  - split; [reflexivity|exact E].
  - inversion E; subst. destruct (IH c H1 ltac:(lia)) as [-> ->]. split; reflexivity.
Qed.

Lemma forallb_rev {A} (f : A -> bool) l : forallb f (rev l) = forallb f l.
Proof.
  induction l as [|x l IH]; [reflexivity|]. cbn [rev forallb].
  rewrite forallb_app, IH. cbn [forallb]. destruct (f x), (forallb f l); reflexivity.
Qed.

(** * Varints *)
Definition i63 (x : Z) : Prop := 0 <= x < 2 ^ 63.

Lemma varint_enc_0 : varint_enc 0 = [0%N].
Proof. reflexivity. Qed.
Lemma varint_enc_1 : varint_enc 1 = [2%N].
Proof. reflexivity. Qed.
Lemma uvarint_enc_32 : uvarint_enc 32 = [32%N].
Proof. reflexivity. Qed.

Lemma varint_first_nonzero h : 1 <= h -> exists b rest, varint_enc h = b :: rest /\ b <> 0%N.
Proof.
  intros Hh. unfold varint_enc, uvarint_enc. cbn [uvarint_enc_fuel].
  assert (Z : zigzag h <> 0%N). { unfold zigzag. destruct (h <? 0) eqn:E; lia. }
  destruct (zigzag h <? 128)%N eqn:E.
  - eexists _, _. split; [reflexivity|exact Z].
  - eexists _, _. split; [reflexivity|]. lia.
Qed.

(** length of a varint: [x < 2^(7n-1)] fits in [n] bytes *)
Lemma uvarint_enc_fuel_len_le f : forall n u, (n <= f)%nat -> (0 < n)%nat ->
  (u < 2 ^ (7 * N.of_nat n))%N -> (length (uvarint_enc_fuel f u) <= n)%nat.
Proof.
  induction f as [|f IH]; intros n u Hn Hp Hu; [lia|].
  cbn [uvarint_enc_fuel]. destruct (u <? 128)%N eqn:E; [cbn [length]; lia|].
  cbn [length]. destruct n as [|n]; [lia|]. destruct n as [|n].
  - cbn in Hu. lia.
  - apply le_n_S. apply IH; try lia.
    replace (7 * N.of_nat (S (S n)))%N with (7 * N.of_nat (S n) + 7)%N in Hu by lia.
    rewrite N.pow_add_r in Hu. apply N.div_lt_upper_bound; lia.
Qed.

Lemma varint_enc_len_le (n : nat) x : (0 < n <= 10)%nat -> 0 <= x < 2 ^ (7 * Z.of_nat n - 1) ->
  (length (varint_enc x) <= n)%nat.
Proof.
  intros Hn Hx. unfold varint_enc, uvarint_enc. apply uvarint_enc_fuel_len_le; try lia.
  unfold zigzag. replace (x <? 0) with false by lia.
  assert (2 * x < 2 ^ (7 * Z.of_nat n)).
  { replace (7 * Z.of_nat n) with (7 * Z.of_nat n - 1 + 1) by lia.
    rewrite Z.pow_add_r by lia. lia. }
  assert (E : (2 ^ (7 * N.of_nat n))%N = Z.to_N (2 ^ (7 * Z.of_nat n))).
  { rewrite Z2N.inj_pow by lia. f_equal. lia. }
  rewrite E. lia.
Qed.

Lemma varint_dec_app buf rest x n :
  varint_dec buf = Some (x, n) -> varint_dec (buf ++ rest) = Some (x, n).
Proof.
  intros E. pose proof (varint_dec_prefix buf x n (skipn n buf ++ rest) E) as P.
  rewrite app_assoc, firstn_skipn in P. exact P.
Qed.

Lemma skipn_app_le {A} n (a b : list A) : (n <= length a)%nat -> skipn n (a ++ b) = skipn n a ++ b.
Proof.
  intros L. rewrite skipn_app. replace (n - length a)%nat with 0%nat by lia. reflexivity.
Qed.

(** the number of bytes taken by the three leading varints of an op prefix *)
Definition hdr_len (buf : bytes) : option nat :=
  match varint_dec buf with
  | None => None
  | Some (_, n0) =>
      match varint_dec (skipn n0 buf) with
      | None => None
      | Some (_, n1) =>
          match varint_dec (skipn n1 (skipn n0 buf)) with
          | None => None
          | Some (_, n2) => Some (n0 + n1 + n2)%nat
          end
      end
  end.

Lemma hdr_len_le buf n : hdr_len buf = Some n -> (0 < n <= length buf)%nat.
Proof.
  unfold hdr_len.
  destruct (varint_dec buf) as [[x0 n0]|] eqn:E0; [|discriminate].
  destruct (varint_dec (skipn n0 buf)) as [[x1 n1]|] eqn:E1; [|discriminate].
  destruct (varint_dec (skipn n1 (skipn n0 buf))) as [[x2 n2]|] eqn:E2; [|discriminate].
  intros E; inversion E; subst.
  destruct (varint_dec_guard _ _ _ E0) as (A0 & _).
  destruct (varint_dec_guard _ _ _ E1) as (A1 & _).
  destruct (varint_dec_guard _ _ _ E2) as (A2 & _).
  repeat rewrite skipn_length in A1. repeat rewrite skipn_length in A2. lia.
Qed.

Lemma hdr_len_app buf rest n : hdr_len buf = Some n -> hdr_len (buf ++ rest) = Some n.
Proof.
  unfold hdr_len.
  destruct (varint_dec buf) as [[x0 n0]|] eqn:E0; [|discriminate].
  destruct (varint_dec (skipn n0 buf)) as [[x1 n1]|] eqn:E1; [|discriminate].
  destruct (varint_dec (skipn n1 (skipn n0 buf))) as [[x2 n2]|] eqn:E2; [|discriminate].
  intros E; inversion E; subst.
  destruct (varint_dec_guard _ _ _ E0) as (A0 & _).
  destruct (varint_dec_guard _ _ _ E1) as (A1 & _).
  rewrite (varint_dec_app _ rest _ _ E0).
  rewrite (skipn_app_le n0 buf rest) by lia.
  rewrite (varint_dec_app _ rest _ _ E1).
  rewrite (skipn_app_le n1 (skipn n0 buf) rest) by lia.
  rewrite (varint_dec_app _ rest _ _ E2). reflexivity.
Qed.

Definition vlen (a b c : Z) : nat :=
  (length (varint_enc a) + length (varint_enc b) + length (varint_enc c))%nat.

Definition int64 (x : Z) : Prop := - 2 ^ 63 <= x < 2 ^ 63.

Lemma hdr_len_enc a b c rest : int64 a -> int64 b -> int64 c ->
  hdr_len (varint_enc a ++ varint_enc b ++ varint_enc c ++ rest) = Some (vlen a b c).
Proof.
  intros Ha Hb Hc. unfold hdr_len.
  rewrite (varint_roundtrip a _ Ha). rewrite skipn_length_app.
  rewrite (varint_roundtrip b _ Hb). rewrite skipn_length_app.
  rewrite (varint_roundtrip c _ Hc). reflexivity.
Qed.

Lemma vlen_bounds a b c : (3 <= vlen a b c <= 30)%nat.
Proof.
  unfold vlen. pose proof (varint_enc_length a). pose proof (varint_enc_length b).
  pose proof (varint_enc_length c). lia.
Qed.

(** [validate_iavl_ops] on a prefix produced by the iavl code *)
Lemma validate_produced a b c rest layer : i63 a -> i63 b -> i63 c ->
  validate_iavl_ops (varint_enc a ++ varint_enc b ++ varint_enc c ++ rest) layer =
    if a <? layer then false
    else if layer =? 0 then blen rest =? 0 else (blen rest =? 1) || (blen rest =? 34).
Proof.
  unfold i63. intros Ha Hb Hc. unfold validate_iavl_ops.
  rewrite (varint_roundtrip a) by (unfold int64; lia). rewrite skipn_length_app.
  replace (a <? 0) with false by lia.
  rewrite (varint_roundtrip b) by (unfold int64; lia). rewrite skipn_length_app.
  replace (b <? 0) with false by lia.
  rewrite (varint_roundtrip c) by (unfold int64; lia). rewrite skipn_length_app.
  replace (c <? 0) with false by lia. reflexivity.
Qed.

(** what a successful validation says about an arbitrary prefix *)
Lemma validate_inv prefix layer : validate_iavl_ops prefix layer = true ->
  exists n, hdr_len prefix = Some n /\
    (if layer =? 0 then length prefix = n
     else length prefix = (n + 1)%nat \/ length prefix = (n + 34)%nat).
Proof.
  unfold validate_iavl_ops, hdr_len.
  destruct (varint_dec prefix) as [[x0 n0]|] eqn:E0; [|discriminate].
  destruct (x0 <? 0); [discriminate|].
  destruct (varint_dec (skipn n0 prefix)) as [[x1 n1]|] eqn:E1; [|discriminate].
  destruct (x1 <? 0); [discriminate|].
  destruct (varint_dec (skipn n1 (skipn n0 prefix))) as [[x2 n2]|] eqn:E2; [|discriminate].
  destruct (x2 <? 0); [discriminate|].
  destruct (x0 <? layer); [discriminate|].
  destruct (varint_dec_guard _ _ _ E0) as (A0 & _).
  destruct (varint_dec_guard _ _ _ E1) as (A1 & _).
  destruct (varint_dec_guard _ _ _ E2) as (A2 & _).
  repeat rewrite skipn_length in A1. repeat rewrite skipn_length in A2.
  unfold blen. repeat rewrite skipn_length.
  intros V. exists (n0 + n1 + n2)%nat. split; [reflexivity|].
  revert V. destruct (layer =? 0); lia.
Qed.

(** * Trees: bounds needed by the spec's prefix window *)
Section Facts.
  Variable H : bytes -> bytes.
  Hypothesis Hlen : forall x, length (H x) = 32%nat.
  Variable wv : Z.

  Notation ph := (pure_hash H wv).

  Lemma ph_len t : length (ph t) = 32%nat.
  Proof. destruct t; apply Hlen. Qed.

  Lemma len32_cons (x : bytes) : length x = 32%nat -> exists b r, x = b :: r.
  Proof. destruct x as [|b r]; [discriminate|]. eauto. Qed.

  (** The explicit guard: every height / size / effective version is a non-negative int64,
      heights are at most 128 (they are int8 in Go), and on every inner node the three
      varints take at most 11 bytes, so that the inner-op prefix (varints + 1 byte, or
      varints + 34 bytes) lies in the spec's window 4..12 (+33). *)
  Fixpoint bounds (t : node) : Prop :=
    match t with
    | Leaf _ _ m => i63 (eff_ver wv m)
    | Inner _ h s m l r =>
        i63 h /\ h <= 128 /\ i63 s /\ i63 (eff_ver wv m) /\
        (vlen h s (eff_ver wv m) <= 11)%nat /\ bounds l /\ bounds r
    end.

  (** a simple sufficient condition: heights < 64, sizes and versions < 2^34 *)
  Fixpoint simple_bounds (t : node) : Prop :=
    match t with
    | Leaf _ _ m => 0 <= eff_ver wv m < 2 ^ 34
    | Inner _ h s m l r =>
        0 <= h < 64 /\ 0 <= s < 2 ^ 34 /\ 0 <= eff_ver wv m < 2 ^ 34 /\
        simple_bounds l /\ simple_bounds r
    end.

  Lemma simple_bounds_ok t : simple_bounds t -> bounds t.
  Proof.
    induction t as [k v m|k h s m l IHl r IHr]; cbn [simple_bounds bounds].
    - unfold i63. lia.
    - intros (A & B & C & D & E). unfold i63.
      repeat split; try lia; auto.
      unfold vlen.
      pose proof (varint_enc_len_le 1 h ltac:(lia) ltac:(cbn; lia)).
      pose proof (varint_enc_len_le 5 s ltac:(lia) ltac:(cbn; lia)).
      pose proof (varint_enc_len_le 5 (eff_ver wv m) ltac:(lia) ltac:(cbn; lia)).
      lia.
  Qed.

  (** * apply_path *)
  Lemma apply_path_app c a b :
    apply_path H c (a ++ b) =
      match apply_path H c a with Some c' => apply_path H c' b | None => None end.
  Proof.
    revert c. induction a as [|x a IH]; intros c; [reflexivity|].
    cbn [app apply_path]. destruct (inner_apply H x c) as [r|]; [|reflexivity].
    destruct (33 <? blen r); [reflexivity|]. apply IH.
  Qed.

  Lemma apply_path_len c p c' : length c = 32%nat -> apply_path H c p = Some c' -> length c' = 32%nat.
  Proof.
    revert c. induction p as [|x p IH]; intros c L; cbn [apply_path].
    - intros E; inversion E; subst; exact L.
    - unfold inner_apply. destruct c as [|b0 c0]; [discriminate|].
      destruct (33 <? blen _); [discriminate|]. apply IH. apply Hlen.
  Qed.

  Lemma inner_apply_32 io c : length c = 32%nat ->
    inner_apply H io c = Some (H (io_prefix io ++ c ++ io_suffix io)).
  Proof. intros L. destruct c; [discriminate|]. reflexivity. Qed.

  Lemma step_32 io c rest : length c = 32%nat ->
    apply_path H c (io :: rest) = apply_path H (H (io_prefix io ++ c ++ io_suffix io)) rest.
  Proof.
    intros L. cbn [apply_path]. rewrite (inner_apply_32 io c L).
    replace (33 <? blen _) with false; [reflexivity|].
    unfold blen. rewrite Hlen. reflexivity.
  Qed.

  (** * The two kinds of inner ops produced *)
  Definition pre3 (h s v : Z) : bytes := varint_enc h ++ varint_enc s ++ varint_enc v.

  Lemma pre3_len h s v : length (pre3 h s v) = vlen h s v.
  Proof. unfold pre3, vlen. rewrite !app_length. lia. Qed.

  Lemma conv_left h s v rh :
    convert_inner_op (PIN h s v [] rh) = InnerOp (pre3 h s v ++ [32%N]) (32%N :: rh).
  Proof. reflexivity. Qed.

  Lemma conv_right h s v lh : length lh = 32%nat ->
    convert_inner_op (PIN h s v lh []) = InnerOp (pre3 h s v ++ [32%N] ++ lh ++ [32%N]) [].
  Proof. intros L. destruct lh; [discriminate|]. reflexivity. Qed.

  Lemma step_left h s v c rh : length c = 32%nat ->
    io_prefix (InnerOp (pre3 h s v ++ [32%N]) (32%N :: rh)) ++ c ++
    io_suffix (InnerOp (pre3 h s v ++ [32%N]) (32%N :: rh)) = inner_preimage h s v c rh.
  Proof.
    intros _. cbn [io_prefix io_suffix]. unfold inner_preimage, pre3.
    repeat rewrite <- app_assoc. reflexivity.
  Qed.

  Lemma step_right h s v lh c :
    io_prefix (InnerOp (pre3 h s v ++ [32%N] ++ lh ++ [32%N]) []) ++ c ++
    io_suffix (InnerOp (pre3 h s v ++ [32%N] ++ lh ++ [32%N]) []) = inner_preimage h s v lh c.
  Proof.
    cbn [io_prefix io_suffix]. unfold inner_preimage, pre3.
    repeat rewrite <- app_assoc. cbn [app]. rewrite app_nil_r.
    repeat rewrite <- app_assoc. reflexivity.
  Qed.

  Lemma convert_inner_ops_cons pin p :
    convert_inner_ops (pin :: p) = convert_inner_ops p ++ [convert_inner_op pin].
  Proof. unfold convert_inner_ops. cbn [rev]. rewrite map_app. reflexivity. Qed.

  Lemma convert_inner_ops_length p : length (convert_inner_ops p) = length p.
  Proof. unfold convert_inner_ops. rewrite map_length, rev_length. reflexivity. Qed.

  (** * 1. The existence proof recomputes the root *)
  Lemma calc_path t : forall k p lk lv m ok,
    path_to_leaf ph wv t k = (p, (lk, lv, m), ok) ->
    apply_path H (H (leaf_preimage H (eff_ver wv m) lk lv)) (convert_inner_ops p) = Some (ph t).
  Proof.
    induction t as [k0 v0 m0|nk h s m0 l IHl r IHr]; intros k p lk lv m ok E.
    - cbn [path_to_leaf] in E. inversion E; subst. reflexivity.
    - cbn [path_to_leaf] in E. destruct (blt k nk).
      + destruct (path_to_leaf ph wv l k) as [[p' [[lk' lv'] m']] ok'] eqn:E'.
        inversion E; subst. rewrite convert_inner_ops_cons, apply_path_app.
        rewrite (IHl _ _ _ _ _ _ E'). rewrite conv_left.
        rewrite (step_32 _ _ _ (ph_len l)). rewrite (step_left _ _ _ _ _ (ph_len l)).
        reflexivity.
      + destruct (path_to_leaf ph wv r k) as [[p' [[lk' lv'] m']] ok'] eqn:E'.
        inversion E; subst. rewrite convert_inner_ops_cons, apply_path_app.
        rewrite (IHr _ _ _ _ _ _ E'). rewrite (conv_right _ _ _ _ (ph_len l)).
        rewrite (step_32 _ _ _ (ph_len r)). rewrite step_right.
        reflexivity.
  Qed.

  Lemma leaf_apply_produced v k val : k <> [] -> val <> [] ->
    leaf_apply H (convert_leaf_op v) k val = Some (H (leaf_preimage H v k val)).
  Proof.
    intros Hk Hv. destruct k as [|k0 k']; [contradiction|]. destruct val as [|v0 v']; [contradiction|].
    cbn [leaf_apply convert_leaf_op lo_prefix]. f_equal. f_equal.
    unfold leaf_preimage, var_proto. repeat rewrite <- app_assoc. do 4 f_equal.
    unfold bytes_enc. rewrite Hlen. reflexivity.
  Qed.

  Definition mk_ep (p : list proof_inner_node) (lk lv : bytes) (m : meta) : existence_proof :=
    ExistenceProof lk lv (convert_leaf_op (eff_ver wv m)) (convert_inner_ops p).

  Theorem calculate_path t k p lv m :
    path_to_leaf ph wv t k = (p, (k, lv, m), true) -> k <> [] -> lv <> [] ->
    calculate H (mk_ep p k lv m) = Some (ph t).
  Proof.
    intros E Hk Hv. unfold calculate, mk_ep. cbn [ep_leaf ep_key ep_value ep_path].
    rewrite (leaf_apply_produced _ _ _ Hk Hv). apply (calc_path _ _ _ _ _ _ _ E).
  Qed.

  (** * path_to_leaf versus get *)
  Lemma path_get (hf : node -> bytes) t : forall k p lk lv m ok,
    path_to_leaf hf wv t k = (p, (lk, lv, m), ok) ->
    if ok then lk = k /\ snd (get t k) = Some lv else snd (get t k) = None.
  Proof.
    induction t as [k0 v0 m0|nk h s m0 l IHl r IHr]; intros k p lk lv m ok E.
    - cbn [path_to_leaf get] in *. inversion E; subst. unfold beq.
      bcases lk k; cbn; auto.
    - cbn [path_to_leaf get] in *. destruct (blt k nk).
      + destruct (path_to_leaf hf wv l k) as [[p' [[lk' lv'] m']] ok'] eqn:E'.
        inversion E; subst. apply (IHl _ _ _ _ _ _ E').
      + destruct (path_to_leaf hf wv r k) as [[p' [[lk' lv'] m']] ok'] eqn:E'.
        inversion E; subst. specialize (IHr _ _ _ _ _ _ E').
        destruct (get r k) as [i v]. exact IHr.
  Qed.

  Lemma get_path (hf : node -> bytes) t k v : snd (get t k) = Some v ->
    exists p m, path_to_leaf hf wv t k = (p, (k, v, m), true).
  Proof.
    intros G. destruct (path_to_leaf hf wv t k) as [[p [[lk lv] m]] ok] eqn:E.
    pose proof (path_get hf t _ _ _ _ _ _ E) as P. destruct ok.
    - destruct P as [-> P]. rewrite G in P. inversion P; subst. eauto.
    - rewrite G in P. discriminate.
  Qed.

  (** * check_against_spec on produced proofs *)
  Lemma inner_checks_app a x b :
    inner_checks (a ++ [x]) b =
      inner_checks a b && inner_check_against_spec x (b + Z.of_nat (length a)).
  Proof.
    revert b. induction a as [|y a IH]; intros b.
    - cbn [app inner_checks length]. rewrite Z.add_0_r, andb_true_r. reflexivity.
    - cbn [app inner_checks length]. rewrite IH, andb_assoc. do 2 f_equal. lia.
  Qed.

  Lemma pre3_not_zero h s v rest : 1 <= h -> is_prefix [0%N] (pre3 h s v ++ rest) = false.
  Proof.
    intros Hh. destruct (varint_first_nonzero h Hh) as (b & r & E & Nz).
    unfold pre3. rewrite E. cbn [app is_prefix]. apply andb_false_intro1. apply N.eqb_neq. lia.
  Qed.

  Lemma check_left h s v rh layer :
    i63 h -> i63 s -> i63 v -> (vlen h s v <= 11)%nat -> 1 <= layer <= h -> length rh = 32%nat ->
    inner_check_against_spec (InnerOp (pre3 h s v ++ [32%N]) (32%N :: rh)) layer = true.
  Proof.
    intros Hh Hs Hv Hl Hy Hr. unfold inner_check_against_spec. cbn [io_prefix io_suffix].
    rewrite (pre3_not_zero h s v _ ltac:(lia)).
    rewrite blen_app, blen_cons. unfold blen. rewrite pre3_len. cbn [length]. rewrite Hr.
    pose proof (vlen_bounds h s v).
    unfold pre3. repeat rewrite <- app_assoc. rewrite (validate_produced h s v _ layer Hh Hs Hv).
    replace (h <? layer) with false by lia. replace (layer =? 0) with false by lia.
    change (blen [32%N]) with 1. change (Z.of_nat 33 mod 33 =? 0) with true.
    change (Z.of_nat 0) with 0. lia.
  Qed.

  Lemma check_right h s v lh layer :
    i63 h -> i63 s -> i63 v -> (vlen h s v <= 11)%nat -> 1 <= layer <= h -> length lh = 32%nat ->
    inner_check_against_spec (InnerOp (pre3 h s v ++ [32%N] ++ lh ++ [32%N]) []) layer = true.
  Proof.
    intros Hh Hs Hv Hl Hy Hr. unfold inner_check_against_spec. cbn [io_prefix io_suffix].
    rewrite (pre3_not_zero h s v _ ltac:(lia)).
    rewrite blen_app. unfold blen. rewrite pre3_len. rewrite !app_length. cbn [length]. rewrite Hr.
    pose proof (vlen_bounds h s v).
    unfold pre3. repeat rewrite <- app_assoc. rewrite (validate_produced h s v _ layer Hh Hs Hv).
    replace (h <? layer) with false by lia. replace (layer =? 0) with false by lia.
    unfold blen. rewrite !app_length. cbn [length]. rewrite Hr.
    change (Z.of_nat 0 mod 33 =? 0) with true. lia.
  Qed.

  Lemma path_checks t : wf t -> bounds t -> forall k p lf ok,
    path_to_leaf ph wv t k = (p, lf, ok) ->
    Z.of_nat (length p) <= height t /\ inner_checks (convert_inner_ops p) 1 = true.
  Proof.
    induction t as [k0 v0 m0|nk h s m0 l IHl r IHr]; intros W B k p lf ok E.
    - cbn [path_to_leaf] in E. inversion E; subst. cbn. split; [lia|reflexivity].
    - cbn [wf] in W. destruct W as (Wl & Wr & _ & _ & _ & Hh & _).
      cbn [bounds] in B. destruct B as (Bh & Bh' & Bs & Bv & Bl & Bbl & Bbr).
      pose proof (height_nonneg l Wl). pose proof (height_nonneg r Wr).
      cbn [path_to_leaf] in E. cbn [height]. destruct (blt k nk).
      + destruct (path_to_leaf ph wv l k) as [[p' lf'] ok'] eqn:E'.
        inversion E; subst p lf ok. destruct (IHl Wl Bbl _ _ _ _ E') as [L C].
        cbn [length]. split; [lia|].
        rewrite convert_inner_ops_cons, inner_checks_app, C, convert_inner_ops_length.
        rewrite conv_left. apply check_left; auto; try lia. apply ph_len.
      + destruct (path_to_leaf ph wv r k) as [[p' lf'] ok'] eqn:E'.
        inversion E; subst p lf ok. destruct (IHr Wr Bbr _ _ _ _ E') as [L C].
        cbn [length]. split; [lia|].
        rewrite convert_inner_ops_cons, inner_checks_app, C, convert_inner_ops_length.
        rewrite (conv_right _ _ _ _ (ph_len l)). apply check_right; auto; try lia. apply ph_len.
  Qed.

  Lemma leaf_check_produced v : i63 v -> leaf_check_against_spec (convert_leaf_op v) = true.
  Proof.
    intros Hv. unfold leaf_check_against_spec, convert_leaf_op. cbn [lo_prefix].
    rewrite <- (app_nil_r (varint_enc v)). repeat rewrite <- app_assoc.
    rewrite (validate_produced 0 1 v [] 0); try (unfold i63; lia); auto.
  Qed.

  Lemma path_leaf_bounds (hf : node -> bytes) t : bounds t -> forall k p lk lv m ok,
    path_to_leaf hf wv t k = (p, (lk, lv, m), ok) -> i63 (eff_ver wv m).
  Proof.
    induction t as [k0 v0 m0|nk h s m0 l IHl r IHr]; intros B k p lk lv m ok E.
    - cbn [path_to_leaf] in E. inversion E; subst. exact B.
    - cbn [bounds] in B. destruct B as (_ & _ & _ & _ & _ & Bbl & Bbr).
      cbn [path_to_leaf] in E. destruct (blt k nk).
      + destruct (path_to_leaf hf wv l k) as [[p' [[lk' lv'] m']] ok'] eqn:E'.
        inversion E; subst. apply (IHl Bbl _ _ _ _ _ _ E').
      + destruct (path_to_leaf hf wv r k) as [[p' [[lk' lv'] m']] ok'] eqn:E'.
        inversion E; subst. apply (IHr Bbr _ _ _ _ _ _ E').
  Qed.

  Lemma height_le_128 t : bounds t -> wf t -> height t <= 128.
  Proof.
    destruct t; cbn [bounds height]; intros B W; [lia|]. tauto.
  Qed.

  (** the existence proof of a reachable leaf verifies *)
  Lemma ep_verifies t k p lv m :
    wf t -> bounds t -> path_to_leaf ph wv t k = (p, (k, lv, m), true) -> k <> [] -> lv <> [] ->
    verify_existence H (ph t) (mk_ep p k lv m) k lv = true.
  Proof.
    intros W B E Hk Hv. unfold verify_existence.
    rewrite (calculate_path _ _ _ _ _ E Hk Hv).
    destruct (path_checks t W B _ _ _ _ E) as [L C].
    unfold check_against_spec, mk_ep. cbn [ep_leaf ep_path ep_key ep_value].
    rewrite (leaf_check_produced _ (path_leaf_bounds _ _ B _ _ _ _ _ _ E)).
    rewrite C, convert_inner_ops_length, !beq_refl.
    pose proof (height_le_128 t B W).
    replace (Z.of_nat (length p) <=? 128) with true by lia. reflexivity.
  Qed.

  (** * 2. Completeness of membership proofs *)
  Theorem complete_member_pure t k v :
    wf t -> bounds t -> snd (get t k) = Some v -> k <> [] -> v <> [] ->
    exists ep, get_membership_proof_gen ph wv (Some t) k = Some (PExist ep) /\
               ep_key ep = k /\ ep_value ep = v /\
               calculate H ep = Some (ph t) /\
               verify_membership H (ph t) (PExist ep) k v = true.
  Proof.
    intros W B G Hk Hv. destruct (get_path ph t k v G) as (p & m & E).
    exists (mk_ep p k v m). unfold get_membership_proof_gen, create_existence_proof.
    rewrite E. split; [reflexivity|]. split; [reflexivity|]. split; [reflexivity|].
    split; [apply (calculate_path _ _ _ _ _ E Hk Hv)|].
    unfold verify_membership. cbn [mk_ep ep_key]. rewrite beq_refl.
    apply ep_verifies; auto.
  Qed.
End Facts.
