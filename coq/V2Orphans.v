(** iavl/v2: branch node keys, orphan bookkeeping and the tree pruner, at node level.

    V2.v models the v2 tree algebra with branch sequences erased (every branch nonce is 0) and
    a pruner that "deletes everything below the checkpoint".  This file adds what decides which
    rows the real pruner deletes:

    - branch node keys [(version, sequence)] as assigned by [nextNodeKey] / [mutateNode]
      (tree.go), threaded through a branch-sequence counter [bs];
    - [addOrphan] (tree.go): the branch node keys recorded in [tree.branchOrphans];
    - [saveBranches] / [execBranchOrphan] (sqlite_batch.go), [SaveRoot] (sqlite.go);
    - [treeLoop] (sqlite_writer.go): the tree pruner;
    - [LoadRoot] + [getNode] (sqlite.go): reading a checkpoint back, branch by branch.

    Conventions (as in V2.v): [wv] is the working version [tree.version+1]; [hs = []] is Go's
    [hash == nil]; Go panics / errors are [None]; loops carry fuel.  [ckpt] is
    [tree.checkpoints.Last()] (-1 when there is none).  A node key is a pair
    [(ver m, nonce m)].

    LEAVES are kept abstract: a branch row carries its leaf children in full ([CLeaf]); the
    [leaf] / [leaf_orphan] tables and [leafLoop] are NOT modelled here (V2.v has the change
    log).  Shards: [deepHash] re-appends already persisted branches that are still in memory
    to [tree.branches]; they are re-inserted into the NEW shard, where no reader or pruner
    ever looks for them ([getShard(nodeKey.version)]): those duplicate rows are not modelled,
    [checkpoint_write] writes the branches created since the last checkpoint. *)
From IAVL Require Import Bytes Varint Tree MTree V2.
Local Open Scope Z_scope.

Definition nkey2 := (Z * Z)%type.

Definition key_of (m : meta) : nkey2 := (ver m, nonce m).

Definition key_eqb (a b : nkey2) : bool := (fst a =? fst b) && (snd a =? snd b).

Definition is_nil (b : bytes) : bool := match b with [] => true | _ :: _ => false end.

(** * 1. Tree algebra with branch node keys and orphans *)

(** addOrphan on a branch: recorded iff it has a hash and its version is <= the last checkpoint *)
Definition persisted (ckpt : Z) (m : meta) : bool := negb (is_nil (hs m)) && (ver m <=? ckpt).

Definition add_orphan (ckpt : Z) (m : meta) : list nkey2 :=
  if persisted ckpt m then [key_of m] else [].

(** mutateNode on a branch: a node already mutated in this working version keeps its key,
    otherwise hash := nil and nodeKey := nextNodeKey().  Returns the new meta and counter. *)
Definition mutate (wv bs : Z) (m : meta) : meta * Z :=
  if is_nil (hs m) && (ver m =? wv) then (m, bs) else (Meta wv (bs + 1) [], bs + 1).

(** a branch with recomputed height and size (calcHeightAndSize) under meta [m] *)
Definition node_m (m : meta) (k : bytes) (l r : node) : node :=
  Inner k (Z.max (height l) (height r) + 1) (size l + size r) m l r.

(** rotateRight: addOrphan(node); mutateNode(node); addOrphan(node.left); mutateNode(node.left) *)
Definition rotR_o (wv ckpt bs : Z) (t : node) : option (node * list nkey2 * Z) :=
  match t with
  | Inner k _ _ m (Inner lk _ _ lm ll lr) r =>
      let (m1, bs1) := mutate wv bs m in
      let (m2, bs2) := mutate wv bs1 lm in
      Some (node_m m2 lk ll (node_m m1 k lr r), add_orphan ckpt m ++ add_orphan ckpt lm, bs2)
  | _ => None
  end.

Definition rotL_o (wv ckpt bs : Z) (t : node) : option (node * list nkey2 * Z) :=
  match t with
  | Inner k _ _ m l (Inner rk _ _ rm rl rr) =>
      let (m1, bs1) := mutate wv bs m in
      let (m2, bs2) := mutate wv bs1 rm in
      Some (node_m m2 rk (node_m m1 k l rl) rr, add_orphan ckpt m ++ add_orphan ckpt rm, bs2)
  | _ => None
  end.

(** Tree.balance *)
Definition balance_o (wv ckpt bs : Z) (t : node) : option (node * list nkey2 * Z) :=
  match t with
  | Inner k h s m l r =>
      match hs m with
      | _ :: _ => None
      | [] =>
          if 1 <? height l - height r then
            (if 0 <=? bal_of l then rotR_o wv ckpt bs t
             else match rotL_o wv ckpt bs l with
                  | None => None
                  | Some (l', o1, bs1) =>
                      match rotR_o wv ckpt bs1 (Inner k h s m l' r) with
                      | None => None
                      | Some (t', o2, bs2) => Some (t', o1 ++ o2, bs2)
                      end
                  end)
          else if height l - height r <? -1 then
            (if bal_of r <=? 0 then rotL_o wv ckpt bs t
             else match rotR_o wv ckpt bs r with
                  | None => None
                  | Some (r', o1, bs1) =>
                      match rotL_o wv ckpt bs1 (Inner k h s m l r') with
                      | None => None
                      | Some (t', o2, bs2) => Some (t', o1 ++ o2, bs2)
                      end
                  end)
          else Some (t, [], bs)
      end
  | Leaf _ _ _ => None
  end.

(** recursiveSet.  [sq]: the leaf sequence of the written leaf; [bs]: tree.branchSequence.
    Result: new node, updated, recorded branch orphans in order, new branchSequence. *)
Fixpoint v2_set_o (wv sq ckpt bs : Z) (t : node) (k v : bytes)
  : option (node * bool * list nkey2 * Z) :=
  match t with
  | Leaf lk lv _ =>
      match bcmp k lk with
      | Lt => Some (Inner lk 1 2 (Meta wv (bs + 1) []) (Leaf k v (v2_meta wv sq)) t, false, [], bs + 1)
      | Gt => Some (Inner k 1 2 (Meta wv (bs + 1) []) t (Leaf k v (v2_meta wv sq)), false, [], bs + 1)
      | Eq => Some (Leaf lk v (v2_meta wv sq), true, [], bs)
      end
  | Inner nk h s m l r =>
      let (m1, bs1) := mutate wv bs m in
      let o0 := add_orphan ckpt m in
      if blt k nk then
        match v2_set_o wv sq ckpt bs1 l k v with
        | None => None
        | Some (l', upd, o1, bs2) =>
            if upd then Some (Inner nk h s m1 l' r, true, o0 ++ o1, bs2)
            else match balance_o wv ckpt bs2 (node_m m1 nk l' r) with
                 | None => None
                 | Some (t', o2, bs3) => Some (t', false, o0 ++ o1 ++ o2, bs3)
                 end
        end
      else
        match v2_set_o wv sq ckpt bs1 r k v with
        | None => None
        | Some (r', upd, o1, bs2) =>
            if upd then Some (Inner nk h s m1 l r', true, o0 ++ o1, bs2)
            else match balance_o wv ckpt bs2 (node_m m1 nk l r') with
                 | None => None
                 | Some (t', o2, bs3) => Some (t', false, o0 ++ o1 ++ o2, bs3)
                 end
        end
  end.

(** recursiveRemove.  [early = true] is the SEEDED DEFECT: addOrphan(node) before the
    [!removed] check.  Go's code is [early = false]. *)
Fixpoint remove_gen (early : bool) (wv ckpt bs : Z) (t : node) (k : bytes)
  : option (rm_res * list nkey2 * Z) :=
  match t with
  | Leaf lk lv _ =>
      Some (if beq k lk then RmRes None None (Some lv) else RmRes (Some t) None None, [], bs)
  | Inner nk h s m l r =>
      if blt k nk then
        match remove_gen early wv ckpt bs l k with
        | None => None
        | Some (res, o1, bs1) =>
            match rm_val res with
            | None => Some (RmRes (Some t) None None, (if early then o1 ++ add_orphan ckpt m else o1), bs1)
            | Some val =>
                let o := o1 ++ add_orphan ckpt m in
                match rm_self res with
                | None => Some (RmRes (Some r) (Some nk) (Some val), o, bs1)
                | Some l' =>
                    let (m1, bs2) := mutate wv bs1 m in
                    match balance_o wv ckpt bs2 (node_m m1 nk l' r) with
                    | None => None
                    | Some (t', o2, bs3) => Some (RmRes (Some t') (rm_key res) (Some val), o ++ o2, bs3)
                    end
                end
            end
        end
      else
        match remove_gen early wv ckpt bs r k with
        | None => None
        | Some (res, o1, bs1) =>
            match rm_val res with
            | None => Some (RmRes (Some t) None None, (if early then o1 ++ add_orphan ckpt m else o1), bs1)
            | Some val =>
                let o := o1 ++ add_orphan ckpt m in
                match rm_self res with
                | None => Some (RmRes (Some l) None (Some val), o, bs1)
                | Some r' =>
                    let nk' := match rm_key res with Some k' => k' | None => nk end in
                    let (m1, bs2) := mutate wv bs1 m in
                    match balance_o wv ckpt bs2 (node_m m1 nk' l r') with
                    | None => None
                    | Some (t', o2, bs3) => Some (RmRes (Some t') None (Some val), o ++ o2, bs3)
                    end
                end
            end
        end
  end.

Definition v2_remove_o := remove_gen false.
Definition v2_remove_o_early := remove_gen true.

(** erasing branch sequences gives the node type V2.v works on *)
Fixpoint erase (t : node) : node :=
  match t with
  | Leaf _ _ _ => t
  | Inner k h s m l r => Inner k h s (Meta (ver m) 0 (hs m)) (erase l) (erase r)
  end.

Definition erase_res (r : rm_res) : rm_res :=
  RmRes (option_map erase (rm_self r)) (rm_key r) (rm_val r).

(** keys of the branches of [t] that addOrphan would record (pre-order) *)
Fixpoint pkeys (ckpt : Z) (t : node) : list nkey2 :=
  match t with
  | Leaf _ _ _ => []
  | Inner _ _ _ m l r => add_orphan ckpt m ++ pkeys ckpt l ++ pkeys ckpt r
  end.

(** keys of all branches of [t] (pre-order) *)
Fixpoint ikeys (t : node) : list nkey2 :=
  match t with
  | Leaf _ _ _ => []
  | Inner _ _ _ m l r => key_of m :: ikeys l ++ ikeys r
  end.

Definition okeys (root : option node) : list nkey2 :=
  match root with Some t => ikeys t | None => [] end.

(** * 2. The tree database: branch rows, orphan rows, root rows *)

(** a child reference inside a branch row: a leaf (kept in full) or a branch node key *)
Inductive cref := CLeaf (k v : bytes) (m : meta) | CBr (key : nkey2).

(** Node.Bytes() of a branch *)
Record node_row := NRow {
  nr_key : bytes; nr_h : Z; nr_s : Z; nr_hs : bytes; nr_l : cref; nr_r : cref
}.

Definition cref_of (t : node) : cref :=
  match t with
  | Leaf k v m => CLeaf k v m
  | Inner _ _ _ m _ _ => CBr (key_of m)
  end.

Definition row_of (k : bytes) (h s : Z) (m : meta) (l r : node) : node_row :=
  NRow k h s (hs m) (cref_of l) (cref_of r).

(** the root table row: sentinel for the empty tree, or node key + Node.Bytes() of the root *)
Inductive rootrow :=
| RootEmpty
| RootLeaf (k v : bytes) (m : meta)
| RootBranch (key : nkey2) (row : node_row).

Definition rootrow_of (root : option node) : rootrow :=
  match root with
  | None => RootEmpty
  | Some (Leaf k v m) => RootLeaf k v m
  | Some (Inner k h s m l r) => RootBranch (key_of m) (row_of k h s m l r)
  end.

Record ostore := OStore {
  branches : list (nkey2 * node_row);   (* tree_N shards: (version, sequence) -> bytes *)
  borphans : list (nkey2 * Z);          (* orphan table: (version, sequence, at) *)
  roots : list (Z * rootrow * bool);    (* root table: version, root, checkpoint flag *)
  ckpts : list Z                        (* tree.checkpoints / root rows with checkpoint = true *)
}.

Definition ostore_empty : ostore := OStore [] [] [] [].

(** the branches created after checkpoint [last] that are in the tree (deepHash, pre-order:
    the node is appended before its children are visited) *)
Fixpoint new_rows (last : Z) (t : node) : list (nkey2 * node_row) :=
  match t with
  | Leaf _ _ _ => []
  | Inner k h s m l r =>
      (if last <? ver m then [(key_of m, row_of k h s m l r)] else [])
      ++ new_rows last l ++ new_rows last r
  end.

(** saveBranches + SaveRoot at checkpoint [v]; orphan rows tagged [at].

    sqlite_batch.go: [saveBranches] does everything -- the branch rows AND the orphan rows of
    [tree.branchOrphans] -- only [if b.isCheckpoint()], and [isCheckpoint()] is
    [len(b.tree.branches) > 0].  [deepHash] at a checkpoint appends every branch it visits to
    [tree.branches], so the list is non-empty exactly when the ROOT IS A BRANCH.  At a
    checkpoint of the empty tree or of a single-leaf tree no orphan row is written, and
    [SaveVersion] still executes [tree.branchOrphans = nil] ([os_save]): the pending orphans
    are lost (their branch rows are never deleted: a storage leak, see
    [prune_exact_refuted] in V2OrphansFacts2.v).  The root row is written and the checkpoint
    is added to the range in every case. *)
Definition root_is_branch (root : option node) : bool :=
  match root with Some (Inner _ _ _ _ _ _) => true | _ => false end.

Definition checkpoint_write_at (at_ : Z) (st : ostore) (v : Z) (root : option node)
           (pending : list nkey2) : ostore :=
  OStore (branches st ++ match root with Some t => new_rows (ckpt_last (ckpts st)) t | None => [] end)
         (borphans st ++ if root_is_branch root then map (fun k => (k, at_)) pending else [])
         (roots st ++ [(v, rootrow_of root, true)])
         (ckpts st ++ [v]).

(** execBranchOrphan tags with [b.tree.version], the checkpoint being written *)
Definition checkpoint_write (st : ostore) (v : Z) (root : option node) (pending : list nkey2) : ostore :=
  checkpoint_write_at v st v root pending.

(** SEEDED DEFECT C20: orphan rows tagged with the previous checkpoint *)
Definition checkpoint_write_prev (st : ostore) (v : Z) (root : option node) (pending : list nkey2) : ostore :=
  checkpoint_write_at (ckpt_last (ckpts st)) st v root pending.

(** SaveRoot of a version that is not a checkpoint *)
Definition save_root (st : ostore) (v : Z) (root : option node) : ostore :=
  OStore (branches st) (borphans st) (roots st ++ [(v, rootrow_of root, false)]) (ckpts st).

Definition in_keys (k : nkey2) (l : list nkey2) : bool := existsb (key_eqb k) l.

(** treeLoop: orphan rows with [at <= n]: delete the branch row, delete the orphan row; then
    root rows with version < FindPrevious(n).  [cks] is the checkpoint range carried by the
    prune signal (a copy taken when DeleteVersionsTo was called), the rows are those the
    writer sees when it runs. *)
Definition prune_tree_with (cks : list Z) (st : ostore) (n : Z) : option ostore :=
  match find_previous cks n with
  | FPVal c =>
      let dead := map fst (filter (fun o => snd o <=? n) (borphans st)) in
      Some (OStore (filter (fun b => negb (in_keys (fst b) dead)) (branches st))
                   (filter (fun o => negb (snd o <=? n)) (borphans st))
                   (filter (fun r => negb (fst (fst r) <? c)) (roots st))
                   (ckpts st))
  | _ => None
  end.

Definition prune_tree (st : ostore) (n : Z) : option ostore := prune_tree_with (ckpts st) st n.

(** getNode on a branch key: the first matching row *)
Fixpoint lookup_br (key : nkey2) (l : list (nkey2 * node_row)) : option node_row :=
  match l with
  | [] => None
  | (k, row) :: rest => if key_eqb k key then Some row else lookup_br key rest
  end.

Fixpoint lookup_root (v : Z) (l : list (Z * rootrow * bool)) : option rootrow :=
  match l with
  | [] => None
  | (w, r, _) :: rest => if w =? v then Some r else lookup_root v rest
  end.

(** node.left(tree) / node.right(tree) all the way down; [None]: a row is missing (Go panics
    "failed to fetch") or the fuel ran out *)
Fixpoint load_ref (fuel : nat) (br : list (nkey2 * node_row)) (c : cref) : option node :=
  match c with
  | CLeaf k v m => Some (Leaf k v m)
  | CBr key =>
      match fuel with
      | O => None
      | S f =>
          match lookup_br key br with
          | None => None
          | Some row =>
              match load_ref f br (nr_l row), load_ref f br (nr_r row) with
              | Some l, Some r =>
                  Some (Inner (nr_key row) (nr_h row) (nr_s row)
                              (Meta (fst key) (snd key) (nr_hs row)) l r)
              | _, _ => None
              end
          end
      end
  end.

Definition load_fuel (st : ostore) : nat := S (length (branches st)).

(** LoadRoot(v) of a checkpoint version, the whole tree fetched.  Result [Some None]: the empty tree. *)
Definition load_checkpoint (st : ostore) (v : Z) : option (option node) :=
  match lookup_root v (roots st) with
  | None => None                               (* root not found *)
  | Some RootEmpty => Some None
  | Some (RootLeaf k v' m) => Some (Some (Leaf k v' m))
  | Some (RootBranch key row) =>
      match load_ref (load_fuel st) (branches st) (nr_l row),
            load_ref (load_fuel st) (branches st) (nr_r row) with
      | Some l, Some r =>
          Some (Some (Inner (nr_key row) (nr_h row) (nr_s row)
                            (Meta (fst key) (snd key) (nr_hs row)) l r))
      | _, _ => None
      end
  end.

(** * 3. The history runner *)

Record ostate := OState {
  os_root : option node;
  os_version : Z;             (* tree.version *)
  os_lseq : Z;                (* tree.leafSequence - leafSequenceStart *)
  os_bseq : Z;                (* tree.branchSequence *)
  os_pending : list nkey2;    (* tree.branchOrphans *)
  os_store : ostore
}.

Definition ostate_empty : ostate := OState None 0 0 0 [] ostore_empty.

(** variants: [early] = recursiveRemove defect, [prev] = execBranchOrphan defect *)
Section Runner.
  Variable H : bytes -> bytes.
  Variables (early prev : bool).

  Definition os_apply (s : ostate) (o : logop) : option ostate :=
    let wv := os_version s + 1 in
    let ckpt := ckpt_last (ckpts (os_store s)) in
    match o with
    | LSet k v =>
        match os_root s with
        | None =>
            Some (OState (Some (Leaf k v (v2_meta wv (os_lseq s + 1)))) (os_version s)
                         (os_lseq s + 1) (os_bseq s) (os_pending s) (os_store s))
        | Some t =>
            match v2_set_o wv (os_lseq s + 1) ckpt (os_bseq s) t k v with
            | None => None
            | Some (t', _, os, bs') =>
                Some (OState (Some t') (os_version s) (os_lseq s + 1) bs'
                             (os_pending s ++ os) (os_store s))
            end
        end
    | LDel k =>
        match os_root s with
        | None => Some s
        | Some t =>
            match remove_gen early wv ckpt (os_bseq s) t k with
            | None => None
            | Some (res, os, bs') =>
                match rm_val res with
                | None =>
                    (* Tree.Remove returns without touching tree.root; what addOrphan and
                       nextNodeKey did stays done *)
                    Some (OState (os_root s) (os_version s) (os_lseq s) bs'
                                 (os_pending s ++ os) (os_store s))
                | Some _ =>
                    let same := match leaf_ver t k with
                                | Some lv => lv =? wv
                                | None => false
                                end in
                    Some (OState (rm_self res) (os_version s)
                                 (if same then os_lseq s else os_lseq s + 1) bs'
                                 (os_pending s ++ os) (os_store s))
                end
            end
        end
    end.

  Fixpoint os_apply_all (s : ostate) (ops : list logop) : option ostate :=
    match ops with
    | [] => Some s
    | o :: rest =>
        match os_apply s o with
        | None => None
        | Some s' => os_apply_all s' rest
        end
    end.

  (** SaveVersion: version++, resetSequences, shouldCheckpoint, computeHash, saveTree *)
  Definition os_save (interval : Z) (s : ostate) : ostate :=
    let v := os_version s + 1 in
    let st := os_store s in
    let root' := match os_root s with None => None | Some n => Some (v2_deep_hash H n) end in
    if v2_should_checkpoint interval false (ckpts st) v then
      OState root' v 0 0 []
             (checkpoint_write_at (if prev then ckpt_last (ckpts st) else v) st v root' (os_pending s))
    else
      OState root' v 0 0 (os_pending s) (save_root st v root').

  (** one step of a history: a version (its writes, then SaveVersion) or DeleteVersionsTo *)
  Inductive hstep := HVersion (ops : list logop) | HPrune (n : Z).

  Definition os_step (interval : Z) (s : ostate) (e : hstep) : option ostate :=
    match e with
    | HVersion ops =>
        match os_apply_all s ops with
        | None => None
        | Some s' => Some (os_save interval s')
        end
    | HPrune n =>
        match prune_tree (os_store s) n with
        | None => None
        | Some st' => Some (OState (os_root s) (os_version s) (os_lseq s) (os_bseq s) (os_pending s) st')
        end
    end.

  Fixpoint os_run (interval : Z) (s : ostate) (hist : list hstep) : option ostate :=
    match hist with
    | [] => Some s
    | e :: rest =>
        match os_step interval s e with
        | None => None
        | Some s' => os_run interval s' rest
        end
    end.

  (** the checkpoint trees of the uninterrupted run: (version, root) at every checkpoint *)
  Fixpoint os_trace (interval : Z) (s : ostate) (hist : list hstep) : option (list (Z * option node)) :=
    match hist with
    | [] => Some []
    | e :: rest =>
        match os_step interval s e with
        | None => None
        | Some s' =>
            match os_trace interval s' rest with
            | None => None
            | Some tr =>
                match e with
                | HVersion _ =>
                    if existsb (Z.eqb (os_version s')) (ckpts (os_store s'))
                    then Some ((os_version s', os_root s') :: tr) else Some tr
                | HPrune _ => Some tr
                end
            end
        end
    end.
End Runner.

(** structural equality of trees (decidable check for the examples) *)
Fixpoint node_eqb (a b : node) : bool :=
  match a, b with
  | Leaf k v m, Leaf k' v' m' =>
      beq k k' && beq v v' && key_eqb (key_of m) (key_of m') && beq (hs m) (hs m')
  | Inner k h s m l r, Inner k' h' s' m' l' r' =>
      beq k k' && (h =? h') && (s =? s') && key_eqb (key_of m) (key_of m') && beq (hs m) (hs m')
      && node_eqb l l' && node_eqb r r'
  | _, _ => false
  end.

Definition onode_eqb (a b : option node) : bool :=
  match a, b with
  | None, None => true
  | Some x, Some y => node_eqb x y
  | _, _ => false
  end.

(** every checkpoint of the trace at or above [c] loads back node for node *)
Definition retained_load_ok (st : ostore) (c : Z) (tr : list (Z * option node)) : bool :=
  forallb (fun p => if c <=? fst p then
                      match load_checkpoint st (fst p) with
                      | Some r => onode_eqb r (snd p)
                      | None => false
                      end
                    else true) tr.

(** executable form of "an orphan row names no node of a checkpoint tree at or above its [at]" *)
Definition orphans_sound_check (st : ostore) (tr : list (Z * option node)) : bool :=
  forallb (fun o => forallb (fun p => if snd o <=? fst p then negb (in_keys (fst o) (okeys (snd p))) else true) tr)
          (borphans st).

(** executable form of prune exactness: every branch row is reached by a retained checkpoint *)
Definition rows_reached_check (st : ostore) (c : Z) (tr : list (Z * option node)) : bool :=
  forallb (fun b => existsb (fun p => (c <=? fst p) && in_keys (fst b) (okeys (snd p))) tr) (branches st).
