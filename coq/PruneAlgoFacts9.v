(** PruneAlgoFacts9: look-alike nodes mean a hash collision.

    [confusion_dec]: for a (finite) forest, either no two different nodes of one tree have the same
    iterator hash, or such a pair is exhibited.  [confusion_collision]: on hash-consistent,
    well-formed trees whose numbers fit Go's int64 and whose keys are shorter than 2^63 bytes,
    with a hash function producing 32 bytes, such a pair yields two different inputs of [H] with
    the same hash (constructively: the inputs are pre-images met while comparing the two nodes). *)
From Coq Require Import Lia Sorted.
From IAVL Require Import Bytes Varint VarintFacts Tree VMap TreeFacts MTree MTreeFacts HashFacts
  VersionFacts Store StoreFacts PruneAlgo PruneAlgoFacts1 PruneAlgoFacts2 PruneAlgoFacts3
  PruneAlgoFacts4 PruneAlgoFacts5 PruneAlgoFacts6 PruneAlgoFacts7 PruneAlgoFacts8.
Local Open Scope Z_scope.

Definition collision (H : bytes -> bytes) : Prop := exists a b, a <> b /\ H a = H b.

(** ** Bounds *)
Definition i64 (x : Z) : Prop := - 2 ^ 63 <= x < 2 ^ 63.
Definition klen (k : bytes) : Prop := (N.of_nat (length k) < 2 ^ 63 - 1)%N.

Fixpoint tbounds (t : node) : Prop :=
  match t with
  | Leaf k _ m => i64 (ver m) /\ klen k
  | Inner _ h s m l r => i64 h /\ i64 s /\ i64 (ver m) /\ tbounds l /\ tbounds r
  end.

Lemma tbounds_subtree u t : subtree u t -> tbounds t -> tbounds u.
Proof.
  induction 1 as [t|u k h s m l r _ IH|u k h s m l r _ IH]; intros B; [exact B| |];
    cbn [tbounds] in B; apply IH; tauto.
Qed.

(** ** Injectivity of the encodings *)
Lemma varint_enc_inj x y r1 r2 :
  i64 x -> i64 y -> varint_enc x ++ r1 = varint_enc y ++ r2 -> x = y /\ r1 = r2.
Proof.
  intros Bx By E. pose proof (varint_roundtrip x r1 Bx) as R1.
  pose proof (varint_roundtrip y r2 By) as R2. rewrite E, R2 in R1.
  inversion R1; subst. split; [reflexivity|]. apply app_inv_head in E. exact E.
Qed.

Lemma bytes_enc_inj k k' x y :
  klen k -> klen k' -> bytes_enc k ++ x = bytes_enc k' ++ y -> k = k' /\ x = y.
Proof.
  intros Lk Lk' E. pose proof (bytes_roundtrip k x Lk) as R1.
  pose proof (bytes_roundtrip k' y Lk') as R2. rewrite E, R2 in R1.
  inversion R1; subst. split; [reflexivity|]. apply app_inv_head in E. exact E.
Qed.

Lemma app_inj_len {A} (a a' b b' : list A) :
  length a = length a' -> a ++ b = a' ++ b' -> a = a' /\ b = b'.
Proof.
  revert a'. induction a as [|x a IH]; intros [|x' a'] L E; cbn [length app] in *; try discriminate.
  - auto.
  - injection E as -> E. destruct (IH a' ltac:(lia) E) as [-> ->]. auto.
Qed.

Lemma i64_0 : i64 0. Proof. unfold i64. lia. Qed.
Lemma i64_1 : i64 1. Proof. unfold i64. lia. Qed.

(** ** Position of two subtrees of a BST *)
Lemma subtree_cases t u c :
  wf t -> subtree u t -> subtree c t ->
  subtree u c \/ subtree c u \/ sep u c \/ sep c u.
Proof.
  induction t as [k v m|k h s m l IHl r IHr]; intros W Su Sc.
  - apply sub_leaf in Su, Sc. subst. left. apply sub_refl.
  - assert (Wl : wf l) by (cbn [wf] in W; tauto). assert (Wr : wf r) by (cbn [wf] in W; tauto).
    apply sub_inv in Su. destruct Su as [->|Su]; [right; left; exact Sc|].
    apply sub_inv in Sc. destruct Sc as [->|Sc].
    { left. destruct Su as [Su|Su]; [apply sub_left|apply sub_right]; exact Su. }
    cbn [wf] in W. destruct W as (_ & _ & Kl & Kr & _).
    destruct Su as [Su|Su], Sc as [Sc|Sc].
    + apply IHl; assumption.
    + right. right. left. exists k. split.
      * exact (keys_all_subtree _ _ _ Su Kl).
      * exact (keys_all_subtree _ _ _ Sc Kr).
    + right. right. right. exists k. split.
      * exact (keys_all_subtree _ _ _ Sc Kl).
      * exact (keys_all_subtree _ _ _ Su Kr).
    + apply IHr; assumption.
Qed.

Lemma proper_subtree_count u c : subtree u c -> u <> c -> (ncount u < ncount c)%nat.
Proof.
  intros S N. apply sub_inv in S. destruct S as [E|S]; [contradiction|].
  destruct c as [k v m|k h s m l r]; [contradiction|]. cbn [ncount].
  destruct S as [S|S]; apply subtree_ncount in S; lia.
Qed.

Section Sep.
  Variable H : bytes -> bytes.
  Hypothesis Hlen : forall x, length (H x) = 32%nat.

  Lemma ph_len t : length (pure_hash H 0 t) = 32%nat.
  Proof. destruct t; apply Hlen. Qed.

  (** equal structural hashes: same least key and same number of nodes, or a collision *)
  Lemma hash_shape x : forall y,
    all_persisted x -> all_persisted y -> tbounds x -> tbounds y -> wf x -> wf y ->
    pure_hash H 0 x = pure_hash H 0 y ->
    (min_key x = min_key y /\ ncount x = ncount y) \/ collision H.
  Proof.
    induction x as [k v m|k h s m l IHl r IHr]; intros [k' v' m'|k' h' s' m' l' r'] Px Py Bx By Wx Wy E;
      cbn [pure_hash] in E.
    - (* two leaves *)
      cbn [all_persisted] in Px, Py. rewrite (eff_ver_old 0 m Px), (eff_ver_old 0 m' Py) in E.
      destruct (bytes_eq_dec (leaf_preimage H (ver m) k v) (leaf_preimage H (ver m') k' v')) as [Q|N];
        [|right; eexists _, _; split; [exact N|exact E]].
      left. unfold leaf_preimage in Q. cbn [tbounds] in Bx, By.
      destruct (varint_enc_inj _ _ _ _ i64_0 i64_0 Q) as [_ Q1].
      destruct (varint_enc_inj _ _ _ _ i64_1 i64_1 Q1) as [_ Q2].
      destruct (varint_enc_inj _ _ _ _ (proj1 Bx) (proj1 By) Q2) as [_ Q3].
      destruct (bytes_enc_inj _ _ _ _ (proj2 Bx) (proj2 By) Q3) as [-> _]. auto.
    - (* a leaf and an inner node *)
      cbn [all_persisted] in Px, Py. destruct Py as (Py & _).
      rewrite (eff_ver_old 0 m Px), (eff_ver_old 0 m' Py) in E.
      destruct (bytes_eq_dec (leaf_preimage H (ver m) k v)
                  (inner_preimage h' s' (ver m') (pure_hash H 0 l') (pure_hash H 0 r'))) as [Q|N];
        [|right; eexists _, _; split; [exact N|exact E]].
      exfalso. unfold leaf_preimage, inner_preimage in Q. cbn [tbounds] in By.
      destruct (varint_enc_inj _ _ _ _ i64_0 (proj1 By) Q) as [Q0 _].
      cbn [wf] in Wy. destruct Wy as (Wl & Wr & _ & _ & _ & Hh & _).
      pose proof (height_nonneg l' Wl). pose proof (height_nonneg r' Wr). lia.
    - cbn [all_persisted] in Px, Py. destruct Px as (Px & _).
      rewrite (eff_ver_old 0 m Px), (eff_ver_old 0 m' Py) in E.
      destruct (bytes_eq_dec (inner_preimage h s (ver m) (pure_hash H 0 l) (pure_hash H 0 r))
                  (leaf_preimage H (ver m') k' v')) as [Q|N];
        [|right; eexists _, _; split; [exact N|exact E]].
      exfalso. unfold leaf_preimage, inner_preimage in Q. cbn [tbounds] in Bx.
      destruct (varint_enc_inj _ _ _ _ (proj1 Bx) i64_0 Q) as [Q0 _].
      cbn [wf] in Wx. destruct Wx as (Wl & Wr & _ & _ & _ & Hh & _).
      pose proof (height_nonneg l Wl). pose proof (height_nonneg r Wr). lia.
    - (* two inner nodes *)
      cbn [all_persisted] in Px, Py. destruct Px as (Px & Pl & Pr), Py as (Py & Pl' & Pr').
      rewrite (eff_ver_old 0 m Px), (eff_ver_old 0 m' Py) in E.
      destruct (bytes_eq_dec (inner_preimage h s (ver m) (pure_hash H 0 l) (pure_hash H 0 r))
                  (inner_preimage h' s' (ver m') (pure_hash H 0 l') (pure_hash H 0 r'))) as [Q|N];
        [|right; eexists _, _; split; [exact N|exact E]].
      unfold inner_preimage in Q. cbn [tbounds] in Bx, By.
      destruct Bx as (B1 & B2 & B3 & Bl & Br), By as (B1' & B2' & B3' & Bl' & Br').
      destruct (varint_enc_inj _ _ _ _ B1 B1' Q) as [_ Q1].
      destruct (varint_enc_inj _ _ _ _ B2 B2' Q1) as [_ Q2].
      destruct (varint_enc_inj _ _ _ _ B3 B3' Q2) as [_ Q3].
      destruct (app_inj_len (32%N :: pure_hash H 0 l) (32%N :: pure_hash H 0 l') _ _
                  ltac:(cbn [length]; rewrite !ph_len; reflexivity) Q3) as [Ql Qr].
      injection Ql as Ql. injection Qr as Qr.
      cbn [wf] in Wx, Wy.
      destruct (IHl l' Pl Pl' Bl Bl' ltac:(tauto) ltac:(tauto) Ql) as [[Ml Cl]|C]; [|right; exact C].
      destruct (IHr r' Pr Pr' Br Br' ltac:(tauto) ltac:(tauto) Qr) as [[Mr Cr]|C]; [|right; exact C].
      left. cbn [min_key ncount]. split; [exact Ml|lia].
  Qed.

  (** the iterator's hash of a persisted, hash-consistent node is its structural hash *)
  Lemma fhash_pure u : hash_ok H u -> all_persisted u -> fhash H u = pure_hash H 0 u.
  Proof.
    intros Ho Pa. destruct u as [k v m|k h s m l r]; cbn [fhash].
    - cbn [pure_hash all_persisted] in *. rewrite (eff_ver_old 0 m Pa). reflexivity.
    - apply (hash_ok_root H _ Ho). cbn [all_persisted nmeta] in *. tauto.
  Qed.

  Lemma fhash_stored u : hash_ok H u -> all_persisted u -> fhash H u = hs (nmeta u).
  Proof.
    intros Ho Pa. rewrite (fhash_pure u Ho Pa). symmetry.
    apply (hash_ok_root H _ Ho), all_persisted_root, Pa.
  Qed.

  Theorem confusion_collision t u c :
    wf t -> hash_ok H t -> all_persisted t -> tbounds t ->
    subtree u t -> subtree c t -> u <> c -> fhash H u = fhash H c -> collision H.
  Proof.
    intros W Ho Pa B Su Sc N E.
    rewrite (fhash_pure u (hash_ok_subtree H u t Su Ho) (all_persisted_subtree u t Su Pa)) in E.
    rewrite (fhash_pure c (hash_ok_subtree H c t Sc Ho) (all_persisted_subtree c t Sc Pa)) in E.
    destruct (hash_shape u c (all_persisted_subtree u t Su Pa) (all_persisted_subtree c t Sc Pa)
                (tbounds_subtree u t Su B) (tbounds_subtree c t Sc B)
                (wf_subtree u t Su W) (wf_subtree c t Sc W) E) as [[M C]|Col]; [|exact Col].
    exfalso. destruct (subtree_cases t u c W Su Sc) as [S|[S|[S|S]]].
    - pose proof (proper_subtree_count u c S N). lia.
    - pose proof (proper_subtree_count c u S (fun Q => N (eq_sym Q))). lia.
    - destruct S as (k & A & B'). apply min_key_all in A, B'. cbv beta in A, B'. rewrite M in A. border.
    - destruct S as (k & A & B'). apply min_key_all in A, B'. cbv beta in A, B'. rewrite M in B'. border.
  Qed.
End Sep.

(** ** Deciding whether a forest has look-alike nodes *)
Definition confusion (H : bytes -> bytes) (f : forest_t) : Prop :=
  exists w t u c, In (w, Some t) f /\ subtree u t /\ subtree c t /\ u <> c /\ fhash H u = fhash H c.

Lemma FE_dec {A} (P Q : A -> Prop) :
  (forall x, {P x} + {Q x}) -> forall l, {Forall P l} + {Exists Q l}.
Proof.
  intros D. induction l as [|a l IH]; [left; constructor|].
  destruct (D a) as [Pa|Qa]; [|right; left; exact Qa].
  destruct IH as [F|E]; [left; constructor; assumption|right; right; exact E].
Qed.

Lemma confusion_dec H f : no_confusion H f \/ confusion H f.
Proof.
  set (good2 := fun (u c : node) => u = c \/ fhash H u <> fhash H c).
  set (bad2 := fun (u c : node) => u <> c /\ fhash H u = fhash H c).
  assert (D2 : forall u c, {good2 u c} + {bad2 u c}).
  { intros u c. unfold good2, bad2. destruct (node_eq_dec u c) as [E|N]; [left; auto|].
    destruct (bytes_eq_dec (fhash H u) (fhash H c)); [right|left]; auto. }
  set (goodt := fun (p : Z * option node) =>
         match snd p with
         | None => True
         | Some t => Forall (fun u => Forall (good2 u) (pre t)) (pre t)
         end).
  set (badt := fun (p : Z * option node) =>
         match snd p with
         | None => False
         | Some t => Exists (fun u => Exists (bad2 u) (pre t)) (pre t)
         end).
  assert (Dt : forall p, {goodt p} + {badt p}).
  { intros [w [t|]]; unfold goodt, badt; cbn [snd]; [|left; exact I].
    apply FE_dec. intros u. apply FE_dec. intros c. apply D2. }
  destruct (FE_dec goodt badt Dt f) as [G|B].
  - left. intros w t u c I Su Sc E. rewrite Forall_forall in G. specialize (G _ I).
    unfold goodt in G. cbn [snd] in G. rewrite Forall_forall in G.
    specialize (G u (proj2 (pre_In t u) Su)). rewrite Forall_forall in G.
    destruct (G c (proj2 (pre_In t c) Sc)) as [Q|Q]; [exact Q|contradiction].
  - right. apply Exists_exists in B. destruct B as ([w [t|]] & I & B); unfold badt in B; cbn [snd] in B;
      [|contradiction].
    apply Exists_exists in B. destruct B as (u & Iu & B).
    apply Exists_exists in B. destruct B as (c & Ic & N & E).
    exists w, t, u, c. repeat split; auto; apply pre_In; assumption.
Qed.
