(** Byte strings as lists of [N] (< 256) with Go's [bytes.Compare] order. *)
From Coq Require Export List NArith ZArith Bool Lia.
From Coq Require Import Orders OrdersTac.
Export ListNotations.

Definition byte := N.
Definition bytes := list N.

Fixpoint bcmp (a b : bytes) : comparison :=
  match a, b with
  | [], [] => Eq
  | [], _ :: _ => Lt
  | _ :: _, [] => Gt
  | x :: a', y :: b' =>
      match N.compare x y with
      | Eq => bcmp a' b'
      | c => c
      end
  end.

Definition blt (a b : bytes) : bool := match bcmp a b with Lt => true | _ => false end.
Definition beq (a b : bytes) : bool := match bcmp a b with Eq => true | _ => false end.
Definition ble (a b : bytes) : bool := match bcmp a b with Gt => false | _ => true end.

Definition well_formed (a : bytes) : Prop := Forall (fun x => (x < 256)%N) a.

Fixpoint is_prefix (p k : bytes) : bool :=
  match p, k with
  | [], _ => true
  | _ :: _, [] => false
  | x :: p', y :: k' => N.eqb x y && is_prefix p' k'
  end.

Lemma bcmp_refl a : bcmp a a = Eq.
Proof. induction a as [|x a IH]; simpl; [reflexivity|]. rewrite N.compare_refl. exact IH. Qed.

Lemma bcmp_eq a b : bcmp a b = Eq -> a = b.
Proof.
  revert b; induction a as [|x a IH]; intros [|y b]; simpl; try discriminate; [reflexivity|].
  destruct (N.compare_spec x y) as [E|L|G]; try discriminate.
  intros H. subst. f_equal. apply IH, H.
Qed.

Lemma bcmp_antisym a b : bcmp b a = CompOpp (bcmp a b).
Proof.
  revert b; induction a as [|x a IH]; intros [|y b]; simpl; try reflexivity.
  rewrite (N.compare_antisym x y).
  destruct (N.compare x y); simpl; auto.
Qed.

Lemma bcmp_lt_trans a b c : bcmp a b = Lt -> bcmp b c = Lt -> bcmp a c = Lt.
Proof.
  revert b c; induction a as [|x a IH]; intros [|y b] [|z c]; simpl; try discriminate; try reflexivity.
  destruct (N.compare_spec x y) as [E|L|G]; try discriminate;
  destruct (N.compare_spec y z) as [E'|L'|G']; try discriminate; intros H1 H2; subst.
  - rewrite N.compare_refl. eapply IH; eauto.
  - apply N.compare_lt_iff in L'. rewrite L'. reflexivity.
  - apply N.compare_lt_iff in L. rewrite L. reflexivity.
  - assert (x < z)%N as L2 by lia. apply N.compare_lt_iff in L2. rewrite L2. reflexivity.
Qed.

Module BytesO.
  Definition t := bytes.
  Definition eq := @Logic.eq bytes.
  Definition lt (a b : bytes) : Prop := match bcmp a b with Lt => True | _ => False end.
  Definition le (a b : bytes) : Prop := match bcmp a b with Gt => False | _ => True end.
  Definition eq_equiv : Equivalence eq := eq_equivalence.
  Lemma lt_iff a b : lt a b <-> bcmp a b = Lt.
  Proof. unfold lt. destruct (bcmp a b); split; intros; try congruence; try contradiction; auto. Qed.
  Lemma lt_strorder : StrictOrder lt.
  Proof.
    split.
    - intros a H. apply lt_iff in H. rewrite bcmp_refl in H. discriminate.
    - intros a b c H1 H2. apply lt_iff. apply lt_iff in H1, H2. eapply bcmp_lt_trans; eauto.
  Qed.
  Lemma lt_compat : Proper (eq ==> eq ==> iff) lt.
  Proof. intros a a' Ha b b' Hb. unfold eq in *. subst. reflexivity. Qed.
  Lemma le_lteq : forall x y, le x y <-> lt x y \/ eq x y.
  Proof.
    intros x y. unfold le, lt, eq. destruct (bcmp x y) eqn:E; split; intros H; auto.
    - right. apply bcmp_eq, E.
    - destruct H as [H|H]; [contradiction|]. subst. rewrite bcmp_refl in E. discriminate.
  Qed.
  Lemma lt_total : forall x y, lt x y \/ eq x y \/ lt y x.
  Proof.
    intros x y. unfold lt, eq. rewrite (bcmp_antisym x y). destruct (bcmp x y) eqn:E; simpl; auto.
    right; left. apply bcmp_eq, E.
  Qed.
End BytesO.

Module BO := !MakeOrderTac BytesO BytesO.

Notation "a <b b" := (BytesO.lt a b) (at level 70).
Notation "a <=b b" := (BytesO.le a b) (at level 70).

(** [border]: the stdlib [order] tactic on byte strings, after folding Leibniz
    equalities on [bytes] into the module's [eq]. *)
Ltac border_prep :=
  repeat match goal with
  | H : @Logic.eq ?T ?a ?b |- _ =>
      unify T bytes; change (BytesO.eq a b) in H
  | H : ~ @Logic.eq ?T ?a ?b |- _ =>
      unify T bytes; change (~ BytesO.eq a b) in H
  | |- @Logic.eq ?T ?a ?b => unify T bytes; change (BytesO.eq a b)
  | |- ~ @Logic.eq ?T ?a ?b => unify T bytes; change (~ BytesO.eq a b)
  end.
Ltac border := cbv beta in *; border_prep; BO.order.

Lemma bcmp_Lt a b : bcmp a b = Lt <-> a <b b.
Proof. symmetry. apply BytesO.lt_iff. Qed.
Lemma bcmp_Gt a b : bcmp a b = Gt <-> b <b a.
Proof. rewrite BytesO.lt_iff. rewrite (bcmp_antisym a b). destruct (bcmp a b); simpl; split; congruence. Qed.
Lemma bcmp_Eq a b : bcmp a b = Eq <-> a = b.
Proof. split; [apply bcmp_eq | intros; subst; apply bcmp_refl]. Qed.

(** Case analysis on a three-way comparison, leaving Prop facts in context. *)
Ltac bcases a b :=
  let E := fresh "E" in
  destruct (bcmp a b) eqn:E;
  [ apply bcmp_Eq in E | apply bcmp_Lt in E | apply bcmp_Gt in E ].



(** Reflection lemmas: boolean tests to the Prop order. *)
Ltac brefl_tac :=
  split; intros; try congruence; try reflexivity; subst;
  first [ timeout 5 border | exfalso; timeout 5 border ].
Lemma blt_true a b : blt a b = true <-> a <b b.
Proof. unfold blt. bcases a b; brefl_tac. Qed.
Lemma blt_false a b : blt a b = false <-> b <=b a.
Proof. unfold blt. bcases a b; brefl_tac. Qed.
Lemma beq_true a b : beq a b = true <-> a = b.
Proof. unfold beq. bcases a b; brefl_tac. Qed.
Lemma beq_false a b : beq a b = false <-> a <> b.
Proof. rewrite <- beq_true. destruct (beq a b); split; congruence. Qed.
Lemma ble_true a b : ble a b = true <-> a <=b b.
Proof. unfold ble. bcases a b; brefl_tac. Qed.
Lemma ble_false a b : ble a b = false <-> b <b a.
Proof. unfold ble. bcases a b; brefl_tac. Qed.

Ltac btests :=
  repeat match goal with
  | H : blt _ _ = true |- _ => apply blt_true in H
  | H : blt _ _ = false |- _ => apply blt_false in H
  | H : beq _ _ = true |- _ => apply beq_true in H
  | H : beq _ _ = false |- _ => apply beq_false in H
  | H : ble _ _ = true |- _ => apply ble_true in H
  | H : ble _ _ = false |- _ => apply ble_false in H
  end.
