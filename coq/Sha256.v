(** Executable SHA-256 over [N]; exists only so that the model can be *run*.
    Nothing is proved about it; a bug here shows up as a hash mismatch against
    Go's crypto/sha256 in the correspondence check. *)
From IAVL Require Import Bytes.
Local Open Scope N_scope.

Definition w32 (x : N) : N := N.land x 4294967295.
Definition add32 (a b : N) : N := w32 (a + b).
Definition rotr (n x : N) : N := N.lor (N.shiftr x n) (w32 (N.shiftl x (32 - n))).
Definition shr (n x : N) : N := N.shiftr x n.
Definition not32 (x : N) : N := N.lxor x 4294967295.

Definition ch x y z := N.lxor (N.land x y) (N.land (not32 x) z).
Definition maj x y z := N.lxor (N.lxor (N.land x y) (N.land x z)) (N.land y z).
Definition bsig0 x := N.lxor (N.lxor (rotr 2 x) (rotr 13 x)) (rotr 22 x).
Definition bsig1 x := N.lxor (N.lxor (rotr 6 x) (rotr 11 x)) (rotr 25 x).
Definition ssig0 x := N.lxor (N.lxor (rotr 7 x) (rotr 18 x)) (shr 3 x).
Definition ssig1 x := N.lxor (N.lxor (rotr 17 x) (rotr 19 x)) (shr 10 x).

Definition K256 : list N :=
 [1116352408; 1899447441; 3049323471; 3921009573; 961987163; 1508970993; 2453635748; 2870763221;
  3624381080; 310598401; 607225278; 1426881987; 1925078388; 2162078206; 2614888103; 3248222580;
  3835390401; 4022224774; 264347078; 604807628; 770255983; 1249150122; 1555081692; 1996064986;
  2554220882; 2821834349; 2952996808; 3210313671; 3336571891; 3584528711; 113926993; 338241895;
  666307205; 773529912; 1294757372; 1396182291; 1695183700; 1986661051; 2177026350; 2456956037;
  2730485921; 2820302411; 3259730800; 3345764771; 3516065817; 3600352804; 4094571909; 275423344;
  430227734; 506948616; 659060556; 883997877; 958139571; 1322822218; 1537002063; 1747873779;
  1955562222; 2024104815; 2227730452; 2361852424; 2428436474; 2756734187; 3204031479; 3329325298].

Definition H0 : list N :=
 [1779033703; 3144134277; 1013904242; 2773480762; 1359893119; 2600822924; 528734635; 1541459225].

(* big-endian 32-bit words from bytes (length multiple of 4) *)
Fixpoint words_of (b : bytes) : list N :=
  match b with
  | a :: b1 :: c :: d :: rest => (((a * 256 + b1) * 256 + c) * 256 + d) :: words_of rest
  | _ => []
  end.

Definition bytes_of_word (w : N) : bytes :=
  [N.shiftr w 24 mod 256; N.shiftr w 16 mod 256; N.shiftr w 8 mod 256; w mod 256].

(* message schedule: keep a window of the last 16 words, newest first *)
Fixpoint schedule (n : nat) (win : list N) (acc : list N) : list N :=
  match n with
  | O => rev acc
  | S n' =>
      match win with
      | w1 :: w2 :: w3 :: w4 :: w5 :: w6 :: w7 :: w8 :: w9 :: w10 :: w11 :: w12 :: w13 :: w14 :: w15 :: w16 :: _ =>
          let w := add32 (add32 (ssig1 w2) w7) (add32 (ssig0 w15) w16) in
          schedule n' (w :: firstn 15 win) (w :: acc)
      | _ => rev acc
      end
  end.

Definition expand (blk : list N) : list N := blk ++ schedule 48 (rev blk) [].

Definition round (st : list N) (kw : N * N) : list N :=
  match st with
  | [a; b; c; d; e; f; g; h] =>
      let t1 := add32 (add32 (add32 h (bsig1 e)) (add32 (ch e f g) (fst kw))) (snd kw) in
      let t2 := add32 (bsig0 a) (maj a b c) in
      [add32 t1 t2; a; b; c; add32 d t1; e; f; g]
  | _ => st
  end.

Definition compress (st : list N) (blk : list N) : list N :=
  let st' := fold_left round (combine K256 (expand blk)) st in
  map (fun p => add32 (fst p) (snd p)) (combine st st').

Fixpoint chunks16 (fuel : nat) (ws : list N) : list (list N) :=
  match fuel with
  | O => []
  | S f => match ws with [] => [] | _ => firstn 16 ws :: chunks16 f (skipn 16 ws) end
  end.

Definition pad (msg : bytes) : bytes :=
  let len := N.of_nat (length msg) in
  let k := N.to_nat ((119 - (len mod 64)) mod 64) in
  let bitlen := len * 8 in
  msg ++ [128] ++ repeat 0 k ++
  [0;0;0;0] ++ (* high 32 bits of a 64-bit length: messages here are < 2^29 bytes *)
  bytes_of_word (w32 bitlen).

Definition sha256 (msg : bytes) : bytes :=
  let ws := words_of (pad msg) in
  let blocks := chunks16 (S (length ws / 16)) ws in
  flat_map bytes_of_word (fold_left compress blocks H0).
