(** M1: the IAVL+ node algebra, transcribed from node.go / mutable_tree.go.
    Nodes are immutable values; a node with [ver = 0] is *new* (Go: nodeKey == nil). *)
From IAVL Require Import Bytes Varint.
Local Open Scope Z_scope.

Record meta := Meta { ver : Z; nonce : Z; hs : bytes }.
Definition new_meta : meta := Meta 0 0 [].

Inductive node :=
| Leaf (k v : bytes) (m : meta)
| Inner (k : bytes) (h s : Z) (m : meta) (l r : node).

Definition height (t : node) : Z := match t with Leaf _ _ _ => 0 | Inner _ h _ _ _ _ => h end.
Definition size (t : node) : Z := match t with Leaf _ _ _ => 1 | Inner _ _ s _ _ _ => s end.
Definition nmeta (t : node) : meta := match t with Leaf _ _ m => m | Inner _ _ _ m _ _ => m end.
Definition nkey (t : node) : bytes := match t with Leaf k _ _ => k | Inner k _ _ _ _ _ => k end.
Definition is_new (t : node) : bool := ver (nmeta t) =? 0.

(** A fresh inner node: Go's clone (nodeKey = nil, hash = nil) followed by calcHeightAndSize. *)
Definition mk (k : bytes) (l r : node) : node :=
  Inner k (Z.max (height l) (height r) + 1) (size l + size r) new_meta l r.

(** rotateRight / rotateLeft.  Go returns ErrCloneLeafNode when the pivot child is a
    leaf; that branch is unreachable from [balance] (see TreeFacts.rot_defined) and is
    the identity here. *)
Definition rotR (t : node) : node :=
  match t with
  | Inner k _ _ _ (Inner lk _ _ _ ll lr) r => mk lk ll (mk k lr r)
  | _ => t
  end.
Definition rotL (t : node) : node :=
  match t with
  | Inner k _ _ _ l (Inner rk _ _ _ rl rr) => mk rk (mk k l rl) rr
  | _ => t
  end.

Definition bal_of (t : node) : Z :=
  match t with Inner _ _ _ _ l r => height l - height r | Leaf _ _ _ => 0 end.

Definition balance (t : node) : node :=
  match t with
  | Inner k h s m l r =>
      if 1 <? height l - height r then
        (if 0 <=? bal_of l then rotR t else rotR (Inner k h s m (rotL l) r))
      else if height l - height r <? -1 then
        (if bal_of r <=? 0 then rotL t else rotL (Inner k h s m l (rotR r)))
      else t
  | Leaf _ _ _ => t
  end.

(** recursiveSet: returns the new subtree and whether an existing key was updated. *)
Fixpoint set (t : node) (k v : bytes) : node * bool :=
  match t with
  | Leaf lk lv _ =>
      match bcmp k lk with
      | Lt => (Inner lk 1 2 new_meta (Leaf k v new_meta) t, false)
      | Gt => (Inner k 1 2 new_meta t (Leaf k v new_meta), false)
      | Eq => (Leaf k v new_meta, true)
      end
  | Inner nk h s _ l r =>
      if blt k nk then
        let (l', upd) := set l k v in
        if upd then (Inner nk h s new_meta l' r, true) else (balance (mk nk l' r), false)
      else
        let (r', upd) := set r k v in
        if upd then (Inner nk h s new_meta l r', true) else (balance (mk nk l r'), false)
  end.

(** recursiveRemove: (newSelf, newKey, removed value).  [None] for the value means
    "not removed" (then newSelf is irrelevant, as in MutableTree.Remove). *)
Record rm_res := RmRes { rm_self : option node; rm_key : option bytes; rm_val : option bytes }.

Fixpoint remove (t : node) (k : bytes) : rm_res :=
  match t with
  | Leaf lk lv _ =>
      if beq k lk then RmRes None None (Some lv) else RmRes (Some t) None None
  | Inner nk h s _ l r =>
      if blt k nk then
        let res := remove l k in
        match rm_val res with
        | None => RmRes (Some t) None None
        | Some val =>
            match rm_self res with
            | None => RmRes (Some r) (Some nk) (Some val)
            | Some l' => RmRes (Some (balance (mk nk l' r))) (rm_key res) (Some val)
            end
        end
      else
        let res := remove r k in
        match rm_val res with
        | None => RmRes (Some t) None None
        | Some val =>
            match rm_self res with
            | None => RmRes (Some l) None (Some val)
            | Some r' =>
                let nk' := match rm_key res with Some k' => k' | None => nk end in
                RmRes (Some (balance (mk nk' l r'))) None (Some val)
            end
        end
  end.

(** Node.get: (index, value) *)
Fixpoint get (t : node) (k : bytes) : Z * option bytes :=
  match t with
  | Leaf lk lv _ =>
      match bcmp lk k with
      | Lt => (1, None)
      | Gt => (0, None)
      | Eq => (0, Some lv)
      end
  | Inner nk _ s _ l r =>
      if blt k nk then get l k
      else let (i, v) := get r k in (i + (s - size r), v)
  end.

(** Node.has: note the early [true] on a matching inner (routing) key. *)
Fixpoint has (t : node) (k : bytes) : bool :=
  if beq (nkey t) k then true else
  match t with
  | Leaf _ _ _ => false
  | Inner nk _ _ _ l r => if blt k nk then has l k else has r k
  end.

Fixpoint get_by_index (t : node) (i : Z) : option (bytes * bytes) :=
  match t with
  | Leaf k v _ => if i =? 0 then Some (k, v) else None
  | Inner _ _ _ _ l r =>
      if i <? size l then get_by_index l i else get_by_index r (i - size l)
  end.

(** In-order leaves. *)
Fixpoint elems (t : node) : list (bytes * bytes) :=
  match t with
  | Leaf k v _ => [(k, v)]
  | Inner _ _ _ _ l r => elems l ++ elems r
  end.

Definition oelems (t : option node) : list (bytes * bytes) :=
  match t with None => [] | Some n => elems n end.

(** Range selection on a sorted association list: the iterator specification. *)
Definition in_range (start stop : option bytes) (incl : bool) (k : bytes) : bool :=
  (match start with None => true | Some s => ble s k end) &&
  (match stop with None => true | Some e => if incl then ble k e else blt k e end).

Definition range_spec (l : list (bytes * bytes)) (start stop : option bytes) (incl asc : bool)
  : list (bytes * bytes) :=
  let sel := filter (fun p => in_range start stop incl (fst p)) l in
  if asc then sel else rev sel.

(** ** Hashing (node.go: writeHashBytes / _hash), parameterised by the hash function. *)
Section Hashing.
  Variable H : bytes -> bytes.

  Definition eff_ver (wv : Z) (m : meta) : Z := if ver m =? 0 then wv else ver m.

  Definition leaf_preimage (version : Z) (k v : bytes) : bytes :=
    varint_enc 0 ++ varint_enc 1 ++ varint_enc version ++ bytes_enc k ++ (32%N :: H v).
  Definition inner_preimage (h s version : Z) (lh rh : bytes) : bytes :=
    varint_enc h ++ varint_enc s ++ varint_enc version ++ (32%N :: lh) ++ (32%N :: rh).

  (** Structural hash: every node hashed with its own version (new nodes with [wv]). *)
  Fixpoint pure_hash (wv : Z) (t : node) : bytes :=
    match t with
    | Leaf k v m => H (leaf_preimage (eff_ver wv m) k v)
    | Inner _ h s m l r =>
        H (inner_preimage h s (eff_ver wv m) (pure_hash wv l) (pure_hash wv r))
    end.

  (** Hash honouring the hash stored in persisted nodes (cheap; equal to [pure_hash]
      on hash-consistent trees, TreeFacts.node_hash_pure). *)
  Fixpoint node_hash (wv : Z) (t : node) : bytes :=
    if negb (is_new t) then hs (nmeta t) else
    match t with
    | Leaf k v m => H (leaf_preimage wv k v)
    | Inner _ h s m l r => H (inner_preimage h s wv (node_hash wv l) (node_hash wv r))
    end.

  Definition empty_hash : bytes := H [].
  Definition root_hash (wv : Z) (t : option node) : bytes :=
    match t with None => empty_hash | Some n => node_hash wv n end.

  (** saveNewNodes: pre-order nonce assignment, version stamp, hash of the new nodes.
      Returns the persisted tree and the last nonce used. *)
  Fixpoint stamp (wv : Z) (n : Z) (t : node) : node * Z :=
    if negb (is_new t) then (t, n) else
    match t with
    | Leaf k v _ => (Leaf k v (Meta wv (n + 1) (H (leaf_preimage wv k v))), n + 1)
    | Inner k h s _ l r =>
        let (l', n1) := stamp wv (n + 1) l in
        let (r', n2) := stamp wv n1 r in
        (Inner k h s (Meta wv (n + 1)
            (H (inner_preimage h s wv (hs (nmeta l')) (hs (nmeta r'))))) l' r', n2)
    end.
End Hashing.
