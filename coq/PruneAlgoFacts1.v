(** PruneAlgoFacts1: tree combinatorics behind the double traversal of deleteVersion.

    Two well-formed (BST) trees [A] and [B]; the MAXIMAL COMMON SUBTREES listed in the pre-order
    of [A] and listed in the pre-order of [B] are the same list ([mx_common]).  This is why the
    candidates produced by the iterator over the current tree meet the shared nodes of the
    previous tree in the same order. *)
From Coq Require Import Lia Sorted.
From IAVL Require Import Bytes Varint Tree VMap TreeFacts MTree MTreeFacts HashFacts VersionFacts
  Store StoreFacts.
Local Open Scope Z_scope.

(** ** Decidable equality of nodes, decidable subtree relation *)
Lemma bytes_eq_dec (a b : bytes) : {a = b} + {a <> b}.
Proof. apply list_eq_dec, N.eq_dec. Qed.

Lemma meta_eq_dec (a b : meta) : {a = b} + {a <> b}.
Proof. decide equality; [apply bytes_eq_dec|apply Z.eq_dec|apply Z.eq_dec]. Qed.

Lemma node_eq_dec (a b : node) : {a = b} + {a <> b}.
Proof.
  decide equality; try apply meta_eq_dec; try apply bytes_eq_dec; try apply Z.eq_dec.
Qed.

Lemma subtree_dec u t : {subtree u t} + {~ subtree u t}.
Proof.
  induction t as [k v m|k h s m l IHl r IHr].
  - destruct (node_eq_dec u (Leaf k v m)) as [E|N].
    + left. subst. apply sub_refl.
    + right. intros S. apply sub_leaf in S. contradiction.
  - destruct (node_eq_dec u (Inner k h s m l r)) as [E|N].
    + left. subst. apply sub_refl.
    + destruct IHl as [Sl|Nl]; [left; apply sub_left, Sl|].
      destruct IHr as [Sr|Nr]; [left; apply sub_right, Sr|].
      right. intros S. apply sub_inv in S. destruct S as [E|[S|S]]; contradiction.
Qed.

Definition insub (t : option node) (u : node) : bool :=
  match t with
  | None => false
  | Some t => if subtree_dec u t then true else false
  end.

Lemma insub_true t u : insub t u = true <-> exists t0, t = Some t0 /\ subtree u t0.
Proof.
  unfold insub. destruct t as [t|].
  - destruct (subtree_dec u t) as [S|N]; split; try discriminate; eauto.
    intros (t0 & E & S). inversion E; subst. contradiction.
  - split; [discriminate|]. intros (t0 & E & _). discriminate.
Qed.

(** ** Subtrees of a well-formed tree *)
Lemma wf_subtree u t : subtree u t -> wf t -> wf u.
Proof.
  induction 1 as [t|u k h s m l r _ IH|u k h s m l r _ IH]; intros W; [exact W| |];
    cbn [wf] in W; apply IH; tauto.
Qed.

Lemma keys_all_subtree P u t : subtree u t -> keys_all P t -> keys_all P u.
Proof.
  induction 1 as [t|u k h s m l r _ IH|u k h s m l r _ IH]; intros K; [exact K| |];
    cbn [keys_all] in K; apply IH; tauto.
Qed.

(** number of nodes *)
Fixpoint ncount (t : node) : nat :=
  match t with Leaf _ _ _ => 1 | Inner _ _ _ _ l r => S (ncount l + ncount r) end.

Lemma ncount_pos t : (1 <= ncount t)%nat.
Proof. destruct t; cbn [ncount]; lia. Qed.

Lemma subtree_ncount u t : subtree u t -> (ncount u <= ncount t)%nat.
Proof.
  induction 1 as [t|u k h s m l r _ IH|u k h s m l r _ IH]; cbn [ncount]; lia.
Qed.

Lemma subtree_antisym a b : subtree a b -> subtree b a -> a = b.
Proof.
  intros S1 S2. apply sub_inv in S1. destruct S1 as [E|S1]; [exact E|].
  destruct b as [k v m|k h s m l r]; [contradiction|].
  exfalso. pose proof (subtree_ncount _ _ S2) as L. cbn [ncount] in L.
  destruct S1 as [S1|S1]; apply subtree_ncount in S1; lia.
Qed.

(** a subtree cannot sit on both sides of an inner node of a BST *)
Lemma wf_sides_disjoint k h s m l r x :
  wf (Inner k h s m l r) -> subtree x l -> subtree x r -> False.
Proof.
  intros W Sl Sr. cbn [wf] in W. destruct W as (_ & _ & Kl & Kr & _).
  pose proof (min_key_all _ _ (keys_all_subtree _ _ _ Sl Kl)) as A.
  pose proof (min_key_all _ _ (keys_all_subtree _ _ _ Sr Kr)) as B.
  cbv beta in A, B. border.
Qed.

(** separation of two subtrees by a routing key *)
Definition sep (x y : node) : Prop :=
  exists k, keys_all (fun a => a <b k) x /\ keys_all (fun a => k <=b a) y.

Lemma sep_irrefl x : ~ sep x x.
Proof.
  intros (k & A & B). apply min_key_all in A. apply min_key_all in B. cbv beta in A, B. border.
Qed.

Lemma sep_asym x y : sep x y -> sep y x -> False.
Proof.
  intros (k & A & B) (k' & A' & B').
  apply min_key_all in A, B, A', B'. cbv beta in A, B, A', B'. border.
Qed.

(** ** Lists sorted by a strict relation are determined by their elements *)
Lemma sorted_same_elements {A} (R : A -> A -> Prop) :
  (forall x, ~ R x x) -> (forall x y, R x y -> R y x -> False) ->
  forall l1 l2, StronglySorted R l1 -> StronglySorted R l2 ->
                (forall x, In x l1 <-> In x l2) -> l1 = l2.
Proof.
  intros Irr Asym. induction l1 as [|a l1 IH]; intros l2 S1 S2 E.
  - destruct l2 as [|b l2]; [reflexivity|]. exfalso. apply (E b). left. reflexivity.
  - destruct l2 as [|b l2]; [exfalso; apply (E a); left; reflexivity|].
    apply StronglySorted_inv in S1. destruct S1 as [S1 F1].
    apply StronglySorted_inv in S2. destruct S2 as [S2 F2].
    rewrite Forall_forall in F1, F2.
    assert (Eab : a = b).
    { destruct (proj1 (E a) (or_introl eq_refl)) as [Q|Ia]; [auto|].
      destruct (proj2 (E b) (or_introl eq_refl)) as [Q|Ib]; [auto|].
      exfalso. exact (Asym a b (F1 b Ib) (F2 a Ia)). }
    subst b. f_equal. apply IH; auto.
    intros x. split; intros Ix.
    + destruct (proj1 (E x) (or_intror Ix)) as [Q|I2]; [|exact I2].
      subst x. exfalso. exact (Irr a (F1 a Ix)).
    + destruct (proj2 (E x) (or_intror Ix)) as [Q|I1]; [|exact I1].
      subst x. exfalso. exact (Irr a (F2 a Ix)).
Qed.

Lemma StronglySorted_app {A} (R : A -> A -> Prop) l1 l2 :
  StronglySorted R l1 -> StronglySorted R l2 ->
  (forall x y, In x l1 -> In y l2 -> R x y) -> StronglySorted R (l1 ++ l2).
Proof.
  induction l1 as [|a l1 IH]; intros S1 S2 C; [exact S2|].
  apply StronglySorted_inv in S1. destruct S1 as [S1 F1]. cbn [app]. constructor.
  - apply IH; auto. intros x y Ix Iy. apply C; [right; exact Ix|exact Iy].
  - apply Forall_app. split; [exact F1|]. apply Forall_forall. intros y Iy.
    apply C; [left; reflexivity|exact Iy].
Qed.

(** ** Maximal subtrees satisfying a test, in pre-order *)
Fixpoint mx (P : node -> bool) (t : node) : list node :=
  if P t then [t] else
  match t with
  | Leaf _ _ _ => []
  | Inner _ _ _ _ l r => mx P l ++ mx P r
  end.

Lemma mx_hit P t : P t = true -> mx P t = [t].
Proof. intros E. destruct t; cbn [mx]; rewrite E; reflexivity. Qed.

Lemma mx_miss_leaf P k v m : P (Leaf k v m) = false -> mx P (Leaf k v m) = [].
Proof. intros E. cbn [mx]. rewrite E. reflexivity. Qed.

Lemma mx_miss_inner P k h s m l r :
  P (Inner k h s m l r) = false -> mx P (Inner k h s m l r) = mx P l ++ mx P r.
Proof. intros E. cbn [mx]. rewrite E. reflexivity. Qed.

Lemma mx_sub P t x : In x (mx P t) -> subtree x t /\ P x = true.
Proof.
  induction t as [k v m|k h s m l IHl r IHr]; cbn [mx].
  - destruct (P (Leaf k v m)) eqn:E; [|intros []]. intros [<-|[]]. split; [apply sub_refl|exact E].
  - destruct (P (Inner k h s m l r)) eqn:E.
    + intros [<-|[]]. split; [apply sub_refl|exact E].
    + intros I. apply in_app_or in I. destruct I as [I|I].
      * destruct (IHl I). split; [apply sub_left|]; assumption.
      * destruct (IHr I). split; [apply sub_right|]; assumption.
Qed.

(** membership: the subtrees satisfying [P] none of whose proper ancestors satisfies [P] *)
Lemma mx_In P t : wf t -> forall x,
  In x (mx P t) <->
  (subtree x t /\ P x = true /\
   forall y, subtree x y -> subtree y t -> y <> x -> P y = false).
Proof.
  induction t as [k v m|k h s m l IHl r IHr]; intros W x.
  - cbn [mx]. destruct (P (Leaf k v m)) eqn:E.
    + split.
      * intros [<-|[]]. split; [apply sub_refl|]. split; [exact E|].
        intros y S1 S2 N. apply sub_leaf in S2. congruence.
      * intros (S & _). apply sub_leaf in S. left. congruence.
    + split; [intros []|]. intros (S & Px & _). apply sub_leaf in S. congruence.
  - assert (Wl : wf l) by (cbn [wf] in W; tauto). assert (Wr : wf r) by (cbn [wf] in W; tauto).
    cbn [mx]. destruct (P (Inner k h s m l r)) eqn:E.
    + split.
      * intros [<-|[]]. split; [apply sub_refl|]. split; [exact E|].
        intros y S1 S2 N. exfalso. apply N. apply subtree_antisym; assumption.
      * intros (S & Px & Anc). left.
        destruct (node_eq_dec (Inner k h s m l r) x) as [Q|N]; [exact Q|].
        exfalso. specialize (Anc _ S (sub_refl _) N). congruence.
    + rewrite in_app_iff, (IHl Wl), (IHr Wr). split.
      * intros [(S & Px & Anc)|(S & Px & Anc)].
        -- split; [apply sub_left, S|]. split; [exact Px|].
           intros y S1 S2 N. apply sub_inv in S2. destruct S2 as [->|[S2|S2]].
           ++ exact E.
           ++ apply Anc; assumption.
           ++ exfalso. apply (wf_sides_disjoint _ _ _ _ _ _ x W S).
              exact (sub_trans _ _ _ S1 S2).
        -- split; [apply sub_right, S|]. split; [exact Px|].
           intros y S1 S2 N. apply sub_inv in S2. destruct S2 as [->|[S2|S2]].
           ++ exact E.
           ++ exfalso. apply (wf_sides_disjoint _ _ _ _ _ _ x W); [|exact S].
              exact (sub_trans _ _ _ S1 S2).
           ++ apply Anc; assumption.
      * intros (S & Px & Anc). apply sub_inv in S. destruct S as [->|[S|S]].
        -- congruence.
        -- left. split; [exact S|]. split; [exact Px|].
           intros y S1 S2 N. apply Anc; [exact S1|apply sub_left, S2|exact N].
        -- right. split; [exact S|]. split; [exact Px|].
           intros y S1 S2 N. apply Anc; [exact S1|apply sub_right, S2|exact N].
Qed.

Lemma mx_sorted P t : wf t -> StronglySorted sep (mx P t).
Proof.
  induction t as [k v m|k h s m l IHl r IHr]; intros W; cbn [mx].
  - destruct (P (Leaf k v m)); repeat constructor.
  - destruct (P (Inner k h s m l r)); [repeat constructor|].
    cbn [wf] in W. destruct W as (Wl & Wr & Kl & Kr & _).
    apply StronglySorted_app; auto.
    intros x y Ix Iy. apply mx_sub in Ix, Iy. exists k. split.
    + exact (keys_all_subtree _ _ _ (proj1 Ix) Kl).
    + exact (keys_all_subtree _ _ _ (proj1 Iy) Kr).
Qed.

(** THE ORDER LEMMA: the maximal common subtrees of two BSTs, listed along either tree *)
Theorem mx_common (PA PB : node -> bool) A B :
  wf A -> wf B ->
  (forall x, subtree x B -> (PA x = true <-> subtree x A)) ->
  (forall x, subtree x A -> (PB x = true <-> subtree x B)) ->
  mx PB A = mx PA B.
Proof.
  intros WA WB HA HB.
  apply (sorted_same_elements sep sep_irrefl sep_asym); try (apply mx_sorted; assumption).
  intros x. rewrite (mx_In PB A WA), (mx_In PA B WB). split.
  - intros (SA & Px & Anc). apply (HB x SA) in Px. split; [exact Px|]. split; [apply HA; assumption|].
    intros y S1 S2 N. destruct (PA y) eqn:E; [|reflexivity]. exfalso.
    apply (HA y S2) in E. specialize (Anc y S1 E N). apply (HB y E) in S2. congruence.
  - intros (SB & Px & Anc). apply (HA x SB) in Px. split; [exact Px|]. split; [apply HB; assumption|].
    intros y S1 S2 N. destruct (PB y) eqn:E; [|reflexivity]. exfalso.
    apply (HB y S2) in E. specialize (Anc y S1 E N). apply (HA y E) in S2. congruence.
Qed.

(** nothing in common *)
Lemma mx_none P t : (forall x, subtree x t -> P x = false) -> mx P t = [].
Proof.
  induction t as [k v m|k h s m l IHl r IHr]; intros F; cbn [mx];
    rewrite (F _ (sub_refl _)); [reflexivity|].
  rewrite IHl, IHr; [reflexivity| |]; intros x S; apply F; [apply sub_right|apply sub_left]; exact S.
Qed.

(** ** Pre-order lists of nodes *)
Fixpoint pre (t : node) : list node :=
  t :: match t with Leaf _ _ _ => [] | Inner _ _ _ _ l r => pre l ++ pre r end.

Lemma pre_In t u : In u (pre t) <-> subtree u t.
Proof.
  induction t as [k v m|k h s m l IHl r IHr]; cbn [pre In].
  - split.
    + intros [<-|[]]. apply sub_refl.
    + intros S. apply sub_leaf in S. left. congruence.
  - rewrite in_app_iff, IHl, IHr. split.
    + intros [<-|[S|S]]; [apply sub_refl|apply sub_left, S|apply sub_right, S].
    + intros S. apply sub_inv in S. destruct S as [->|[S|S]]; auto.
Qed.

Lemma pre_length t : length (pre t) = ncount t.
Proof.
  induction t as [k v m|k h s m l IHl r IHr]; cbn [pre ncount length]; [reflexivity|].
  rewrite app_length, IHl, IHr. reflexivity.
Qed.

Lemma nodes_of_pre t : nodes_of t = map (fun u => (node_key u, snode_of u)) (pre t).
Proof.
  induction t as [k v m|k h s m l IHl r IHr]; cbn [nodes_of pre map]; [reflexivity|].
  rewrite map_app, IHl, IHr. reflexivity.
Qed.

Lemma NoDup_app_intro {A} (l1 l2 : list A) :
  NoDup l1 -> NoDup l2 -> (forall x, In x l1 -> In x l2 -> False) -> NoDup (l1 ++ l2).
Proof.
  induction l1 as [|a l1 IH]; intros N1 N2 D; [exact N2|].
  inversion N1 as [|x xs NI N1']; subst. cbn [app]. constructor.
  - intros I. apply in_app_or in I. destruct I as [I|I]; [contradiction|].
    apply (D a); [left; reflexivity|exact I].
  - apply IH; auto. intros x I1 I2. apply (D x); [right; exact I1|exact I2].
Qed.

(** in a BST every subtree occurs at one position only *)
Lemma pre_NoDup t : wf t -> NoDup (pre t).
Proof.
  induction t as [k v m|k h s m l IHl r IHr]; intros W; cbn [pre].
  - constructor; [intros []|constructor].
  - assert (Wl : wf l) by (cbn [wf] in W; tauto). assert (Wr : wf r) by (cbn [wf] in W; tauto).
    constructor.
    + intros I. apply in_app_or in I. destruct I as [I|I]; apply pre_In, subtree_ncount in I;
        cbn [ncount] in I; lia.
    + apply NoDup_app_intro; auto.
      intros x Il Ir. apply pre_In in Il, Ir. exact (wf_sides_disjoint _ _ _ _ _ _ x W Il Ir).
Qed.
