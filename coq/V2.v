(** iavl/v2: executable model of the tree algebra (v2/tree.go, v2/node.go), of the TreeIterator
    (v2/iterator.go) and of the persistence layer (checkpoints + leaf changelog replay,
    pruning, snapshots; v2/tree.go LoadVersion, v2/sqlite.go replayChangelog,
    v2/sqlite_writer.go, v2/range.go, v2/snapshot.go, v2/export.go).

    The v2 code mutates nodes IN PLACE and assigns the node key at mutation time
    ([mutateNode]: nodeKey := (tree.version+1, seq), hash := nil); v1 clones and stamps at save
    time.  The model keeps the immutable [node] type of Tree.v and renders "mutate" as
    "rebuild the node with [ver := wv], [hs := []]" (stamp-at-mutate).

    Conventions.
    - [wv] is the working version [tree.version+1].
    - The [nonce] field holds the node-key sequence.  Leaves carry the leaf sequence
      ([nextLeafNodeKey], counted from 0 here instead of 1<<31); branch sequences are not
      modelled (0): nothing observable depends on them (hashes ignore sequences; the replay
      only checks leaf sequences).
    - [hs = []] is Go's [hash == nil].  Go hashes a leaf as soon as it is written; here every
      hash is (re)computed by [v2_deep_hash] / [v2_hash], which gives the same final hashes.
    - Go panics / error returns are [None]; loops carry explicit fuel. *)
From IAVL Require Import Bytes Varint Tree.
Local Open Scope Z_scope.

(** * 1. The tree algebra *)

(** meta of a node touched in working version [wv] (mutateNode / pool.Get + nextNodeKey) *)
Definition v2_meta (wv sq : Z) : meta := Meta wv sq [].

(** a mutated branch after [calcHeightAndSize] *)
Definition v2_node (wv : Z) (k : bytes) (l r : node) : node :=
  Inner k (Z.max (height l) (height r) + 1) (size l + size r) (v2_meta wv 0) l r.

(** rotateRight: mutates [node] and [node.left]; [node.left(tree)] / [newNode.right(tree)]
    panic ("leaf node has no left node") when the node resp. its left child is a leaf. *)
Definition v2_rotR (wv : Z) (t : node) : option node :=
  match t with
  | Inner k _ _ _ (Inner lk _ _ _ ll lr) r => Some (v2_node wv lk ll (v2_node wv k lr r))
  | _ => None
  end.
Definition v2_rotL (wv : Z) (t : node) : option node :=
  match t with
  | Inner k _ _ _ l (Inner rk _ _ _ rl rr) => Some (v2_node wv rk (v2_node wv k l rl) rr)
  | _ => None
  end.

(** Tree.balance (node.go).  Errors: "unexpected balance() call on persisted node"
    ([hash != nil]); calcBalance on a leaf.  In the double-rotation cases the node keeps its
    stale height/size between the two rotations, as in v1. *)
Definition v2_balance (wv : Z) (t : node) : option node :=
  match t with
  | Inner k h s m l r =>
      match hs m with
      | _ :: _ => None
      | [] =>
          if 1 <? height l - height r then
            (if 0 <=? bal_of l then v2_rotR wv t
             else match v2_rotL wv l with
                  | None => None
                  | Some l' => v2_rotR wv (Inner k h s m l' r)
                  end)
          else if height l - height r <? -1 then
            (if bal_of r <=? 0 then v2_rotL wv t
             else match v2_rotR wv r with
                  | None => None
                  | Some r' => v2_rotL wv (Inner k h s m l r')
                  end)
          else Some t
      end
  | Leaf _ _ _ => None
  end.

(** recursiveSet.  [sq] is the leaf sequence the written leaf receives. *)
Fixpoint v2_set (wv sq : Z) (t : node) (k v : bytes) : option (node * bool) :=
  match t with
  | Leaf lk lv _ =>
      match bcmp k lk with
      | Lt => Some (Inner lk 1 2 (v2_meta wv 0) (Leaf k v (v2_meta wv sq)) t, false)
      | Gt => Some (Inner k 1 2 (v2_meta wv 0) t (Leaf k v (v2_meta wv sq)), false)
      | Eq => Some (Leaf lk v (v2_meta wv sq), true)
      end
  | Inner nk h s _ l r =>
      if blt k nk then
        match v2_set wv sq l k v with
        | None => None
        | Some (l', upd) =>
            if upd then Some (Inner nk h s (v2_meta wv 0) l' r, true)
            else match v2_balance wv (v2_node wv nk l' r) with
                 | None => None
                 | Some t' => Some (t', false)
                 end
        end
      else
        match v2_set wv sq r k v with
        | None => None
        | Some (r', upd) =>
            if upd then Some (Inner nk h s (v2_meta wv 0) l r', true)
            else match v2_balance wv (v2_node wv nk l r') with
                 | None => None
                 | Some t' => Some (t', false)
                 end
        end
  end.

(** recursiveRemove, result as in Tree.remove ([rm_val = None]: not removed). *)
Fixpoint v2_remove (wv : Z) (t : node) (k : bytes) : option rm_res :=
  match t with
  | Leaf lk lv _ =>
      Some (if beq k lk then RmRes None None (Some lv) else RmRes (Some t) None None)
  | Inner nk h s _ l r =>
      if blt k nk then
        match v2_remove wv l k with
        | None => None
        | Some res =>
            match rm_val res with
            | None => Some (RmRes (Some t) None None)
            | Some val =>
                match rm_self res with
                | None => Some (RmRes (Some r) (Some nk) (Some val))
                | Some l' =>
                    match v2_balance wv (v2_node wv nk l' r) with
                    | None => None
                    | Some t' => Some (RmRes (Some t') (rm_key res) (Some val))
                    end
                end
            end
        end
      else
        match v2_remove wv r k with
        | None => None
        | Some res =>
            match rm_val res with
            | None => Some (RmRes (Some t) None None)
            | Some val =>
                match rm_self res with
                | None => Some (RmRes (Some l) None (Some val))
                | Some r' =>
                    let nk' := match rm_key res with Some k' => k' | None => nk end in
                    match v2_balance wv (v2_node wv nk' l r') with
                    | None => None
                    | Some t' => Some (RmRes (Some t') None (Some val))
                    end
                end
            end
        end
  end.

(** Tree.set / Tree.Remove on the root pointer ([None] root = empty tree). *)
Definition v2_root_set (wv sq : Z) (root : option node) (k v : bytes)
  : option (option node * bool) :=
  match root with
  | None => Some (Some (Leaf k v (v2_meta wv sq)), false)
  | Some n =>
      match v2_set wv sq n k v with
      | None => None
      | Some (n', upd) => Some (Some n', upd)
      end
  end.

(** returns the new root and the removed value ([None]: nothing removed, tree unchanged) *)
Definition v2_root_remove (wv : Z) (root : option node) (k : bytes)
  : option (option node * option bytes) :=
  match root with
  | None => Some (None, None)
  | Some n =>
      match v2_remove wv n k with
      | None => None
      | Some res =>
          match rm_val res with
          | None => Some (root, None)
          | Some val => Some (rm_self res, Some val)
          end
      end
  end.

(** ** Hashing (node.go: _hash / writeHashBytes; tree.go: computeHash / deepHash) *)
Section V2Hash.
  Variable H : bytes -> bytes.

  (** the hash from scratch: every node hashed with its own node-key version *)
  Fixpoint v2_hash (t : node) : bytes :=
    match t with
    | Leaf k v m => H (leaf_preimage H (ver m) k v)
    | Inner _ h s m l r => H (inner_preimage h s (ver m) (v2_hash l) (v2_hash r))
    end.

  Definition v2_root_hash (root : option node) : bytes :=
    match root with None => H [] | Some n => v2_hash n end.

  (** deepHash: hashes are recomputed exactly where [hash == nil], the recursion stops at a
      node that still has its hash. *)
  Fixpoint v2_deep_hash (t : node) : node :=
    match t with
    | Leaf k v m =>
        match hs m with
        | [] => Leaf k v (Meta (ver m) (nonce m) (H (leaf_preimage H (ver m) k v)))
        | _ :: _ => t
        end
    | Inner k h s m l r =>
        match hs m with
        | [] =>
            let l' := v2_deep_hash l in
            let r' := v2_deep_hash r in
            Inner k h s (Meta (ver m) (nonce m)
                           (H (inner_preimage h s (ver m) (hs (nmeta l')) (hs (nmeta r'))))) l' r'
        | _ :: _ => t
        end
    end.

  (** computeHash *)
  Definition v2_compute_hash (root : option node) : bytes :=
    match root with None => H [] | Some n => hs (nmeta (v2_deep_hash n)) end.
End V2Hash.

(** * 2. TreeIterator (iterator.go) *)

(** a nil-able byte slice used as a byte string: bytes.Compare treats nil as empty *)
Definition onil (x : option bytes) : bytes := match x with Some b => b | None => [] end.

(** isPastEndAscend *)
Definition past_end_asc (stop : option bytes) (incl : bool) (k : bytes) : bool :=
  match stop with
  | None => false
  | Some e => if incl then blt e k else ble e k
  end.

(** isPastEndDescend *)
Definition past_end_desc (start : option bytes) (k : bytes) : bool :=
  match start with
  | None => false
  | Some s => blt k s
  end.

(** the leaf test of stepDescend before the first element:
      res := bytes.Compare(i.end, n.key)
      if i.inclusive && res < 0 { continue }
      if res <= 0 { continue }
    The second test is not an [else]: with [inclusive] the key equal to [end] is skipped too. *)
Definition skip_desc (stop : option bytes) (incl : bool) (k : bytes) : bool :=
  match stop with
  | None => false
  | Some e =>
      if incl && blt e k then true
      else ble e k
  end.

Section V2Iter.
  Variables (start stop : option bytes) (incl : bool).

  (** stepAscend: [Some (None, st)] = the iterator became invalid, [Some (Some kv, st)] = it
      stands on [kv]; [None] = out of fuel.  The head of the list is the top of the stack. *)
  Fixpoint v2_step_asc (fuel : nat) (st : list node) (started : bool)
    : option (option (bytes * bytes) * list node) :=
    match fuel with
    | O => None
    | S f =>
        match st with
        | [] => Some (None, [])
        | Leaf k v _ :: st' =>
            if negb started && blt k (onil start) then v2_step_asc f st' started
            else if past_end_asc stop incl k then Some (None, st')
            else Some (Some (k, v), st')
        | Inner nk _ _ _ l r :: st' =>
            if blt (onil start) nk then v2_step_asc f (l :: r :: st') started
            else v2_step_asc f (r :: st') started
        end
    end.

  Fixpoint v2_step_desc (fuel : nat) (st : list node) (started : bool)
    : option (option (bytes * bytes) * list node) :=
    match fuel with
    | O => None
    | S f =>
        match st with
        | [] => Some (None, [])
        | Leaf k v _ :: st' =>
            if negb started && skip_desc stop incl k then v2_step_desc f st' started
            else if past_end_desc start k then Some (None, st')
            else Some (Some (k, v), st')
        | Inner nk _ _ _ l r :: st' =>
            if match stop with None => true | Some e => ble nk e end
            then v2_step_desc f (r :: l :: st') started
            else v2_step_desc f (l :: st') started
        end
    end.

  (** Next(): nothing happens on an invalid iterator; an empty stack invalidates it. *)
  Definition v2_next (asc : bool) (fuel : nat) (st : list node) (started : bool)
    : option (option (bytes * bytes) * list node) :=
    match st with
    | [] => Some (None, [])
    | _ => if asc then v2_step_asc fuel st started else v2_step_desc fuel st started
    end.

  (** for ; itr.Valid(); itr.Next() { collect itr.Key(), itr.Value() }.  [n] bounds the number
      of Next() calls, [fuel] is handed to each of them. *)
  Fixpoint v2_collect (asc : bool) (n fuel : nat) (st : list node) (started : bool)
    : option (list (bytes * bytes)) :=
    match n with
    | O => None
    | S n' =>
        match v2_next asc fuel st started with
        | None => None
        | Some (None, _) => Some []
        | Some (Some kv, st') =>
            match v2_collect asc n' fuel st' true with
            | None => None
            | Some l => Some (kv :: l)
            end
        end
    end.
End V2Iter.

Fixpoint v2_nodes (t : node) : nat :=
  match t with Leaf _ _ _ => 1%nat | Inner _ _ _ _ l r => S (v2_nodes l + v2_nodes r) end.

(** Tree.Iterator(start, end, inclusive) / Tree.ReverseIterator(start, end) drained.
    Go seeds the stack with [tree.root] even when it is nil; the first Next() then pops nil
    and invalidates the iterator: the empty stack. *)
Definition v2_iter_collect (root : option node) (start stop : option bytes) (incl asc : bool)
  : option (list (bytes * bytes)) :=
  match root with
  | None => Some []
  | Some t =>
      v2_collect start stop incl asc (S (S (v2_nodes t))) (S (S (v2_nodes t))) [t] false
  end.

(** * 3. The Tree object: versions, leaf sequences, deletes (tree.go) *)
From IAVL Require Import MTree.

(** a row of the leaf changelog: a written leaf ([leaf] table) or a delete ([leaf_delete]) *)
Inductive logop := LSet (k v : bytes) | LDel (k : bytes).

Record v2tree := V2Tree {
  vt_root : option node;
  vt_version : Z;                 (* tree.version *)
  vt_lseq : Z;                    (* tree.leafSequence - leafSequenceStart *)
  vt_dels : list (Z * bytes)      (* tree.deletes: (sequence of the delete key, leaf key) *)
}.

Definition v2t_empty : v2tree := V2Tree None 0 0 [].

(** the node-key version of the leaf holding [k] (same descent as recursiveRemove) *)
Fixpoint leaf_ver (t : node) (k : bytes) : option Z :=
  match t with
  | Leaf lk _ m => if beq k lk then Some (ver m) else None
  | Inner nk _ _ _ l r => if blt k nk then leaf_ver l k else leaf_ver r k
  end.

(** Tree.Set: every written leaf takes the next leaf sequence (NewLeafNode, or mutateNode
    on a leaf, whose hash is never nil). *)
Definition v2t_set (s : v2tree) (k v : bytes) : option (v2tree * bool) :=
  let sq := vt_lseq s + 1 in
  match v2_root_set (vt_version s + 1) sq (vt_root s) k v with
  | None => None
  | Some (r', upd) => Some (V2Tree r' (vt_version s) sq (vt_dels s), upd)
  end.

(** Tree.Remove + addDelete: a delete row (with the next leaf sequence) is recorded unless
    the removed leaf was written in this very version. *)
Definition v2t_remove (s : v2tree) (k : bytes) : option (v2tree * option bytes) :=
  match vt_root s with
  | None => Some (s, None)
  | Some n =>
      match v2_remove (vt_version s + 1) n k with
      | None => None
      | Some res =>
          match rm_val res with
          | None => Some (s, None)
          | Some val =>
              let same := match leaf_ver n k with
                          | Some lv => lv =? vt_version s + 1
                          | None => false
                          end in
              if same then Some (V2Tree (rm_self res) (vt_version s) (vt_lseq s) (vt_dels s), Some val)
              else Some (V2Tree (rm_self res) (vt_version s) (vt_lseq s + 1)
                                (vt_dels s ++ [(vt_lseq s + 1, k)]), Some val)
          end
      end
  end.

Section V2Machine.
  Variable H : bytes -> bytes.

  (** SaveVersion: version++, hashes computed, sequences and per-version lists reset.
      (What is written to the database is section 4.) *)
  Definition v2t_save (s : v2tree) : v2tree * bytes :=
    let r' := match vt_root s with None => None | Some n => Some (v2_deep_hash H n) end in
    (V2Tree r' (vt_version s + 1) 0 [], v2_compute_hash H (vt_root s)).

  (** the write operations with the outputs of the v1 machine (MTree.step) *)
  Inductive wop := WSet (k v : bytes) | WRemove (k : bytes) | WSave.

  Definition wop_v1 (o : wop) : op :=
    match o with WSet k v => OSet k v | WRemove k => ORemove k | WSave => OSave end.

  Definition v2t_step (s : v2tree) (o : wop) : option (v2tree * out) :=
    match o with
    | WSet k v =>
        match v2t_set s k v with
        | None => None
        | Some (s', upd) => Some (s', XBool upd)
        end
    | WRemove k =>
        match v2t_remove s k with
        | None => None
        | Some (s', None) => Some (s', XPair (XBytes None) (XBool false))
        | Some (s', Some val) => Some (s', XPair (XBytes (Some val)) (XBool true))
        end
    | WSave =>
        let (s', h) := v2t_save s in
        Some (s', XPair (XBytes (Some h)) (XInt (vt_version s')))
    end.

  Fixpoint v2t_run (s : v2tree) (ops : list wop) : option (v2tree * list out) :=
    match ops with
    | [] => Some (s, [])
    | o :: rest =>
        match v2t_step s o with
        | None => None
        | Some (s1, x) =>
            match v2t_run s1 rest with
            | None => None
            | Some (s2, xs) => Some (s2, x :: xs)
            end
        end
    end.
End V2Machine.
