(** iavl/v2: executable model of the tree algebra (v2/tree.go, v2/node.go), of the TreeIterator
    (v2/iterator.go) and of the persistence layer (checkpoints + leaf changelog replay,
    pruning, snapshots; v2/tree.go LoadVersion, v2/sqlite.go replayChangelog,
    v2/sqlite_writer.go, v2/range.go, v2/snapshot.go, v2/export.go).

    The v2 code mutates nodes IN PLACE and assigns the node key at mutation time
    ([mutateNode]: nodeKey := (tree.version+1, seq), hash := nil); v1 clones and stamps at save
    time.  The model keeps the immutable [node] type of Tree.v and renders "mutate" as
    "rebuild the node with [ver := wv], [hs := []]" (stamp-at-mutate).

    Conventions.
    - [wv] is the working version [tree.version+1].
    - The [nonce] field holds the node-key sequence.  Leaves carry the leaf sequence
      ([nextLeafNodeKey], counted from 0 here instead of 1<<31); branch sequences are not
      modelled (0): nothing observable depends on them (hashes ignore sequences; the replay
      only checks leaf sequences).
    - [hs = []] is Go's [hash == nil].  Go hashes a leaf as soon as it is written; here every
      hash is (re)computed by [v2_deep_hash] / [v2_hash], which gives the same final hashes.
    - Go panics / error returns are [None]; loops carry explicit fuel. *)
From IAVL Require Import Bytes Varint Tree MTree.
Local Open Scope Z_scope.

(** * 1. The tree algebra *)

(** meta of a node touched in working version [wv] (mutateNode / pool.Get + nextNodeKey) *)
Definition v2_meta (wv sq : Z) : meta := Meta wv sq [].

(** a mutated branch after [calcHeightAndSize] *)
Definition v2_node (wv : Z) (k : bytes) (l r : node) : node :=
  Inner k (Z.max (height l) (height r) + 1) (size l + size r) (v2_meta wv 0) l r.

(** rotateRight: mutates [node] and [node.left]; [node.left(tree)] / [newNode.right(tree)]
    panic ("leaf node has no left node") when the node resp. its left child is a leaf. *)
Definition v2_rotR (wv : Z) (t : node) : option node :=
  match t with
  | Inner k _ _ _ (Inner lk _ _ _ ll lr) r => Some (v2_node wv lk ll (v2_node wv k lr r))
  | _ => None
  end.
Definition v2_rotL (wv : Z) (t : node) : option node :=
  match t with
  | Inner k _ _ _ l (Inner rk _ _ _ rl rr) => Some (v2_node wv rk (v2_node wv k l rl) rr)
  | _ => None
  end.

(** Tree.balance (node.go).  Errors: "unexpected balance() call on persisted node"
    ([hash != nil]); calcBalance on a leaf.  In the double-rotation cases the node keeps its
    stale height/size between the two rotations, as in v1. *)
Definition v2_balance (wv : Z) (t : node) : option node :=
  match t with
  | Inner k h s m l r =>
      match hs m with
      | _ :: _ => None
      | [] =>
          if 1 <? height l - height r then
            (if 0 <=? bal_of l then v2_rotR wv t
             else match v2_rotL wv l with
                  | None => None
                  | Some l' => v2_rotR wv (Inner k h s m l' r)
                  end)
          else if height l - height r <? -1 then
            (if bal_of r <=? 0 then v2_rotL wv t
             else match v2_rotR wv r with
                  | None => None
                  | Some r' => v2_rotL wv (Inner k h s m l r')
                  end)
          else Some t
      end
  | Leaf _ _ _ => None
  end.

(** recursiveSet.  [sq] is the leaf sequence the written leaf receives. *)
Fixpoint v2_set (wv sq : Z) (t : node) (k v : bytes) : option (node * bool) :=
  match t with
  | Leaf lk lv _ =>
      match bcmp k lk with
      | Lt => Some (Inner lk 1 2 (v2_meta wv 0) (Leaf k v (v2_meta wv sq)) t, false)
      | Gt => Some (Inner k 1 2 (v2_meta wv 0) t (Leaf k v (v2_meta wv sq)), false)
      | Eq => Some (Leaf lk v (v2_meta wv sq), true)
      end
  | Inner nk h s _ l r =>
      if blt k nk then
        match v2_set wv sq l k v with
        | None => None
        | Some (l', upd) =>
            if upd then Some (Inner nk h s (v2_meta wv 0) l' r, true)
            else match v2_balance wv (v2_node wv nk l' r) with
                 | None => None
                 | Some t' => Some (t', false)
                 end
        end
      else
        match v2_set wv sq r k v with
        | None => None
        | Some (r', upd) =>
            if upd then Some (Inner nk h s (v2_meta wv 0) l r', true)
            else match v2_balance wv (v2_node wv nk l r') with
                 | None => None
                 | Some t' => Some (t', false)
                 end
        end
  end.

(** recursiveRemove, result as in Tree.remove ([rm_val = None]: not removed). *)
Fixpoint v2_remove (wv : Z) (t : node) (k : bytes) : option rm_res :=
  match t with
  | Leaf lk lv _ =>
      Some (if beq k lk then RmRes None None (Some lv) else RmRes (Some t) None None)
  | Inner nk h s _ l r =>
      if blt k nk then
        match v2_remove wv l k with
        | None => None
        | Some res =>
            match rm_val res with
            | None => Some (RmRes (Some t) None None)
            | Some val =>
                match rm_self res with
                | None => Some (RmRes (Some r) (Some nk) (Some val))
                | Some l' =>
                    match v2_balance wv (v2_node wv nk l' r) with
                    | None => None
                    | Some t' => Some (RmRes (Some t') (rm_key res) (Some val))
                    end
                end
            end
        end
      else
        match v2_remove wv r k with
        | None => None
        | Some res =>
            match rm_val res with
            | None => Some (RmRes (Some t) None None)
            | Some val =>
                match rm_self res with
                | None => Some (RmRes (Some l) None (Some val))
                | Some r' =>
                    let nk' := match rm_key res with Some k' => k' | None => nk end in
                    match v2_balance wv (v2_node wv nk' l r') with
                    | None => None
                    | Some t' => Some (RmRes (Some t') None (Some val))
                    end
                end
            end
        end
  end.

(** Tree.set / Tree.Remove on the root pointer ([None] root = empty tree). *)
Definition v2_root_set (wv sq : Z) (root : option node) (k v : bytes)
  : option (option node * bool) :=
  match root with
  | None => Some (Some (Leaf k v (v2_meta wv sq)), false)
  | Some n =>
      match v2_set wv sq n k v with
      | None => None
      | Some (n', upd) => Some (Some n', upd)
      end
  end.

(** returns the new root and the removed value ([None]: nothing removed, tree unchanged) *)
Definition v2_root_remove (wv : Z) (root : option node) (k : bytes)
  : option (option node * option bytes) :=
  match root with
  | None => Some (None, None)
  | Some n =>
      match v2_remove wv n k with
      | None => None
      | Some res =>
          match rm_val res with
          | None => Some (root, None)
          | Some val => Some (rm_self res, Some val)
          end
      end
  end.

(** ** Hashing (node.go: _hash / writeHashBytes; tree.go: computeHash / deepHash) *)
Section V2Hash.
  Variable H : bytes -> bytes.

  (** the hash from scratch: every node hashed with its own node-key version *)
  Fixpoint v2_hash (t : node) : bytes :=
    match t with
    | Leaf k v m => H (leaf_preimage H (ver m) k v)
    | Inner _ h s m l r => H (inner_preimage h s (ver m) (v2_hash l) (v2_hash r))
    end.

  Definition v2_root_hash (root : option node) : bytes :=
    match root with None => H [] | Some n => v2_hash n end.

  (** deepHash: hashes are recomputed exactly where [hash == nil], the recursion stops at a
      node that still has its hash. *)
  Fixpoint v2_deep_hash (t : node) : node :=
    match t with
    | Leaf k v m =>
        match hs m with
        | [] => Leaf k v (Meta (ver m) (nonce m) (H (leaf_preimage H (ver m) k v)))
        | _ :: _ => t
        end
    | Inner k h s m l r =>
        match hs m with
        | [] =>
            let l' := v2_deep_hash l in
            let r' := v2_deep_hash r in
            Inner k h s (Meta (ver m) (nonce m)
                           (H (inner_preimage h s (ver m) (hs (nmeta l')) (hs (nmeta r'))))) l' r'
        | _ :: _ => t
        end
    end.

  (** computeHash *)
  Definition v2_compute_hash (root : option node) : bytes :=
    match root with None => H [] | Some n => hs (nmeta (v2_deep_hash n)) end.
End V2Hash.

(** * 2. TreeIterator (iterator.go) *)

(** a nil-able byte slice used as a byte string: bytes.Compare treats nil as empty *)
Definition onil (x : option bytes) : bytes := match x with Some b => b | None => [] end.

(** isPastEndAscend *)
Definition past_end_asc (stop : option bytes) (incl : bool) (k : bytes) : bool :=
  match stop with
  | None => false
  | Some e => if incl then blt e k else ble e k
  end.

(** isPastEndDescend *)
Definition past_end_desc (start : option bytes) (k : bytes) : bool :=
  match start with
  | None => false
  | Some s => blt k s
  end.

(** the leaf test of stepDescend before the first element:
      res := bytes.Compare(i.end, n.key)
      if i.inclusive && res < 0 { continue }
      if res <= 0 { continue }
    The second test is not an [else]: with [inclusive] the key equal to [end] is skipped too. *)
Definition skip_desc (stop : option bytes) (incl : bool) (k : bytes) : bool :=
  match stop with
  | None => false
  | Some e =>
      if incl && blt e k then true
      else ble e k
  end.

Section V2Iter.
  Variables (start stop : option bytes) (incl : bool).

  (** stepAscend: [Some (None, st)] = the iterator became invalid, [Some (Some kv, st)] = it
      stands on [kv]; [None] = out of fuel.  The head of the list is the top of the stack. *)
  Fixpoint v2_step_asc (fuel : nat) (st : list node) (started : bool)
    : option (option (bytes * bytes) * list node) :=
    match fuel with
    | O => None
    | S f =>
        match st with
        | [] => Some (None, [])
        | Leaf k v _ :: st' =>
            if negb started && blt k (onil start) then v2_step_asc f st' started
            else if past_end_asc stop incl k then Some (None, st')
            else Some (Some (k, v), st')
        | Inner nk _ _ _ l r :: st' =>
            if blt (onil start) nk then v2_step_asc f (l :: r :: st') started
            else v2_step_asc f (r :: st') started
        end
    end.

  Fixpoint v2_step_desc (fuel : nat) (st : list node) (started : bool)
    : option (option (bytes * bytes) * list node) :=
    match fuel with
    | O => None
    | S f =>
        match st with
        | [] => Some (None, [])
        | Leaf k v _ :: st' =>
            if negb started && skip_desc stop incl k then v2_step_desc f st' started
            else if past_end_desc start k then Some (None, st')
            else Some (Some (k, v), st')
        | Inner nk _ _ _ l r :: st' =>
            if match stop with None => true | Some e => ble nk e end
            then v2_step_desc f (r :: l :: st') started
            else v2_step_desc f (l :: st') started
        end
    end.

  (** Next(): nothing happens on an invalid iterator; an empty stack invalidates it. *)
  Definition v2_next (asc : bool) (fuel : nat) (st : list node) (started : bool)
    : option (option (bytes * bytes) * list node) :=
    match st with
    | [] => Some (None, [])
    | _ => if asc then v2_step_asc fuel st started else v2_step_desc fuel st started
    end.

  (** for ; itr.Valid(); itr.Next() { collect itr.Key(), itr.Value() }.  [n] bounds the number
      of Next() calls, [fuel] is handed to each of them. *)
  Fixpoint v2_collect (asc : bool) (n fuel : nat) (st : list node) (started : bool)
    : option (list (bytes * bytes)) :=
    match n with
    | O => None
    | S n' =>
        match v2_next asc fuel st started with
        | None => None
        | Some (None, _) => Some []
        | Some (Some kv, st') =>
            match v2_collect asc n' fuel st' true with
            | None => None
            | Some l => Some (kv :: l)
            end
        end
    end.
End V2Iter.

Fixpoint v2_nodes (t : node) : nat :=
  match t with Leaf _ _ _ => 1%nat | Inner _ _ _ _ l r => S (v2_nodes l + v2_nodes r) end.

(** Tree.Iterator(start, end, inclusive) / Tree.ReverseIterator(start, end) drained.
    Go seeds the stack with [tree.root] even when it is nil; the first Next() then pops nil
    and invalidates the iterator: the empty stack. *)
Definition v2_iter_collect (root : option node) (start stop : option bytes) (incl asc : bool)
  : option (list (bytes * bytes)) :=
  match root with
  | None => Some []
  | Some t =>
      v2_collect start stop incl asc (S (S (v2_nodes t))) (S (S (v2_nodes t))) [t] false
  end.

(** * 3. The Tree object: versions, leaf sequences, deletes (tree.go) *)

(** a row of the leaf changelog: a written leaf ([leaf] table) or a delete ([leaf_delete]) *)
Inductive logop := LSet (k v : bytes) | LDel (k : bytes).

Record v2tree := V2Tree {
  vt_root : option node;
  vt_version : Z;                 (* tree.version *)
  vt_lseq : Z;                    (* tree.leafSequence - leafSequenceStart *)
  vt_dels : list (Z * bytes)      (* tree.deletes: (sequence of the delete key, leaf key) *)
}.

Definition v2t_empty : v2tree := V2Tree None 0 0 [].

(** the node-key version of the leaf holding [k] (same descent as recursiveRemove) *)
Fixpoint leaf_ver (t : node) (k : bytes) : option Z :=
  match t with
  | Leaf lk _ m => if beq k lk then Some (ver m) else None
  | Inner nk _ _ _ l r => if blt k nk then leaf_ver l k else leaf_ver r k
  end.

(** Tree.Set: every written leaf takes the next leaf sequence (NewLeafNode, or mutateNode
    on a leaf, whose hash is never nil). *)
Definition v2t_set (s : v2tree) (k v : bytes) : option (v2tree * bool) :=
  let sq := vt_lseq s + 1 in
  match v2_root_set (vt_version s + 1) sq (vt_root s) k v with
  | None => None
  | Some (r', upd) => Some (V2Tree r' (vt_version s) sq (vt_dels s), upd)
  end.

(** Tree.Remove + addDelete: a delete row (with the next leaf sequence) is recorded unless
    the removed leaf was written in this very version. *)
Definition v2t_remove (s : v2tree) (k : bytes) : option (v2tree * option bytes) :=
  match vt_root s with
  | None => Some (s, None)
  | Some n =>
      match v2_remove (vt_version s + 1) n k with
      | None => None
      | Some res =>
          match rm_val res with
          | None => Some (s, None)
          | Some val =>
              let same := match leaf_ver n k with
                          | Some lv => lv =? vt_version s + 1
                          | None => false
                          end in
              if same then Some (V2Tree (rm_self res) (vt_version s) (vt_lseq s) (vt_dels s), Some val)
              else Some (V2Tree (rm_self res) (vt_version s) (vt_lseq s + 1)
                                (vt_dels s ++ [(vt_lseq s + 1, k)]), Some val)
          end
      end
  end.

Section V2Machine.
  Variable H : bytes -> bytes.

  (** SaveVersion: version++, hashes computed, sequences and per-version lists reset.
      (What is written to the database is section 4.) *)
  Definition v2t_save (s : v2tree) : v2tree * bytes :=
    let r' := match vt_root s with None => None | Some n => Some (v2_deep_hash H n) end in
    (V2Tree r' (vt_version s + 1) 0 [], v2_compute_hash H (vt_root s)).

  (** the write operations with the outputs of the v1 machine (MTree.step) *)
  Inductive wop := WSet (k v : bytes) | WRemove (k : bytes) | WSave.

  Definition wop_v1 (o : wop) : op :=
    match o with WSet k v => OSet k v | WRemove k => ORemove k | WSave => OSave end.

  Definition v2t_step (s : v2tree) (o : wop) : option (v2tree * out) :=
    match o with
    | WSet k v =>
        match v2t_set s k v with
        | None => None
        | Some (s', upd) => Some (s', XBool upd)
        end
    | WRemove k =>
        match v2t_remove s k with
        | None => None
        | Some (s', None) => Some (s', XPair (XBytes None) (XBool false))
        | Some (s', Some val) => Some (s', XPair (XBytes (Some val)) (XBool true))
        end
    | WSave =>
        let (s', h) := v2t_save s in
        Some (s', XPair (XBytes (Some h)) (XInt (vt_version s')))
    end.

  Fixpoint v2t_run (s : v2tree) (ops : list wop) : option (v2tree * list out) :=
    match ops with
    | [] => Some (s, [])
    | o :: rest =>
        match v2t_step s o with
        | None => None
        | Some (s1, x) =>
            match v2t_run s1 rest with
            | None => None
            | Some (s2, xs) => Some (s2, x :: xs)
            end
        end
    end.
End V2Machine.

(** * 4. Persistence: checkpoints, leaf changelog, LoadVersion, pruning *)

(** ** range.go: VersionRange.FindPrevious, binary search.
    [FPPanic] = index out of range; [FPFuel] = out of fuel. *)
Inductive fpres := FPVal (v : Z) | FPPanic | FPFuel.

Definition zindex (vs : list Z) (i : Z) : option Z :=
  if i <? 0 then None else nth_error vs (Z.to_nat i).

Fixpoint fp_loop (fuel : nat) (vs : list Z) (v low high : Z) : fpres :=
  match fuel with
  | O => FPFuel
  | S f =>
      if low <=? high then
        let mid := (low + high) / 2 in
        match zindex vs mid with
        | None => FPPanic
        | Some x =>
            if x =? v then FPVal v
            else if x <? v then fp_loop f vs v (mid + 1) high
            else fp_loop f vs v low (mid - 1)
        end
      else
        match zindex vs high with
        | None => FPPanic
        | Some x => FPVal x
        end
  end.

Definition find_previous (vs : list Z) (v : Z) : fpres :=
  match vs with
  | [] => FPVal (-1)
  | v0 :: _ =>
      if v <? v0 then FPVal (-1)
      else fp_loop (S (length vs)) vs v 0 (Z.of_nat (length vs) - 1)
  end.

(** VersionRange.Last *)
Definition ckpt_last (vs : list Z) : Z := last vs (-1).

(** ** The database *)
Record v2db := V2Db {
  db_ckpts : list Z;                      (* root rows with checkpoint = true, ascending *)
  db_roots : list (Z * option node);      (* the checkpointed trees (root row, tree_N shards, leaves) *)
  db_hashes : list (Z * bytes);           (* root table: the root hash of every saved version *)
  db_log : list (Z * list (Z * logop))    (* leaf / leaf_delete rows by version, (sequence, row) ascending *)
}.

Definition db_empty : v2db := V2Db [] [] [] [].

(** deepHash collects the leaves whose node-key version is the version being saved *)
Fixpoint leaf_rows (wv : Z) (t : node) : list (Z * logop) :=
  match t with
  | Leaf k v m => if ver m =? wv then [(nonce m, LSet k v)] else []
  | Inner _ _ _ _ l r => leaf_rows wv l ++ leaf_rows wv r
  end.

(** ORDER BY sequence *)
Fixpoint ins_row (r : Z * logop) (l : list (Z * logop)) : list (Z * logop) :=
  match l with
  | [] => [r]
  | x :: rest => if fst r <=? fst x then r :: l else x :: ins_row r rest
  end.
Definition sort_rows (l : list (Z * logop)) : list (Z * logop) := fold_right ins_row [] l.

(** the rows SaveVersion writes for the version being saved *)
Definition v2_changelog (s : v2tree) : list (Z * logop) :=
  sort_rows ((match vt_root s with
              | Some n => leaf_rows (vt_version s + 1) n
              | None => []
              end) ++ map (fun p => (fst p, LDel (snd p))) (vt_dels s)).

(** shouldCheckpoint: [want] stands for SetShouldCheckpoint and the checkpointMemory rule *)
Definition v2_should_checkpoint (interval : Z) (want : bool) (ckpts : list Z) (version : Z) : bool :=
  want || (version =? 1) || ((0 <? interval) && (interval <=? version - ckpt_last ckpts)).

Fixpoint last_opt {A} (l : list A) : option A :=
  match l with
  | [] => None
  | [x] => Some x
  | _ :: rest => last_opt rest
  end.

Section V2Persist.
  Variable H : bytes -> bytes.

  (** SaveVersion with its database writes *)
  Definition v2_commit (interval : Z) (want : bool) (s : v2tree) (db : v2db)
    : v2tree * v2db * bytes :=
    let v := vt_version s + 1 in
    let ck := v2_should_checkpoint interval want (db_ckpts db) v in
    let (s', h) := v2t_save H s in
    (s',
     V2Db (if ck then db_ckpts db ++ [v] else db_ckpts db)
          (if ck then db_roots db ++ [(v, vt_root s')] else db_roots db)
          (db_hashes db ++ [(v, h)])
          (db_log db ++ [(v, v2_changelog s)]),
     h).

  (** one row of replayChangelog, with its sequence check *)
  Definition replay_row (s : v2tree) (row : Z * logop) : option v2tree :=
    match snd row with
    | LSet k v =>
        match v2t_set s k v with
        | None => None
        | Some (s', _) => if fst row =? vt_lseq s' then Some s' else None   (* sequence mismatch *)
        end
    | LDel k =>
        match v2t_remove s k with
        | None => None
        | Some (s', _) =>
            match last_opt (vt_dels s') with
            | None => None                                                  (* index out of range *)
            | Some d => if fst row =? fst d then Some s' else None          (* sequence delete mismatch *)
            end
        end
    end.

  Fixpoint replay_rows (s : v2tree) (rows : list (Z * logop)) : option v2tree :=
    match rows with
    | [] => Some s
    | row :: rest =>
        match replay_row s row with
        | None => None
        | Some s' => replay_rows s' rest
        end
    end.

  (** the rows of one version: at its first row the tree moves to [version-1], sequences and
      per-version lists are reset *)
  Definition replay_version (s : v2tree) (e : Z * list (Z * logop)) : option v2tree :=
    match snd e with
    | [] => Some s
    | rows => replay_rows (V2Tree (vt_root s) (fst e - 1) 0 []) rows
    end.

  Fixpoint replay_log (s : v2tree) (l : list (Z * list (Z * logop))) : option v2tree :=
    match l with
    | [] => Some s
    | e :: rest =>
        match replay_version s e with
        | None => None
        | Some s' => replay_log s' rest
        end
    end.

  (** LoadVersion: last checkpoint at or before [v], then the changelog up to [v], then the
      root-hash check. *)
  Definition v2_load (db : v2db) (v : Z) : option v2tree :=
    match find_previous (db_ckpts db) v with
    | FPVal c =>
        match lookup c (db_roots db) with
        | None => None                                   (* root not found *)
        | Some r =>
            if c <? v then
              match lookup v (db_hashes db) with
              | None => None                             (* root not found *)
              | Some target =>
                  match replay_log (V2Tree r c 0 [])
                          (filter (fun e => (c <? fst e) && (fst e <=? v)) (db_log db)) with
                  | None => None
                  | Some s =>
                      if list_eq_dec N.eq_dec target (v2_compute_hash H (vt_root s)) then
                        Some (fst (v2t_save H (V2Tree (vt_root s) (v - 1) 0 [])))
                      else None                          (* root hash mismatch *)
                  end
              end
            else Some (V2Tree r c 0 [])
        end
    | _ => None
    end.

  (** DeleteVersionsTo(n): with [c] the last checkpoint at or before [n], the writer deletes
      leaf_delete rows with version < c, leaf rows orphaned at or before [c] (all written
      before [c]), root rows with version < c, and branch orphans recorded at checkpoints
      <= n (needed only by checkpoints < c).  The model deletes EVERYTHING below [c]. *)
  Definition v2_prune (db : v2db) (n : Z) : v2db :=
    match find_previous (db_ckpts db) n with
    | FPVal c =>
        if c =? -1 then db
        else V2Db (filter (fun x => c <=? x) (db_ckpts db))
                  (filter (fun p => c <=? fst p) (db_roots db))
                  (filter (fun p => c <=? fst p) (db_hashes db))
                  (filter (fun p => c <=? fst p) (db_log db))
    | _ => db
    end.

  (** a history: per version the writes and the external checkpoint request *)
  Definition v2_apply (s : v2tree) (o : logop) : option v2tree :=
    match o with
    | LSet k v => match v2t_set s k v with Some (s', _) => Some s' | None => None end
    | LDel k => match v2t_remove s k with Some (s', _) => Some s' | None => None end
    end.

  Fixpoint v2_apply_all (s : v2tree) (ops : list logop) : option v2tree :=
    match ops with
    | [] => Some s
    | o :: rest =>
        match v2_apply s o with
        | None => None
        | Some s' => v2_apply_all s' rest
        end
    end.

  Definition v2_version (interval : Z) (sd : v2tree * v2db) (e : list logop * bool)
    : option (v2tree * v2db) :=
    match v2_apply_all (fst sd) (fst e) with
    | None => None
    | Some s' => Some (fst (v2_commit interval (snd e) s' (snd sd)))
    end.

  Fixpoint v2_history (interval : Z) (sd : v2tree * v2db) (hist : list (list logop * bool))
    : option (v2tree * v2db) :=
    match hist with
    | [] => Some sd
    | e :: rest =>
        match v2_version interval sd e with
        | None => None
        | Some sd' => v2_history interval sd' rest
        end
    end.
End V2Persist.

(** * 5. Snapshots (snapshot.go, export.go) *)

(** a row of a snapshot table: node key and Node.Bytes() *)
Record srow := SRow {
  sr_ver : Z; sr_seq : Z; sr_height : Z; sr_size : Z; sr_key : bytes; sr_hash : bytes; sr_val : bytes
}.

Definition srow_of (t : node) : srow :=
  match t with
  | Leaf k v m => SRow (ver m) (nonce m) 0 1 k (hs m) v
  | Inner k h s m _ _ => SRow (ver m) (nonce m) h s k (hs m) []
  end.

(** SqliteDb.Snapshot / writeStep: pre-order (NLR) *)
Fixpoint snapshot_pre (t : node) : list srow :=
  match t with
  | Leaf _ _ _ => [srow_of t]
  | Inner _ _ _ _ l r => srow_of t :: snapshot_pre l ++ snapshot_pre r
  end.

(** the rows in post-order (LRN), as restorePostOrderStep numbers them *)
Fixpoint snapshot_post (t : node) : list srow :=
  match t with
  | Leaf _ _ _ => [srow_of t]
  | Inner _ _ _ _ l r => snapshot_post l ++ snapshot_post r ++ [srow_of t]
  end.

(** MakeNode on a row *)
Definition leaf_of_row (r : srow) : node := Leaf (sr_key r) (sr_val r) (Meta (sr_ver r) (sr_seq r) (sr_hash r)).
Definition inner_of_row (r : srow) (l rt : node) : node :=
  Inner (sr_key r) (sr_height r) (sr_size r) (Meta (sr_ver r) (sr_seq r) (sr_hash r)) l rt.

(** queryStepPreOrder (loadLeaves = true).  Go returns a nil node when the rows run out and
    dereferences it later (rehashTree): [None].  For a leaf root Go still tries to read two
    children, which a leaf never shows: not modelled. *)
Fixpoint import_pre_step (fuel : nat) (rows : list srow) : option (node * list srow) :=
  match fuel with
  | O => None
  | S f =>
      match rows with
      | [] => None
      | r :: rest =>
          if sr_height r =? 0 then Some (leaf_of_row r, rest)
          else
            match import_pre_step f rest with
            | None => None
            | Some (l, rest1) =>
                match import_pre_step f rest1 with
                | None => None
                | Some (rt, rest2) => Some (inner_of_row r l rt, rest2)
                end
            end
      end
  end.

(** queryStepPostOrder over ORDER BY ordinal DESC: node, right, left *)
Fixpoint import_post_step (fuel : nat) (rows : list srow) : option (node * list srow) :=
  match fuel with
  | O => None
  | S f =>
      match rows with
      | [] => None
      | r :: rest =>
          if sr_height r =? 0 then Some (leaf_of_row r, rest)
          else
            match import_post_step f rest with
            | None => None
            | Some (rt, rest1) =>
                match import_post_step f rest1 with
                | None => None
                | Some (l, rest2) => Some (inner_of_row r l rt, rest2)
                end
            end
      end
  end.

(** what Exporter.Next hands out *)
Record snode := SNode { sn_key : bytes; sn_val : bytes; sn_ver : Z; sn_height : Z }.

Fixpoint export_post (t : node) : list snode :=
  match t with
  | Leaf k v m => [SNode k v (ver m) 0]
  | Inner k h _ m l r => export_post l ++ export_post r ++ [SNode k [] (ver m) h]
  end.

Fixpoint export_pre (t : node) : list snode :=
  match t with
  | Leaf k v m => [SNode k v (ver m) 0]
  | Inner k h _ m l r => SNode k [] (ver m) h :: export_pre l ++ export_pre r
  end.

Section V2Snapshot.
  Variable H : bytes -> bytes.

  (** rehashTree: branch hashes recomputed bottom-up, leaf hashes trusted *)
  Fixpoint rehash (t : node) : node :=
    match t with
    | Leaf _ _ _ => t
    | Inner k h s m l r =>
        let l' := rehash l in
        let r' := rehash r in
        Inner k h s (Meta (ver m) (nonce m)
                       (H (inner_preimage h s (ver m) (hs (nmeta l')) (hs (nmeta r'))))) l' r'
    end.

  (** ImportSnapshotFromTable: rebuild, rehash, compare the root hash *)
  Definition import_finish (r : option (node * list srow)) : option node :=
    match r with
    | None => None
    | Some (t, _) =>
        let t' := rehash t in
        if list_eq_dec N.eq_dec (hs (nmeta t)) (hs (nmeta t')) then Some t' else None
    end.

  Definition import_pre (rows : list srow) : option node :=
    import_finish (import_pre_step (S (length rows)) rows).

  (** [rows] in ordinal order; the query reads them in descending order *)
  Definition import_post (rows : list srow) : option node :=
    import_finish (import_post_step (S (length rows)) (rev rows)).

  (** restorePostOrderStep: rebuild a tree from a post-order stream with a stack; node keys
      are (version, ordinal), sizes and hashes are recomputed.  A branch that cannot take two
      lower subtrees from the stack is pushed childless by Go (and breaks later): [None]. *)
  Fixpoint restore_post_loop (ord : Z) (stack : list node) (stream : list snode) : option node :=
    match stream with
    | [] => match stack with [t] => Some t | _ => None end
    | sn :: rest =>
        if sn_height sn =? 0 then
          restore_post_loop (ord + 1)
            (Leaf (sn_key sn) (sn_val sn)
                  (Meta (sn_ver sn) ord (H (leaf_preimage H (sn_ver sn) (sn_key sn) (sn_val sn)))) :: stack)
            rest
        else
          match stack with
          | r :: l :: stack' =>
              if (height r <? sn_height sn) && (height l <? sn_height sn) then
                let s := size l + size r in
                restore_post_loop (ord + 1)
                  (Inner (sn_key sn) (sn_height sn) s
                         (Meta (sn_ver sn) ord
                               (H (inner_preimage (sn_height sn) s (sn_ver sn) (hs (nmeta l)) (hs (nmeta r)))))
                         l r :: stack')
                  rest
              else None
          | _ => None
          end
    end.

  Definition restore_post (stream : list snode) : option node := restore_post_loop 0 [] stream.

  (** restorePreOrderStep: recursive descent ([snap.ordinal] advances twice per node) *)
  Fixpoint restore_pre_step (fuel : nat) (ord : Z) (stream : list snode)
    : option (node * Z * list snode) :=
    match fuel with
    | O => None
    | S f =>
        match stream with
        | [] => None
        | sn :: rest =>
            if sn_height sn =? 0 then
              Some (Leaf (sn_key sn) (sn_val sn)
                         (Meta (sn_ver sn) ord (H (leaf_preimage H (sn_ver sn) (sn_key sn) (sn_val sn)))),
                    ord + 2, rest)
            else
              match restore_pre_step f (ord + 1) rest with
              | None => None
              | Some (l, o1, rest1) =>
                  match restore_pre_step f o1 rest1 with
                  | None => None
                  | Some (r, o2, rest2) =>
                      let s := size l + size r in
                      Some (Inner (sn_key sn) (sn_height sn) s
                                  (Meta (sn_ver sn) ord
                                        (H (inner_preimage (sn_height sn) s (sn_ver sn)
                                              (hs (nmeta l)) (hs (nmeta r))))) l r,
                            o2 + 1, rest2)
                  end
              end
        end
    end.

  Definition restore_pre (stream : list snode) : option node :=
    match restore_pre_step (S (length stream)) 0 stream with
    | Some (t, _, _) => Some t
    | None => None
    end.
End V2Snapshot.
