(** Proofs about the M1 node algebra: the code's set / remove / balance refine sorted-list
    insertion / deletion and preserve the ordering, bookkeeping and AVL invariants. *)
From IAVL Require Import Bytes Varint Tree VMap.
Local Open Scope Z_scope.

Arguments rotL : simpl never.
Arguments rotR : simpl never.
Arguments balance : simpl never.
Arguments mk : simpl never.

(** ** Invariants *)
Fixpoint keys_all (P : bytes -> Prop) (t : node) : Prop :=
  match t with
  | Leaf k _ _ => P k
  | Inner _ _ _ _ l r => keys_all P l /\ keys_all P r
  end.

Fixpoint min_key (t : node) : bytes :=
  match t with Leaf k _ _ => k | Inner _ _ _ _ l _ => min_key l end.

(** ordered, routing key = least key of the right subtree, cached height/size exact *)
Fixpoint wf (t : node) : Prop :=
  match t with
  | Leaf _ _ _ => True
  | Inner k h s _ l r =>
      wf l /\ wf r /\ keys_all (fun x => x <b k) l /\ keys_all (fun x => k <=b x) r /\
      k = min_key r /\ h = Z.max (height l) (height r) + 1 /\ s = size l + size r
  end.

Fixpoint avl (t : node) : Prop :=
  match t with
  | Leaf _ _ _ => True
  | Inner _ _ _ _ l r => avl l /\ avl r /\ -1 <= height l - height r <= 1
  end.

Lemma keys_all_impl (P Q : bytes -> Prop) t :
  (forall x, P x -> Q x) -> keys_all P t -> keys_all Q t.
Proof. induction t; simpl; intuition. Qed.

Lemma keys_all_elems P t : keys_all P t <-> Forall (fun p => P (fst p)) (elems t).
Proof.
  induction t as [k v m | k h s m l IHl r IHr]; simpl.
  - split; intros H. constructor; auto. inversion H; auto.
  - rewrite Forall_app, IHl, IHr. reflexivity.
Qed.

Lemma min_key_all P t : keys_all P t -> P (min_key t).
Proof. induction t; simpl; intuition. Qed.

Lemma height_nonneg t : wf t -> 0 <= height t.
Proof.
  induction t as [|k h s m l IHl r IHr]; simpl; [lia|].
  intros (Hl & Hr & _ & _ & _ & Hh & _). specialize (IHl Hl). specialize (IHr Hr). lia.
Qed.

Lemma size_pos t : wf t -> 1 <= size t.
Proof.
  induction t as [|k h s m l IHl r IHr]; simpl; [lia|].
  intros (Hl & Hr & _ & _ & _ & _ & Hs). specialize (IHl Hl). specialize (IHr Hr). lia.
Qed.

Lemma size_elems t : wf t -> size t = Z.of_nat (length (elems t)).
Proof.
  induction t as [|k h s m l IHl r IHr]; simpl; [reflexivity|].
  intros (Hl & Hr & _ & _ & _ & _ & Hs). rewrite app_length, Nat2Z.inj_add, <- IHl, <- IHr; auto.
Qed.

(** [mk] builds a well-formed node from well-formed, correctly separated children *)
Lemma wf_mk k l r :
  wf l -> wf r -> keys_all (fun x => x <b k) l -> keys_all (fun x => k <=b x) r -> k = min_key r ->
  wf (mk k l r).
Proof. unfold mk; simpl; intuition. Qed.

Lemma height_mk k l r : height (mk k l r) = Z.max (height l) (height r) + 1.
Proof. reflexivity. Qed.
Lemma size_mk k l r : size (mk k l r) = size l + size r.
Proof. reflexivity. Qed.
Lemma elems_mk k l r : elems (mk k l r) = elems l ++ elems r.
Proof. reflexivity. Qed.
Lemma keys_all_mk P k l r : keys_all P (mk k l r) <-> keys_all P l /\ keys_all P r.
Proof. reflexivity. Qed.
Lemma min_key_mk k l r : min_key (mk k l r) = min_key l.
Proof. reflexivity. Qed.

Lemma rotR_eq k h s m lk lh ls lm ll lr r :
  rotR (Inner k h s m (Inner lk lh ls lm ll lr) r) = mk lk ll (mk k lr r).
Proof. reflexivity. Qed.
Lemma rotL_eq k h s m l rk rh rs rm rl rr :
  rotL (Inner k h s m l (Inner rk rh rs rm rl rr)) = mk rk (mk k l rl) rr.
Proof. reflexivity. Qed.

(** ** Rotations and balance preserve contents *)
Lemma elems_rotR t : elems (rotR t) = elems t.
Proof.
  destruct t as [|k h s m l r]; [reflexivity|]. destruct l as [|lk lh ls lm ll lr]; [reflexivity|].
  unfold rotR. rewrite !elems_mk. simpl. rewrite app_assoc. reflexivity.
Qed.
Lemma elems_rotL t : elems (rotL t) = elems t.
Proof.
  destruct t as [|k h s m l r]; [reflexivity|]. destruct r as [|rk rh rs rm rl rr]; [reflexivity|].
  unfold rotL. rewrite !elems_mk. simpl. rewrite app_assoc. reflexivity.
Qed.

Lemma balance_eq k h s m l r :
  balance (Inner k h s m l r) =
    if 1 <? height l - height r then
      (if 0 <=? bal_of l then rotR (Inner k h s m l r) else rotR (Inner k h s m (rotL l) r))
    else if height l - height r <? -1 then
      (if bal_of r <=? 0 then rotL (Inner k h s m l r) else rotL (Inner k h s m l (rotR r)))
    else Inner k h s m l r.
Proof. reflexivity. Qed.

Lemma elems_balance t : elems (balance t) = elems t.
Proof.
  destruct t as [|k h s m l r]; [reflexivity|]. rewrite balance_eq.
  repeat match goal with |- context [if ?c then _ else _] => destruct c end;
    rewrite ?elems_rotR, ?elems_rotL; simpl; rewrite ?elems_rotR, ?elems_rotL; reflexivity.
Qed.

(** wf is preserved by rotations *)
Lemma wf_rotR t : wf t -> wf (rotR t).
Proof.
  destruct t as [|k h s m l r]; [auto|]. destruct l as [|lk lh ls lm ll lr]; [auto|].
  intros W. simpl in W. destruct W as (Hl & Hr & Kl & Kr & Hk & _).
  destruct Hl as (Hll & Hlr & Kll & Klr & Hlk & _). destruct Kl as [Kl1 Kl2].
  rewrite rotR_eq. apply wf_mk; auto.
  - apply wf_mk; auto.
  - rewrite keys_all_mk. split; auto.
    eapply keys_all_impl; [|exact Kr]. intros x Hx.
    assert (lk <b k) by (subst lk; apply (min_key_all _ _ Kl2)). border.
Qed.

Lemma wf_rotL t : wf t -> wf (rotL t).
Proof.
  destruct t as [|k h s m l r]; [auto|]. destruct r as [|rk rh rs rm rl rr]; [auto|].
  intros W. simpl in W. destruct W as (Hl & Hr & Kl & Kr & Hk & _).
  destruct Hr as (Hrl & Hrr & Krl & Krr & Hrk & _). destruct Kr as [Kr1 Kr2].
  rewrite rotL_eq. apply wf_mk; auto.
  - apply wf_mk; auto.
  - rewrite keys_all_mk. split; auto.
    eapply keys_all_impl; [|exact Kl]. intros x Hx.
    assert (k <b rk) by (subst k; apply (min_key_all _ _ Krl)). border.
Qed.

Lemma keys_all_rotL P t : keys_all P (rotL t) <-> keys_all P t.
Proof. rewrite !keys_all_elems, elems_rotL. reflexivity. Qed.
Lemma keys_all_rotR P t : keys_all P (rotR t) <-> keys_all P t.
Proof. rewrite !keys_all_elems, elems_rotR. reflexivity. Qed.
Lemma keys_all_balance P t : keys_all P (balance t) <-> keys_all P t.
Proof. rewrite !keys_all_elems, elems_balance. reflexivity. Qed.

Lemma min_key_rotL t : wf t -> min_key (rotL t) = min_key t.
Proof.
  destruct t as [|k h s m l r]; [auto|]. destruct r as [|rk rh rs rm rl rr]; auto.
Qed.
Lemma min_key_rotR t : wf t -> min_key (rotR t) = min_key t.
Proof.
  destruct t as [|k h s m l r]; [auto|]. destruct l as [|lk lh ls lm ll lr]; auto.
Qed.

(** rotations ignore the cached height/size of the node they are applied to *)
Lemma rotR_cache k h s m h' s' m' l r : rotR (Inner k h s m l r) = rotR (Inner k h' s' m' l r) \/ (exists a b c, l = Leaf a b c).
Proof. destruct l; [right; eauto | left; reflexivity]. Qed.
Lemma rotL_cache k h s m h' s' m' l r : rotL (Inner k h s m l r) = rotL (Inner k h' s' m' l r) \/ (exists a b c, r = Leaf a b c).
Proof. destruct r; [right; eauto | left; reflexivity]. Qed.

Lemma height_rotL_pos t : (exists k h s m l r, t = Inner k h s m l r) -> exists k h s m l r, rotL t = Inner k h s m l r.
Proof.
  intros (k & h & s & m & l & r & ->). destruct r as [|rk rh rs rm rl rr].
  - unfold rotL. eauto 10.
  - rewrite rotL_eq. unfold mk. eauto 10.
Qed.
Lemma height_rotR_pos t : (exists k h s m l r, t = Inner k h s m l r) -> exists k h s m l r, rotR t = Inner k h s m l r.
Proof.
  intros (k & h & s & m & l & r & ->). destruct l as [|lk lh ls lm ll lr].
  - unfold rotR. eauto 10.
  - rewrite rotR_eq. unfold mk. eauto 10.
Qed.

Lemma wf_balance t : wf t -> wf (balance t).
Proof.
  destruct t as [|k h s m l r]; [auto|]. rewrite balance_eq. intros W.
  destruct (1 <? height l - height r).
  - destruct (0 <=? bal_of l); [apply wf_rotR, W|].
    (* left-right: rotL on the left child, then rotR *)
    simpl in W. destruct W as (Hl & Hr & Kl & Kr & Hk & Hh & Hs).
    destruct l as [|lk lh ls lm ll lr].
    { apply wf_rotR. simpl. intuition. }
    pose proof (wf_rotL _ Hl) as Hl'.
    destruct (height_rotL_pos (Inner lk lh ls lm ll lr)) as (k2 & h2 & s2 & m2 & l2 & r2 & E); [eauto 10|].
    rewrite E in *. rewrite rotR_eq.
    assert (Kl' : keys_all (fun x => x <b k) (Inner k2 h2 s2 m2 l2 r2)) by (rewrite <- E; apply keys_all_rotL; exact Kl).
    simpl in Hl'. destruct Hl' as (A1 & A2 & A3 & A4 & A5 & _). simpl in Kl'. destruct Kl' as [B1 B2].
    apply wf_mk; auto.
    + apply wf_mk; auto.
    + rewrite keys_all_mk. split; auto.
      assert (k2 <b k) by (subst k2; apply (min_key_all _ _ B2)).
      eapply keys_all_impl; [|exact Kr]. intros; border.
  - destruct (height l - height r <? -1); [|exact W].
    destruct (bal_of r <=? 0); [apply wf_rotL, W|].
    simpl in W. destruct W as (Hl & Hr & Kl & Kr & Hk & Hh & Hs).
    destruct r as [|rk rh rs rm rl rr].
    { apply wf_rotL. simpl. intuition. }
    pose proof (wf_rotR _ Hr) as Hr'.
    destruct (height_rotR_pos (Inner rk rh rs rm rl rr)) as (k2 & h2 & s2 & m2 & l2 & r2 & E); [eauto 10|].
    assert (Kr' : keys_all (fun x => k <=b x) (Inner k2 h2 s2 m2 l2 r2)) by (rewrite <- E; apply keys_all_rotR; exact Kr).
    assert (Mk : min_key (Inner k2 h2 s2 m2 l2 r2) = k) by (rewrite <- E, min_key_rotR; auto).
    rewrite E in *. rewrite rotL_eq.
    simpl in Hr'. destruct Hr' as (A1 & A2 & A3 & A4 & A5 & _). simpl in Kr'. destruct Kr' as [B1 B2].
    simpl in Mk.
    apply wf_mk; auto.
    + apply wf_mk; auto.
    + rewrite keys_all_mk. split; auto.
      assert (k <b k2) by (rewrite <- Mk; apply (min_key_all _ _ A3)).
      eapply keys_all_impl; [|exact Kl]. intros; border.
Qed.

(** ** List-level facts about [ins] / [del] / [assoc] *)
Lemma Forall_ins (P : bytes * bytes -> Prop) k v l : P (k, v) -> Forall P l -> Forall P (ins k v l).
Proof.
  intros Pk. induction l as [|[k' v'] l IH]; simpl; intros F.
  - constructor; auto.
  - inversion F; subst. destruct (bcmp k k'); constructor; auto.
Qed.

Lemma Forall_del (P : bytes * bytes -> Prop) k l : Forall P l -> Forall P (del k l).
Proof.
  induction l as [|[k' v'] l IH]; simpl; intros F; auto.
  inversion F; subst. destruct (bcmp k k'); auto.
Qed.

Lemma ins_app_l k v l1 l2 b :
  k <b b -> keys_ge l2 b -> l1 <> [] -> ins k v (l1 ++ l2) = ins k v l1 ++ l2.
Proof.
  intros Hk G. induction l1 as [|[k' v'] l1 IH]; intros NE; [congruence|].
  simpl. bcases k k'; try reflexivity.
  destruct l1 as [|p l1].
  - simpl. destruct l2 as [|[k2 v2] l2]; [reflexivity|].
    inversion G; subst. simpl in *. bcases k k2; try reflexivity; exfalso; border.
  - rewrite IH by congruence. reflexivity.
Qed.

Lemma ins_app_r k v l1 l2 b :
  b <=b k -> keys_lt l1 b -> ins k v (l1 ++ l2) = l1 ++ ins k v l2.
Proof.
  intros Hk L. induction l1 as [|[k' v'] l1 IH]; [reflexivity|].
  inversion L; subst. simpl in *. bcases k k'; try (exfalso; border).
  rewrite IH; auto.
Qed.

Lemma del_app_l k l1 l2 b :
  k <b b -> keys_ge l2 b -> del k (l1 ++ l2) = del k l1 ++ l2.
Proof.
  intros Hk G. induction l1 as [|[k' v'] l1 IH]; simpl.
  - destruct l2 as [|[k2 v2] l2]; [reflexivity|]. inversion G; subst. simpl in *.
    bcases k k2; try reflexivity; exfalso; border.
  - bcases k k'; try reflexivity. rewrite IH. reflexivity.
Qed.

Lemma del_app_r k l1 l2 b :
  b <=b k -> keys_lt l1 b -> del k (l1 ++ l2) = l1 ++ del k l2.
Proof.
  intros Hk L. induction l1 as [|[k' v'] l1 IH]; [reflexivity|].
  inversion L; subst. simpl in *. bcases k k'; try (exfalso; border).
  rewrite IH; auto.
Qed.

Lemma assoc_app_l k l1 l2 b : k <b b -> keys_ge l2 b -> assoc k (l1 ++ l2) = assoc k l1.
Proof.
  intros Hk G. induction l1 as [|[k' v'] l1 IH]; simpl.
  - induction l2 as [|[k2 v2] l2 IH2]; [reflexivity|]. inversion G; subst. simpl in *.
    destruct (beq k k2) eqn:E; btests; [exfalso; border | auto].
  - destruct (beq k k'); auto.
Qed.

Lemma assoc_app_r k l1 l2 b : b <=b k -> keys_lt l1 b -> assoc k (l1 ++ l2) = assoc k l2.
Proof.
  intros Hk L. induction l1 as [|[k' v'] l1 IH]; [reflexivity|].
  inversion L; subst. simpl in *. destruct (beq k k') eqn:E; btests; [exfalso; border | auto].
Qed.

Lemma elems_nonempty t : elems t <> [].
Proof.
  induction t as [|k h s m l IHl r IHr]; simpl; [congruence|].
  destruct (elems l); simpl; congruence.
Qed.

Lemma elems_min t : exists v rest, elems t = (min_key t, v) :: rest.
Proof.
  induction t as [k v m|k h s m l IHl r IHr]; simpl; [eauto|].
  destruct IHl as (v & rest & E). rewrite E. simpl. eauto.
Qed.

Lemma min_key_elems_eq t t' : elems t = elems t' -> min_key t = min_key t'.
Proof.
  intros E. destruct (elems_min t) as (v & r & E1). destruct (elems_min t') as (v' & r' & E2).
  congruence.
Qed.

Lemma wf_keys_lt k h s m l r : wf (Inner k h s m l r) -> keys_lt (elems l) k.
Proof. simpl. intros (_ & _ & Kl & _). apply keys_all_elems in Kl. exact Kl. Qed.
Lemma wf_keys_ge k h s m l r : wf (Inner k h s m l r) -> keys_ge (elems r) k.
Proof. simpl. intros (_ & _ & _ & Kr & _). apply keys_all_elems in Kr. exact Kr. Qed.

(** ** set refines sorted insertion *)
Lemma min_key_ins_ge t t' k v :
  min_key t <=b k -> elems t' = ins k v (elems t) -> min_key t' = min_key t.
Proof.
  intros Hk E. destruct (elems_min t) as (v0 & rest & E0). destruct (elems_min t') as (v1 & rest1 & E1).
  rewrite E0 in E. simpl in E. rewrite E1 in E.
  bcases k (min_key t); try (exfalso; border); congruence.
Qed.

Lemma set_leaf lk lv m k v :
  let t := Leaf lk lv m in
  wf (fst (set t k v)) /\
  elems (fst (set t k v)) = ins k v (elems t) /\
  snd (set t k v) = mem k (elems t) /\
  (snd (set t k v) = true -> height (fst (set t k v)) = height t /\ size (fst (set t k v)) = size t).
Proof.
  simpl. unfold mem. simpl. unfold beq. bcases k lk; simpl.
  - subst. repeat split; auto.
  - repeat split; auto; try border; try discriminate.
  - repeat split; auto; try border; try discriminate.
Qed.

Lemma set_spec t k v :
  wf t ->
  wf (fst (set t k v)) /\
  elems (fst (set t k v)) = ins k v (elems t) /\
  snd (set t k v) = mem k (elems t) /\
  (snd (set t k v) = true -> height (fst (set t k v)) = height t /\ size (fst (set t k v)) = size t).
Proof.
  induction t as [lk lv m | nk h s m l IHl r IHr]; intros W.
  - apply set_leaf.
  - pose proof (wf_keys_lt _ _ _ _ _ _ W) as KL. pose proof (wf_keys_ge _ _ _ _ _ _ W) as KG.
    simpl in W. destruct W as (Wl & Wr & Kl & Kr & Hk & Hh & Hs).
    simpl. destruct (blt k nk) eqn:C; btests.
    + destruct (IHl Wl) as (W1 & E1 & U1 & HS1). destruct (set l k v) as [l' upd]. simpl in *.
      assert (Kl' : keys_all (fun x => x <b nk) l').
      { apply keys_all_elems. rewrite E1. apply Forall_ins; auto; apply keys_all_elems; auto. }
      unfold mem in *. rewrite (assoc_app_l k _ _ nk C KG).
      destruct upd; simpl.
      * destruct (HS1 eq_refl) as [Eh Es]. rewrite Eh, Es.
        split; [simpl; intuition auto|split; [|split]]; auto.
        rewrite E1. symmetry. apply (ins_app_l k v _ _ nk C KG). apply elems_nonempty.
      * split; [|split; [|split]]; auto; try discriminate.
        -- apply wf_balance. apply wf_mk; auto.
        -- rewrite elems_balance, elems_mk, E1. symmetry. apply (ins_app_l k v _ _ nk C KG). apply elems_nonempty.
    + destruct (IHr Wr) as (W1 & E1 & U1 & HS1). destruct (set r k v) as [r' upd]. simpl in *.
      assert (Kr' : keys_all (fun x => nk <=b x) r').
      { apply keys_all_elems. rewrite E1. apply Forall_ins; auto; apply keys_all_elems; auto. }
      assert (Mk : min_key r' = nk).
      { rewrite Hk. eapply min_key_ins_ge; eauto. rewrite <- Hk. exact C. }
      unfold mem in *. rewrite (assoc_app_r k _ _ nk C KL).
      destruct upd; simpl.
      * destruct (HS1 eq_refl) as [Eh Es]. rewrite Eh, Es.
        split; [simpl; intuition auto|split; [|split]]; auto.
        rewrite E1. symmetry. apply (ins_app_r k v _ _ nk C KL).
      * split; [|split; [|split]]; auto; try discriminate.
        -- apply wf_balance. apply wf_mk; auto.
        -- rewrite elems_balance, elems_mk, E1. symmetry. apply (ins_app_r k v _ _ nk C KL).
Qed.
(** ** AVL balance *)
(** [balance] on an almost balanced node (children AVL, |delta| <= 2): result AVL, height
    within [max, max+1], and nothing changes when |delta| <= 1. *)
Lemma avl_mk k l r : avl l -> avl r -> -1 <= height l - height r <= 1 -> avl (mk k l r).
Proof. unfold mk; simpl; auto. Qed.

Lemma balance_mk k l r :
  balance (mk k l r) =
    if 1 <? height l - height r then
      (if 0 <=? bal_of l then rotR (mk k l r)
       else rotR (Inner k (Z.max (height l) (height r) + 1) (size l + size r) new_meta (rotL l) r))
    else if height l - height r <? -1 then
      (if bal_of r <=? 0 then rotL (mk k l r)
       else rotL (Inner k (Z.max (height l) (height r) + 1) (size l + size r) new_meta l (rotR r)))
    else mk k l r.
Proof. reflexivity. Qed.

Lemma rotR_mk k lk lh ls lm ll lr r : rotR (mk k (Inner lk lh ls lm ll lr) r) = mk lk ll (mk k lr r).
Proof. reflexivity. Qed.
Lemma rotL_mk k l rk rh rs rm rl rr : rotL (mk k l (Inner rk rh rs rm rl rr)) = mk rk (mk k l rl) rr.
Proof. reflexivity. Qed.

Lemma rotR_in_mk k h s m lk ll lr r : rotR (Inner k h s m (mk lk ll lr) r) = mk lk ll (mk k lr r).
Proof. reflexivity. Qed.
Lemma rotL_in_mk k h s m l rk rl rr : rotL (Inner k h s m l (mk rk rl rr)) = mk rk (mk k l rl) rr.
Proof. reflexivity. Qed.

Lemma balance_avl k l r :
  wf l -> wf r -> avl l -> avl r -> -2 <= height l - height r <= 2 ->
  avl (balance (mk k l r)) /\
  Z.max (height l) (height r) <= height (balance (mk k l r)) <= Z.max (height l) (height r) + 1 /\
  (-1 <= height l - height r <= 1 -> balance (mk k l r) = mk k l r).
Proof.
  intros Wl Wr Al Ar D. rewrite balance_mk.
  destruct (1 <? height l - height r) eqn:C1.
  - apply Z.ltb_lt in C1.
    destruct l as [lk lv lm|lk lh ls lm ll lr]; [cbn [height] in *; pose proof (height_nonneg _ Wr); lia|].
    cbn [wf] in Wl. destruct Wl as (Wll & Wlr & _ & _ & _ & Hlh & _).
    cbn [avl] in Al. destruct Al as (All & Alr & Dl). cbn [height] in C1, D.
    pose proof (height_nonneg _ Wll). pose proof (height_nonneg _ Wlr). pose proof (height_nonneg _ Wr).
    cbn [bal_of]. destruct (0 <=? height ll - height lr) eqn:C2.
    + apply Z.leb_le in C2. rewrite rotR_mk.
      unfold mk; cbn [avl height]. repeat split; auto; lia.
    + apply Z.leb_gt in C2.
      destruct lr as [rk rv rm|rk rh rs rm rl rr]; [cbn [height] in *; lia|].
      cbn [wf] in Wlr. destruct Wlr as (Wrl & Wrr & _ & _ & _ & Hrh & _).
      cbn [avl] in Alr. destruct Alr as (Arl & Arr & Dr). cbn [height] in *.
      pose proof (height_nonneg _ Wrl). pose proof (height_nonneg _ Wrr).
      rewrite rotL_eq, rotR_in_mk.
      unfold mk; cbn [avl height]. repeat split; auto; lia.
  - apply Z.ltb_ge in C1. destruct (height l - height r <? -1) eqn:C3.
    + apply Z.ltb_lt in C3.
      destruct r as [rk rv rm|rk rh rs rm rl rr]; [cbn [height] in *; pose proof (height_nonneg _ Wl); lia|].
      cbn [wf] in Wr. destruct Wr as (Wrl & Wrr & _ & _ & _ & Hrh & _).
      cbn [avl] in Ar. destruct Ar as (Arl & Arr & Dr). cbn [height] in C3, D.
      pose proof (height_nonneg _ Wrl). pose proof (height_nonneg _ Wrr). pose proof (height_nonneg _ Wl).
      cbn [bal_of]. destruct (height rl - height rr <=? 0) eqn:C2.
      * apply Z.leb_le in C2. rewrite rotL_mk.
        unfold mk; cbn [avl height]. repeat split; auto; lia.
      * apply Z.leb_gt in C2.
        destruct rl as [lk lv lm|lk lh ls lm ll lr]; [cbn [height] in *; lia|].
        cbn [wf] in Wrl. destruct Wrl as (Wll & Wlr & _ & _ & _ & Hlh & _).
        cbn [avl] in Arl. destruct Arl as (All & Alr & Dl). cbn [height] in *.
        pose proof (height_nonneg _ Wll). pose proof (height_nonneg _ Wlr).
        rewrite rotR_eq, rotL_in_mk.
        unfold mk; cbn [avl height]. repeat split; auto; lia.
    + apply Z.ltb_ge in C3. unfold mk; cbn [avl height]. repeat split; auto; lia.
Qed.

Lemma set_avl t k v :
  wf t -> avl t ->
  avl (fst (set t k v)) /\ height t <= height (fst (set t k v)) <= height t + 1.
Proof.
  induction t as [lk lv m | nk h s m l IHl r IHr]; intros W A.
  - cbn [set]. destruct (bcmp k lk); cbn [fst avl height]; repeat split; auto; lia.
  - cbn [wf] in W. destruct W as (Wl & Wr & Kl & Kr & Hk & Hh & Hs).
    cbn [avl] in A. destruct A as (Al & Ar & D).
    pose proof (height_nonneg _ Wl). pose proof (height_nonneg _ Wr).
    cbn [set]. destruct (blt k nk).
    + destruct (IHl Wl Al) as (A1 & E1).
      destruct (set_spec l k v Wl) as (W1 & _ & _ & HS1).
      destruct (set l k v) as [l' upd]. cbn [fst snd] in *.
      destruct upd; cbn [fst].
      * destruct (HS1 eq_refl) as [Eh Es]. cbn [avl height]. rewrite Eh. repeat split; auto; lia.
      * assert (D' : -2 <= height l' - height r <= 2) by lia.
        destruct (balance_avl nk l' r W1 Wr A1 Ar D') as (A2 & E2 & I2).
        split; auto. cbn [height].
        destruct (Z_le_gt_dec (height l' - height r) 1) as [Le|Gt].
        -- rewrite I2 by lia. rewrite height_mk. lia.
        -- lia.
    + destruct (IHr Wr Ar) as (A1 & E1).
      destruct (set_spec r k v Wr) as (W1 & _ & _ & HS1).
      destruct (set r k v) as [r' upd]. cbn [fst snd] in *.
      destruct upd; cbn [fst].
      * destruct (HS1 eq_refl) as [Eh Es]. cbn [avl height]. rewrite Eh. repeat split; auto; lia.
      * assert (D' : -2 <= height l - height r' <= 2) by lia.
        destruct (balance_avl nk l r' Wl W1 Al A1 D') as (A2 & E2 & I2).
        split; auto. cbn [height].
        destruct (Z_le_gt_dec (-1) (height l - height r')) as [Le|Gt].
        -- rewrite I2 by lia. rewrite height_mk. lia.
        -- lia.
Qed.

(** ** remove refines sorted deletion *)
Lemma min_key_del_gt t t' k :
  min_key t <b k -> elems t' = del k (elems t) -> min_key t' = min_key t.
Proof.
  intros Hk E. destruct (elems_min t) as (v0 & rest & E0). destruct (elems_min t') as (v1 & rest1 & E1).
  rewrite E0 in E. simpl in E. rewrite E1 in E.
  bcases k (min_key t); try (exfalso; border); congruence.
Qed.

Lemma min_key_of_head t k0 v rest : elems t = (k0, v) :: rest -> min_key t = k0.
Proof. intros E. destruct (elems_min t) as (v' & r' & E'). congruence. Qed.

Lemma min_key_least t : wf t -> keys_all (fun x => min_key t <=b x) t.
Proof.
  induction t as [k v m|k h s m l IHl r IHr]; cbn [wf keys_all min_key]; [intros; border|].
  intros (Wl & Wr & Kl & Kr & Hk & _). split; auto.
  assert (min_key l <b k) by (apply (min_key_all _ _ Kl)).
  eapply keys_all_impl; [|exact Kr]. intros; border.
Qed.

Definition rm_post (t : node) (k : bytes) (res : rm_res) : Prop :=
  match rm_val res with
  | None => assoc k (elems t) = None
  | Some v =>
      assoc k (elems t) = Some v /\
      match rm_self res with
      | None => (exists m, t = Leaf k v m) /\ rm_key res = None
      | Some t' =>
          wf t' /\ avl t' /\ elems t' = del k (elems t) /\
          height t - 1 <= height t' <= height t /\
          rm_key res = (if beq k (min_key t) then Some (min_key t') else None)
      end
  end.

Lemma remove_spec t k : wf t -> avl t -> rm_post t k (remove t k).
Proof.
  induction t as [lk lv m | nk h s m l IHl r IHr]; intros W A.
  - unfold rm_post. cbn [remove elems assoc]. destruct (beq k lk) eqn:E; cbn [rm_val rm_self rm_key]; auto.
    btests. subst. split; auto. split; eauto.
  - pose proof (wf_keys_lt _ _ _ _ _ _ W) as KL. pose proof (wf_keys_ge _ _ _ _ _ _ W) as KG.
    cbn [wf] in W. destruct W as (Wl & Wr & Kl & Kr & Hk & Hh & Hs).
    cbn [avl] in A. destruct A as (Al & Ar & D).
    pose proof (height_nonneg _ Wl) as Hl0. pose proof (height_nonneg _ Wr) as Hr0.
    assert (Mlt : min_key l <b nk) by (apply (min_key_all _ _ Kl)).
    cbn [remove]. destruct (blt k nk) eqn:C; btests.
    + specialize (IHl Wl Al). unfold rm_post in IHl |- *.
      cbn [elems min_key]. rewrite (assoc_app_l k _ _ nk C KG).
      revert IHl. destruct (rm_val (remove l k)) as [val|] eqn:EV; intros IHl; [|simpl; exact IHl].
      destruct IHl as (As & IH).
      revert IH. destruct (rm_self (remove l k)) as [l'|] eqn:ES; intros IH; cbn [rm_val rm_self rm_key]; (split; [exact As|]).
      * destruct IH as (W1 & A1 & E1 & HE & KE).
        assert (Kl' : keys_all (fun x => x <b nk) l').
        { apply keys_all_elems. rewrite E1. apply Forall_del. exact KL. }
        assert (D' : -2 <= height l' - height r <= 2) by lia.
        destruct (balance_avl nk l' r W1 Wr A1 Ar D') as (A2 & E2 & I2).
        split; [apply wf_balance, wf_mk; auto|]. split; auto.
        split; [rewrite elems_balance, elems_mk, E1; symmetry; apply (del_app_l k _ _ nk C KG)|].
        split.
        -- cbn [height]. destruct (Z_le_gt_dec (-1) (height l' - height r)) as [Le|Gt].
           ++ rewrite I2 by lia. rewrite height_mk. lia.
           ++ lia.
        -- rewrite KE. destruct (beq k (min_key l)); auto. f_equal.
           destruct (elems_min l') as (v1 & rest1 & E1').
           symmetry. eapply min_key_of_head. rewrite elems_balance, elems_mk, E1'. reflexivity.
      * destruct IH as ((m0 & ->) & KE). cbn [height min_key] in *.
        unfold beq. rewrite bcmp_refl. 
        split; auto. split; auto. cbn [elems]. cbn [app del]. rewrite bcmp_refl.
        split; auto. split; [lia|]. f_equal. exact Hk.
    + specialize (IHr Wr Ar). unfold rm_post in IHr |- *.
      cbn [elems min_key]. rewrite (assoc_app_r k _ _ nk C KL).
      revert IHr. destruct (rm_val (remove r k)) as [val|] eqn:EV; intros IHr; [|simpl; exact IHr].
      destruct IHr as (As & IH).
      assert (NE : beq k (min_key l) = false) by (apply beq_false; intro; subst; border).
      rewrite NE.
      revert IH. destruct (rm_self (remove r k)) as [r'|] eqn:ES; intros IH; cbn [rm_val rm_self rm_key]; (split; [exact As|]).
      * destruct IH as (W1 & A1 & E1 & HE & KE).
        assert (Kr' : keys_all (fun x => nk <=b x) r').
        { apply keys_all_elems. rewrite E1. apply Forall_del. exact KG. }
        set (nk' := match rm_key (remove r k) with Some k' => k' | None => nk end).
        assert (Mk : nk' = min_key r').
        { unfold nk'. rewrite KE. destruct (beq k (min_key r)) eqn:B; auto. btests.
          symmetry. rewrite Hk. eapply min_key_del_gt; eauto. rewrite <- Hk. border. }
        assert (Hge : nk <=b nk') by (rewrite Mk; apply (min_key_all _ _ Kr')).
        assert (D' : -2 <= height l - height r' <= 2) by lia.
        destruct (balance_avl nk' l r' Wl W1 Al A1 D') as (A2 & E2 & I2).
        split.
        { apply wf_balance, wf_mk; auto.
          - eapply keys_all_impl; [|exact Kl]. intros; border.
          - rewrite Mk. apply min_key_least; auto. }
        split; auto.
        split; [rewrite elems_balance, elems_mk, E1; symmetry; apply (del_app_r k _ _ nk C KL)|].
        split; auto.
        cbn [height]. destruct (Z_le_gt_dec (height l - height r') 1) as [Le|Gt].
        -- rewrite I2 by lia. rewrite height_mk. lia.
        -- lia.
      * destruct IH as ((m0 & ->) & KE). cbn [height min_key elems] in *. subst nk.
        split; auto. split; auto.
        split. { rewrite (del_app_r k _ _ k C KL). cbn [del]. rewrite bcmp_refl. rewrite app_nil_r. reflexivity. }
        split; [lia|reflexivity].
Qed.
(** ** Lookups *)
Lemma rank_app k l1 l2 : rank k (l1 ++ l2) = rank k l1 + rank k l2.
Proof. unfold rank. rewrite filter_app, app_length, Nat2Z.inj_add. reflexivity. Qed.

Lemma rank_all_lt k l : Forall (fun p => fst p <b k) l -> rank k l = Z.of_nat (length l).
Proof.
  unfold rank. induction l as [|p l IH]; intros F; [reflexivity|]. inversion F; subst.
  cbn [filter]. replace (blt (fst p) k) with true by (symmetry; apply blt_true; auto).
  cbn [length]. rewrite !Nat2Z.inj_succ. rewrite IH; auto.
Qed.

Lemma rank_all_ge k l : Forall (fun p => k <=b fst p) l -> rank k l = 0.
Proof.
  unfold rank. induction l as [|p l IH]; intros F; [reflexivity|]. inversion F; subst.
  cbn [filter]. replace (blt (fst p) k) with false by (symmetry; apply blt_false; auto).
  apply IH; auto.
Qed.

Lemma get_spec t k :
  wf t -> get t k = (rank k (elems t), assoc k (elems t)).
Proof.
  induction t as [lk lv m | nk h s m l IHl r IHr]; intros W.
  - cbn [get elems assoc]. unfold rank. cbn [filter fst]. unfold beq, blt.
    rewrite (bcmp_antisym lk k). destruct (bcmp lk k); reflexivity.
  - pose proof (wf_keys_lt _ _ _ _ _ _ W) as KL. pose proof (wf_keys_ge _ _ _ _ _ _ W) as KG.
    cbn [wf] in W. destruct W as (Wl & Wr & Kl & Kr & Hk & Hh & Hs).
    cbn [get elems]. rewrite rank_app. destruct (blt k nk) eqn:C; btests.
    + rewrite (IHl Wl). rewrite (assoc_app_l k _ _ nk C KG).
      rewrite (rank_all_ge k (elems r)); [f_equal; lia|].
      eapply Forall_impl; [|exact KG]. intros; border.
    + rewrite (IHr Wr). rewrite (assoc_app_r k _ _ nk C KL).
      rewrite (rank_all_lt k (elems l)); [|eapply Forall_impl; [|exact KL]; intros; border].
      rewrite Hs, <- (size_elems l Wl). f_equal. lia.
Qed.

Lemma mem_app_l k l1 l2 b : k <b b -> keys_ge l2 b -> mem k (l1 ++ l2) = mem k l1.
Proof. intros. unfold mem. erewrite assoc_app_l; eauto. Qed.
Lemma mem_app_r k l1 l2 b : b <=b k -> keys_lt l1 b -> mem k (l1 ++ l2) = mem k l2.
Proof. intros. unfold mem. erewrite assoc_app_r; eauto. Qed.

Lemma mem_min_key t : mem (min_key t) (elems t) = true.
Proof.
  destruct (elems_min t) as (v & rest & E). rewrite E. unfold mem. cbn [assoc].
  unfold beq. rewrite bcmp_refl. reflexivity.
Qed.

Lemma has_spec t k : wf t -> has t k = mem k (elems t).
Proof.
  induction t as [lk lv m | nk h s m l IHl r IHr]; intros W.
  - cbn [has nkey elems]. unfold mem. cbn [assoc]. unfold beq. rewrite (bcmp_antisym lk k).
    destruct (bcmp lk k); reflexivity.
  - pose proof (wf_keys_lt _ _ _ _ _ _ W) as KL. pose proof (wf_keys_ge _ _ _ _ _ _ W) as KG.
    cbn [wf] in W. destruct W as (Wl & Wr & Kl & Kr & Hk & Hh & Hs).
    cbn [has nkey elems]. destruct (beq nk k) eqn:B; btests.
    + subst k. symmetry. rewrite (mem_app_r nk _ _ nk); auto; [|border].
      rewrite Hk. apply mem_min_key.
    + destruct (blt k nk) eqn:C; btests.
      * rewrite (IHl Wl). symmetry. eapply mem_app_l; eauto.
      * rewrite (IHr Wr). symmetry. eapply mem_app_r; eauto.
Qed.

Lemma get_by_index_spec t i :
  wf t -> get_by_index t i = if i <? 0 then None else nth_error (elems t) (Z.to_nat i).
Proof.
  revert i. induction t as [lk lv m | nk h s m l IHl r IHr]; intros i W.
  - cbn [get_by_index elems]. destruct (i =? 0) eqn:E.
    + apply Z.eqb_eq in E. subst. reflexivity.
    + apply Z.eqb_neq in E. destruct (i <? 0) eqn:N; [reflexivity|]. apply Z.ltb_ge in N.
      destruct (Z.to_nat i) eqn:T; [lia|]. destruct n; reflexivity.
  - cbn [wf] in W. destruct W as (Wl & Wr & Kl & Kr & Hk & Hh & Hs).
    cbn [get_by_index elems]. pose proof (size_elems l Wl) as SL. pose proof (size_pos l Wl).
    destruct (i <? size l) eqn:C.
    + apply Z.ltb_lt in C. rewrite (IHl i Wl). destruct (i <? 0) eqn:N; [reflexivity|]. apply Z.ltb_ge in N.
      rewrite nth_error_app1; [reflexivity|lia].
    + apply Z.ltb_ge in C. rewrite (IHr (i - size l) Wr).
      replace (i <? 0) with false by (symmetry; apply Z.ltb_ge; lia).
      replace (i - size l <? 0) with false by (symmetry; apply Z.ltb_ge; lia).
      rewrite nth_error_app2 by lia. f_equal. lia.
Qed.
(** ** Sortedness of the leaf sequence *)
Lemma sorted_app l1 l2 b : sorted l1 -> sorted l2 -> keys_lt l1 b -> keys_ge l2 b -> sorted (l1 ++ l2).
Proof.
  intros S1 S2 L G. induction l1 as [|[k v] l1 IH]; [exact S2|].
  cbn [app sorted] in *. destruct S1 as [F S1]. inversion L; subst. cbn [fst] in *.
  split; [|apply IH; auto].
  apply Forall_app. split; auto.
  eapply Forall_impl; [|exact G]. intros; border.
Qed.

Lemma wf_sorted t : wf t -> sorted (elems t).
Proof.
  induction t as [lk lv m | nk h s m l IHl r IHr]; intros W.
  - cbn. auto.
  - pose proof (wf_keys_lt _ _ _ _ _ _ W) as KL. pose proof (wf_keys_ge _ _ _ _ _ _ W) as KG.
    cbn [wf] in W. destruct W as (Wl & Wr & _).
    cbn [elems]. eapply sorted_app; eauto.
Qed.

Lemma sorted_nth_rank l i k v :
  sorted l -> nth_error l i = Some (k, v) -> assoc k l = Some v /\ rank k l = Z.of_nat i.
Proof.
  revert i. induction l as [|[k' v'] l IH]; intros i S E.
  - destruct i; discriminate.
  - cbn [sorted] in S. destruct S as [F S]. destruct i as [|i]; cbn [nth_error] in E.
    + inversion E; subst. cbn [assoc]. unfold beq. rewrite bcmp_refl. split; auto.
      change ((k, v) :: l) with ([(k, v)] ++ l). rewrite rank_app.
      rewrite (rank_all_ge k l); [|eapply Forall_impl; [|exact F]; intros; border].
      unfold rank. cbn [filter fst]. replace (blt k k) with false by (symmetry; apply blt_false; border).
      reflexivity.
    + destruct (IH i S E) as [A R]. 
      assert (k' <b k).
      { apply nth_error_In in E. rewrite Forall_forall in F. apply (F _ E). }
      cbn [assoc]. replace (beq k k') with false by (symmetry; apply beq_false; intro; subst; border).
      split; auto.
      change ((k', v') :: l) with ([(k', v')] ++ l). rewrite rank_app, R.
      unfold rank. cbn [filter fst]. replace (blt k' k) with true by (symmetry; apply blt_true; auto).
      cbn [length]. lia.
Qed.

Lemma sorted_assoc_nth l k v :
  sorted l -> assoc k l = Some v -> nth_error l (Z.to_nat (rank k l)) = Some (k, v).
Proof.
  induction l as [|[k' v'] l IH]; intros Hs A; [discriminate|].
  cbn [sorted] in Hs. destruct Hs as [F Hs]. cbn [assoc] in A.
  change ((k', v') :: l) with ([(k', v')] ++ l). rewrite rank_app.
  destruct (beq k k') eqn:B; btests.
  - inversion A; subst.
    rewrite (rank_all_ge k' l); [|eapply Forall_impl; [|exact F]; intros; border].
    unfold rank. cbn [filter fst]. replace (blt k' k') with false by (symmetry; apply blt_false; border).
    reflexivity.
  - assert (k' <b k).
    { clear IH. induction l as [|[k2 v2] l IHl]; [discriminate|].
      inversion F; subst. cbn [assoc fst] in *. destruct (beq k k2) eqn:B2; btests.
      - subst; auto.
      - apply IHl; auto. cbn [sorted] in Hs. tauto. }
    unfold rank at 1. cbn [filter fst]. replace (blt k' k) with true by (symmetry; apply blt_true; auto).
    cbn [length]. specialize (IH Hs A).
    replace (Z.to_nat (Z.of_nat 1 + rank k l)) with (S (Z.to_nat (rank k l))).
    + exact IH.
    + unfold rank. lia.
Qed.

(** ** The Fibonacci (AVL) size bound *)
Fixpoint fib (n : nat) : Z :=
  match n with
  | O => 0
  | S n' => match n' with O => 1 | S n'' => fib n' + fib n'' end
  end.

Lemma fib_SS n : fib (S (S n)) = fib (S n) + fib n.
Proof. reflexivity. Qed.

Lemma fib_nonneg n : 0 <= fib n /\ 0 <= fib (S n).
Proof. induction n as [|n [IH1 IH2]]; [cbn; lia|]. rewrite fib_SS. lia. Qed.

Lemma fib_mono n : fib (S n) <= fib (S (S n)).
Proof. rewrite fib_SS. destruct (fib_nonneg n). lia. Qed.

Lemma avl_fib t : wf t -> avl t -> fib (Z.to_nat (height t) + 2) <= size t.
Proof.
  induction t as [lk lv m | nk h s m l IHl r IHr]; intros W A.
  - cbn. lia.
  - cbn [wf] in W. destruct W as (Wl & Wr & _ & _ & _ & Hh & Hs).
    cbn [avl] in A. destruct A as (Al & Ar & D).
    specialize (IHl Wl Al). specialize (IHr Wr Ar).
    pose proof (height_nonneg _ Wl) as Hl0. pose proof (height_nonneg _ Wr) as Hr0.
    cbn [height size]. subst h s.
    set (a := Z.to_nat (height l)) in *. set (b := Z.to_nat (height r)) in *.
    assert (E : Z.to_nat (Z.max (height l) (height r) + 1) = S (Nat.max a b)) by (unfold a, b; lia).
    rewrite E. replace (S (Nat.max a b) + 2)%nat with (S (S (S (Nat.max a b)))) by lia.
    rewrite fib_SS.
    assert (Dab : (a = b \/ a = S b \/ b = S a)%nat) by (unfold a, b; lia).
    replace (a + 2)%nat with (S (S a)) in IHl by lia. replace (b + 2)%nat with (S (S b)) in IHr by lia.
    destruct Dab as [->|[->| ->]].
    + rewrite Nat.max_id. pose proof (fib_mono b). lia.
    + replace (Nat.max (S b) b) with (S b) by lia. lia.
    + replace (Nat.max a (S a)) with (S a) by lia. lia.
Qed.
