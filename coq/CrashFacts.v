(** Proofs about crash images and recovery (Crash.v): property C05.

    - Segmentations and prefixes are the same thing ([chunk_image_prefix],
      [prefix_is_chunk_image]); an operation written as one chunk has only the images old / new
      ([single_batch_atomic]).
    - [recover] reads only the node store and the label ([recover_flag]).
    - Commit ([commit_prefix_classification]): a cut before the first node write leaves the old
      node store (the fast index / label may be ahead); a cut after the last write gives the new
      store; EVERY cut in between is unrecoverable (the new nodes make their version the latest,
      its root entry is written last).  [commit_split_refuted]: such a cut exists for every commit
      with at least two new nodes.  [indexahead_refuted]: a cut inside the fast-index writes
      leaves an index that is ahead of the tree and is NOT flagged for rebuild.
    - Rollback ([rollback_prefix_classification]): cut at 0 = old, cut after the last delete =
      new, every cut in between is a store that is neither; the latest version found is still the
      old latest one, and reopening fails as soon as its root key is among the deleted keys --
      always, when a single version is rolled back ([rollback_one_version_split]); otherwise
      reopening can succeed on a mixture ([rollback_split_refuted]).
    - Deleting old versions at specification level: every cut leaves all retained entries in
      place ([StoreFacts.drop_prefix_safe]). *)
From Coq Require Import Lia.
From IAVL Require Import Bytes Varint Sha256 Tree VMap TreeFacts MTree MTreeFacts HashFacts VersionFacts
  Store StoreFacts Crash.
Local Open Scope Z_scope.

(** ** Segmentations *)
Lemma chunk_prefix {A} (chunks : list (list A)) : forall i,
  exists j, concat (firstn i chunks) = firstn j (concat chunks).
Proof.
  induction chunks as [|c cs IH]; intros i.
  - exists 0%nat. destruct i; reflexivity.
  - destruct i as [|i]; [exists 0%nat; reflexivity|].
    destruct (IH i) as [j E]. exists (length c + j)%nat.
    cbn [firstn concat]. rewrite E, firstn_app_2. reflexivity.
Qed.

(** every crash image of every segmentation is the image of a prefix *)
Theorem chunk_image_prefix d chunks i :
  exists j, chunk_image d chunks i = image d (concat chunks) j.
Proof. destruct (chunk_prefix chunks i) as [j E]. exists j. unfold chunk_image, image. rewrite E. reflexivity. Qed.

(** every proper prefix is the crash image of a segmentation into non-empty chunks *)
Theorem prefix_is_chunk_image d (ops : list wop) j :
  (0 < j < length ops)%nat ->
  exists chunks, concat chunks = ops /\ Forall (fun c => c <> []) chunks /\
                 chunk_image d chunks 1 = image d ops j.
Proof.
  intros R. exists [firstn j ops; skipn j ops]. split; [|split].
  - cbn [concat]. rewrite app_nil_r. apply firstn_skipn.
  - constructor; [|constructor; [|constructor]].
    + intros E. apply (f_equal (@length wop)) in E. rewrite firstn_length in E. cbn in E. lia.
    + intros E. apply (f_equal (@length wop)) in E. rewrite skipn_length in E. cbn in E. lia.
  - unfold chunk_image, image. cbn [firstn concat]. rewrite app_nil_r. reflexivity.
Qed.

(** an operation that reaches the database as ONE batch is atomic *)
Theorem single_batch_atomic d ops i :
  chunk_image d [ops] i = d \/ chunk_image d [ops] i = apply_ops d ops.
Proof.
  unfold chunk_image. destruct i as [|i]; [left; reflexivity|right].
  cbn [firstn]. destruct i; cbn [firstn concat]; rewrite app_nil_r; reflexivity.
Qed.

Lemma firstn_app_le {A} (a b : list A) i : (i <= length a)%nat -> firstn i (a ++ b) = firstn i a.
Proof.
  intros L. rewrite firstn_app. replace (i - length a)%nat with 0%nat by lia.
  cbn [firstn]. apply app_nil_r.
Qed.

Lemma firstn_app_ge {A} (a b : list A) i :
  (length a <= i)%nat -> firstn i (a ++ b) = a ++ firstn (i - length a) b.
Proof. intros L. rewrite firstn_app, (firstn_all2 a L). reflexivity. Qed.

(** ** Recovery reads the node store and the label only *)
Theorem recover_flag iv d d' :
  nodes d' = nodes d ->
  recover iv d' = set_rebuild (recover iv d) (needs_rebuild (label d') (store_latest (nodes d))).
Proof.
  intros E. unfold recover. rewrite E. cbv zeta.
  destruct (first_search search_fuel _ 0 (store_latest (nodes d))) as [first|]; [|reflexivity].
  destruct ((0 <? first) && (first <? iv)); [reflexivity|].
  destruct (store_latest (nodes d) <=? 0) eqn:L0.
  - apply Z.leb_le in L0. pose proof (store_latest_nonneg (nodes d)).
    replace (store_latest (nodes d)) with 0 by lia. reflexivity.
  - destruct (negb (first <=? store_latest (nodes d))); [reflexivity|].
    destruct (get_root (nodes d) (store_latest (nodes d))) as [| |k]; try reflexivity.
    destruct (get_node (nodes d) k); reflexivity.
Qed.

Corollary recover_same iv d d' :
  nodes d' = nodes d -> label d' = label d -> recover iv d' = recover iv d.
Proof.
  intros E1 E2. unfold recover. rewrite E1, E2. reflexivity.
Qed.

(** the three ways reopening fails before it has a root *)
Definition unrecoverable (r : recovered) : Prop :=
  r = RErr ErrFuel \/ r = RErr ErrInitialVersion \/ r = RErr ErrVersionDoesNotExist.

Lemma unrecoverable_is_err r : unrecoverable r -> is_err r = true.
Proof. intros [->|[->| ->]]; reflexivity. Qed.

(** the highest version found has no root entry: reopening fails *)
Lemma recover_root_missing iv d :
  0 < store_latest (nodes d) ->
  mfind kcmp (store_latest (nodes d), 1) (nodes d) = None ->
  unrecoverable (recover iv d).
Proof.
  intros P M. unfold recover, unrecoverable. cbv zeta.
  destruct (first_search search_fuel _ 0 (store_latest (nodes d))) as [first|]; [|auto].
  destruct ((0 <? first) && (first <? iv)); [auto|].
  replace (store_latest (nodes d) <=? 0) with false by (symmetry; apply Z.leb_gt; exact P).
  destruct (negb (first <=? store_latest (nodes d))); [auto|].
  unfold get_root. rewrite M. auto.
Qed.

(** the search always terminates within the fuel for versions below 2^64 *)
Lemma first_search_ok has fuel : forall lo hi,
  0 <= lo <= hi -> hi - lo < 2 ^ Z.of_nat fuel ->
  exists r, first_search fuel has lo hi = Some r /\ lo <= r <= hi.
Proof.
  induction fuel as [|fuel IH]; intros lo hi R B.
  - cbn [first_search]. change (2 ^ Z.of_nat 0) with 1 in B.
    replace (lo <? hi) with false by (symmetry; apply Z.ltb_ge; lia). exists hi. split; [reflexivity|lia].
  - cbn [first_search]. destruct (lo <? hi) eqn:C.
    2:{ exists hi. split; [reflexivity|lia]. }
    apply Z.ltb_lt in C. rewrite Nat2Z.inj_succ, Z.pow_succ_r in B by lia.
    assert (M : lo <= Z.shiftr (hi + lo) 1 < hi).
    { rewrite Z.shiftr_div_pow2 by lia. change (2 ^ 1) with 2.
      pose proof (Z.div_mod (hi + lo) 2 ltac:(lia)). pose proof (Z.mod_pos_bound (hi + lo) 2 ltac:(lia)). lia. }
    assert (M2 : 2 * Z.shiftr (hi + lo) 1 <= hi + lo < 2 * Z.shiftr (hi + lo) 1 + 2).
    { rewrite Z.shiftr_div_pow2 by lia. change (2 ^ 1) with 2.
      pose proof (Z.div_mod (hi + lo) 2 ltac:(lia)). pose proof (Z.mod_pos_bound (hi + lo) 2 ltac:(lia)). lia. }
    destruct (has (Z.shiftr (hi + lo) 1)).
    + destruct (IH lo (Z.shiftr (hi + lo) 1)) as (r & E & Rr); [lia|lia|].
      exists r. split; [exact E|lia].
    + destruct (IH (Z.shiftr (hi + lo) 1 + 1) hi) as (r & E & Rr); [lia|lia|].
      exists r. split; [exact E|lia].
Qed.

Lemma recover_no_fuel_error iv d :
  store_latest (nodes d) < 2 ^ 64 -> recover iv d <> RErr ErrFuel.
Proof.
  intros B. unfold recover. cbv zeta.
  destruct (first_search_ok (fun v => mhas kcmp (v, 1) (nodes d)) search_fuel 0 (store_latest (nodes d)))
    as (r & E & _).
  - pose proof (store_latest_nonneg (nodes d)). lia.
  - unfold search_fuel. change (Z.of_nat 64) with 64. lia.
  - rewrite E. destruct ((0 <? r) && (r <? iv)); [discriminate|].
    destruct (store_latest (nodes d) <=? 0); [discriminate|].
    destruct (negb (r <=? store_latest (nodes d))); [discriminate|].
    destruct (get_root (nodes d) (store_latest (nodes d))) as [| |k]; try discriminate.
    destruct (get_node (nodes d) k); discriminate.
Qed.

Lemma first_search_range has fuel : forall lo hi r,
  lo <= hi -> first_search fuel has lo hi = Some r -> lo <= r <= hi.
Proof.
  induction fuel as [|fuel IH]; intros lo hi r R; cbn [first_search].
  - destruct (lo <? hi); [discriminate|]. intros E. inversion E. lia.
  - destruct (lo <? hi) eqn:C; [|intros E; inversion E; lia].
    apply Z.ltb_lt in C.
    assert (M : 2 * Z.shiftr (hi + lo) 1 <= hi + lo < 2 * Z.shiftr (hi + lo) 1 + 2).
    { rewrite Z.shiftr_div_pow2 by lia. change (2 ^ 1) with 2.
      pose proof (Z.div_mod (hi + lo) 2 ltac:(lia)). pose proof (Z.mod_pos_bound (hi + lo) 2 ltac:(lia)). lia. }
    destruct (has (Z.shiftr (hi + lo) 1)); intros E; apply IH in E; lia.
Qed.

(** ** Reopening a consistent store *)
Definition root_key_of (r : option node) : option nodekey :=
  match r with None => None | Some t => Some (node_key t) end.

Theorem recover_expected iv f ivf d r :
  forest_inv f -> forest_ok f ivf -> NoDup (map fst f) -> In (latest_of f, r) f ->
  nodes d = expected_store f ->
  recover iv d = RErr ErrFuel \/ recover iv d = RErr ErrInitialVersion \/
  exists first, 0 <= first <= latest_of f /\
    recover iv d = ROk (latest_of f) first (root_key_of r) (needs_rebuild (label d) (latest_of f)).
Proof.
  intros FI OK ND HI E.
  assert (NE : f <> []) by (intros C; subst f; contradiction).
  pose proof (store_latest_expected f ivf FI OK ND NE) as SL.
  destruct (forest_ok_range f ivf OK NE) as (R1 & _).
  unfold recover. rewrite E, SL. cbv zeta.
  destruct (first_search search_fuel _ 0 (latest_of f)) as [first|] eqn:FS; [|auto].
  apply first_search_range in FS; [|lia].
  destruct ((0 <? first) && (first <? iv)); [auto|]. right. right. exists first. split; [exact FS|].
  replace (latest_of f <=? 0) with false by (symmetry; apply Z.leb_gt; lia).
  replace (first <=? latest_of f) with true by (symmetry; apply Z.leb_le; lia). cbn [negb].
  destruct (expected_has_root f _ r FI ND HI) as (e & Fe & Ce).
  unfold get_root. rewrite Fe. destruct r as [t|].
  - assert (St : sub_of f t) by (exists (latest_of f), t; split; [exact HI|apply sub_refl]).
    pose proof (expected_has_node f t FI ND St) as Ft.
    destruct (keqb (node_key t) (latest_of f, 1)) eqn:K; subst e.
    + apply keqb_true in K. unfold get_node. rewrite Fe. cbn [root_key_of]. rewrite K. reflexivity.
    + unfold mhas. rewrite Ft. unfold get_node. rewrite Ft. reflexivity.
  - subst e. reflexivity.
Qed.

(** the search returns its upper bound or a version whose root key exists *)
Lemma first_search_has has fuel : forall lo hi r,
  first_search fuel has lo hi = Some r -> r = hi \/ has r = true.
Proof.
  induction fuel as [|fuel IH]; intros lo hi r; cbn [first_search].
  - destruct (lo <? hi); [discriminate|]. intros E. inversion E. auto.
  - destruct (lo <? hi); [|intros E; inversion E; auto].
    destruct (has (Z.shiftr (hi + lo) 1)) eqn:Hm; intros E; apply IH in E.
    + destruct E as [->|E]; auto.
    + exact E.
Qed.

Lemma recover_iv_error iv d :
  recover iv d = RErr ErrInitialVersion ->
  exists first,
    first_search search_fuel (fun v => mhas kcmp (v, 1) (nodes d)) 0 (store_latest (nodes d)) = Some first /\
    0 < first < iv.
Proof.
  unfold recover. cbv zeta.
  destruct (first_search search_fuel _ 0 (store_latest (nodes d))) as [first|]; [|discriminate].
  destruct ((0 <? first) && (first <? iv)) eqn:Chk.
  - intros _. exists first. split; [reflexivity|].
    apply andb_true_iff in Chk. destruct Chk as [C1 C2]. apply Z.ltb_lt in C1, C2. lia.
  - destruct (store_latest (nodes d) <=? 0); [discriminate|].
    destruct (negb (first <=? store_latest (nodes d))); [discriminate|].
    destruct (get_root (nodes d) (store_latest (nodes d))) as [| |k]; try discriminate.
    destruct (get_node (nodes d) k); discriminate.
Qed.

(** With the initial version the store was created with, reopening a consistent store
    succeeds (for versions below 2^64). *)
Theorem recover_expected_ok iv f d r :
  forest_inv f -> forest_ok f iv -> forest_lo iv f -> NoDup (map fst f) ->
  In (latest_of f, r) f -> nodes d = expected_store f -> latest_of f < 2 ^ 64 ->
  exists first, 0 <= first <= latest_of f /\
    recover iv d = ROk (latest_of f) first (root_key_of r) (needs_rebuild (label d) (latest_of f)).
Proof.
  intros FI OK LO ND HI E Bd.
  assert (NE : f <> []) by (intros C; subst f; contradiction).
  pose proof (store_latest_expected f iv FI OK ND NE) as SL.
  destruct (recover_expected iv f iv d r FI OK ND HI E) as [C|[C|C]]; [| |exact C]; exfalso.
  - apply (recover_no_fuel_error iv d); [rewrite E, SL; exact Bd|exact C].
  - (* the initial-version check cannot fail *)
    destruct (recover_iv_error iv d C) as (first & FS & C1 & C2). clear C Bd.
    assert (Lo : iv <= first).
    { destruct (first_search_has _ _ _ _ _ FS) as [Eh|Hs].
      - rewrite E, SL in Eh. subst first.
        assert (Il : In (latest_of f) (map fst f)) by (apply in_map_iff; exists (latest_of f, r); auto).
        destruct OK as [_ F]. rewrite Forall_forall in F. apply (F _ Il).
      - cbv beta in Hs. rewrite E in Hs. apply mhas_true in Hs. destruct Hs as [e Fe].
        apply (In_mfind kcmp kcmp_ok), expected_In_reach, reach_In in Fe.
        destruct Fe as [(u & Su & K & _)|(v & r' & HI' & Er)].
        + specialize (LO u Su). unfold node_key in K. inversion K. lia.
        + destruct (root_entry_Some _ _ _ _ Er) as [K _]. inversion K; subst v.
          assert (Il : In first (map fst f)) by (apply in_map_iff; exists (first, r'); auto).
          destruct OK as [_ F]. rewrite Forall_forall in F. apply (F _ Il). }
    lia.
Qed.

(** ** Commit *)
Section CommitCrash.
  Variable H : bytes -> bytes.

  Lemma expected_keys_lt s :
    store_ok H s -> lookup (working_version s) (forest s) = None ->
    forall p, In p (expected_store (forest s)) -> fst (fst p) < working_version s.
  Proof.
    intros SO L [k e] HI. cbn [fst]. destruct (save_fresh H s SO L) as (_ & Fr & _).
    pose proof SO as [SI HIv C FI B].
    apply expected_In_reach, reach_In in HI.
    destruct HI as [(u & (v & t & HI & S) & -> & _)|(v & r & HI & E)].
    - pose proof (fi_ver _ FI v t u HI S). specialize (Fr _ _ HI). unfold node_key. cbn [fst]. lia.
    - destruct (root_entry_Some _ _ _ _ E) as [-> _]. cbn [fst]. exact (Fr _ _ HI).
  Qed.

  (** the shape of the node writes of a commit with new nodes *)
  Lemma node_writes_new s n :
    root s = Some n -> is_new n = true ->
    exists W0 last,
      node_writes H s = W0 ++ [last] /\ fst last = (working_version s, 1) /\
      forall p, In p W0 -> fst (fst p) = working_version s /\ 1 < snd (fst p).
  Proof.
    intros R En. unfold node_writes. cbv zeta. rewrite R, En.
    destruct (assign_last H (working_version s) 0 n En) as (Kn & W0 & EW & KW). cbv zeta in *.
    rewrite EW, map_app. cbn [map].
    eexists. eexists. split; [reflexivity|]. cbn [fst]. split; [exact Kn|].
    intros p HI. apply in_map_iff in HI. destruct HI as (q & <- & HI). cbn [fst].
    specialize (KW q HI). lia.
  Qed.

  Lemma node_writes_single s :
    (root s = None \/ exists n, root s = Some n /\ is_new n = false) ->
    length (node_writes H s) = 1%nat.
  Proof.
    unfold node_writes. cbv zeta. intros [R|(n & R & En)]; rewrite R; [reflexivity|].
    rewrite En. reflexivity.
  Qed.

  Lemma meta_label fast s d i :
    (i <= length (commit_meta_ops fast s))%nat ->
    label (apply_ops d (firstn i (commit_meta_ops fast s))) =
      if fast && (i =? length (commit_meta_ops fast s))%nat
      then Some (working_version s) else label d.
  Proof.
    unfold commit_meta_ops. destruct fast; cbn [andb].
    2:{ cbn [length]. intros Li. replace i with 0%nat by lia. reflexivity. }
    set (A := map set_fast (fast_adds s) ++ map del_fast (fast_rems s)).
    rewrite app_assoc. fold A. rewrite app_length. cbn [length]. intros Li.
    assert (FA : Forall (fun o => label_op o = false) A).
    { unfold A. apply Forall_app. split; apply Forall_map_const; reflexivity. }
    destruct (i =? length A + 1)%nat eqn:C.
    - apply Nat.eqb_eq in C. rewrite firstn_all2 by (rewrite app_length; cbn [length]; lia).
      rewrite apply_ops_app. reflexivity.
    - apply Nat.eqb_neq in C. rewrite firstn_app_le by lia.
      apply label_other, Forall_firstn, FA.
  Qed.

  (** C05, commit: the exact classification of the cut points *)
  Theorem commit_prefix_classification iv fast s d i :
    store_ok H s -> nodes d = expected_store (forest s) ->
    lookup (working_version s) (forest s) = None ->
    let P := commit_meta_ops fast s in
    let ops := commit_ops H fast s in
    let img := image d ops i in
    (* before the first node write: the old node store; the label is ahead exactly when all
       index writes are done *)
    ((i <= length P)%nat ->
       nodes img = nodes d /\
       label img = (if fast && (i =? length P)%nat then Some (working_version s) else label d) /\
       recover iv img = set_rebuild (recover iv d)
                          (needs_rebuild (label img) (store_latest (nodes d)))) /\
    (* strictly between the first node write and the root write: unrecoverable *)
    ((length P < i < length ops)%nat -> unrecoverable (recover iv img)) /\
    (* everything written: the new store *)
    ((length ops <= i)%nat ->
       img = apply_ops d ops /\
       nodes img = expected_store (forest (fst (do_save H s)))).
  Proof.
    intros SO E L P ops img. unfold img, image, ops. rewrite (commit_ops_new H fast s L). fold P.
    split; [|split].
    - intros Li. rewrite firstn_app_le by exact Li.
      assert (En : nodes (apply_ops d (firstn i P)) = nodes d).
      { apply nodes_other, Forall_firstn, meta_not_node. }
      split; [exact En|]. split; [apply meta_label, Li|]. apply recover_flag, En.
    - rewrite app_length. intros Ri.
      rewrite firstn_app_ge by lia. rewrite apply_ops_app.
      set (d1 := apply_ops d P).
      assert (E1 : nodes d1 = expected_store (forest s)).
      { unfold d1. rewrite (nodes_other _ _ (meta_not_node fast s)). exact E. }
      rewrite commit_node_ops_eq in *. rewrite map_length in Ri.
      set (j := (i - length P)%nat) in *.
      rewrite firstn_map.
      (* only a commit with new nodes has more than one node write *)
      destruct (root s) as [n|] eqn:R.
      2:{ rewrite (node_writes_single s (or_introl R)) in Ri. lia. }
      destruct (is_new n) eqn:Nn.
      2:{ rewrite (node_writes_single s (or_intror (ex_intro _ n (conj R Nn)))) in Ri. lia. }
      destruct (node_writes_new s n R Nn) as (W0 & last & EW & Kl & KW).
      rewrite EW in *. rewrite app_length in Ri. cbn [length] in Ri.
      rewrite firstn_app_le by lia.
      destruct (save_fresh H s SO L) as (Wpos & _ & _).
      set (wv := working_version s) in *.
      set (X := firstn j W0).
      assert (KX : forall p, In p X -> fst (fst p) = wv /\ 1 < snd (fst p)).
      { intros p HI. apply KW, (In_firstn j W0 p HI). }
      pose proof (expected_keys_lt s SO L) as KE. fold wv in KE.
      (* the latest version found is the new one *)
      assert (SLv : store_latest (mset_all kcmp X (expected_store (forest s))) = wv).
      { apply store_latest_eq; [lia| |].
        - intros p HI. apply In_mset_all in HI. destruct HI as [HI|HI].
          + destruct (KX p HI). lia.
          + specialize (KE p HI). lia.
        - destruct X as [|p1 X'] eqn:EX.
          { exfalso. apply (f_equal (@length _)) in EX. unfold X in EX.
            rewrite firstn_length in EX. cbn [length] in EX. lia. }
          destruct (mfind kcmp (fst p1) (mset_all kcmp (p1 :: X') (expected_store (forest s)))) as [e1|] eqn:F1.
          + exists (fst p1, e1). split; [apply (In_mfind kcmp kcmp_ok), F1|].
            apply (KX p1). left. reflexivity.
          + exfalso. rewrite (mfind_mset_all kcmp kcmp_ok) in F1.
            destruct (lastb kcmp (fst p1) (p1 :: X')) as [e1|] eqn:Lb; [discriminate|].
            apply (lastb_None kcmp kcmp_ok) in Lb. apply Lb. left. reflexivity. }
      apply recover_root_missing; rewrite nodes_set_nodes, E1, SLv.
      + lia.
      + rewrite (mfind_mset_all kcmp kcmp_ok), (lastb_notin kcmp kcmp_ok).
        * apply (notin_mfind_None kcmp kcmp_ok). intros C. apply in_map_iff in C.
          destruct C as (p & Ep & HI). specialize (KE p HI). rewrite Ep in KE. cbn [fst] in KE. lia.
        * intros C. apply in_map_iff in C. destruct C as (p & Ep & HI).
          destruct (KX p HI) as [_ N1]. rewrite Ep in N1. cbn [snd] in N1. lia.
    - intros Li. rewrite firstn_all2 by exact Li. split; [reflexivity|].
      unfold P. rewrite <- (commit_ops_new H fast s L). apply commit_exact; assumption.
  Qed.

  (** the positive half: a cut before the first node write reopens on the old latest version,
      the complete write list reopens on the new one *)
  Theorem commit_cut_before_nodes_recovers fast s d i r :
    store_ok H s -> lo_ok s -> nodes d = expected_store (forest s) ->
    lookup (working_version s) (forest s) = None ->
    In (latest_version s, r) (forest s) -> latest_version s < 2 ^ 64 ->
    (i <= length (commit_meta_ops fast s))%nat ->
    let img := image d (commit_ops H fast s) i in
    exists first, 0 <= first <= latest_version s /\
      recover (init_ver s) img =
        ROk (latest_version s) first (root_key_of r) (needs_rebuild (label img) (latest_version s)).
  Proof.
    intros SO LO E L HI Bd Li img. pose proof SO as [SI HIv C FI B].
    destruct (commit_prefix_classification (init_ver s) fast s d i SO E L) as (Old & _ & _).
    destruct (Old Li) as (_ & _ & Er). fold img in Er.
    destruct (recover_expected_ok (init_ver s) (forest s) d r FI (contig_forest_ok s C) LO
                (inv_nodup s SI) HI E Bd) as (first & Rf & Rd).
    exists first. split; [exact Rf|]. rewrite Er, Rd. cbn [set_rebuild].
    assert (NE : forest s <> []) by (intros X; rewrite X in HI; contradiction).
    rewrite E, (store_latest_expected _ _ FI (contig_forest_ok s C) (inv_nodup s SI) NE). reflexivity.
  Qed.

  Theorem commit_complete_recovers fast s d :
    store_ok H s -> lo_ok s -> nodes d = expected_store (forest s) ->
    lookup (working_version s) (forest s) = None -> working_version s < 2 ^ 64 ->
    let d' := apply_ops d (commit_ops H fast s) in
    exists first, 0 <= first <= working_version s /\
      recover (init_ver s) d' =
        ROk (working_version s) first (root_key_of (saved_root H s))
            (needs_rebuild (label d') (working_version s)).
  Proof.
    intros SO LO E L Bd d'.
    pose proof (store_ok_step H s OSave SO I) as SO'. pose proof (lo_ok_step H s OSave SO LO) as LO'.
    cbn [step] in SO', LO'. pose proof SO' as [SI' HIv' C' FI' B'].
    destruct (do_save_new_forest H s L) as (Ef & _).
    assert (Ed : nodes d' = expected_store (forest (fst (do_save H s)))) by (apply commit_exact; assumption).
    assert (Lat : latest_of (forest (fst (do_save H s))) = working_version s).
    { rewrite Ef. unfold latest_of. rewrite fold_left_app. reflexivity. }
    assert (Eiv : init_ver (fst (do_save H s)) = init_ver s) by exact (init_ver_step H s OSave).
    unfold lo_ok in LO'. rewrite Eiv in LO'.
    pose proof (contig_forest_ok _ C') as OK'. rewrite Eiv in OK'.
    destruct (recover_expected_ok (init_ver s) (forest (fst (do_save H s))) d' (saved_root H s)
                FI' OK' LO' (inv_nodup _ SI')) as (first & Rf & Rd).
    - rewrite Lat, Ef. apply in_or_app. right. left. reflexivity.
    - exact Ed.
    - rewrite Lat. exact Bd.
    - rewrite Lat in *. exists first. auto.
  Qed.

  (** a commit with at least two new nodes has an unrecoverable cut point *)
  Theorem commit_split_refuted iv fast s d :
    store_ok H s -> nodes d = expected_store (forest s) ->
    lookup (working_version s) (forest s) = None ->
    (2 <= length (node_writes H s))%nat ->
    exists i, (i < length (commit_ops H fast s))%nat /\
              is_err (recover iv (image d (commit_ops H fast s) i)) = true.
  Proof.
    intros SO E L W2.
    exists (S (length (commit_meta_ops fast s))).
    assert (Len : length (commit_ops H fast s) =
                  (length (commit_meta_ops fast s) + length (node_writes H s))%nat).
    { rewrite (commit_ops_new H fast s L), app_length, commit_node_ops_eq, map_length. reflexivity. }
    split; [lia|]. apply unrecoverable_is_err.
    apply (commit_prefix_classification iv fast s d _ SO E L). lia.
  Qed.
End CommitCrash.

(** ** Rollback (DeleteVersionsFrom) *)
Fixpoint ksorted (l : list nodekey) : Prop :=
  match l with
  | [] => True
  | k :: r => Forall (fun x => kcmp k x = Lt) r /\ ksorted r
  end.

Lemma ksorted_filter_keys (p : nodekey * entry -> bool) (st : store) :
  msorted kcmp st -> ksorted (map fst (filter p st)).
Proof.
  induction st as [|[k e] st IH]; cbn [msorted filter]; intros S; [exact I|].
  destruct S as [F S]. destruct (p (k, e)); [|auto]. cbn [map fst ksorted]. split; [|auto].
  apply Forall_forall. intros x HI. apply in_map_iff in HI. destruct HI as (q & <- & HI).
  apply filter_In in HI. rewrite Forall_forall in F. apply F, HI.
Qed.

Lemma ksorted_firstn_nth l : forall i x d0,
  ksorted l -> (i < length l)%nat -> In x (firstn i l) -> kcmp x (nth i l d0) = Lt.
Proof.
  induction l as [|a l IH]; intros i x d0 S Li HI; [cbn in Li; lia|].
  destruct i as [|i]; [contradiction|]. cbn [firstn nth In length ksorted] in *.
  destruct S as [F S]. destruct HI as [<-|HI].
  - rewrite Forall_forall in F. apply F, nth_In. lia.
  - apply IH; [exact S|lia|exact HI].
Qed.

Lemma ksorted_nth_notin l i d0 :
  ksorted l -> (i < length l)%nat -> ~ In (nth i l d0) (firstn i l).
Proof.
  intros S Li C. pose proof (ksorted_firstn_nth l i _ d0 S Li C) as E.
  rewrite (c_refl kcmp kcmp_ok) in E. discriminate.
Qed.

Theorem rollback_prefix_classification iv f ivf d v i :
  forest_inv f -> forest_ok f ivf -> NoDup (map fst f) -> In v (map fst f) -> v < latest_of f ->
  nodes d = expected_store f ->
  let D := map fst (filter (fun p => v <? fst (fst p)) (nodes d)) in
  let ops := rollback_ops d v in
  let img := image d ops i in
  let new := expected_store (filter (fun p => fst p <=? v) f) in
  ops = map del_node D ++ match label d with None => [] | Some _ => [set_label None] end /\
  (i = 0%nat -> img = d) /\
  ((length D <= i)%nat -> nodes img = new /\ (label img = label d \/ label img = None)) /\
  ((0 < i < length D)%nat ->
     nodes img <> nodes d /\ nodes img <> new /\
     store_latest (nodes img) = latest_of f /\
     (In (latest_of f, 1) (firstn i D) -> unrecoverable (recover iv img))).
Proof.
  intros FI OK ND Iv Lv E D ops img new.
  assert (NE : f <> []) by (intros C; subst f; contradiction).
  pose proof (store_latest_expected f ivf FI OK ND NE) as SL.
  destruct (forest_ok_range f ivf OK NE) as (R1 & _).
  assert (Eops : ops = map del_node D ++ match label d with None => [] | Some _ => [set_label None] end).
  { unfold ops, rollback_ops. rewrite E, SL.
    replace (latest_of f <? v + 1) with false by (symmetry; apply Z.ltb_ge; lia).
    unfold D. rewrite E. reflexivity. }
  set (lab := match label d with None => [] | Some _ => [set_label None] end) in *.
  assert (Flab : Forall (fun o => node_op o = false) lab).
  { unfold lab. destruct (label d); repeat constructor. }
  assert (Fdel : Forall (fun o => label_op o = false) (map del_node D)).
  { apply Forall_map_const. reflexivity. }
  (* the final store *)
  assert (Enew : mdel_all kcmp D (expected_store f) = new).
  { pose proof (rollback_exact_forest f ivf d v FI OK ND Iv E) as RE.
    fold ops in RE. rewrite Eops, apply_ops_app, (nodes_other _ _ Flab), nodes_del_nodes, E in RE.
    exact RE. }
  pose proof (expected_sorted f) as Ss.
  assert (SD : ksorted D) by (unfold D; rewrite E; apply ksorted_filter_keys, Ss).
  assert (DIn : forall k, In k D <-> v < fst k /\ exists e, In (k, e) (expected_store f)).
  { intros k. unfold D. rewrite E, in_map_iff. split.
    - intros ([k1 e1] & <- & HI). apply filter_In in HI. cbn [fst] in *. destruct HI as [HI C1].
      apply Z.ltb_lt in C1. split; [exact C1|]. exists e1. exact HI.
    - intros [C1 [e HI]]. exists (k, e). split; [reflexivity|]. apply filter_In. split; [exact HI|].
      cbn [fst]. apply Z.ltb_lt, C1. }
  assert (DFind : forall k, In k D -> exists e, mfind kcmp k (expected_store f) = Some e).
  { intros k HI. apply DIn in HI. destruct HI as [_ [e HI]]. exists e.
    apply (mfind_In kcmp kcmp_ok); assumption. }
  split; [exact Eops|]. split; [|split].
  - intros ->. reflexivity.
  - intros Li. unfold img, image. rewrite Eops.
    rewrite firstn_app_ge by (rewrite map_length; lia). rewrite apply_ops_app. split.
    + rewrite nodes_other by (apply Forall_firstn, Flab). rewrite nodes_del_nodes, E. exact Enew.
    + set (d1 := apply_ops d (map del_node D)).
      assert (L1 : label d1 = label d) by (apply label_other, Fdel).
      unfold lab. destruct (label d) as [l|] eqn:Ld.
      * destruct (i - length (map del_node D))%nat; cbn [firstn]; [left; exact L1|].
        right. rewrite firstn_nil. reflexivity.
      * left. destruct (i - length (map del_node D))%nat; exact L1.
  - intros Ri. unfold img, image. rewrite Eops.
    rewrite firstn_app_le by (rewrite map_length; lia). rewrite firstn_map, nodes_del_nodes, E.
    set (Di := firstn i D).
    assert (Li : (i < length D)%nat) by lia.
    set (ki := nth i D (0, 0)).
    assert (KiIn : In ki D) by (apply nth_In, Li).
    assert (KiOut : ~ In ki Di) by (apply ksorted_nth_notin; assumption).
    assert (KiFind : mfind kcmp ki (mdel_all kcmp Di (expected_store f)) =
                     mfind kcmp ki (expected_store f))
      by (apply (mfind_mdel_all_notin kcmp kcmp_ok); assumption).
    destruct (DFind ki KiIn) as [ei Fi].
    split; [|split; [|split]].
    + (* something is gone *)
      destruct D as [|k0 D'] eqn:ED; [cbn in Ri; lia|].
      assert (K0 : In k0 Di).
      { unfold Di. destruct i as [|i']; [lia|]. left. reflexivity. }
      intros C. destruct (DFind k0 (or_introl eq_refl)) as [e0 F0].
      rewrite <- C, (mfind_mdel_all_in kcmp kcmp_ok _ _ _ Ss K0) in F0. discriminate.
    + (* something is left *)
      intros C. rewrite <- Enew in C.
      assert (X : mfind kcmp ki (mdel_all kcmp D (expected_store f)) = None)
        by (apply (mfind_mdel_all_in kcmp kcmp_ok); assumption).
      rewrite <- C, KiFind, Fi in X. discriminate.
    + (* the latest version found is still the old one *)
      assert (Ll : In (latest_of f) (map fst f)) by (apply (forest_ok_In f ivf _ OK); split; [exact NE|lia]).
      destruct (In_map_fst_pair f _ Ll) as [r HIr].
      destruct (expected_has_root f _ r FI ND HIr) as (el & Fl & _).
      apply store_latest_eq; [lia| |].
      * intros [k e] HI. apply In_mdel_all, expected_In_reach in HI. cbn [fst].
        apply (reach_key_version f ivf k e FI OK HI).
      * destruct (existsb (ceqb kcmp (latest_of f, 1)) Di) eqn:X.
        -- apply (existsb_ceqb kcmp kcmp_ok) in X.
           pose proof (ksorted_firstn_nth D i _ (0, 0) SD Li X) as Lt. fold ki in Lt.
           apply kcmp_Lt in Lt. unfold klt in Lt. cbn [fst snd] in Lt.
           exists (ki, ei). split.
           ++ apply (In_mfind kcmp kcmp_ok). rewrite KiFind. exact Fi.
           ++ cbn [fst]. apply (In_mfind kcmp kcmp_ok), expected_In_reach in Fi.
              pose proof (reach_key_version f ivf ki ei FI OK Fi). lia.
        -- exists ((latest_of f, 1), el). split; [|reflexivity].
           apply (In_mfind kcmp kcmp_ok). rewrite (mfind_mdel_all_notin kcmp kcmp_ok); [exact Fl|exact Ss|].
           intros C. apply (existsb_ceqb kcmp kcmp_ok) in C. congruence.
    + intros Lin.
      assert (SLi : store_latest (nodes (apply_ops d (map del_node Di))) = latest_of f).
      { rewrite nodes_del_nodes, E.
        apply store_latest_eq; [lia| |].
        - intros [k e] HI. apply In_mdel_all, expected_In_reach in HI. cbn [fst].
          apply (reach_key_version f ivf k e FI OK HI).
        - pose proof (ksorted_firstn_nth D i _ (0, 0) SD Li Lin) as Lt. fold ki in Lt.
          apply kcmp_Lt in Lt. unfold klt in Lt. cbn [fst snd] in Lt.
          exists (ki, ei). split.
          + apply (In_mfind kcmp kcmp_ok). rewrite KiFind. exact Fi.
          + cbn [fst]. apply (In_mfind kcmp kcmp_ok), expected_In_reach in Fi.
            pose proof (reach_key_version f ivf ki ei FI OK Fi). lia. }
      apply recover_root_missing; rewrite SLi.
      * lia.
      * rewrite nodes_del_nodes, E.
        apply (mfind_mdel_all_in kcmp kcmp_ok); assumption.
Qed.

(** rolling back exactly one version: every cut strictly inside the deletes is unrecoverable *)
Theorem rollback_one_version_split iv f ivf d v i :
  forest_inv f -> forest_ok f ivf -> NoDup (map fst f) -> In v (map fst f) ->
  latest_of f = v + 1 -> nodes d = expected_store f ->
  let D := map fst (filter (fun p => v <? fst (fst p)) (nodes d)) in
  (0 < i < length D)%nat -> unrecoverable (recover iv (image d (rollback_ops d v) i)).
Proof.
  intros FI OK ND Iv Lv E D Ri.
  destruct (rollback_prefix_classification iv f ivf d v i FI OK ND Iv ltac:(lia) E) as (_ & _ & _ & Mid).
  destruct (Mid Ri) as (_ & _ & _ & Err). apply Err. clear Mid Err.
  assert (NE : f <> []) by (intros C; subst f; contradiction).
  destruct (forest_ok_range f ivf OK NE) as (R1 & _).
  assert (Ll : In (latest_of f) (map fst f)) by (apply (forest_ok_In f ivf _ OK); split; [exact NE|lia]).
  destruct (In_map_fst_pair f _ Ll) as [r HIr].
  destruct (expected_has_root f _ r FI ND HIr) as (el & Fl & _).
  apply (In_mfind kcmp kcmp_ok) in Fl.
  assert (LD : In (latest_of f, 1) D).
  { unfold D. rewrite E. apply in_map_iff. exists ((latest_of f, 1), el). split; [reflexivity|].
    apply filter_In. split; [exact Fl|]. cbn [fst]. apply Z.ltb_lt. lia. }
  assert (SD : ksorted D) by (unfold D; rewrite E; apply ksorted_filter_keys, expected_sorted).
  fold D. destruct D as [|k0 D'] eqn:ED; [contradiction|].
  destruct i as [|i']; [lia|]. cbn [firstn]. destruct LD as [->|LD]; [left; reflexivity|].
  exfalso. cbn [ksorted] in SD. destruct SD as [F _]. rewrite Forall_forall in F.
  specialize (F _ LD). apply kcmp_Lt in F. unfold klt in F. cbn [fst snd] in F.
  assert (K0 : In k0 (map fst (filter (fun p => v <? fst (fst p)) (nodes d)))).
  { fold D. rewrite ED. left. reflexivity. }
  rewrite E in K0. apply in_map_iff in K0. destruct K0 as ([k1 e1] & <- & HI).
  apply filter_In in HI. cbn [fst] in *. destruct HI as [HI C1]. apply Z.ltb_lt in C1.
  apply expected_In_reach in HI. pose proof (reach_key_nonce f k1 e1 FI HI). lia.
Qed.

(** the positive half: once every delete is written, reopening shows the state after *)
Theorem rollback_complete_recovers iv f d v i r :
  forest_inv f -> forest_ok f iv -> forest_lo iv f -> NoDup (map fst f) ->
  In (v, r) f -> v < latest_of f -> v < 2 ^ 64 -> nodes d = expected_store f ->
  let D := map fst (filter (fun p => v <? fst (fst p)) (nodes d)) in
  let img := image d (rollback_ops d v) i in
  (length D <= i)%nat ->
  exists first, 0 <= first <= v /\
    recover iv img = ROk v first (root_key_of r) (needs_rebuild (label img) v).
Proof.
  intros FI OK LO ND HI Lv Bd E D img Li.
  assert (Iv : In v (map fst f)) by (apply in_map_iff; exists (v, r); auto).
  destruct (rollback_prefix_classification iv f iv d v i FI OK ND Iv Lv E) as (_ & _ & Fin & _).
  destruct (Fin Li) as [En _]. fold img in En.
  set (pk := fun p : Z * option node => fst p <=? v) in *.
  assert (HIk : In (v, r) (filter pk f)).
  { apply filter_In. split; [exact HI|]. unfold pk. cbn [fst]. apply Z.leb_refl. }
  assert (OKk : forest_ok (filter pk f) iv) by (apply forest_ok_filter_le, OK).
  assert (Lat : latest_of (filter pk f) = v).
  { assert (NE : filter pk f <> []) by (intros C; rewrite C in HIk; contradiction).
    destruct (forest_ok_range _ _ OKk NE) as (R1 & _).
    assert (Ivk : In v (map fst (filter pk f))) by (apply in_map_iff; exists (v, r); auto).
    apply (forest_ok_In _ _ _ OKk) in Ivk. destruct Ivk as [_ Rv].
    assert (Il : In (latest_of (filter pk f)) (map fst (filter pk f)))
      by (apply (forest_ok_In _ _ _ OKk); split; [exact NE|lia]).
    apply in_map_iff in Il. destruct Il as ([w rw] & Ew & Hw). apply filter_In in Hw.
    destruct Hw as [_ Hw]. unfold pk in Hw. cbn [fst] in *. apply Z.leb_le in Hw. lia. }
  destruct (recover_expected_ok iv (filter pk f) img r) as (first & Rf & Rd).
  - apply forest_inv_filter, FI.
  - exact OKk.
  - intros u Su. apply LO. eapply sub_of_filter, Su.
  - apply NoDup_filter_fst, ND.
  - rewrite Lat. exact HIk.
  - exact En.
  - rewrite Lat. exact Bd.
  - rewrite Lat in *. exists first. auto.
Qed.

(** ** Concrete witnesses (SHA-256, computed) *)
Definition state_after (ops : list op) : mstate := fst (run sha256 (init_state 0 false) ops).

Lemma state_after_ok ops :
  run_okb sha256 (init_state 0 false) ops = true -> store_ok sha256 (state_after ops).
Proof.
  intros R. apply store_ok_reachable; [cbn; lia|]. apply run_okb_iff, R.
Qed.

Definition b1 : bytes := [97%N].   (* "a" *)
Definition b2 : bytes := [98%N].
Definition b3 : bytes := [99%N].
Definition b4 : bytes := [100%N].

(** a first commit of two keys (three new nodes), cut after the first node write: reopening
    fails.  (Recorded finding C05-split-commit.) *)
Theorem commit_split_witness :
  exists s d i,
    store_ok sha256 s /\ d = expected_db (forest s) /\
    (i < length (commit_ops sha256 true s))%nat /\
    recover 0 (image d (commit_ops sha256 true s) i) = RErr ErrVersionDoesNotExist /\
    recover 0 d = REmpty false /\
    recover 0 (apply_ops d (commit_ops sha256 true s)) = ROk 1 1 (Some (1, 1)) false.
Proof.
  exists (state_after [OSet b1 b2; OSet b2 b3]), (expected_db []), 4%nat.
  split; [apply state_after_ok; vm_compute; reflexivity|].
  vm_compute. repeat split; lia.
Qed.

(** fast-index writes flushed, label not yet written, old label = unchanged latest version:
    the index is ahead of the tree and reopening does not rebuild it.
    (Recorded finding kind "indexahead".) *)
Theorem indexahead_refuted :
  exists s d i,
    store_ok sha256 s /\ d = expected_db (forest s) /\
    (i < length (commit_meta_ops true s))%nat /\
    let img := image d (commit_ops sha256 true s) i in
    nodes img = nodes d /\
    recover 0 img = ROk 1 1 (Some (1, 1)) false /\
    fastidx img <> expected_fast (forest s).
Proof.
  exists (state_after [OSet b1 b1; OSet b2 b2; OSet b3 b3; OSave; OSet b2 b4; ORemove b1]).
  eexists. exists 1%nat.
  split; [apply state_after_ok; vm_compute; reflexivity|]. split; [reflexivity|].
  split; [vm_compute; lia|]. cbv zeta. split; [vm_compute; reflexivity|].
  split; [vm_compute; reflexivity|]. vm_compute. discriminate.
Qed.

(** rolling back two versions, cut after the first delete: reopening succeeds and reports the
    old latest version although version 2 has lost its root: neither the state before nor the
    state after. *)
Theorem rollback_split_refuted :
  exists s d i,
    store_ok sha256 s /\ d = expected_db (forest s) /\
    (0 < i < length (rollback_ops d 1))%nat /\
    let img := image d (rollback_ops d 1) i in
    recover 0 img = ROk 3 1 (Some (3, 1)) false /\
    mfind kcmp (2, 1) (nodes img) = None /\
    nodes img <> nodes d /\
    nodes img <> expected_store (filter (fun p => fst p <=? 1) (forest s)).
Proof.
  exists (state_after [OSet b1 b1; OSet b2 b2; OSet b3 b3; OSave; OSet b2 b4; OSave; OSet b4 b4; OSave]).
  eexists. exists 1%nat.
  split; [apply state_after_ok; vm_compute; reflexivity|]. split; [reflexivity|].
  split; [vm_compute; lia|]. cbv zeta. split; [vm_compute; reflexivity|].
  split; [vm_compute; reflexivity|]. split; vm_compute; discriminate.
Qed.

(** rolling back one version, cut after the first delete: reopening fails *)
Theorem rollback_split_witness :
  exists s d i,
    store_ok sha256 s /\ d = expected_db (forest s) /\
    (0 < i < length (rollback_ops d 1))%nat /\
    recover 0 (image d (rollback_ops d 1) i) = RErr ErrVersionDoesNotExist.
Proof.
  exists (state_after [OSet b1 b1; OSet b2 b2; OSave; OSet b2 b4; OSet b3 b3; OSave]).
  eexists. exists 1%nat.
  split; [apply state_after_ok; vm_compute; reflexivity|]. split; [reflexivity|].
  split; [vm_compute; lia|]. vm_compute. reflexivity.
Qed.
