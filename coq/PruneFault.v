(** M2pf: the physical DeleteVersionsTo of PruneAlgo.v over a storage that can FAIL one call.

    Every storage call is counted; the call whose number is [ffail] fails (a read returns an
    error, a batch Set/Delete or a batch Write returns an error and changes nothing).  The calls:
    - GetNode: one Get, plus one Get of [(v,0)] when the first finds nothing and the nonce is 1;
    - GetRoot: Get [(v,1)]; if absent one more Get (Go looks for the legacy root key, which never
      exists here); for a reference: Get of the target, and Get [(w,0)] when the target is absent;
    - a batch write: when the schedule says that the batch is written out first, that Write is one
      call, BEFORE the Set/Delete; then the Set/Delete itself is one call;
    - the final Commit: one Write.
    A failing read inside the node iterator sets the iterator's error flag (exactly as a missing
    node does); everywhere else an error is returned at once.  The result always exposes the [pdb]
    reached (disk, pending batch, disk history): the theorems are about what is left behind.

    [fixed = true] is the algorithm of PruneAlgo.v; [fixed = false] is the loop before the fix
    (/repo commit 9c131ef): a read error of the CURRENT tree's iterator ends that iterator
    silently.  PruneFaultFacts1.fault_free_same: with no failing call the run is PruneAlgo's. *)
From IAVL Require Import Bytes Varint Tree MTree Store PruneAlgo.
Local Open Scope Z_scope.

(** ** The storage with a call counter *)
Record fdb := Fdb { fp : pdb; fcalls : nat; ffail : option nat }.

Definition setp (s : fdb) (p : pdb) : fdb := Fdb p (fcalls s) (ffail s).

(** one storage call: [true] = THIS call fails *)
Definition tick (s : fdb) : bool * fdb :=
  (match ffail s with Some k => Nat.eqb (fcalls s) k | None => false end,
   Fdb (fp s) (S (fcalls s)) (ffail s)).

(** Get: [None] = the call failed *)
Definition fget (s : fdb) (k : nodekey) : option (option entry) * fdb :=
  let (bad, s1) := tick s in
  ((if bad then None else Some (mfind kcmp k (disk (fp s)))), s1).

(** ** Reads *)
Definition get_node_f (s : fdb) (k : nodekey) : option snode * fdb :=
  match fget s k with
  | (None, s1) => (None, s1)
  | (Some (Some (ENode n)), s1) => (Some n, s1)
  | (Some (Some _), s1) => (None, s1)
  | (Some None, s1) =>
      if snd k =? 1 then
        match fget s1 (fst k, 0) with
        | (Some (Some (ENode n)), s2) => (Some n, s2)
        | (_, s2) => (None, s2)
        end
      else (None, s1)
  end.

Definition get_root_f (s : fdb) (v : Z) : pres (option nodekey) * fdb :=
  match fget s (v, 1) with
  | (None, s1) => (PErr, s1)
  | (Some None, s1) =>
      (* the legacy root key: never present, but it is looked for *)
      let (bad, s2) := tick s1 in ((if bad then PErr else PNoVersion), s2)
  | (Some (Some EEmpty), s1) => (POk None, s1)
  | (Some (Some (ERef k)), s1) =>
      match fget s1 k with
      | (None, s2) => (PErr, s2)
      | (Some (Some _), s2) => (POk (Some k), s2)
      | (Some None, s2) =>
          match fget s2 (fst k, 0) with
          | (None, s3) => (PErr, s3)
          | (Some (Some _), s3) => (POk (Some (fst k, 0)), s3)
          | (Some None, s3) => (PNoVersion, s3)
          end
      end
  | (Some (Some (ENode _)), s1) => (POk (Some (v, 1)), s1)
  end.

Definition rkc_get_f (c : rkc) (s : fdb) (v : Z) : pres (option nodekey) * rkc * fdb :=
  if rv0 c =? v then (POk (rk0 c), c, s)
  else if rv1 c =? v then (POk (rk1 c), c, s)
  else
    match get_root_f s v with
    | (POk k, s1) =>
        (POk k, (if rnext c then Rkc (rv0 c) (rk0 c) v k false else Rkc v k (rv1 c) (rk1 c) true), s1)
    | (e, s1) => (e, c, s1)
    end.

(** ** The node iterator *)
Definition nit_new_f (s : fdb) (rk : option nodekey) : option nit * fdb :=
  match rk with
  | None => (Some (Nit [] false), s)
  | Some k =>
      match get_node_f s k with
      | (Some n, s1) => (Some (Nit [(k, n)] false), s1)
      | (None, s1) => (None, s1)
      end
  end.

Definition nit_next_f (s : fdb) (it : nit) (skip : bool) : nit * fdb :=
  if negb (nit_valid it) then (it, s)
  else
    match nstack it with
    | [] => (it, s)
    | (_, n) :: rest =>
        if skip then (Nit rest false, s)
        else
          match n with
          | SLeaf _ _ => (Nit rest false, s)
          | SInner _ _ _ _ lk rk =>
              match get_node_f s rk with
              | (None, s1) => (Nit rest true, s1)
              | (Some rn, s1) =>
                  match get_node_f s1 lk with
                  | (None, s2) => (Nit ((rk, rn) :: rest) true, s2)
                  | (Some ln, s2) => (Nit ((lk, ln) :: (rk, rn) :: rest) false, s2)
                  end
              end
          end
    end.

(** ** Batch writes *)

(** does this write make the batch be written out first? *)
Definition flushes_now (p : pdb) (o : wop) : bool :=
  if effmode p && negb (effective p o) then false
  else match sched p with true :: _ => true | _ => false end.

(** the batch written out, the write not yet added (the state after a successful Write whose
    Set/Delete then fails) *)
Definition pflushed (p : pdb) : pdb :=
  match sched p with
  | true :: rest =>
      let d := sapply_all (disk p) (pend p) in
      Pdb d [] rest (wlog p) (flushes p ++ [length (if effmode p then elog p else wlog p)])
          (effmode p) (elog p) (dhist p ++ [d])
  | _ => p
  end.

(** [true] = done (the new state is PruneAlgo's [pwrite]); [false] = a call failed *)
Definition pwrite_f (s : fdb) (o : wop) : bool * fdb :=
  let p := fp s in
  if flushes_now p o then
    let (bad, s1) := tick s in                 (* the batch Write *)
    if bad then (false, s1)
    else
      let (bad2, s2) := tick s1 in             (* the Set / Delete on the new batch *)
      if bad2 then (false, setp s2 (pflushed p)) else (true, setp s2 (pwrite p o))
  else
    let (bad, s1) := tick s in                 (* the Set / Delete *)
    if bad then (false, s1) else (true, setp s1 (pwrite p o)).

Definition on_orphan_f (version : Z) (s : fdb) (k : nodekey) : bool * fdb :=
  if (snd k =? 1) && (fst k <? version) then
    match pwrite_f s (del_node k) with
    | (true, s1) => pwrite_f s1 (del_node (fst k, 0))
    | (false, s1) => (false, s1)
    end
  else pwrite_f s (del_node k).

Section PruneF.
  Variable H : bytes -> bytes.
  Variable fixed : bool.

  (** the double traversal; [fixed = false]: without the branch that stops on a read error of the
      current tree's iterator *)
  Fixpoint orphans_loop_g (fuel : nat) (version : Z) (s : fdb) (cur prev : nit)
           (org : option (nodekey * snode)) : pres unit * fdb :=
    match fuel with
    | O => (PFuel, s)
    | S fuel' =>
        if negb (nit_valid prev) then
          ((if nerr cur then PErr else if nerr prev then PErr else POk tt), s)
        else if fixed && nerr cur then (PErr, s)
        else
          match org, nit_valid cur with
          | None, true =>
              match nstack cur with
              | (k, n) :: _ =>
                  if fst k <=? version
                  then let (cur', s1) := nit_next_f s cur true in
                       orphans_loop_g fuel' version s1 cur' prev (Some (k, n))
                  else let (cur', s1) := nit_next_f s cur false in
                       orphans_loop_g fuel' version s1 cur' prev None
              | [] => (PErr, s)
              end
          | _, _ =>
              match nstack prev with
              | (pk, pn) :: _ =>
                  let same :=
                    match org with
                    | Some (ok, on) => beq (fetched_hash H pk pn) (fetched_hash H ok on)
                    | None => false
                    end in
                  if same
                  then let (prev', s1) := nit_next_f s prev true in
                       orphans_loop_g fuel' version s1 cur prev' None
                  else
                    match on_orphan_f version s pk with
                    | (true, s1) =>
                        let (prev', s2) := nit_next_f s1 prev false in
                        orphans_loop_g fuel' version s2 cur prev' org
                    | (false, s1) => (PErr, s1)
                    end
              | [] => (PErr, s)
              end
          end
    end.

  Definition traverse_f (fuel : nat) (version : Z) (s : fdb) (c : rkc) : pres unit * rkc * fdb :=
    match rkc_get_f c s (version + 1) with
    | (POk curk, c1, s1) =>
        match nit_new_f s1 curk with
        | (None, s2) => (PErr, c1, s2)
        | (Some cur, s2) =>
            match rkc_get_f c1 s2 version with
            | (POk prevk, c2, s3) =>
                match nit_new_f s3 prevk with
                | (None, s4) => (PErr, c2, s4)
                | (Some prev, s4) =>
                    let (r, s5) := orphans_loop_g fuel version s4 cur prev None in (r, c2, s5)
                end
            | (PNoVersion, c2, s3) => (PNoVersion, c2, s3)
            | (PErr, c2, s3) => (PErr, c2, s3)
            | (PFuel, c2, s3) => (PFuel, c2, s3)
            end
        end
    | (PNoVersion, c1, s1) => (PNoVersion, c1, s1)
    | (PErr, c1, s1) => (PErr, c1, s1)
    | (PFuel, c1, s1) => (PFuel, c1, s1)
    end.

  (** the phases of deleteVersion (cf. PruneAlgoFacts5.dv_step1 / dv_p2 / dv_tail) *)
  Definition step1_f (fuel : nat) (version : Z) (s : fdb) (c1 : rkc) (rootk : option nodekey)
    : pres unit * rkc * fdb :=
    match rootk with
    | Some _ =>
        match traverse_f fuel version s c1 with
        | (POk _, c2, s2) => (POk tt, c2, s2)
        | (PNoVersion, c2, s2) => (POk tt, c2, s2)
        | (e, c2, s2) => (e, c2, s2)
        end
    | None => (POk tt, c1, s)
    end.

  Definition p2_f (version : Z) (rootk : option nodekey) (s : fdb) : bool * fdb :=
    match rootk with
    | Some k => if keqb k (version, 1) then (true, s) else pwrite_f s (del_node (version, 1))
    | None => pwrite_f s (del_node (version, 1))
    end.

  Definition tail_f (version : Z) (s : fdb) (c2 : rkc) : pres unit * rkc * fdb :=
    match rkc_get_f c2 s (version + 1) with
    | (PErr, c3, s1) => (PErr, c3, s1)
    | (PFuel, c3, s1) => (PFuel, c3, s1)
    | (r3, c3, s1) =>
        let nextk := match r3 with POk k => k | _ => None end in
        match nextk with
        | Some nk =>
            if keqb nk (version, 1) then
              match get_node_f s1 nk with
              | (None, s2) => (PErr, c3, s2)
              | (Some root, s2) =>
                  match pwrite_f s2 (set_node ((version, 0), ENode root)) with
                  | (true, s3) =>
                      match pwrite_f s3 (del_node (version, 1)) with
                      | (true, s4) => (POk tt, c3, s4)
                      | (false, s4) => (PErr, c3, s4)
                      end
                  | (false, s3) => (PErr, c3, s3)
                  end
              end
            else (POk tt, c3, s1)
        | None => (POk tt, c3, s1)
        end
    end.

  Definition delete_version_f (fuel : nat) (version : Z) (s : fdb) (c : rkc) : pres unit * rkc * fdb :=
    match rkc_get_f c s version with
    | (PErr, c1, s1) => (PErr, c1, s1)
    | (PFuel, c1, s1) => (PFuel, c1, s1)
    | (r, c1, s1) =>
        let rootk := match r with POk k => k | _ => None end in
        match step1_f fuel version s1 c1 rootk with
        | (POk _, c2, s2) =>
            match p2_f version rootk s2 with
            | (true, s3) => tail_f version s3 c2
            | (false, s3) => (PErr, c2, s3)
            end
        | (e, c2, s2) => (e, c2, s2)
        end
    end.

  Fixpoint delete_range_f (fuel : nat) (vs : list Z) (s : fdb) (c : rkc) : pres unit * fdb :=
    match vs with
    | [] => (POk tt, s)
    | v :: rest =>
        match delete_version_f fuel v s c with
        | (POk _, c', s') => delete_range_f fuel rest s' c'
        | (e, _, s') => (e, s')
        end
    end.

  (** the result: the [pdb] reached, whatever happened *)
  Inductive pfres := FOk (p : pdb) | FNoVersion (p : pdb) | FErr (p : pdb) | FFuel (p : pdb).

  Definition pf_pdb (r : pfres) : pdb :=
    match r with FOk p | FNoVersion p | FErr p | FFuel p => p end.

  (** DeleteVersionsTo with the [fail]-th storage call failing ([None]: no failure) *)
  Definition prune_fault (eff : bool) (st : store) (schedule : list bool) (first latest to : Z)
             (fail : option nat) : pfres :=
    let p0 := Pdb st [] schedule [] [] eff [] [st] in
    if latest <=? to then FErr p0
    else
      match delete_range_f (prune_fuel st) (versions_from_to first to) (Fdb p0 O fail) rkc_new with
      | (POk _, s) =>
          let (bad, s1) := tick s in              (* Commit: the batch is written out *)
          if bad then FErr (fp s1) else FOk (pflush (fp s1))
      | (PNoVersion, s) => FNoVersion (fp s)
      | (PErr, s) => FErr (fp s)
      | (PFuel, s) => FFuel (fp s)
      end.

  (** the number of storage calls of the run *)
  Definition prune_calls (eff : bool) (st : store) (schedule : list bool) (first latest to : Z) : nat :=
    let p0 := Pdb st [] schedule [] [] eff [] [st] in
    if latest <=? to then O
    else
      match delete_range_f (prune_fuel st) (versions_from_to first to) (Fdb p0 O None) rkc_new with
      | (POk _, s) => S (fcalls s)
      | (_, s) => fcalls s
      end.
End PruneF.

(** on the physical store of a forest *)
Definition prune_forest_fault (H : bytes -> bytes) (fixed eff : bool) (r : list Z)
           (f : list (Z * option node)) (schedule : list bool) (to : Z) (fail : option nat) :=
  prune_fault H fixed eff (phys_of r f) schedule (first_of_forest f) (latest_of_forest f) to fail.

Definition prune_forest_calls (H : bytes -> bytes) (fixed eff : bool) (r : list Z)
           (f : list (Z * option node)) (schedule : list bool) (to : Z) : nat :=
  prune_calls H fixed eff (phys_of r f) schedule (first_of_forest f) (latest_of_forest f) to.
