(** C10: Exporter / Importer / Compress{Exporter,Importer} of cosmos/iavl (export.go,
    import.go, compress.go, node.go:validate), transcribed as executable state machines.

    Conventions
    - Go [[]byte] that may be [nil] in hostile input is [option bytes] ([None] = nil).
    - Results are [ires]: [IOk x] | [IErr] (Go returns an error) | [IPanic] (Go panics:
      slice index / slice bounds out of range, nil dereference, makeslice len out of range).
      Every slice access keeps an explicit bounds check in the model; since the fixes
      f7b1f2c (Importer.Add: negative version) and a7a4939 (CompressImporter.Add / deltaDecode)
      the importers' [IPanic] branches are unreachable (ExportImportFacts.importer_total,
      compress_importer_total); what remains is newImporter's [make] for an absurd import
      version and the CompressExporter's unchecked version stack.
    - Stacks are lists with the TOP at the HEAD ([stack[len-1]] = head, [stack[len-2]] = second).
    - [int64] arithmetic that can overflow on hostile input (version deltas of the compress
      codec) wraps ([wrap64]); [uint32] nonces wrap ([u32]).  [ExportNode.Height] is an
      [int8] in Go: heights outside [-128,127] are not representable there (the model does
      no arithmetic on heights, only comparisons, so it does not care).
    - The database batch (maxBatchSize flushes, inflightCommit) has no logical effect:
      nodes written before Commit are unreachable (no root entry), see
      ExportImportFacts.import_error_no_effect. *)
From IAVL Require Import Bytes Varint Tree.
Local Open Scope Z_scope.

(** ** ExportNode *)
Record enode := ENode {
  e_key : option bytes;
  e_value : option bytes;
  e_version : Z;
  e_height : Z
}.

(** ** Exporter: traversePost (left, right, node); inner nodes carry a nil value. *)
Fixpoint export_node (t : node) : list enode :=
  match t with
  | Leaf k v m => [ENode (Some k) (Some v) (ver m) 0]
  | Inner k h s m l r =>
      export_node l ++ export_node r ++ [ENode (Some k) None (ver m) h]
  end.

Definition export (t : option node) : list enode :=
  match t with None => [] | Some n => export_node n end.

(** ** Result type *)
Inductive ires (A : Type) := IOk (a : A) | IErr | IPanic.
Arguments IOk {A} a.
Arguments IErr {A}.
Arguments IPanic {A}.

Definition ibind {A B} (r : ires A) (f : A -> ires B) : ires B :=
  match r with IOk a => f a | IErr => IErr | IPanic => IPanic end.

(** "Replace every panic by an error" (kept for comparing against older, unguarded code). *)
Definition ires_fix {A} (r : ires A) : ires A :=
  match r with IPanic => IErr | x => x end.

(** ** Importer *)

(** A node under construction on the importer stack.  It is a Go [*Node] built from
    unvalidated input: key / value may be nil, a non-zero height may come without children
    (then [size] keeps Go's zero value), a leaf height may come with a nil value, ...
    Children, when present, have been through [writeNode] (hence [validate]) and are
    ordinary M1 nodes. *)
Record pnode := PNode {
  p_key : option bytes;
  p_value : option bytes;
  p_height : Z;
  p_size : Z;
  p_ver : Z;
  p_nonce : Z;
  p_kids : option (node * node)
}.

Definition set_nonce (p : pnode) (n : Z) : pnode :=
  PNode (p_key p) (p_value p) (p_height p) (p_size p) (p_ver p) n (p_kids p).

Record imp_state := IState {
  i_version : Z;                 (* Importer.version; len(nonces) = version + 1 *)
  i_stack : list pnode;          (* top at head *)
  i_nonces : list (Z * Z);       (* sparse view of the zero-initialised []uint32 *)
  i_closed : bool                (* Importer.tree == nil *)
}.

Fixpoint nonce_get (v : Z) (l : list (Z * Z)) : Z :=
  match l with
  | [] => 0
  | (w, n) :: rest => if w =? v then n else nonce_get v rest
  end.

Fixpoint nonce_set (v n : Z) (l : list (Z * Z)) : list (Z * Z) :=
  match l with
  | [] => [(v, n)]
  | (w, m) :: rest => if w =? v then (v, n) :: rest else (w, m) :: nonce_set v n rest
  end.

Definition u32 (z : Z) : Z := z mod 4294967296.

(** [make([]uint32, version+1)]: runtime.makeslice panics ("len out of range") when the
    length is negative (version = MaxInt64 wraps) or 4*len exceeds maxAlloc = 2^48
    (linux/amd64).  Below that bound a huge version makes Go die with an unrecoverable
    out-of-memory error instead; that is outside the model. *)
Definition max_nonces_len : Z := 70368744177664. (* 2^46 *)

Section Importer.
  Variable H : bytes -> bytes.

  (** newImporter.  [latest] = ndb.latestVersion, [empty] = tree.IsEmpty(). *)
  Definition imp_new (latest : Z) (empty : bool) (version : Z) : ires imp_state :=
    if version <? 0 then IErr
    else if 0 <? latest then IErr
    else if negb empty then IErr
    else if max_nonces_len <? version + 1 then IPanic
    else IOk (IState version [] [] false).

  (** writeNode = [_hash(node.nodeKey.version)] ; [validate()] ; serialise into the batch.
      [None] = an error is returned (always from validate: [_hash] and [writeBytes] cannot
      fail on a node that validates and has its children).  The result is the persisted
      M1 node. *)
  Definition write_node (p : pnode) : option node :=
    match p_key p with
    | None => None                                  (* key cannot be nil *)
    | Some k =>
        if p_ver p <=? 0 then None                  (* version must be greater than 0 *)
        else if p_height p <? 0 then None           (* height cannot be less than 0 *)
        else if p_size p <? 1 then None             (* size must be at least 1 *)
        else if p_height p =? 0 then
          match p_value p with
          | None => None                            (* value cannot be nil for leaf node *)
          | Some v =>
              match p_kids p with
              | Some _ => None                      (* leaf node cannot have children *)
              | None =>
                  if negb (p_size p =? 1) then None (* leaf nodes must have size 1 *)
                  else Some (Leaf k v (Meta (p_ver p) (p_nonce p)
                                         (H (leaf_preimage H (p_ver p) k v))))
              end
          end
        else
          match p_value p with
          | Some _ => None                          (* value must be nil for non-leaf node *)
          | None =>
              match p_kids p with
              | None => None                        (* writeBytes: ErrLeftNodeKeyEmpty
                                                       (unreachable: size = 0 above) *)
              | Some (l, r) =>
                  Some (Inner k (p_height p) (p_size p)
                          (Meta (p_ver p) (p_nonce p)
                             (H (inner_preimage (p_height p) (p_size p) (p_ver p)
                                   (hs (nmeta l)) (hs (nmeta r)))))
                          l r)
              end
          end
    end.

  (** Importer.Add, branch by branch. *)
  Definition imp_add (st : imp_state) (on : option enode) : ires imp_state :=
    if i_closed st then IErr                                  (* ErrNoImport *)
    else
      match on with
      | None => IErr                                          (* node cannot be nil *)
      | Some n =>
          if i_version st <? e_version n then IErr            (* version > import version *)
          else if e_version n <? 0 then IErr                  (* version can't be negative *)
          else
            let h := e_height n in
            let built : ires (list pnode * Z * option (node * node)) :=
              if h =? 0 then IOk (i_stack st, 1, None)
              else
                match i_stack st with
                | r :: l :: rest =>
                    if (p_height r <? h) && (p_height l <? h) then
                      match write_node l with
                      | None => IErr
                      | Some ln =>
                          match write_node r with
                          | None => IErr
                          | Some rn => IOk (rest, p_size l + p_size r, Some (ln, rn))
                          end
                      end
                    else IOk (i_stack st, 0, None)
                | _ => IOk (i_stack st, 0, None)
                end in
            match built with
            | IOk (stk, sz, kids) =>
                let v := e_version n in
                (* i.nonces[exportNode.Version]++ : index into a slice of length version+1;
                   the explicit bounds check of the slice access: unreachable thanks to the
                   two version guards above (ExportImportFacts.imp_add_no_panic) *)
                if (v <? 0) || (i_version st + 1 <=? v) then IPanic
                else
                  let c := u32 (nonce_get v (i_nonces st) + 1) in
                  IOk (IState (i_version st)
                         (PNode (e_key n) (e_value n) h sz v (u32 (c + 1)) kids :: stk)
                         (nonce_set v c (i_nonces st))
                         false)
            | IErr => IErr
            | IPanic => IPanic
            end
      end.

  (** Importer.Commit: the root made visible at [i_version] ([None] = empty tree).  When
      the root's own version is smaller than the import version Go additionally writes a
      reference root entry; the tree loaded by [LoadVersion] is the same node.
      (On a validate error Go has already set [stack[0].nodeKey.nonce = 1]; that node can
      never validate afterwards, so the mutation is unobservable:
      ExportImportFacts.write_node_nonce_irrelevant.) *)
  Definition imp_commit (st : imp_state) : ires (option node) :=
    if i_closed st then IErr
    else
      match i_stack st with
      | [] => IOk None
      | [p] =>
          match write_node (set_nonce p 1) with
          | None => IErr
          | Some n => IOk (Some n)
          end
      | _ => IErr
      end.

  Definition imp_close (st : imp_state) : imp_state :=
    IState (i_version st) (i_stack st) (i_nonces st) true.

  Fixpoint imp_adds (st : imp_state) (stream : list (option enode)) : ires imp_state :=
    match stream with
    | [] => IOk st
    | on :: rest => ibind (imp_add st on) (fun st' => imp_adds st' rest)
    end.

  (** MutableTree.Import(version) on a fresh tree; Add every node (stop at the first
      failure); Commit. *)
  Definition imp_run (version : Z) (stream : list (option enode)) : ires (option node) :=
    ibind (imp_new 0 true version) (fun st => ibind (imp_adds st stream) imp_commit).
End Importer.

(** ** Compress codec (compress.go) *)

Definition key_bytes (k : option bytes) : bytes := match k with Some b => b | None => [] end.

Definition wrap64 (z : Z) : Z :=
  (z + 9223372036854775808) mod 18446744073709551616 - 9223372036854775808.

(** diffOffset: index of the first differing byte. *)
Fixpoint diff_offset (a b : bytes) : nat :=
  match a, b with
  | x :: a', y :: b' => if N.eqb x y then S (diff_offset a' b') else O
  | _, _ => O
  end.

Definition delta_encode (key last : bytes) : bytes :=
  let shared := diff_offset last key in
  uvarint_enc (N.of_nat shared) ++ skipn shared key.

(** deltaDecode.  The guard [shared > len(lastKey)] returns an error, so [lastKey[:shared]]
    stays within the LENGTH of the previous key (before the guard existed this was a
    slice-bounds panic when [shared > cap(lastKey)], and a silent read of the spare
    capacity when [len < shared <= cap]; both are gone, the cap/len distinction no longer
    matters) and [make([]byte, shared+len(key))] cannot overflow. *)
Definition delta_decode (key : option bytes) (last : bytes) : ires bytes :=
  match uvarint_dec (key_bytes key) with
  | None => IErr                                      (* uvarint parse failed *)
  | Some (shared, n) =>
      let rest := skipn n (key_bytes key) in
      if (shared =? 0)%N then IOk rest
      else if (N.of_nat (length last) <? shared)%N then IErr   (* shared exceeds previous key *)
      else IOk (firstn (N.to_nat shared) last ++ rest)
  end.

Record cexp_state := CExp { ce_last : bytes; ce_vers : list Z }.
Definition cexp_init : cexp_state := CExp [] [].

(** CompressExporter.Next applied to the node returned by the inner exporter. *)
Definition cexp_next (st : cexp_state) (n : enode) : ires (cexp_state * enode) :=
  if e_height n =? 0 then
    let k := key_bytes (e_key n) in
    IOk (CExp k (e_version n :: ce_vers st),
         ENode (Some (delta_encode k (ce_last st))) (e_value n) (e_version n) (e_height n))
  else
    match ce_vers st with
    | a :: b :: rest =>                               (* versionStack[len-1], [len-2] *)
        IOk (CExp (ce_last st) (e_version n :: rest),
             ENode None (e_value n) (wrap64 (e_version n - Z.max a b)) (e_height n))
    | _ => IPanic                                     (* index out of range [-1] *)
    end.

Fixpoint compress_from (st : cexp_state) (l : list enode) : ires (list enode) :=
  match l with
  | [] => IOk []
  | n :: rest =>
      ibind (cexp_next st n) (fun '(st', c) =>
        ibind (compress_from st' rest) (fun cs => IOk (c :: cs)))
  end.

(** The compressed wire record is again an ExportNode. *)
Definition cnode := enode.
Definition compress (l : list enode) : ires (list cnode) := compress_from cexp_init l.

Record cimp_state := CImp { ci_last : bytes; ci_minkeys : list bytes; ci_vers : list Z }.
Definition cimp_init : cimp_state := CImp [] [] [].

(** CompressImporter.Add up to (excluding) the final [i.inner.Add(node)]: the new codec
    state and the decompressed node handed to the inner importer. *)
Definition cimp_step (st : cimp_state) (n : cnode) : ires (cimp_state * enode) :=
  if e_height n =? 0 then
    ibind (delta_decode (e_key n) (ci_last st)) (fun key =>
      IOk (CImp key (key :: ci_minkeys st) (e_version n :: ci_vers st),
           ENode (Some key) (e_value n) (e_version n) (e_height n)))
  else if Nat.ltb (length (ci_minkeys st)) 1 || Nat.ltb (length (ci_vers st)) 2 then
    IErr                                              (* inner node without two subtrees *)
  else
    (* the slice accesses below keep their explicit bounds checks; the guard above makes
       the IPanic branches unreachable (ExportImportFacts.cimp_step_no_panic) *)
    match ci_minkeys st with
    | [] => IPanic                                    (* minKeyStack[len-1], len = 0 *)
    | k :: mks =>
        match ci_vers st with
        | a :: b :: rest =>                           (* versionStack[len-1], [len-2] *)
            let v := wrap64 (e_version n + Z.max a b) in
            IOk (CImp (ci_last st) mks (v :: rest),
                 ENode (Some k) (e_value n) v (e_height n))
        | _ => IPanic                                 (* index out of range [-1] *)
        end
    end.

(** A nil *ExportNode is rejected first. *)
Definition cimp_add (st : cimp_state) (on : option cnode) : ires (cimp_state * enode) :=
  match on with
  | None => IErr                                      (* node cannot be nil *)
  | Some n => cimp_step st n
  end.

Fixpoint decompress_from (st : cimp_state) (l : list cnode) : ires (list enode) :=
  match l with
  | [] => IOk []
  | c :: rest =>
      ibind (cimp_step st c) (fun '(st', n) =>
        ibind (decompress_from st' rest) (fun ns => IOk (n :: ns)))
  end.

Definition decompress (l : list cnode) : ires (list enode) := decompress_from cimp_init l.

(** CompressImporter wrapped around an Importer: every Add decompresses, then calls the
    inner Add; the caller stops at the first failure; Commit on the inner importer. *)
Section CompressImporter.
  Variable H : bytes -> bytes.

  Fixpoint cimp_adds (cs : cimp_state) (st : imp_state) (stream : list (option cnode))
    : ires imp_state :=
    match stream with
    | [] => IOk st
    | on :: rest =>
        ibind (cimp_add cs on) (fun '(cs', n) =>
          ibind (imp_add H st (Some n)) (fun st' => cimp_adds cs' st' rest))
    end.

  Definition cimp_run (version : Z) (stream : list (option cnode)) : ires (option node) :=
    ibind (imp_new 0 true version) (fun st =>
      ibind (cimp_adds cimp_init st stream) (imp_commit H)).
End CompressImporter.

(** ** Importer sessions: what a caller can observe.  [s_visible] is the root made visible
    in the tree / database ([None]: nothing, the tree is still empty at version 0).  A Go
    panic would end the session (no step of a session can panic any more:
    ExportImportFacts.imp_add_no_panic, imp_commit_no_panic). *)
Inductive iop := IAdd (n : option enode) | ICommit | IClose.

Record sess := Sess { s_imp : imp_state; s_visible : option (option node) }.

Section Session.
  Variable H : bytes -> bytes.

  Definition sess_step (s : sess) (o : iop) : sess * ires unit :=
    match o with
    | IAdd n =>
        match imp_add H (s_imp s) n with
        | IOk st' => (Sess st' (s_visible s), IOk tt)
        | IErr => (s, IErr)
        | IPanic => (s, IPanic)
        end
    | ICommit =>
        match imp_commit H (s_imp s) with
        | IOk r => (Sess (imp_close (s_imp s)) (Some r), IOk tt)   (* Commit calls Close *)
        | IErr => (s, IErr)
        | IPanic => (s, IPanic)
        end
    | IClose => (Sess (imp_close (s_imp s)) (s_visible s), IOk tt)
    end.

  Fixpoint sess_run (s : sess) (ops : list iop) : sess * list (ires unit) :=
    match ops with
    | [] => (s, [])
    | o :: rest =>
        let (s', x) := sess_step s o in
        match x with
        | IPanic => (s', [x])
        | _ => let (s'', xs) := sess_run s' rest in (s'', x :: xs)
        end
    end.
End Session.
