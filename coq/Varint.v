(** Go's encoding/binary varints as used by iavl/internal/encoding. *)
From IAVL Require Import Bytes.
Local Open Scope N_scope.

(** [binary.PutUvarint]; total on [N], emits at most [fuel] bytes (10 suffice for u < 2^64). *)
Fixpoint uvarint_enc_fuel (fuel : nat) (u : N) : bytes :=
  match fuel with
  | O => []
  | S f => if u <? 128 then [u] else (u mod 128 + 128) :: uvarint_enc_fuel f (u / 128)
  end.
Definition uvarint_enc (u : N) : bytes := uvarint_enc_fuel 10 u.

(** [binary.Uvarint] wrapped by [encoding.DecodeUvarint]: [Some (value, consumed)] or [None]
    (buffer too small, or overflow: more than 10 bytes, or 10th byte > 1). [i] is the index
    of the first byte of [buf] in the original buffer. *)
Fixpoint uvarint_dec_at (i : nat) (buf : bytes) : option (N * nat) :=
  match buf with
  | [] => None
  | b :: rest =>
      if Nat.leb 10 i then None
      else if b <? 128 then
        (if Nat.eqb i 9 && (1 <? b) then None else Some (b, 1%nat))
      else
        match uvarint_dec_at (S i) rest with
        | Some (v, n) => Some ((b - 128) + 128 * v, S n)
        | None => None
        end
  end.
Definition uvarint_dec (buf : bytes) : option (N * nat) := uvarint_dec_at 0 buf.

(** zig-zag *)
Definition zigzag (x : Z) : N :=
  if (x <? 0)%Z then Z.to_N (2 * (- x) - 1) else Z.to_N (2 * x).
Definition unzigzag (u : N) : Z :=
  if N.even u then Z.of_N (u / 2) else (- Z.of_N (u / 2) - 1)%Z.

Definition varint_enc (x : Z) : bytes := uvarint_enc (zigzag x).
Definition varint_dec (buf : bytes) : option (Z * nat) :=
  match uvarint_dec buf with
  | Some (u, n) => Some (unzigzag u, n)
  | None => None
  end.

(** [encoding.EncodeBytes] / [DecodeBytes] : uvarint length prefix. *)
Definition bytes_enc (b : bytes) : bytes := uvarint_enc (N.of_nat (length b)) ++ b.

Definition max_int : N := 9223372036854775807. (* ^uint(0)>>1 on 64-bit *)

Definition bytes_dec (buf : bytes) : option (bytes * nat) :=
  match uvarint_dec buf with
  | None => None
  | Some (s, n) =>
      if max_int <=? s then None
      else
        let rest := skipn n buf in
        if N.of_nat (length rest) <? s then None
        else Some (firstn (N.to_nat s) rest, (n + N.to_nat s)%nat)
  end.

(** big-endian fixed width *)
Fixpoint be_enc (width : nat) (x : N) : bytes :=
  match width with
  | O => []
  | S w => be_enc w (x / 256) ++ [x mod 256]
  end.
Definition be_dec (b : bytes) : N := fold_left (fun acc x => acc * 256 + x) b 0.
