(** The legacy (pre-1.0) node store as a key-value database, its WRITER (the old library,
    iavl v0.20.0) and the code of the new library that DELETES from it.  Executable model.

    Old library (what wrote the database), iavl@v0.20.0:
      nodedb.go  SaveBranch, SaveOrphans, saveOrphan, deleteOrphans, DeleteVersion, deleteRoot,
                 getPreviousVersion, getLatestVersion, saveRoot;
      mutable_tree.go  SaveVersion (orphans = the persisted nodes dropped from the tree),
                 deleteVersion (the checks made before the database is touched).
    New library, /repo/nodedb.go: deleteLegacyNodes, deleteLegacyVersions, the legacy part of
      DeleteVersionsFrom and of deleteVersionsTo, getLegacyLatestVersion, the [orphan.isLegacy]
      branch of deleteVersion.

    Three tables: [n<hash>] -> node, [o<to><from><hash>] -> hash, [r<version>] -> root hash.
    A node is identified by its hash ([pure_hash H 0], as in Legacy.v).

    Modelling decisions (all visible in the definitions below):
    - a batch is applied at the end of the operation that fills it: every read of an operation
      sees the tables as they were when the operation started (BatchWithFlusher below its flush
      threshold; the node cache can only make more reads succeed);
    - the cached fields [legacyLatestVersion] / [firstVersion] of the nodeDB are not modelled:
      [legacy_latest] is what the iterator of getLegacyLatestVersion finds;
    - every key looked up in the node table is taken to be a legacy key (GetNode selects the
      legacy table for 32-byte keys; [Legacy.legacy_ok] asks the hashes to be 32 bytes long);
    - the node table holds decoded nodes ([raw_legacy_node]); [lstore_bytes] gives the bytes. *)
From IAVL Require Import Bytes Varint Tree MTree Codec Legacy.
Local Open Scope Z_scope.

Record ldb := Ldb {
  lnodes : lstore;                        (* n<hash> *)
  lorph : list ((Z * Z) * bytes);         (* o<to><from><hash>, value = hash *)
  lroots : list (Z * bytes)               (* r<version>, [] = empty tree *)
}.
Definition empty_ldb : ldb := Ldb [] [] [].

(** retained versions, ascending, with their M1 trees (MTree.forest) *)
Definition lforest := list (Z * option node).

(** ** Key-value primitives *)
Definition hmem (h : bytes) (l : list bytes) : bool := existsb (bytes_eqb h) l.

(** batch.Delete of one key / of a list of keys *)
Definition ldel {A} (k : bytes) (st : list (bytes * A)) : list (bytes * A) :=
  filter (fun p => negb (bytes_eqb (fst p) k)) st.
Definition ldel_all {A} (ks : list bytes) (st : list (bytes * A)) : list (bytes * A) :=
  filter (fun p => negb (hmem (fst p) ks)) st.
(** batch.Set *)
Definition lset {A} (k : bytes) (a : A) (st : list (bytes * A)) : list (bytes * A) :=
  (k, a) :: ldel k st.
Definition lset_all {A} (es : list (bytes * A)) (st : list (bytes * A)) : list (bytes * A) :=
  fold_right (fun e s => lset (fst e) (snd e) s) st es.

Definition orec := ((Z * Z) * bytes)%type.
Definition orec_to (r : orec) : Z := fst (fst r).
Definition orec_from (r : orec) : Z := snd (fst r).
Definition orec_hash (r : orec) : bytes := snd r.
Definition orec_eqb (a b : orec) : bool :=
  (orec_to a =? orec_to b) && (orec_from a =? orec_from b) && bytes_eqb (orec_hash a) (orec_hash b).
(** batch.Set of an orphan key (the value is part of the key) *)
Definition orph_add (r : orec) (l : list orec) : list orec :=
  if existsb (orec_eqb r) l then l else r :: l.

(** reverse iterator over [r<1> .. r<MaxInt64>): the largest version, 0 when there is none
    (old getLatestVersion) *)
Definition max_version (roots : list (Z * bytes)) : Z :=
  fold_right Z.max 0 (filter (fun v => 1 <=? v) (map fst roots)).
(** old getPreviousVersion: reverse iterator over [r<1> .. r<version>), 0 when there is none *)
Definition prev_version (roots : list (Z * bytes)) (version : Z) : Z :=
  fold_right Z.max 0 (filter (fun v => (1 <=? v) && (v <? version)) (map fst roots)).

Section Store.
  Variable H : bytes -> bytes.

  Definition nhash (t : node) : bytes := pure_hash H 0 t.
  Definition tree_hashes (t : node) : list bytes := map fst (legacy_nodes H t).
  Definition otree_hashes (t : option node) : list bytes :=
    match t with None => [] | Some n => tree_hashes n end.

  (** *** The writer: the old library *)

  (** SaveBranch: the new nodes (version = the version being committed), children first; a
      persisted node ends the descent *)
  Fixpoint save_branch (w : Z) (t : node) : lstore :=
    if ver (nmeta t) =? w then
      match t with
      | Leaf _ _ _ => []
      | Inner _ _ _ _ l r => save_branch w l ++ save_branch w r
      end ++ [(nhash t, legacy_raw H t)]
    else [].

  (** tree.orphans at SaveVersion: hash -> version of the persisted nodes dropped from the tree *)
  Definition orphans_of (prev cur : option node) : list (bytes * Z) :=
    match prev with
    | None => []
    | Some p =>
        let live := otree_hashes cur in
        map (fun e => (fst e, ln_version (snd e)))
            (filter (fun e => negb (hmem (fst e) live)) (legacy_nodes H p))
    end.

  (** SaveVersion of version [w] (SaveBranch, SaveOrphans, SaveRoot / SaveEmptyRoot, Commit).
      [None]: saveOrphan's "orphan expires before it comes alive".
      The key [r<w>] is new (SaveVersion's VersionExists check; saveRoot's consecutive check). *)
  Definition legacy_commit (db : ldb) (w : Z) (prev cur : option node) : option ldb :=
    let to := prev_version (lroots db) w in
    let orphans := orphans_of prev cur in
    if forallb (fun p => snd p <=? to) orphans then
      Some (Ldb (match cur with
                 | None => lnodes db
                 | Some c => lset_all (save_branch w c) (lnodes db)
                 end)
                (fold_right orph_add (lorph db) (map (fun p => ((to, snd p), fst p)) orphans))
                (lroots db ++ [(w, legacy_root_value H cur)]))
    else None.

  (** MutableTree.DeleteVersion -> deleteVersion (the three refusals) -> nodeDB.DeleteVersion:
      deleteOrphans(version) then deleteRoot. *)
  Definition legacy_delete_version (db : ldb) (v : Z) : option ldb :=
    if v <=? 0 then None
    else if v =? max_version (lroots db) then None
    else
      match lookup v (lroots db) with
      | None => None
      | Some _ =>
          let pred := prev_version (lroots db) v in
          let hits := filter (fun r => orec_to r =? v) (lorph db) in
          let rest := filter (fun r => negb (orec_to r =? v)) (lorph db) in
          let dead := filter (fun r => (pred <? orec_from r) || (orec_from r =? orec_to r)) hits in
          let moved :=
            filter (fun r => negb ((pred <? orec_from r) || (orec_from r =? orec_to r))) hits in
          Some (Ldb (ldel_all (map orec_hash dead) (lnodes db))
                    (fold_right orph_add rest
                       (map (fun r => ((pred, orec_from r), orec_hash r)) moved))
                    (filter (fun p => negb (fst p =? v)) (lroots db)))
      end.

  (** histories of the legacy library: commits of given (M1) trees, deletions of single versions *)
  Inductive lop := LCommit (t : option node) | LDelete (v : Z).

  Definition latest_tree (f : lforest) (latest : Z) : option node :=
    match lookup latest f with Some t => t | None => None end.

  (** [None]: the operation returns an error and changes nothing *)
  Definition legacy_step (st : ldb * lforest) (o : lop) : option (ldb * lforest) :=
    let (db, f) := st in
    match o with
    | LCommit t =>
        let latest := max_version (lroots db) in
        let w := latest + 1 in
        match legacy_commit db w (latest_tree f latest) t with
        | Some db' => Some (db', f ++ [(w, t)])
        | None => None
        end
    | LDelete v =>
        match legacy_delete_version db v with
        | Some db' => Some (db', filter (fun p => negb (fst p =? v)) f)
        | None => None
        end
    end.

  Definition legacy_history_from (st : ldb * lforest) (ops : list lop) : ldb * lforest :=
    fold_left (fun st o => match legacy_step st o with Some st' => st' | None => st end) ops st.
  Definition legacy_history (ops : list lop) : ldb * lforest :=
    legacy_history_from (empty_ldb, []) ops.

  (** the same with the result of every operation (true = no error) *)
  Fixpoint legacy_history_log (st : ldb * lforest) (ops : list lop) : (ldb * lforest) * list bool :=
    match ops with
    | [] => (st, [])
    | o :: rest =>
        match legacy_step st o with
        | Some st' => let (s, l) := legacy_history_log st' rest in (s, true :: l)
        | None => let (s, l) := legacy_history_log st rest in (s, false :: l)
        end
    end.

  (** the trees of an M1 forest as commits *)
  Definition commits_of (f : lforest) : list lop := map (fun p => LCommit (snd p)) f.

  (** *** The new library *)

  (** getLegacyLatestVersion: -1 when there is no legacy root *)
  Definition legacy_latest (db : ldb) : Z :=
    let m := max_version (lroots db) in if m =? 0 then -1 else m.

  (** deleteLegacyNodes(version, nk): the keys it puts in the batch.
      [None]: GetNode failed (a node is missing), or the fuel ran out. *)
  Fixpoint dln (fuel : nat) (st : lstore) (version : Z) (nk : bytes) : option (list bytes) :=
    match fuel with
    | O => None
    | S f =>
        match lfind nk st with
        | None => None
        | Some n =>
            if ln_version n <? version then Some []          (* skip the whole subtree *)
            else if ln_height n =? 0 then Some [nk]
            else
              match dln f st version (ln_left n) with
              | None => None
              | Some dl =>
                  match dln f st version (ln_right n) with
                  | None => None
                  | Some dr => Some (dl ++ dr ++ [nk])
                  end
              end
        end
    end.

  (** the seeded variant (seeded/C16e): the version test is made on the children before
      descending, the node entered is deleted unconditionally *)
  Fixpoint dln_children_test (fuel : nat) (st : lstore) (version : Z) (nk : bytes)
    : option (list bytes) :=
    match fuel with
    | O => None
    | S f =>
        match lfind nk st with
        | None => None
        | Some n =>
            if ln_height n =? 0 then Some [nk]
            else
              let child c :=
                match lfind c st with
                | None => None
                | Some cn => if ln_version cn <? version then Some []
                             else dln_children_test f st version c
                end in
              match child (ln_left n) with
              | None => None
              | Some dl =>
                  match child (ln_right n) with
                  | None => None
                  | Some dr => Some (dl ++ dr ++ [nk])
                  end
              end
        end
    end.

  Definition delete_legacy_nodes (fuel : nat) (db : ldb) (version : Z) (nk : bytes) : option ldb :=
    match dln fuel (lnodes db) version nk with
    | Some dead => Some (Ldb (ldel_all dead (lnodes db)) (lorph db) (lroots db))
    | None => None
    end.

  (** the loop of DeleteVersionsFrom over the collected root records *)
  Fixpoint dln_roots (del : nat -> lstore -> Z -> bytes -> option (list bytes))
                     (fuel : nat) (st : lstore) (rs : list (Z * bytes)) : option (list bytes) :=
    match rs with
    | [] => Some []
    | (v, h) :: rest =>
        match (match h with [] => Some [] | _ => del fuel st v h end) with
        | None => None
        | Some d =>
            match dln_roots del fuel st rest with
            | None => None
            | Some d' => Some (d ++ d')
            end
        end
    end.

  (** the legacy part of DeleteVersionsFrom(from) (from >= 1).  The orphan records are not
      touched ("it will skip the orphans because orphans will be removed at once in
      deleteLegacyVersions"). *)
  Definition rollback_legacy_with (del : nat -> lstore -> Z -> bytes -> option (list bytes))
                                  (fuel : nat) (db : ldb) (from : Z) : option ldb :=
    let L := legacy_latest db in
    if from <=? L then
      let sel (p : Z * bytes) := (from <=? fst p) && (fst p <=? L) in
      match dln_roots del fuel (lnodes db) (filter sel (lroots db)) with
      | None => None
      | Some dead =>
          Some (Ldb (ldel_all dead (lnodes db)) (lorph db)
                    (filter (fun p => negb (sel p)) (lroots db)))
      end
    else Some db.

  Definition rollback_legacy : nat -> ldb -> Z -> option ldb := rollback_legacy_with dln.
  Definition rollback_legacy_children_test : nat -> ldb -> Z -> option ldb :=
    rollback_legacy_with dln_children_test.

  Definition legacy_fuel (db : ldb) : nat := S (length (lnodes db)).

  (** traverseOrphans(L, L+1): the nodes of the tree of [L] that are not nodes of the tree of
      [L+1] (PruneAlgo.v has the two-iterator merge) *)
  Definition orphan_diff (prev cur : option node) : list bytes :=
    let live := otree_hashes cur in filter (fun h => negb (hmem h live)) (otree_hashes prev).

  (** the guard of the orphan sweep of deleteLegacyVersions *)
  Definition sweep_guard (L from to : Z) : bool :=
    ((from <=? L) && (to <? L)) || (L <? from).
  (** seeded/C16: [toVersion <= legacyLatestVersion] *)
  Definition sweep_guard_le (L from to : Z) : bool :=
    ((from <=? L) && (to <=? L)) || (L <? from).

  (** deleteLegacyVersions(L): 1. the orphans of L against L+1; 2. every orphan record, and
      its node when the guard holds; 3. every root record. *)
  Definition delete_legacy_versions_with (guard : Z -> Z -> Z -> bool)
      (db : ldb) (L : Z) (treeL treeL1 : option node) : ldb :=
    let dead1 := orphan_diff treeL treeL1 in
    let dead2 := map orec_hash (filter (fun r => guard L (orec_from r) (orec_to r)) (lorph db)) in
    Ldb (ldel_all (dead1 ++ dead2) (lnodes db)) [] [].

  Definition delete_legacy_versions := delete_legacy_versions_with sweep_guard.
  Definition delete_legacy_versions_le := delete_legacy_versions_with sweep_guard_le.

  (** the legacy part of deleteVersionsTo(toVersion): [first] = getFirstVersion, [latest] =
      getLatestVersion.  [None]: "latest version is less than or equal to toVersion".
      [ge] is the test [legacyLatestVersion >= first] (seeded/C16b: [>]). *)
  Definition prune_legacy_with (ge : Z -> Z -> bool)
      (db : ldb) (toVersion first latest : Z) (treeL treeL1 : option node) : option ldb :=
    let L := legacy_latest db in
    if toVersion <? L then Some db
    else if latest <=? toVersion then None
    else if ge L first then Some (delete_legacy_versions db L treeL treeL1)
    else Some db.
  Definition prune_legacy := prune_legacy_with Z.geb.
  Definition prune_legacy_gt := prune_legacy_with Z.gtb.

  (** deleteVersion(v) of a new-format version: the callback's [orphan.isLegacy] branch
      deletes, by hash, the legacy nodes of the tree of [v] that the tree of [v+1] dropped *)
  Definition prune_new_version (db : ldb) (treeV treeV1 : option node) : ldb :=
    Ldb (ldel_all (orphan_diff treeV treeV1) (lnodes db)) (lorph db) (lroots db).

  (** *** Audits *)

  (** what the legacy read path shows of a tree (LegacyFacts.legacy_view) *)
  Fixpoint lview (t : node) : node :=
    match t with
    | Leaf k v m => Leaf k v (Meta (ver m) 0 (nhash t))
    | Inner k h s m l r => Inner k h s (Meta (ver m) 0 (nhash t)) (lview l) (lview r)
    end.

  Definition meta_eqb (a b : meta) : bool :=
    (ver a =? ver b) && (nonce a =? nonce b) && bytes_eqb (hs a) (hs b).
  Fixpoint node_eqb (a b : node) : bool :=
    match a, b with
    | Leaf k v m, Leaf k' v' m' => bytes_eqb k k' && bytes_eqb v v' && meta_eqb m m'
    | Inner k h s m l r, Inner k' h' s' m' l' r' =>
        bytes_eqb k k' && (h =? h') && (s =? s') && meta_eqb m m' && node_eqb l l' && node_eqb r r'
    | _, _ => false
    end.

  (** every retained version has its root record and loads back as the M1 tree *)
  Definition version_closedb (db : ldb) (p : Z * option node) : bool :=
    match lookup (fst p) (lroots db) with
    | Some rh =>
        bytes_eqb rh (legacy_root_value H (snd p)) &&
        match legacy_open (lroots db) (lstore_bytes (lnodes db)) (fst p), snd p with
        | Some None, None => true
        | Some (Some t'), Some t => node_eqb t' (lview t)
        | _, _ => false
        end
    | None => false
    end.
  Definition legacy_closedb (db : ldb) (f : lforest) : bool := forallb (version_closedb db) f.

  (** node hashes in the table that no retained version reaches and no orphan record names *)
  Definition legacy_garbage (db : ldb) (f : lforest) : list bytes :=
    let live := flat_map (fun p => otree_hashes (snd p)) f in
    let named := map orec_hash (lorph db) in
    filter (fun h => negb (hmem h live) && negb (hmem h named)) (map fst (lnodes db)).

  (** node hashes in the table that a tree does not reach (after the legacy versions are
      gone: everything that is not a node of the first new version) *)
  Definition legacy_unreachable (db : ldb) (t : option node) : list bytes :=
    let live := otree_hashes t in filter (fun h => negb (hmem h live)) (map fst (lnodes db)).

  (** nodes of [tL1] that are nodes of [tL] (legacy nodes the new version refers to) and are
      missing from the table *)
  Definition legacy_lost (db : ldb) (tL tL1 : option node) : list bytes :=
    let old := otree_hashes tL in
    let have := map fst (lnodes db) in
    filter (fun h => hmem h old && negb (hmem h have)) (otree_hashes tL1).

  (** *** Collision check for concrete histories: the (hash, node) pairs of a list of trees
      form a function *)
  Definition obytes_eqb (a b : option bytes) : bool :=
    match a, b with
    | Some x, Some y => bytes_eqb x y
    | None, None => true
    | _, _ => false
    end.
  Definition raw_eqb (a b : raw_legacy_node) : bool :=
    (ln_height a =? ln_height b) && (ln_size a =? ln_size b) && (ln_version a =? ln_version b) &&
    bytes_eqb (ln_key a) (ln_key b) && obytes_eqb (ln_value a) (ln_value b) &&
    bytes_eqb (ln_left a) (ln_left b) && bytes_eqb (ln_right a) (ln_right b).
  Fixpoint functionalb (l : lstore) : bool :=
    match l with
    | [] => true
    | (h, n) :: rest =>
        forallb (fun q => negb (bytes_eqb h (fst q)) || raw_eqb n (snd q)) rest && functionalb rest
    end.
  Definition hash_inj_listb (ts : list node) : bool := functionalb (flat_map (legacy_nodes H) ts).

  Definition trees_of_ops (ops : list lop) : list node :=
    flat_map (fun o => match o with LCommit (Some t) => [t] | _ => [] end) ops.
End Store.
