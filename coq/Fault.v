(** C17 model: reads and commits of cosmos/iavl over a storage that can FAIL.

    In M1 (Tree.v) a tree is a value with its children in place.  In Go the children of a
    persisted node are fetched on demand ([node.getLeftNode] / [getRightNode] ->
    [ndb.GetNode(node.leftNodeKey)]), and every such fetch can return an error.  This file
    re-transcribes the readers of node.go / iterator.go / immutable_tree.go / export.go /
    proof.go over *stored* nodes ([snode]: a node with the node keys of its children) in a
    state+error monad

        M A := nat (* storage calls so far *) -> result A * nat

    whose [fetch] oracle fails the i-th storage call when [fail_at = Some i].

    Conventions
    - [result A := Ok a | Err | Fuel].  [Err] is Go's non-nil [error] coming from the
      storage (injected fault, or node missing from the store: GetNode's "Value missing for
      key").  [Fuel] is the distinguished out-of-fuel result of the explicit-fuel loops; it is
      proved unreachable on stores that contain a well-formed tree (FaultFacts).
    - Cold node cache: every [getLeftNode]/[getRightNode] is one storage call.  With a warm
      cache Go makes fewer storage calls, i.e. has fewer fault positions, not more.
    - The root node is in hand ([ImmutableTree.root]), as in Go after LoadVersion /
      GetImmutable.
    - After [traversal.next()] has returned an error nobody calls it again (Iterator.Next sets
      [iter.t = nil], traverseInRange and Exporter.export leave their loops), so the state of
      [delayedNodes] after an error is not modelled.
    - Stacks: head = top (Go: last element of the slice). *)
From IAVL Require Import Bytes Varint Tree VMap Iter ExportImport.
Local Open Scope Z_scope.

(** * Stored nodes and the store *)

(** node key = (version, nonce).  (Named [nodekey]: [Tree.nkey] is the routing key.) *)
Definition nodekey := (Z * Z)%type.

Inductive snode :=
| SLeaf (k v : bytes) (m : meta)
| SInner (k : bytes) (h s : Z) (m : meta) (lk rk : nodekey).

Definition skey (n : snode) : bytes :=
  match n with SLeaf k _ _ => k | SInner k _ _ _ _ _ => k end.
Definition ssize (n : snode) : Z :=
  match n with SLeaf _ _ _ => 1 | SInner _ _ s _ _ _ => s end.
Definition sheight (n : snode) : Z :=
  match n with SLeaf _ _ _ => 0 | SInner _ h _ _ _ _ => h end.
Definition smeta (n : snode) : meta :=
  match n with SLeaf _ _ m => m | SInner _ _ _ m _ _ => m end.
(** node.isLeaf(): subtreeHeight == 0.  MakeNode reads a value iff the height is 0 and the
    child keys otherwise, so for stored nodes this is the constructor. *)
Definition sisleaf (n : snode) : bool :=
  match n with SLeaf _ _ _ => true | SInner _ _ _ _ _ _ => false end.
Definition skv (n : snode) : bytes * bytes :=
  match n with SLeaf k v _ => (k, v) | SInner k _ _ _ _ _ => (k, []) end.

Definition store := list (nodekey * snode).

Definition nk_eqb (a b : nodekey) : bool := (fst a =? fst b) && (snd a =? snd b).

Fixpoint slookup (k : nodekey) (st : store) : option snode :=
  match st with
  | [] => None
  | (k', n) :: r => if nk_eqb k k' then Some n else slookup k r
  end.

(** ** From M1 trees to stores *)
Definition nk_of (t : node) : nodekey := (ver (nmeta t), nonce (nmeta t)).

Definition snode_of (t : node) : snode :=
  match t with
  | Leaf k v m => SLeaf k v m
  | Inner k h s m l r => SInner k h s m (nk_of l) (nk_of r)
  end.

(** every node of a persisted tree under its node key (pre-order) *)
Fixpoint to_store (t : node) : store :=
  (nk_of t, snode_of t) ::
  match t with
  | Leaf _ _ _ => []
  | Inner _ _ _ _ l r => to_store l ++ to_store r
  end.

(** * The monad *)
Inductive result (A : Type) := Ok (a : A) | Err | Fuel.
Arguments Ok {A} a.
Arguments Err {A}.
Arguments Fuel {A}.

Definition M (A : Type) := nat -> result A * nat.

Definition ret {A} (a : A) : M A := fun c => (Ok a, c).
Definition bind {A B} (m : M A) (f : A -> M B) : M B :=
  fun c =>
    match m c with
    | (Ok a, c') => f a c'
    | (Err, c') => (Err, c')
    | (Fuel, c') => (Fuel, c')
    end.
Definition out_of_fuel {A} : M A := fun c => (Fuel, c).
Definition fail {A} : M A := fun c => (Err, c).
(** sequencing of counter-passing computations that are not in [M] (e.g. Iterator.Next,
    which stores the error instead of returning it) *)
Definition seqc {X Y} (p : nat -> X * nat) (q : X -> nat -> Y * nat) : nat -> Y * nat :=
  fun c => let (x, c') := p c in q x c'.

(** does storage call number [c] fail? *)
Definition fails (fail_at : option nat) (c : nat) : bool :=
  match fail_at with Some i => Nat.eqb i c | None => false end.

Section WithFaults.
  Variable fail_at : option nat.
  Variable st : store.

  (** ndb.GetNode (cold cache): one storage call *)
  Definition fetch (k : nodekey) : M snode :=
    fun c =>
      if fails fail_at c then (Err, S c)
      else match slookup k st with
           | Some n => (Ok n, S c)
           | None => (Err, S c)      (* "Value missing for key" *)
           end.

  (** ** node.get *)
  Fixpoint f_get (fuel : nat) (n : snode) (key : bytes) : M (Z * option bytes) :=
    match n with
    | SLeaf lk lv _ =>
        ret (match bcmp lk key with
             | Lt => (1, None)
             | Gt => (0, None)
             | Eq => (0, Some lv)
             end)
    | SInner nk _ s _ lkey rkey =>
        match fuel with
        | O => out_of_fuel
        | S f =>
            if blt key nk then
              bind (fetch lkey) (fun l => f_get f l key)
            else
              bind (fetch rkey) (fun r =>
              bind (f_get f r key) (fun iv =>
              ret (fst iv + (s - ssize r), snd iv)))
        end
    end.

  (** ** node.has *)
  Fixpoint f_has (fuel : nat) (n : snode) (key : bytes) : M bool :=
    if beq (skey n) key then ret true else
    match n with
    | SLeaf _ _ _ => ret false
    | SInner nk _ _ _ lkey rkey =>
        match fuel with
        | O => out_of_fuel
        | S f =>
            if blt key nk then bind (fetch lkey) (fun l => f_has f l key)
            else bind (fetch rkey) (fun r => f_has f r key)
        end
    end.

  (** ** node.getByIndex: the left child is always fetched (for its size) *)
  Fixpoint f_get_by_index (fuel : nat) (n : snode) (i : Z) : M (option (bytes * bytes)) :=
    match n with
    | SLeaf k v _ => ret (if i =? 0 then Some (k, v) else None)
    | SInner _ _ _ _ lkey rkey =>
        match fuel with
        | O => out_of_fuel
        | S f =>
            bind (fetch lkey) (fun l =>
            if i <? ssize l then f_get_by_index f l i
            else bind (fetch rkey) (fun r => f_get_by_index f r (i - ssize l)))
        end
    end.

  (** ** traversal (iterator.go) *)
  Record ftrav := FTrav {
    ft_start : option bytes;
    ft_stop : option bytes;
    ft_asc : bool;
    ft_incl : bool;
    ft_post : bool;
    ft_stack : list (snode * bool)        (* delayedNodes: (node, delayed) *)
  }.

  Definition ft_with (tv : ftrav) (s : list (snode * bool)) : ftrav :=
    FTrav (ft_start tv) (ft_stop tv) (ft_asc tv) (ft_incl tv) (ft_post tv) s.

  (** node.newTraversal *)
  Definition ft_new (root : snode) (start stop : option bytes) (asc incl post : bool) : ftrav :=
    FTrav start stop asc incl post [(root, true)].

  Inductive fstep_res :=
  | FSEmpty
  | FSEmit (n : snode) (tv : ftrav)
  | FSCont (tv : ftrav).

  (** One activation of traversal.next() up to the tail call.  Ascending: the right child is
      fetched first, then the left one (which ends on top); descending: left, then right. *)
  Definition f_step (tv : ftrav) : M fstep_res :=
    match ft_stack tv with
    | [] => ret FSEmpty
    | (n, delayed) :: rest =>
        if negb delayed then ret (FSEmit n (ft_with tv rest)) else
        let k := skey n in
        let aS := after_start (ft_start tv) k in
        let sOA := start_or_after (ft_start tv) k in
        let bE := before_end (ft_stop tv) (ft_incl tv) k in
        let vis := negb (sisleaf n) || (sOA && bE) in
        let st1 := if ft_post tv && vis then (n, false) :: rest else rest in
        let finish (s : list (snode * bool)) : M fstep_res :=
          ret (if negb (ft_post tv) && vis then FSEmit n (ft_with tv s)
               else FSCont (ft_with tv s)) in
        match n with
        | SLeaf _ _ _ => finish st1
        | SInner _ _ _ _ lkey rkey =>
            if ft_asc tv then
              bind (if bE then bind (fetch rkey) (fun r => ret ((r, true) :: st1)) else ret st1)
                (fun st2 =>
              bind (if aS then bind (fetch lkey) (fun l => ret ((l, true) :: st2)) else ret st2)
                finish)
            else
              bind (if aS then bind (fetch lkey) (fun l => ret ((l, true) :: st1)) else ret st1)
                (fun st2 =>
              bind (if bE then bind (fetch rkey) (fun r => ret ((r, true) :: st2)) else ret st2)
                finish)
        end
    end.

  (** traversal.next(): [(nil, nil)] is [Ok (None, _)]; [(nil, err)] is [Err]. *)
  Fixpoint f_next (fuel : nat) (tv : ftrav) : M (option snode * ftrav) :=
    match fuel with
    | O => out_of_fuel
    | S f =>
        bind (f_step tv) (fun r =>
        match r with
        | FSEmpty => ret (None, tv)
        | FSEmit n tv' => ret (Some n, tv')
        | FSCont tv' => f_next f tv'
        end)
    end.

  (** The loop [for { node, err := t.next(); if err != nil {..}; if node == nil {..}; use node }]
      shared by traverseInRange (never-stopping callback) and Exporter.export: the nodes
      handed over before the loop ended, and how it ended ([Ok tt]: node == nil, [Err]: err
      != nil). *)
  Fixpoint f_trav_loop (n fuel : nat) (tv : ftrav) (c : nat) : list snode * result unit * nat :=
    match n with
    | O => ([], Fuel, c)
    | S n' =>
        match f_next fuel tv c with
        | (Err, c') => ([], Err, c')
        | (Fuel, c') => ([], Fuel, c')
        | (Ok (None, _), c') => ([], Ok tt, c')
        | (Ok (Some x, tv'), c') =>
            let '(l, r, c'') := f_trav_loop n' fuel tv' c' in (x :: l, r, c'')
        end
    end.

  (** enough for every traversal of a well-formed tree with [size] leaves (2*size-1 nodes) *)
  Definition trav_fuel (root : snode) : nat := Z.to_nat (4 * ssize root).

  Definition sleaves (l : list snode) : list (bytes * bytes) := map skv (filter sisleaf l).

  (** ** ImmutableTree.IterateRange / IterateRangeInclusive via node.traverseInRange.
      The Go loop is [for node2, err := t.next(); node2 != nil && err == nil; ...]: an error
      ends the loop exactly like exhaustion, and the function has no error result.  Modelled
      faithfully: the pairs delivered so far are returned as a complete answer. *)
  Definition f_iterate_range (root : snode) (start stop : option bytes) (asc incl : bool)
    : M (list (bytes * bytes)) :=
    fun c =>
      match f_trav_loop (trav_fuel root) (trav_fuel root) (ft_new root start stop asc incl false) c with
      | (l, Fuel, c') => (Fuel, c')
      | (l, _, c') => (Ok (sleaves l), c')      (* Ok tt and Err alike *)
      end.

  (** ** Exporter: post-order traversal; export() stores the error in [e.err] and closes the
      channel; Next() hands out the buffered nodes and then returns [e.err].  A consumer that
      drains the exporter therefore ends with the error: the export as a whole is [Err]. *)
  Definition enode_of (n : snode) : enode :=
    match n with
    | SLeaf k v m => ENode (Some k) (Some v) (ver m) 0
    | SInner k h _ m _ _ => ENode (Some k) None (ver m) h
    end.

  Definition f_export (root : snode) : M (list enode) :=
    fun c =>
      match f_trav_loop (trav_fuel root) (trav_fuel root) (ft_new root None None true false true) c with
      | (l, Ok _, c') => (Ok (map enode_of l), c')
      | (l, Err, c') => (Err, c')
      | (l, Fuel, c') => (Fuel, c')
      end.
  (** what the consumer has received when the error arrives (a prefix, FaultFacts) *)
  Definition f_export_partial (root : snode) (c : nat) : list enode :=
    let '(l, _, _) :=
      f_trav_loop (trav_fuel root) (trav_fuel root) (ft_new root None None true false true) c in
    map enode_of l.

  (** ** Iterator (iterator.go) *)
  Record titer := TIter {
    ti_key : option bytes;
    ti_value : option bytes;
    ti_valid : bool;
    ti_err : bool;                 (* iter.err != nil *)
    ti_t : option ftrav            (* nil after exhaustion / error *)
  }.

  (** Iterator.Next(): the error of t.next() is STORED, the iterator becomes invalid.
      [n] bounds the recursion that skips inner nodes; [None] = out of fuel. *)
  Fixpoint ti_next (n fuel : nat) (it : titer) : nat -> option titer * nat :=
    match n with
    | O => fun c => (None, c)
    | S n' =>
        match ti_t it with
        | None => fun c => (Some it, c)
        | Some tv =>
            seqc (f_next fuel tv) (fun r c' =>
            match r with
            | Fuel => (None, c')
            | Err => (Some (TIter (ti_key it) (ti_value it) false true None), c')
            | Ok (None, _) => (Some (TIter (ti_key it) (ti_value it) false (ti_err it) None), c')
            | Ok (Some x, tv') =>
                match x with
                | SLeaf k v _ =>
                    (Some (TIter (Some k) (Some v) (ti_valid it) (ti_err it) (Some tv')), c')
                | SInner _ _ _ _ _ _ =>
                    ti_next n' fuel
                      (TIter (ti_key it) (ti_value it) (ti_valid it) (ti_err it) (Some tv')) c'
                end
            end)
        end
    end.

  (** NewIterator(start, end, ascending, tree) for a non-nil tree *)
  Definition ti_new (n fuel : nat) (root : snode) (start stop : option bytes) (asc : bool)
    : nat -> option titer * nat :=
    ti_next n fuel (TIter None None true false (Some (ft_new root start stop asc false false))).

  (** [for ; itr.Valid(); itr.Next() { fn(itr.Key(), itr.Value()) }] with a callback that never
      stops, followed by [if err := itr.Error(); err != nil { return false, err }]
      (ImmutableTree.Iterate; any careful user of ImmutableTree.Iterator).  [m] bounds the
      number of loop iterations. *)
  Fixpoint ti_loop (m n fuel : nat) (it : titer) : M (list (bytes * bytes)) :=
    if ti_valid it then
      match m with
      | O => out_of_fuel
      | S m' =>
          let kv := (ob (ti_key it), ob (ti_value it)) in
          seqc (ti_next n fuel it) (fun o =>
          match o with
          | None => out_of_fuel
          | Some it' => bind (ti_loop m' n fuel it') (fun l => ret (kv :: l))
          end)
      end
    else if ti_err it then fail else ret [].

  Definition f_iterate (root : snode) (start stop : option bytes) (asc : bool)
    : M (list (bytes * bytes)) :=
    let fuel := trav_fuel root in
    seqc (ti_new fuel fuel root start stop asc) (fun o =>
    match o with
    | None => out_of_fuel
    | Some it => ti_loop fuel fuel fuel it
    end).

  (** ** Node.pathToLeaf (proof.go).  Going left the RIGHT child is fetched first (for its hash),
      then the left one; going right the other way round.  Result: path (root first), the leaf
      reached, and whether it carries [key] ([false] = Go's non-storage error "key does not
      exist", returned together with the leaf). *)
  Record fpin := FPin {
    fp_height : Z; fp_size : Z; fp_version : Z; fp_left : bytes; fp_right : bytes }.

  Fixpoint f_path_to_leaf (fuel : nat) (n : snode) (key : bytes)
    : M (list fpin * (bytes * bytes * meta) * bool) :=
    match n with
    | SLeaf lk lv m => ret ([], (lk, lv, m), beq lk key)
    | SInner nk h s m lkey rkey =>
        match fuel with
        | O => out_of_fuel
        | S f =>
            if blt key nk then
              bind (fetch rkey) (fun r =>
              bind (fetch lkey) (fun l =>
              bind (f_path_to_leaf f l key) (fun res =>
              ret (FPin h s (ver m) [] (hs (smeta r)) :: fst (fst res), snd (fst res), snd res))))
            else
              bind (fetch lkey) (fun l =>
              bind (fetch rkey) (fun r =>
              bind (f_path_to_leaf f r key) (fun res =>
              ret (FPin h s (ver m) (hs (smeta l)) [] :: fst (fst res), snd (fst res), snd res))))
        end
    end.

  (** createExistenceProof's use of it: [node == nil] (the walk failed) returns the storage
      error; otherwise [Some] proof data, or [None] for "key does not exist". *)
  Definition f_existence_proof (fuel : nat) (root : snode) (key : bytes)
    : M (option (bytes * bytes * Z * list fpin)) :=
    bind (f_path_to_leaf fuel root key) (fun res =>
      let '(path, (lk, lv, m), ok) := res in
      ret (if ok then Some (lk, lv, ver m, path) else None)).

  (** ** ImmutableTree.Get with the fast index.  [fidx]: key -> (versionLastUpdatedAt, value).
      GetFastNode is one storage call; when it FAILS, Get falls back to the tree walk. *)
  Definition fastidx := list (bytes * (Z * bytes)).
  Fixpoint fassoc (k : bytes) (l : fastidx) : option (Z * bytes) :=
    match l with
    | [] => None
    | (k', x) :: r => if beq k k' then Some x else fassoc k r
    end.

  Definition fetch_fast (fidx : fastidx) (k : bytes) : M (option (Z * bytes)) :=
    fun c => if fails fail_at c then (Err, S c) else (Ok (fassoc k fidx), S c).

  Definition f_imm_get (fidx : fastidx) (latest version : Z) (fuel : nat) (root : snode) (key : bytes)
    : M (option bytes) :=
    fun c =>
      let walk := bind (f_get fuel root key) (fun iv => ret (snd iv)) in
      match fetch_fast fidx key c with
      | (Err, c') => walk c'                       (* fall back to the original IAVL logic *)
      | (Fuel, c') => (Fuel, c')
      | (Ok None, c') => if version =? latest then (Ok None, c') else walk c'
      | (Ok (Some (u, v)), c') => if u <=? version then (Ok (Some v), c') else walk c'
      end.

  (** ** Commit: the batch operations of SaveVersion / DeleteVersionsTo / rollback / import
      (batch.Set / batch.Delete: each can fail), then ndb.Commit() = batch.Write (can fail).
      The first failure aborts with the error. *)
  Inductive wop := WSet (k : nodekey) (n : snode) | WDel (k : nodekey).

  Definition sremove (k : nodekey) (s : store) : store :=
    filter (fun e => negb (nk_eqb k (fst e))) s.
  Definition apply_wop (s : store) (o : wop) : store :=
    match o with
    | WSet k n => (k, n) :: sremove k s
    | WDel k => sremove k s
    end.

  Definition write_call : M unit :=
    fun c => if fails fail_at c then (Err, S c) else (Ok tt, S c).

  Fixpoint f_batch (ops : list wop) : M unit :=
    match ops with
    | [] => ret tt
    | _ :: r => bind write_call (fun _ => f_batch r)
    end.

  (** [Ok s']: reported successful, the store is [s'].  Otherwise the batch was not written:
      the store is unchanged. *)
  Definition f_commit (ops : list wop) (s : store) : M store :=
    bind (f_batch ops) (fun _ =>
    bind write_call (fun _ =>
    ret (fold_left apply_wop ops s))).
End WithFaults.

(** ** Top-level entry points: the stored height of the root is the fuel of the descents. *)
Definition desc_fuel (root : snode) : nat := Z.to_nat (sheight root).

Definition f_get_top (fa : option nat) (st : store) (root : snode) (key : bytes) :=
  f_get fa st (desc_fuel root) root key 0%nat.
Definition f_has_top (fa : option nat) (st : store) (root : snode) (key : bytes) :=
  f_has fa st (desc_fuel root) root key 0%nat.
Definition f_get_by_index_top (fa : option nat) (st : store) (root : snode) (i : Z) :=
  f_get_by_index fa st (desc_fuel root) root i 0%nat.
Definition f_iterate_top (fa : option nat) (st : store) (root : snode)
    (start stop : option bytes) (asc : bool) :=
  f_iterate fa st root start stop asc 0%nat.
Definition f_iterate_range_top (fa : option nat) (st : store) (root : snode)
    (start stop : option bytes) (asc incl : bool) :=
  f_iterate_range fa st root start stop asc incl 0%nat.
Definition f_export_top (fa : option nat) (st : store) (root : snode) :=
  f_export fa st root 0%nat.
Definition f_path_to_leaf_top (fa : option nat) (st : store) (root : snode) (key : bytes) :=
  f_path_to_leaf fa st (desc_fuel root) root key 0%nat.
Definition f_commit_top (fa : option nat) (ops : list wop) (s : store) :=
  f_commit fa ops s 0%nat.
