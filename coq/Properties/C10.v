(** C10: export / import fidelity, the compress codec, and exactly when the importers panic.
    Statements are restated in full; models in ExportImport.v, proofs in ExportImportFacts.v.
    REFUTED: "the importer never panics" -- see C10_importer_panics_refuted and
    C10_compress_importer_panics_refuted for the concrete hostile streams. *)
From IAVL Require Import Bytes Varint Sha256 Tree VMap TreeFacts ExportImport ExportImportFacts.
Local Open Scope Z_scope.

(** ** 1. The exporter emits 2n-1 nodes, post-order, leaves in key order *)
Theorem C10_export_complete :
  forall t : node,
    wf t ->
    Z.of_nat (length (export (Some t))) = 2 * Z.of_nat (length (elems t)) - 1 /\
    Z.of_nat (length (export (Some t))) = 2 * size t - 1 /\
    filter is_leaf_enode (export (Some t)) = map leaf_enode (leaves t) /\
    map fst (leaves t) = elems t /\
    sorted (elems t) /\
    export None = [].
Proof. exact export_length. Qed.
Print Assumptions C10_export_complete.

Theorem C10_export_root_last :
  forall t : node,
    exists pre, export_node t =
      pre ++ [ENode (Some (nkey t)) (match t with Leaf _ v _ => Some v | _ => None end)
                (ver (nmeta t)) (height t)].
Proof. exact export_last. Qed.
Print Assumptions C10_export_root_last.

(** ** 2. Import of an export gives back the same tree up to nonces *)
Theorem C10_roundtrip :
  forall (H : bytes -> bytes) (v : Z) (t : node),
    wf t -> versions_in v t -> v < max_nonces_len ->
    exists t',
      imp_run H v (map Some (export (Some t))) = IOk (Some t') /\
      shape_eq t' t /\ hashed H t' /\ nonce (nmeta t') = 1.
Proof. exact import_export_roundtrip. Qed.
Print Assumptions C10_roundtrip.

Theorem C10_roundtrip_same_hash :
  forall (H : bytes -> bytes) (v : Z) (t : node),
    wf t -> versions_in v t -> v < max_nonces_len ->
    exists t',
      imp_run H v (map Some (export (Some t))) = IOk (Some t') /\
      wf t' /\ (avl t -> avl t') /\ versions_in v t' /\ elems t' = elems t /\
      (forall (H' : bytes -> bytes) wv, pure_hash H' wv t' = pure_hash H' wv t) /\
      (forall wv, root_hash H wv (Some t') = pure_hash H wv t).
Proof. exact import_export_same_hash. Qed.
Print Assumptions C10_roundtrip_same_hash.

Theorem C10_shape_eq_same_hash :
  forall (H : bytes -> bytes) (wv : Z) (a b : node),
    shape_eq a b -> pure_hash H wv a = pure_hash H wv b.
Proof. exact shape_eq_pure_hash. Qed.
Print Assumptions C10_shape_eq_same_hash.

Theorem C10_import_empty :
  forall (H : bytes -> bytes) (v : Z), 0 <= v < max_nonces_len -> imp_run H v [] = IOk None.
Proof. exact import_empty. Qed.
Print Assumptions C10_import_empty.

Theorem C10_import_single_leaf :
  forall (H : bytes -> bytes) (v : Z) (k w : bytes) (m : meta),
    1 <= ver m <= v -> v < max_nonces_len ->
    imp_run H v [Some (ENode (Some k) (Some w) (ver m) 0)] =
      IOk (Some (Leaf k w (Meta (ver m) 1 (H (leaf_preimage H (ver m) k w))))).
Proof. exact import_single_leaf. Qed.
Print Assumptions C10_import_single_leaf.

Theorem C10_import_reference_root :
  forall (H : bytes -> bytes) (v : Z) (t : node),
    wf t -> versions_in v t -> v < max_nonces_len -> ver (nmeta t) < v ->
    exists t',
      imp_run H v (map Some (export (Some t))) = IOk (Some t') /\ shape_eq t' t /\
      ver (nmeta t') < v.
Proof. exact import_reference_root. Qed.
Print Assumptions C10_import_reference_root.

(** ** 3. The compress codec *)
Theorem C10_compress_roundtrip :
  forall t : node,
    wf t -> keys_all key_small t -> versions_int64 t ->
    ibind (compress (export (Some t))) decompress = IOk (export (Some t)).
Proof. exact compress_decompress. Qed.
Print Assumptions C10_compress_roundtrip.

Theorem C10_compress_roundtrip_len :
  forall t : node,
    wf t -> keys_all key_small t -> versions_int64 t ->
    exists cs,
      compress (export (Some t)) = IOk cs /\
      decompress cs = IOk (export (Some t)) /\
      length cs = length (export (Some t)).
Proof. exact compress_roundtrip. Qed.
Print Assumptions C10_compress_roundtrip_len.

Theorem C10_compress_import_roundtrip :
  forall (H : bytes -> bytes) (v : Z) (t : node),
    wf t -> keys_all key_small t -> versions_in v t -> v < max_nonces_len ->
    exists cs t',
      compress (export (Some t)) = IOk cs /\
      cimp_run H v (map Some cs) = IOk (Some t') /\
      shape_eq t' t /\ hashed H t' /\ nonce (nmeta t') = 1.
Proof. exact compress_import_roundtrip. Qed.
Print Assumptions C10_compress_import_roundtrip.

(** ** 4. Panics: refuted totality with witnesses, and the exact characterisation *)
Theorem C10_importer_panics_refuted :
  exists v stream, forall H : bytes -> bytes, imp_run H v stream = IPanic.
Proof. exact importer_panics_refuted. Qed.
Print Assumptions C10_importer_panics_refuted.

Theorem C10_importer_panics_witnesses :
  forall H : bytes -> bytes,
    imp_run H 1 [Some (ENode (Some [107%N]) (Some [118%N]) (-1) 0)] = IPanic /\
    imp_run H 1 [Some (ENode (Some [97%N]) (Some [1%N]) 1 0);
                 Some (ENode (Some [98%N]) (Some [2%N]) 1 0);
                 Some (ENode (Some [98%N]) None (-9223372036854775808) 1)] = IPanic /\
    imp_run H 9223372036854775807 [] = IPanic.
Proof.
  intros H.
  exact (conj (eq_refl : imp_run H 1 hostile_negative_version = IPanic)
          (conj (importer_panics_inner_refuted H) (importer_new_panics_refuted H))).
Qed.
Print Assumptions C10_importer_panics_witnesses.

Theorem C10_importer_panic_characterised :
  forall (H : bytes -> bytes) (v : Z) (stream : list (option enode)),
    imp_run H v stream = IPanic ->
    max_nonces_len <= v \/ exists n, In (Some n) stream /\ e_version n < 0.
Proof. exact importer_panic_characterised. Qed.
Print Assumptions C10_importer_panic_characterised.

Theorem C10_importer_total_nonneg :
  forall (H : bytes -> bytes) (v : Z) (stream : list (option enode)),
    v < max_nonces_len ->
    (forall n, In (Some n) stream -> 0 <= e_version n) ->
    imp_run H v stream <> IPanic.
Proof. exact importer_total_nonneg. Qed.
Print Assumptions C10_importer_total_nonneg.

Theorem C10_decompress_panics_refuted :
  decompress [ENode None None 0 1] = IPanic /\
  decompress [ENode (Some [0%N; 97%N]) (Some [1%N]) 1 0; ENode None None 0 1] = IPanic /\
  decompress [ENode (Some [5%N; 97%N]) (Some [1%N]) 1 0] = IPanic.
Proof. exact decompress_panics_refuted. Qed.
Print Assumptions C10_decompress_panics_refuted.

Theorem C10_compress_importer_panics_refuted :
  forall H : bytes -> bytes,
    cimp_run H 1 (map Some hostile_compress_inner_first) = IPanic /\
    cimp_run H 1 (map Some hostile_compress_one_leaf) = IPanic /\
    cimp_run H 1 (map Some hostile_compress_shared) = IPanic /\
    cimp_run H 1 [None] = IPanic.
Proof. exact compress_importer_panics_refuted. Qed.
Print Assumptions C10_compress_importer_panics_refuted.

Theorem C10_compress_exporter_panics_refuted :
  compress [ENode (Some [97%N]) None 1 1] = IPanic.
Proof. exact compress_panics_refuted. Qed.
Print Assumptions C10_compress_exporter_panics_refuted.

Theorem C10_cimp_step_panic_characterised :
  forall (st : cimp_state) (n : cnode),
    cimp_step st n = IPanic ->
    (e_height n <> 0 /\ (length (ci_minkeys st) < 1 \/ length (ci_vers st) < 2)%nat) \/
    (e_height n = 0 /\ exists shared c,
        uvarint_dec (key_bytes (e_key n)) = Some (shared, c) /\
        (N.of_nat (length (ci_last st)) < shared)%N).
Proof. exact cimp_step_panic_characterised. Qed.
Print Assumptions C10_cimp_step_panic_characterised.

(** ** 5. Errors expose nothing *)
Theorem C10_import_error_no_effect :
  forall (H : bytes -> bytes) (s : sess) (o : iop),
    snd (sess_step H s o) = IErr -> fst (sess_step H s o) = s.
Proof. exact import_error_no_effect. Qed.
Print Assumptions C10_import_error_no_effect.

Theorem C10_visible_only_by_commit :
  forall (H : bytes -> bytes) (s : sess) (o : iop),
    s_visible (fst (sess_step H s o)) = s_visible s \/
    (o = ICommit /\ exists r, imp_commit H (s_imp s) = IOk r /\
                              s_visible (fst (sess_step H s o)) = Some r /\
                              i_closed (s_imp (fst (sess_step H s o))) = true).
Proof. exact visible_only_by_commit. Qed.
Print Assumptions C10_visible_only_by_commit.

Theorem C10_closed_importer_rejects :
  forall (H : bytes -> bytes) (s : sess) (o : iop),
    i_closed (s_imp s) = true -> o <> IClose -> sess_step H s o = (s, IErr).
Proof. exact closed_importer_rejects. Qed.
Print Assumptions C10_closed_importer_rejects.

Theorem C10_no_commit_nothing_visible :
  forall (H : bytes -> bytes) (ops : list iop) (s : sess),
    ~ In ICommit ops -> s_visible (fst (sess_run H s ops)) = s_visible s.
Proof. exact no_commit_nothing_visible. Qed.
Print Assumptions C10_no_commit_nothing_visible.

Theorem C10_imp_run_root_from_commit :
  forall (H : bytes -> bytes) (v : Z) (stream : list (option enode)) (r : option node),
    imp_run H v stream = IOk r ->
    exists st0 st, imp_new 0 true v = IOk st0 /\ imp_adds H st0 stream = IOk st /\
                   imp_commit H st = IOk r.
Proof. exact imp_run_root_from_commit. Qed.
Print Assumptions C10_imp_run_root_from_commit.

Theorem C10_validate_ignores_nonce :
  forall (H : bytes -> bytes) (p : pnode) (n : Z),
    write_node H p = None <-> write_node H (set_nonce p n) = None.
Proof. exact write_node_nonce_irrelevant. Qed.
Print Assumptions C10_validate_ignores_nonce.

(** *** Non-vacuity: a 6-leaf tree built by [Tree.set] over two saved versions (SHA-256),
    exported, imported at a later version (reference root), compared. *)
Definition C10_t1 : node :=
  let t := Leaf [1%N] [10%N] new_meta in
  let t := fst (set t [2%N] [20%N]) in
  let t := fst (set t [3%N] [30%N]) in
  fst (stamp sha256 1 0 t).

Definition C10_t2 : node :=
  let t := fst (set C10_t1 [4%N] [40%N]) in
  let t := fst (set t [5%N; 1%N] [50%N]) in
  let t := fst (set t [5%N; 2%N; 7%N] []) in
  fst (stamp sha256 2 0 t).

Example C10_example_hyps :
  wf C10_t2 /\ avl C10_t2 /\ versions_in 2 C10_t2 /\ versions_in 3 C10_t2 /\
  keys_all key_small C10_t2 /\ versions_int64 C10_t2 /\
  size C10_t2 = 6 /\ height C10_t2 = 3 /\
  length (export (Some C10_t2)) = 11%nat /\
  (* both versions occur *)
  map e_version (export (Some C10_t2)) = [1; 1; 2; 1; 2; 2; 2; 2; 2; 2; 2].
Proof. vm_compute. intuition (try discriminate; auto). Qed.

Example C10_example_roundtrip :
  exists t',
    imp_run sha256 3 (map Some (export (Some C10_t2))) = IOk (Some t') /\
    shape_eq t' C10_t2 /\
    pure_hash sha256 3 t' = pure_hash sha256 3 C10_t2 /\
    hs (nmeta t') = hs (nmeta C10_t2) /\
    elems t' = elems C10_t2 /\ nonce (nmeta t') = 1 /\ ver (nmeta t') = 2.
Proof. vm_compute. eexists. intuition reflexivity. Qed.

Example C10_example_compress :
  exists cs,
    compress (export (Some C10_t2)) = IOk cs /\
    decompress cs = IOk (export (Some C10_t2)) /\
    (* inner keys elided, leaf keys delta-encoded ([5;2;7] after [5;1] shares one byte) *)
    map e_key cs =
      [Some [0%N; 1%N]; Some [0%N; 2%N]; None; Some [0%N; 3%N]; Some [0%N; 4%N]; None;
       Some [0%N; 5%N; 1%N]; Some [1%N; 2%N; 7%N]; None; None; None] /\
    (* inner versions are deltas against the larger child version *)
    map e_version cs = [1; 1; 1; 1; 2; 0; 2; 2; 0; 0; 0] /\
    cimp_run sha256 3 (map Some cs) = imp_run sha256 3 (map Some (export (Some C10_t2))).
Proof. vm_compute. eexists. intuition reflexivity. Qed.

(** the hostile streams end in errors, not roots, when they do not panic *)
Example C10_example_errors :
  imp_run sha256 1 [None] = IErr /\
  imp_run sha256 1 [Some (ENode (Some [97%N]) (Some [1%N]) 2 0)] = IErr /\
  imp_run sha256 1 [Some (ENode (Some [98%N]) None 1 1)] = IErr /\
  imp_run sha256 1 [Some (ENode (Some [97%N]) (Some [1%N]) 1 0);
                    Some (ENode (Some [98%N]) (Some [2%N]) 1 0)] = IErr /\
  imp_run sha256 0 [Some (ENode (Some [97%N]) (Some [1%N]) 0 0)] = IErr /\
  imp_run sha256 (-1) [] = IErr /\
  decompress [ENode None (Some [1%N]) 1 0] = IErr.
Proof. vm_compute. intuition reflexivity. Qed.
