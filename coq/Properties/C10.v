(** C10: export / import fidelity, the compress codec, and total importers.
    Statements are restated in full; models in ExportImport.v, proofs in ExportImportFacts.v.
    The hostile streams that panicked the importers before the fixes f7b1f2c / a7a4939 are
    kept as Examples (C10_example_former_panics): they are errors now. *)
From IAVL Require Import Bytes Varint Sha256 Tree VMap TreeFacts ExportImport ExportImportFacts.
Local Open Scope Z_scope.

(** ** 1. The exporter emits 2n-1 nodes, post-order, leaves in key order *)
Theorem C10_export_complete :
  forall t : node,
    wf t ->
    Z.of_nat (length (export (Some t))) = 2 * Z.of_nat (length (elems t)) - 1 /\
    Z.of_nat (length (export (Some t))) = 2 * size t - 1 /\
    filter is_leaf_enode (export (Some t)) = map leaf_enode (leaves t) /\
    map fst (leaves t) = elems t /\
    sorted (elems t) /\
    export None = [].
Proof. exact export_length. Qed.
Print Assumptions C10_export_complete.

Theorem C10_export_root_last :
  forall t : node,
    exists pre, export_node t =
      pre ++ [ENode (Some (nkey t)) (match t with Leaf _ v _ => Some v | _ => None end)
                (ver (nmeta t)) (height t)].
Proof. exact export_last. Qed.
Print Assumptions C10_export_root_last.

(** ** 2. Import of an export gives back the same tree up to nonces *)
Theorem C10_roundtrip :
  forall (H : bytes -> bytes) (v : Z) (t : node),
    wf t -> versions_in v t -> v < max_nonces_len ->
    exists t',
      imp_run H v (map Some (export (Some t))) = IOk (Some t') /\
      shape_eq t' t /\ hashed H t' /\ nonce (nmeta t') = 1.
Proof. exact import_export_roundtrip. Qed.
Print Assumptions C10_roundtrip.

Theorem C10_roundtrip_same_hash :
  forall (H : bytes -> bytes) (v : Z) (t : node),
    wf t -> versions_in v t -> v < max_nonces_len ->
    exists t',
      imp_run H v (map Some (export (Some t))) = IOk (Some t') /\
      wf t' /\ (avl t -> avl t') /\ versions_in v t' /\ elems t' = elems t /\
      (forall (H' : bytes -> bytes) wv, pure_hash H' wv t' = pure_hash H' wv t) /\
      (forall wv, root_hash H wv (Some t') = pure_hash H wv t).
Proof. exact import_export_same_hash. Qed.
Print Assumptions C10_roundtrip_same_hash.

Theorem C10_shape_eq_same_hash :
  forall (H : bytes -> bytes) (wv : Z) (a b : node),
    shape_eq a b -> pure_hash H wv a = pure_hash H wv b.
Proof. exact shape_eq_pure_hash. Qed.
Print Assumptions C10_shape_eq_same_hash.

Theorem C10_import_empty :
  forall (H : bytes -> bytes) (v : Z), 0 <= v < max_nonces_len -> imp_run H v [] = IOk None.
Proof. exact import_empty. Qed.
Print Assumptions C10_import_empty.

Theorem C10_import_single_leaf :
  forall (H : bytes -> bytes) (v : Z) (k w : bytes) (m : meta),
    1 <= ver m <= v -> v < max_nonces_len ->
    imp_run H v [Some (ENode (Some k) (Some w) (ver m) 0)] =
      IOk (Some (Leaf k w (Meta (ver m) 1 (H (leaf_preimage H (ver m) k w))))).
Proof. exact import_single_leaf. Qed.
Print Assumptions C10_import_single_leaf.

Theorem C10_import_reference_root :
  forall (H : bytes -> bytes) (v : Z) (t : node),
    wf t -> versions_in v t -> v < max_nonces_len -> ver (nmeta t) < v ->
    exists t',
      imp_run H v (map Some (export (Some t))) = IOk (Some t') /\ shape_eq t' t /\
      ver (nmeta t') < v.
Proof. exact import_reference_root. Qed.
Print Assumptions C10_import_reference_root.

(** ** 3. The compress codec *)
Theorem C10_compress_roundtrip :
  forall t : node,
    wf t -> keys_all key_small t -> versions_int64 t ->
    ibind (compress (export (Some t))) decompress = IOk (export (Some t)).
Proof. exact compress_decompress. Qed.
Print Assumptions C10_compress_roundtrip.

Theorem C10_compress_roundtrip_len :
  forall t : node,
    wf t -> keys_all key_small t -> versions_int64 t ->
    exists cs,
      compress (export (Some t)) = IOk cs /\
      decompress cs = IOk (export (Some t)) /\
      length cs = length (export (Some t)).
Proof. exact compress_roundtrip. Qed.
Print Assumptions C10_compress_roundtrip_len.

Theorem C10_compress_import_roundtrip :
  forall (H : bytes -> bytes) (v : Z) (t : node),
    wf t -> keys_all key_small t -> versions_in v t -> v < max_nonces_len ->
    exists cs t',
      compress (export (Some t)) = IOk cs /\
      cimp_run H v (map Some cs) = IOk (Some t') /\
      shape_eq t' t /\ hashed H t' /\ nonce (nmeta t') = 1.
Proof. exact compress_import_roundtrip. Qed.
Print Assumptions C10_compress_import_roundtrip.

(** ** 4. The importers are total: no stream whatsoever makes them panic
    (every slice index / stack access of the models sits behind an explicit bounds check
    whose failure branch is [IPanic]; the guards of the code make them unreachable) *)
Theorem C10_importer_total :
  forall (H : bytes -> bytes) (v : Z) (stream : list (option enode)),
    0 <= v < max_nonces_len -> imp_run H v stream <> IPanic.
Proof. exact importer_total. Qed.
Print Assumptions C10_importer_total.

Theorem C10_compress_importer_total :
  forall (H : bytes -> bytes) (v : Z) (stream : list (option cnode)),
    0 <= v < max_nonces_len -> cimp_run H v stream <> IPanic.
Proof. exact compress_importer_total. Qed.
Print Assumptions C10_compress_importer_total.

Theorem C10_decompress_total : forall l : list cnode, decompress l <> IPanic.
Proof. exact decompress_total. Qed.
Print Assumptions C10_decompress_total.

Theorem C10_importer_steps_total :
  forall (H : bytes -> bytes) (st : imp_state) (on : option enode) (cs : cimp_state)
         (oc : option cnode),
    imp_add H st on <> IPanic /\ imp_commit H st <> IPanic /\ cimp_add cs oc <> IPanic.
Proof.
  intros H st on cs oc.
  exact (conj (imp_add_no_panic H st on) (conj (imp_commit_no_panic H st) (cimp_add_no_panic cs oc))).
Qed.
Print Assumptions C10_importer_steps_total.

(** Documented limitations, outside the quantifiers above: the import version is the
    caller's trusted parameter ([make([]uint32, version+1)] in newImporter), and the
    compress EXPORTER trusts the exporter it wraps. *)
Theorem C10_importer_new_panics_refuted :
  forall H : bytes -> bytes, imp_run H 9223372036854775807 [] = IPanic.
Proof. exact importer_new_panics_refuted. Qed.
Print Assumptions C10_importer_new_panics_refuted.

Theorem C10_importer_panic_only_new :
  forall (H : bytes -> bytes) (v : Z) (stream : list (option enode)),
    imp_run H v stream = IPanic -> max_nonces_len <= v.
Proof. exact importer_panic_only_new. Qed.
Print Assumptions C10_importer_panic_only_new.

Theorem C10_compress_exporter_panics_refuted :
  compress [ENode (Some [97%N]) None 1 1] = IPanic.
Proof. exact compress_panics_refuted. Qed.
Print Assumptions C10_compress_exporter_panics_refuted.

(** ** 5. Errors expose nothing *)
Theorem C10_import_error_no_effect :
  forall (H : bytes -> bytes) (s : sess) (o : iop),
    snd (sess_step H s o) = IErr -> fst (sess_step H s o) = s.
Proof. exact import_error_no_effect. Qed.
Print Assumptions C10_import_error_no_effect.

Theorem C10_visible_only_by_commit :
  forall (H : bytes -> bytes) (s : sess) (o : iop),
    s_visible (fst (sess_step H s o)) = s_visible s \/
    (o = ICommit /\ exists r, imp_commit H (s_imp s) = IOk r /\
                              s_visible (fst (sess_step H s o)) = Some r /\
                              i_closed (s_imp (fst (sess_step H s o))) = true).
Proof. exact visible_only_by_commit. Qed.
Print Assumptions C10_visible_only_by_commit.

Theorem C10_closed_importer_rejects :
  forall (H : bytes -> bytes) (s : sess) (o : iop),
    i_closed (s_imp s) = true -> o <> IClose -> sess_step H s o = (s, IErr).
Proof. exact closed_importer_rejects. Qed.
Print Assumptions C10_closed_importer_rejects.

Theorem C10_no_commit_nothing_visible :
  forall (H : bytes -> bytes) (ops : list iop) (s : sess),
    ~ In ICommit ops -> s_visible (fst (sess_run H s ops)) = s_visible s.
Proof. exact no_commit_nothing_visible. Qed.
Print Assumptions C10_no_commit_nothing_visible.

Theorem C10_imp_run_root_from_commit :
  forall (H : bytes -> bytes) (v : Z) (stream : list (option enode)) (r : option node),
    imp_run H v stream = IOk r ->
    exists st0 st, imp_new 0 true v = IOk st0 /\ imp_adds H st0 stream = IOk st /\
                   imp_commit H st = IOk r.
Proof. exact imp_run_root_from_commit. Qed.
Print Assumptions C10_imp_run_root_from_commit.

Theorem C10_validate_ignores_nonce :
  forall (H : bytes -> bytes) (p : pnode) (n : Z),
    write_node H p = None <-> write_node H (set_nonce p n) = None.
Proof. exact write_node_nonce_irrelevant. Qed.
Print Assumptions C10_validate_ignores_nonce.

(** *** Non-vacuity: a 6-leaf tree built by [Tree.set] over two saved versions (SHA-256),
    exported, imported at a later version (reference root), compared. *)
Definition C10_t1 : node :=
  let t := Leaf [1%N] [10%N] new_meta in
  let t := fst (set t [2%N] [20%N]) in
  let t := fst (set t [3%N] [30%N]) in
  fst (stamp sha256 1 0 t).

Definition C10_t2 : node :=
  let t := fst (set C10_t1 [4%N] [40%N]) in
  let t := fst (set t [5%N; 1%N] [50%N]) in
  let t := fst (set t [5%N; 2%N; 7%N] []) in
  fst (stamp sha256 2 0 t).

Example C10_example_hyps :
  wf C10_t2 /\ avl C10_t2 /\ versions_in 2 C10_t2 /\ versions_in 3 C10_t2 /\
  keys_all key_small C10_t2 /\ versions_int64 C10_t2 /\
  size C10_t2 = 6 /\ height C10_t2 = 3 /\
  length (export (Some C10_t2)) = 11%nat /\
  (* both versions occur *)
  map e_version (export (Some C10_t2)) = [1; 1; 2; 1; 2; 2; 2; 2; 2; 2; 2].
Proof. vm_compute. intuition (try discriminate; auto). Qed.

Definition C10_imported : node :=
  match imp_run sha256 3 (map Some (export (Some C10_t2))) with
  | IOk (Some t) => t
  | _ => Leaf [] [] new_meta
  end.

Example C10_example_roundtrip :
  imp_run sha256 3 (map Some (export (Some C10_t2))) = IOk (Some C10_imported) /\
  shape_eq C10_imported C10_t2 /\
  pure_hash sha256 3 C10_imported = pure_hash sha256 3 C10_t2 /\
  hs (nmeta C10_imported) = hs (nmeta C10_t2) /\
  elems C10_imported = elems C10_t2 /\
  nonce (nmeta C10_imported) = 1 /\ ver (nmeta C10_imported) = 2.
Proof. vm_compute. intuition reflexivity. Qed.

Definition C10_cs : list cnode :=
  match compress (export (Some C10_t2)) with IOk cs => cs | _ => [] end.

Example C10_example_compress :
  let cs := C10_cs in
    compress (export (Some C10_t2)) = IOk cs /\
    decompress cs = IOk (export (Some C10_t2)) /\
    (* inner keys elided, leaf keys delta-encoded ([5;2;7] after [5;1] shares one byte) *)
    map e_key cs =
      [Some [0%N; 1%N]; Some [0%N; 2%N]; None; Some [0%N; 3%N]; Some [0%N; 4%N]; None;
       Some [0%N; 5%N; 1%N]; Some [1%N; 2%N; 7%N]; None; None; None] /\
    (* inner versions are deltas against the larger child version *)
    map e_version cs = [1; 1; 1; 1; 2; 0; 2; 2; 0; 0; 0] /\
    cimp_run sha256 3 (map Some cs) = IOk (Some C10_imported).
Proof. vm_compute. intuition reflexivity. Qed.

(** the hostile streams end in errors, not roots, when they do not panic *)
Example C10_example_errors :
  imp_run sha256 1 [None] = IErr /\
  imp_run sha256 1 [Some (ENode (Some [97%N]) (Some [1%N]) 2 0)] = IErr /\
  imp_run sha256 1 [Some (ENode (Some [98%N]) None 1 1)] = IErr /\
  imp_run sha256 1 [Some (ENode (Some [97%N]) (Some [1%N]) 1 0);
                    Some (ENode (Some [98%N]) (Some [2%N]) 1 0)] = IErr /\
  imp_run sha256 0 [Some (ENode (Some [97%N]) (Some [1%N]) 0 0)] = IErr /\
  imp_run sha256 (-1) [] = IErr /\
  decompress [ENode None (Some [1%N]) 1 0] = IErr.
Proof. vm_compute. intuition reflexivity. Qed.

(** the streams that panicked the importers before the guards were added *)
Example C10_example_former_panics :
  (* negative node version, as a leaf and as an inner node above two written children *)
  imp_run sha256 1 [Some (ENode (Some [107%N]) (Some [118%N]) (-1) 0)] = IErr /\
  imp_run sha256 1 [Some (ENode (Some [97%N]) (Some [1%N]) 1 0);
                    Some (ENode (Some [98%N]) (Some [2%N]) 1 0);
                    Some (ENode (Some [98%N]) None (-9223372036854775808) 1)] = IErr /\
  (* compress importer: inner node first; one leaf then an inner node; shared prefix
     longer than the previous key; nil node *)
  cimp_run sha256 1 [Some (ENode None None 0 1)] = IErr /\
  cimp_run sha256 1 [Some (ENode (Some [0%N; 97%N]) (Some [1%N]) 1 0);
                     Some (ENode None None 0 1)] = IErr /\
  cimp_run sha256 1 [Some (ENode (Some [5%N; 97%N]) (Some [1%N]) 1 0)] = IErr /\
  cimp_run sha256 1 [None] = IErr /\
  decompress [ENode None None 0 1] = IErr /\
  decompress [ENode (Some [5%N; 97%N]) (Some [1%N]) 1 0] = IErr.
Proof. vm_compute. intuition reflexivity. Qed.

(** *** The database an import writes, end to end (ImportPhysFacts): exporting a retained version
    of any reachable state and feeding the stream to the importer yields the tree [imported H t]
    with the node keys the importer assigns (per-version nonce counters, root nonce 1); the store
    holding it - [Store.expected_store [(V, Some t')]], whose digest the correspondence check
    compares with the store the REAL importer wrote - loads version V back node for node, with the
    shape, contents and root hash of the exported tree; when the root was written in version V
    itself the imported database discovers exactly version V.  When the root is inherited from an
    earlier version the database ALSO reports that version and the ones in between (refutation
    below; observed on the real library, outside the properties' quantifiers). *)
From IAVL Require Import MTree VersionFacts Store StoreFacts PruneAlgo Discover DbImage DbImageFacts ImportPhysFacts.
Local Open Scope Z_scope.

Theorem C10_import_of_an_exported_version_reopens :
  forall (H : bytes -> bytes) iv0 b ops V t iv fi l,
    init_ok iv0 b -> run_ok H (init_state iv0 b) ops ->
    let s := fst (run H (init_state iv0 b) ops) in
    In (V, Some t) (forest s) -> V < max_nonces_len -> ncount t + 1 < 2 ^ 32 ->
    let t' := imported H t in
    let st := expected_store [(V, Some t')] in
    image_ok st fi l = true ->
    imp_run H V (map Some (export (Some t))) = IOk (Some t') /\
    shape_eq t' t /\ elems t' = elems t /\
    (forall wv, root_hash H wv (Some t') = pure_hash H wv t) /\
    load_version H (S (length st)) st V = POk (Some t') /\
    (exists m lst,
       0 <= m <= V /\
       open_image H iv (encode_image st fi l) =
         (if (0 <? m) && (m <? iv) then DbInitial m else DbOk lst) /\
       filter (fun p => V <=? fst p) lst = [(V, POk (Some t'))]) /\
    (ver (nmeta t) = V -> iv <= V ->
       open_forest H iv (encode_image st fi l) = DbOk [(V, Some t')] /\
       discovered_available st = Some [V]).
Proof. exact import_reopens_reachable. Qed.
Print Assumptions C10_import_of_an_exported_version_reopens.

Theorem C10_both_codecs_build_the_same_tree : ltac:(let t := type of cimp_run_export in exact t).
Proof. exact cimp_run_export. Qed.
Print Assumptions C10_both_codecs_build_the_same_tree.

Theorem C10_import_inherited_root_discovers_more_refuted :
  ltac:(let t := type of import_inherited_root_discovers_more_refuted in exact t).
Proof. exact import_inherited_root_discovers_more_refuted. Qed.
Print Assumptions C10_import_inherited_root_discovers_more_refuted.

Example C10_import_physical_example : ltac:(let t := type of ip_exact in exact t).
Proof. exact ip_exact. Qed.
