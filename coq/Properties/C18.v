(** C18: the in-memory, LevelDB and prefix-namespaced backends behave as the same sorted map.
    Models in KV.v, proofs in KVFacts.v.  Statements are restated in full.

    [cpIncr] is modelled as fixed by commit 179067f (the bound is the incremented prefix WITHOUT
    the zeroed tail).  Before that fix [cpIncr [115;255] = [116;0]], the range [p, cpIncr p)
    contained the foreign key [116], and [PrefixDB.ReverseIterator(start, nil)] of such a
    namespace was empty; the former counterexamples are now the positive examples
    [C18_fixed_riter] and [C18_fixed_isolation].

    Remaining deviations from the informal C18 text, modelled faithfully:
    [GoLevelDB.Has] of an empty key answers [false] instead of an error ([C18_backend_steps]);
    a PrefixDB with an empty prefix panics / errors on nil bounds ([C18_views]). *)
From IAVL Require Import Bytes VMap KV KVFacts.
Local Open Scope N_scope.

(** * cpIncr *)

Theorem C18_cpIncr_none :
  forall p k : bytes,
    p <> [] -> cpIncr p = None -> well_formed k ->
    (ble p k = true <-> is_prefix p k = true).
Proof. exact cpIncr_spec_none. Qed.
Print Assumptions C18_cpIncr_none.

Theorem C18_cpIncr_sound :
  forall p q k : bytes,
    cpIncr p = Some q -> is_prefix p k = true -> ble p k = true /\ blt k q = true.
Proof. exact cpIncr_spec_sound. Qed.
Print Assumptions C18_cpIncr_sound.

(** exact for EVERY non-empty prefix, 0xFF runs included *)
Theorem C18_cpIncr :
  forall p q k : bytes,
    cpIncr p = Some q -> well_formed k ->
    ((ble p k = true /\ blt k q = true) <-> is_prefix p k = true).
Proof. exact cpIncr_spec. Qed.
Print Assumptions C18_cpIncr.

Theorem C18_cpIncr_none_iff :
  forall p : bytes, cpIncr p = None <-> Forall (fun x => 255 <= x) p.
Proof. exact cpIncr_none_iff. Qed.
Print Assumptions C18_cpIncr_none_iff.

(** * PrefixDB *)

(** every PrefixDB operation (point operations, both iterators for all bounds, batch programs,
    with their error results) is the spec operation on the sub-map of the namespace, and the
    entries outside the namespace are untouched *)
Theorem C18_prefix_view :
  forall (p : bytes) (m : kvs) (op : kvop),
    p <> [] -> sorted m -> wf_keys m ->
    kv_step (view p m) op =
      (view p (fst (prefix_step kv_step p m op)), snd (prefix_step kv_step p m op)) /\
    outside p (fst (prefix_step kv_step p m op)) = outside p m /\
    sorted (fst (prefix_step kv_step p m op)).
Proof. exact prefix_view. Qed.
Print Assumptions C18_prefix_view.

Theorem C18_prefix_iter :
  forall (p : bytes) (m : kvs) (start stop : option bytes),
    p <> [] -> sorted m -> bad_bound start || bad_bound stop = false ->
    piter kv_step p m start stop = (m, OPairs (kv_iter (view p m) start stop)).
Proof. exact piter_spec. Qed.
Print Assumptions C18_prefix_iter.

Theorem C18_prefix_riter :
  forall (p : bytes) (m : kvs) (start stop : option bytes),
    p <> [] -> sorted m -> bad_bound start || bad_bound stop = false ->
    (stop = None -> wf_keys m) ->
    priter kv_step p m start stop = (m, OPairs (kv_riter (view p m) start stop)).
Proof. exact priter_spec. Qed.
Print Assumptions C18_prefix_riter.

(** PrefixDB over the MemDB model / the GoLevelDB model = PrefixDB over the spec *)
Theorem C18_prefix_over_backends :
  forall (p : bytes) (m : kvs) (op : kvop),
    p <> [] -> sorted m ->
    prefix_step mem_step p m op = prefix_step kv_step p m op /\
    prefix_step ldb_step p m op = prefix_step kv_step p m op.
Proof. exact (fun p m op Hp Hs => conj (prefix_step_mem p m op Hp Hs) (prefix_step_ldb p m op Hp Hs)). Qed.
Print Assumptions C18_prefix_over_backends.

(** * Iterator adapters *)

Theorem C18_memdb_iter :
  forall (l : kvs) (start stop : option bytes),
    sorted l ->
    memdb_iter l start stop false = kv_iter l start stop /\
    memdb_iter l start stop true = kv_riter l start stop.
Proof. exact memdb_iter_spec. Qed.
Print Assumptions C18_memdb_iter.

Theorem C18_leveldb_iter :
  forall (l : kvs) (start stop : option bytes),
    sorted l ->
    ldb_collect l start stop false = Some (kv_iter l start stop) /\
    ldb_collect l start stop true = Some (kv_riter l start stop).
Proof. exact ldb_collect_spec. Qed.
Print Assumptions C18_leveldb_iter.

(** the adapter logic alone (Seek/Prev/Last positioning, Valid bound checks) is correct on any
    sorted source, i.e. also without goleveldb's own range restriction *)
Theorem C18_leveldb_adapter :
  forall (s : kvs) (start stop : option bytes),
    sorted s ->
    ldb_run s start stop false = Some (kv_iter s start stop) /\
    ldb_run s start stop true = Some (kv_riter s start stop).
Proof. exact ldb_run_spec. Qed.
Print Assumptions C18_leveldb_adapter.

(** whole steps: MemDB = spec; GoLevelDB = spec except that [Has] of an empty key answers
    [false] instead of an error *)
Theorem C18_backend_steps :
  forall (m : kvs) (op : kvop),
    sorted m ->
    mem_step m op = kv_step m op /\
    (op <> KHas [] -> ldb_step m op = kv_step m op) /\
    ldb_step m (KHas []) = (m, OBool (kv_has m [])).
Proof.
  exact (fun m op Hs => conj (mem_step_spec m op Hs)
                       (conj (ldb_step_spec m op Hs) (ldb_step_has_empty m))).
Qed.
Print Assumptions C18_backend_steps.

(** * Batches *)

Theorem C18_batch :
  (* Write applies the recorded operations in order, in one step, and closes the batch *)
  (forall b m, b_closed b = false ->
     b_write b m = (mkBatch [] true, fold_left apply_op (b_ops b) m, None)) /\
  (forall b m, b_closed (fst (fst (b_write b m))) = true) /\
  (forall b, b_closed (fst (b_close b)) = true) /\
  (* a closed batch rejects everything and stays as it is; the store is not touched *)
  (forall b k v, b_closed b = true -> exists e, b_set b k v = (b, Some e)) /\
  (forall b k, b_closed b = true -> exists e, b_delete b k = (b, Some e)) /\
  (forall b m, b_closed b = true -> b_write b m = (b, m, Some ErrBatchClosed)) /\
  (* empty keys and nil values are rejected *)
  (forall b v, b_set b [] v = (b, Some ErrKeyEmpty)) /\
  (forall b k, k <> [] -> b_set b k None = (b, Some ErrValueNil)) /\
  (forall b, b_delete b [] = (b, Some ErrKeyEmpty)) /\
  (* a whole batch program on the spec store *)
  (forall m ops1 w ops2,
     kv_step m (KBatch ops1 w ops2) =
     ((if w then fold_left apply_op (flat_map bop_accept ops1) m else m),
      OBatch (map (bop_result false) ops1 ++ [None] ++ map (bop_result true) ops2
              ++ [Some ErrBatchClosed]))) /\
  (forall o, bop_result true o <> None) /\
  (forall ops, Forall (fun x => op_key x <> []) (flat_map bop_accept ops)).
Proof.
  exact (conj b_write_open (conj b_write_closes (conj b_close_closes (conj b_set_closed
        (conj b_delete_closed (conj b_write_closed (conj b_set_rejects (conj b_set_rejects_nil
        (conj b_delete_rejects (conj batch_spec (conj bop_result_closed accepted_nonempty))))))))))).
Qed.
Print Assumptions C18_batch.

(** a batch program through a PrefixDB: same results, prefixed operations *)
Theorem C18_batch_prefix :
  forall (p : bytes) (m : kvs) (ops1 : list bop) (w : bool) (ops2 : list bop),
    batch_prog (pb_set p) (pb_delete p) m ops1 w ops2 =
    ((if w then fold_left apply_op (map (pfx_op p) (flat_map bop_accept ops1)) m else m),
     OBatch (map (bop_result false) ops1 ++ [None] ++ map (bop_result true) ops2
             ++ [Some ErrBatchClosed])).
Proof. exact batch_prog_prefix. Qed.
Print Assumptions C18_batch_prefix.

(** sortedness and "no empty key" are invariants of every model (values are [bytes], never nil,
    by construction; a nil value is rejected at the API boundary) *)
Theorem C18_store_invariant :
  forall (m : kvs) (op : kvop),
    store_inv m ->
    store_inv (fst (kv_step m op)) /\ store_inv (fst (mem_step m op)) /\
    store_inv (fst (ldb_step m op)) /\
    (forall p, store_inv (fst (prefix_step kv_step p m op))).
Proof.
  exact (fun m op H => conj (kv_step_inv m op H) (conj (mem_step_inv m op H)
        (conj (ldb_step_inv m op H) (fun p => prefix_step_inv p m op H)))).
Qed.
Print Assumptions C18_store_invariant.

(** [wf_keys] (every byte of every stored key < 256) is preserved by well-formed operations *)
Theorem C18_wf_invariant :
  forall (p : bytes) (m : kvs) (op : kvop),
    well_formed p -> op_wf op -> wf_keys m ->
    wf_keys (fst (kv_step m op)) /\ wf_keys (fst (prefix_step kv_step p m op)).
Proof.
  exact (fun p m op Hp Ho Hm => conj (kv_step_wf m op Ho Hm) (prefix_step_wf p m op Hp Ho Hm)).
Qed.
Print Assumptions C18_wf_invariant.

(** * Point reads see the last write *)

Theorem C18_last_write_wins :
  (forall m k v, kv_get (kv_set m k v) k = Some v) /\
  (forall m k v k', k' <> k -> kv_get (kv_set m k v) k' = kv_get m k') /\
  (forall m k, sorted m -> kv_get (kv_delete m k) k = None) /\
  (forall m k k', k' <> k -> kv_get (kv_delete m k) k' = kv_get m k') /\
  (forall m k v, sorted m -> sorted (kv_set m k v)) /\
  (forall m k, sorted m -> sorted (kv_delete m k)).
Proof. exact last_write_wins. Qed.
Print Assumptions C18_last_write_wins.

(** * Non-vacuity: keys over the bytes 0, 97, 255; prefixes [115;255;0] and [255;255] *)

Definition C18_store : kvs :=
  [([0], [1]); ([97], [2]); ([115; 255], [20]); ([115; 255; 0], [21]);
   ([115; 255; 0; 0], [3]); ([115; 255; 0; 97; 255], [4]); ([115; 255; 0; 255], [5]);
   ([115; 255; 1], [6]); ([255], [22]); ([255; 255], [7]); ([255; 255; 0], [8]);
   ([255; 255; 97], [9]); ([255; 255; 255], [10]); ([255; 255; 255; 255], [11])].

Example C18_store_ok : store_inv C18_store /\ wf_keys C18_store.
Proof.
  split; [split|].
  - simpl. repeat split; repeat constructor.
  - repeat constructor; simpl; discriminate.
  - repeat constructor.
Qed.

Example C18_cpIncr_examples :
  cpIncr [115; 255; 0] = Some [115; 255; 1] /\ cpIncr [255; 255] = None /\
  cpIncr [115; 255] = Some [116] /\ cpIncr [0; 97; 255; 255] = Some [0; 98] /\
  cpIncr [255; 255; 255] = None /\ cpIncr [255; 0; 255] = Some [255; 1].
Proof. vm_compute. repeat split. Qed.

(** the former counterexamples: prefix [115;255] with the foreign key [116] in the store, on
    the spec, MemDB and GoLevelDB models *)
Example C18_fixed_riter :
  let p := [115; 255] in
  let m := [([115; 255; 5], [1]); ([116], [3])] in
  store_inv m /\ wf_keys m /\
  kv_step (view p m) (KRIter None None) = (view p m, OPairs [([5], [1])]) /\
  prefix_step kv_step p m (KRIter None None) = (m, OPairs [([5], [1])]) /\
  prefix_step mem_step p m (KRIter None None) = (m, OPairs [([5], [1])]) /\
  prefix_step ldb_step p m (KRIter None None) = (m, OPairs [([5], [1])]).
Proof.
  split; [split; [simpl; repeat constructor | repeat constructor; simpl; discriminate]|].
  split; [repeat constructor|]. vm_compute. repeat split.
Qed.

(** a write through the disjoint sibling namespace [116] no longer disturbs [115;255;255] *)
Example C18_fixed_isolation :
  let p := [115; 255; 255] in
  let m := [([115; 255; 255; 7], [2])] in
  let m' := fst (prefix_step kv_step [116] m (KSet [0] (Some [9]))) in
  m' = [([115; 255; 255; 7], [2]); ([116; 0], [9])] /\
  view p m' = view p m /\
  snd (prefix_step kv_step p m (KRIter None None)) = OPairs [([7], [2])] /\
  snd (prefix_step kv_step p m' (KRIter None None)) = OPairs [([7], [2])] /\
  snd (prefix_step ldb_step p m' (KRIter (Some [7]) None)) = OPairs [([7], [2])].
Proof. vm_compute. repeat split. Qed.

Example C18_views :
  view [115; 255; 0] C18_store = [([0], [3]); ([97; 255], [4]); ([255], [5])] /\
  view [255; 255] C18_store = [([0], [8]); ([97], [9]); ([255], [10]); ([255; 255], [11])] /\
  prefix_step kv_step [115; 255; 0] C18_store (KRIter None None) =
    (C18_store, OPairs [([255], [5]); ([97; 255], [4]); ([0], [3])]) /\
  prefix_step ldb_step [255; 255] C18_store (KRIter (Some [0]) None) =
    (C18_store, OPairs [([255; 255], [11]); ([255], [10]); ([97], [9]); ([0], [8])]) /\
  prefix_step mem_step [255; 255] C18_store (KIter (Some [97]) (Some [255; 255])) =
    (C18_store, OPairs [([97], [9]); ([255], [10])]) /\
  snd (prefix_step mem_step [255; 255] C18_store (KIter (Some []) None)) = OErr ErrKeyEmpty /\
  snd (prefix_step mem_step [] C18_store (KIter None None)) = OPanic.
Proof. vm_compute. repeat split. Qed.

(** one program on the four models: same outputs, same final store (modulo the namespace) *)
Definition C18_prog : list kvop :=
  [KSet [255] (Some [1]); KSet [0; 255] (Some []); KSet [] (Some [1]); KSet [97] None;
   KGet [255]; KGet [97]; KHas [0; 255]; KDelete [255]; KGet [255];
   KBatch [(true, [97], Some [7]); (true, [], Some [7]); (true, [0], None); (false, [0; 255], None)]
          true [(true, [97], Some [8]); (false, [], None)];
   KIter None None; KRIter None None; KIter (Some [0]) (Some [97]); KRIter (Some [97]) (Some [0]);
   KRIter (Some [0; 255]) (Some [97; 0]); KIter None (Some [])].

Example C18_prog_agrees :
  kv_run mem_step [] C18_prog = kv_run kv_step [] C18_prog /\
  kv_run ldb_step [] C18_prog = kv_run kv_step [] C18_prog /\
  snd (kv_run (prefix_step mem_step [115; 255; 0]) C18_store C18_prog) =
    snd (kv_run kv_step (view [115; 255; 0] C18_store) C18_prog) /\
  snd (kv_run (prefix_step ldb_step [255; 255]) C18_store C18_prog) =
    snd (kv_run kv_step (view [255; 255] C18_store) C18_prog) /\
  snd (kv_run kv_step [] C18_prog) =
    [OOk; OOk; OErr ErrKeyEmpty; OErr ErrValueNil; OBytes (Some [1]); OBytes None; OBool true;
     OOk; OBytes None;
     OBatch [None; Some ErrKeyEmpty; Some ErrValueNil; None; None;
             Some ErrBatchClosed; Some ErrKeyEmpty; Some ErrBatchClosed];
     OPairs [([97], [7])]; OPairs [([97], [7])]; OPairs []; OPairs []; OPairs [([97], [7])];
     OErr ErrKeyEmpty].
Proof. vm_compute. repeat split. Qed.
