(** C02: the root hash returned by every commit (and the working hash before it) is the hash
    defined by the IAVL+ rules, recomputed from scratch ([pure_hash] / [opure_hash], which
    trust nothing stored in the tree); it is the same before the commit, at the commit, when
    read back after reopening, loading, pruning other versions and rollback-and-redo; it
    does not depend on nonces, stored hashes or routing keys (export/import re-keying); and
    read-only calls interleaved anywhere never change any later state, output or hash.
    Statements are restated in full; proofs are in HashFacts.v. *)
From IAVL Require Import Bytes Varint Sha256 Tree VMap TreeFacts MTree MTreeFacts HashFacts.
From IAVL Require Memo MemoFacts.
Local Open Scope Z_scope.

(** The code's hash (which trusts the hash stored in persisted nodes) is the structural hash
    on every hash-consistent tree. *)
Theorem C02_node_hash_is_pure :
  forall (H : bytes -> bytes) (wv : Z) (t : node),
    hash_ok H t -> node_hash H wv t = pure_hash H wv t.
Proof. exact node_hash_pure. Qed.
Print Assumptions C02_node_hash_is_pure.

(** [hash_ok], spelled out: every persisted subtree stores its structural hash and is
    persisted all the way down. *)
Theorem C02_hash_ok_meaning :
  forall (H : bytes -> bytes) (t : node),
    hash_ok H t <->
    (forall u, subtree u t -> ver (nmeta u) <> 0 ->
               hs (nmeta u) = pure_hash H 0 u /\ all_persisted u).
Proof. exact hash_ok_subtrees. Qed.
Print Assumptions C02_hash_ok_meaning.

(** saveNewNodes: the hash stored in the root by the commit is the working hash computed
    just before it, and the structural hash of the working tree; the result is persisted and
    hash-consistent. *)
Theorem C02_stamp_hash :
  forall (H : bytes -> bytes) (wv n : Z) (t : node),
    hash_ok H t -> 0 < wv ->
    hash_ok H (fst (stamp H wv n t)) /\
    all_persisted (fst (stamp H wv n t)) /\
    hs (nmeta (fst (stamp H wv n t))) = pure_hash H wv t /\
    hs (nmeta (fst (stamp H wv n t))) = node_hash H wv t.
Proof. exact stamp_hash_ok. Qed.
Print Assumptions C02_stamp_hash.

(** The writes keep trees hash-consistent. *)
Theorem C02_set_hash_ok :
  forall (H : bytes -> bytes) (t : node) (k v : bytes),
    hash_ok H t -> hash_ok H (fst (set t k v)).
Proof. exact set_hash_ok. Qed.
Print Assumptions C02_set_hash_ok.

Theorem C02_remove_hash_ok :
  forall (H : bytes -> bytes) (t : node) (k : bytes),
    hash_ok H t -> forall t', rm_self (remove t k) = Some t' -> hash_ok H t'.
Proof. exact remove_hash_ok. Qed.
Print Assumptions C02_remove_hash_ok.

Theorem C02_balance_hash_ok :
  forall (H : bytes -> bytes) (t : node), hash_ok H t -> hash_ok H (balance t).
Proof. exact balance_hash_ok. Qed.
Print Assumptions C02_balance_hash_ok.

(** The hash depends only on the shape: leaf keys and values, heights, sizes, effective
    versions -- not on nonces, stored hashes or routing keys. *)
Theorem C02_hash_ignores_nonces :
  forall (H : bytes -> bytes) (wv : Z) (t1 t2 : node),
    shape_eq wv t1 t2 -> pure_hash H wv t1 = pure_hash H wv t2.
Proof. exact pure_hash_ext. Qed.
Print Assumptions C02_hash_ignores_nonces.

Theorem C02_saved_hash_ignores_nonces :
  forall (H : bytes -> bytes) (t1 t2 : node),
    hash_ok H t1 -> hash_ok H t2 -> all_persisted t1 -> all_persisted t2 ->
    shape_eq 0 t1 t2 -> hs (nmeta t1) = hs (nmeta t2).
Proof. exact saved_hash_ext. Qed.
Print Assumptions C02_saved_hash_ignores_nonces.

(** Every reachable state is hash-consistent ([hash_inv]: the working tree is hash-consistent,
    the last saved tree and all retained versions are hash-consistent and fully persisted). *)
Theorem C02_hash_inv_reachable :
  forall (H : bytes -> bytes) (iv : Z) (ivset : bool) (ops : list op),
    0 <= iv -> iv <> 0 \/ ivset = false ->
    state_inv (fst (run H (init_state iv ivset) ops)) /\
    hash_inv H (fst (run H (init_state iv ivset) ops)).
Proof. exact hash_inv_reachable. Qed.
Print Assumptions C02_hash_inv_reachable.

Theorem C02_hash_inv_step :
  forall (H : bytes -> bytes) (s : mstate) (o : op),
    state_inv s -> hash_inv H s -> hash_inv H (fst (step H s o)).
Proof. exact step_hash_inv. Qed.
Print Assumptions C02_hash_inv_step.

(** On every reachable state, all hashes the machine reports are the from-scratch hashes. *)
Theorem C02_reachable_hashes_are_pure :
  forall (H : bytes -> bytes) (iv : Z) (ivset : bool) (ops : list op),
    0 <= iv -> iv <> 0 \/ ivset = false ->
    let s := fst (run H (init_state iv ivset) ops) in
    snd (step H s OWorkingHash) =
      XBytes (Some (opure_hash H (working_version s) (root s))) /\
    snd (step H s OHash) = XBytes (Some (opure_hash H 0 (last_saved s))) /\
    (forall v t, lookup v (forest s) = Some t ->
       snd (step H s (ORead (TVersion v) RHash)) = XBytes (Some (opure_hash H 0 t))).
Proof. exact reachable_hashes_pure. Qed.
Print Assumptions C02_reachable_hashes_are_pure.

(** The commit returns the working hash computed just before it (or fails, which can only
    happen when the version already exists). *)
Theorem C02_working_hash_eq_commit_hash :
  forall (H : bytes -> bytes) (s : mstate),
    state_inv s -> hash_inv H s ->
    (version_exists s (working_version s) = false ->
       snd (step H s OSave) = XPair (snd (step H s OWorkingHash)) (XInt (working_version s))) /\
    (snd (step H s OSave) = XErr \/
     snd (step H s OSave) = XPair (snd (step H s OWorkingHash)) (XInt (working_version s))).
Proof. exact save_returns_working_hash. Qed.
Print Assumptions C02_working_hash_eq_commit_hash.

(** After a successful commit: the commit hash is the from-scratch hash of the working tree,
    and Hash(), WorkingHash() and the hash of the saved version all return it. *)
Theorem C02_hash_same_after_commit :
  forall (H : bytes -> bytes) (s : mstate) (h : bytes) (v : Z),
    state_inv s -> hash_inv H s ->
    snd (step H s OSave) = XPair (XBytes (Some h)) (XInt v) ->
    let s' := fst (step H s OSave) in
    v = working_version s /\
    snd (step H s OWorkingHash) = XBytes (Some h) /\
    h = opure_hash H v (root s) /\
    snd (step H s' OHash) = XBytes (Some h) /\
    snd (step H s' OWorkingHash) = XBytes (Some h) /\
    snd (step H s' (ORead (TVersion v) RHash)) = XBytes (Some h) /\
    lookup v (forest s') = Some (root s') /\ last_saved s' = root s' /\ version s' = v /\
    clean s'.
Proof. exact save_then_hashes. Qed.
Print Assumptions C02_hash_same_after_commit.

(** Reopening and loading never touch a retained version. *)
Theorem C02_hash_same_after_reopen :
  forall (H : bytes -> bytes) (s : mstate) (v : Z),
    lookup v (forest (fst (step H s OReopen))) = lookup v (forest s) /\
    forall w, lookup v (forest (fst (step H s (OLoad w)))) = lookup v (forest s).
Proof. exact reopen_load_keep_versions. Qed.
Print Assumptions C02_hash_same_after_reopen.

(** The hash of a retained version is the same whenever it is read, after any history that
    does not delete that version: reopen, load, further writes and commits, rollback,
    pruning of other versions ([keeps v]: every [OPrune n] has [n < v], every [OLvfo w] has
    [v <= w]). *)
Theorem C02_version_hash_stable :
  forall (H : bytes -> bytes) (v : Z) (ops : list op) (s : mstate) (t : option node),
    forallb (keeps v) ops = true -> lookup v (forest s) = Some t ->
    snd (step H (fst (run H s ops)) (ORead (TVersion v) RHash)) =
    snd (step H s (ORead (TVersion v) RHash)).
Proof. exact version_hash_stable. Qed.
Print Assumptions C02_version_hash_stable.

Theorem C02_commit_hash_read_back :
  forall (H : bytes -> bytes) (s : mstate) (h : bytes) (v : Z) (ops : list op),
    state_inv s -> hash_inv H s ->
    snd (step H s OSave) = XPair (XBytes (Some h)) (XInt v) ->
    forallb (keeps v) ops = true ->
    snd (step H (fst (run H (fst (step H s OSave)) ops)) (ORead (TVersion v) RHash)) =
      XBytes (Some h).
Proof. exact commit_hash_read_back. Qed.
Print Assumptions C02_commit_hash_read_back.

(** Rollback and redo: uncommitted writes followed by a rollback restore the clean state
    exactly, so whatever follows behaves as if they had never happened. *)
Theorem C02_rollback_undoes_writes :
  forall (H : bytes -> bytes) (s : mstate) (ws : list op),
    clean s -> forallb root_only ws = true -> fst (run H s (ws ++ [ORollback])) = s.
Proof. exact rollback_undoes_writes. Qed.
Print Assumptions C02_rollback_undoes_writes.

Theorem C02_rollback_redo :
  forall (H : bytes -> bytes) (s : mstate) (ws ops : list op),
    clean s -> forallb root_only ws = true ->
    fst (run H s (ws ++ [ORollback] ++ ops)) = fst (run H s ops) /\
    snd (run H s (ws ++ [ORollback] ++ ops)) =
      snd (run H s (ws ++ [ORollback])) ++ snd (run H s ops).
Proof. exact rollback_redo. Qed.
Print Assumptions C02_rollback_redo.

(** Read-only calls never change the state ... *)
Theorem C02_read_only_ops_do_not_change_state :
  forall (H : bytes -> bytes) (s : mstate) (o : op),
    read_only o = true -> fst (step H s o) = s.
Proof. exact step_read_only. Qed.
Print Assumptions C02_read_only_ops_do_not_change_state.

(** ... so they can be erased from any history without changing the final state or the
    output of any other call. *)
Theorem C02_erase_read_only :
  forall (H : bytes -> bytes) (ops : list op) (s : mstate),
    run H s (erase ops) = (fst (run H s ops), erase_outs ops (snd (run H s ops))).
Proof. exact run_erase. Qed.
Print Assumptions C02_erase_read_only.

Theorem C02_erase_read_only_state :
  forall (H : bytes -> bytes) (s : mstate) (ops : list op),
    fst (run H s ops) = fst (run H s (filter (fun o => negb (read_only o)) ops)).
Proof. exact run_erase_state. Qed.
Print Assumptions C02_erase_read_only_state.

Theorem C02_same_writes_same_hashes :
  forall (H : bytes -> bytes) (s : mstate) (ops1 ops2 : list op),
    erase ops1 = erase ops2 ->
    fst (run H s ops1) = fst (run H s ops2) /\
    erase_outs ops1 (snd (run H s ops1)) = erase_outs ops2 (snd (run H s ops2)).
Proof. exact same_writes_same_hashes. Qed.
Print Assumptions C02_same_writes_same_hashes.

(** *** Non-vacuity: a concrete history with SHA-256, 4 keys, 2 versions.
    Each WorkingHash output equals the hash returned by the Save that follows it; Hash() and
    the hash read from the saved version agree with it, also after a reopen and after
    pruning version 1; the two versions have different hashes. *)
Definition C02_example_ops : list op :=
  [OSet [1%N] [10%N]; OSet [2%N] [20%N]; OSet [3%N] [30%N];
   OWorkingHash; OSave; OHash;
   OSet [4%N] [40%N]; ORemove [1%N]; OSet [2%N] [21%N];
   OWorkingHash; OSave; OHash;
   ORead (TVersion 1) RHash; ORead (TVersion 2) RHash;
   OReopen; ORead (TVersion 1) RHash; ORead (TVersion 2) RHash; OWorkingHash;
   OPrune 1; ORead (TVersion 2) RHash].

Example C02_example :
  exists h1 h2,
    h1 <> h2 /\ length h1 = 32%nat /\ length h2 = 32%nat /\
    snd (run sha256 (init_state 0 false) C02_example_ops) =
      [XBool false; XBool false; XBool false;
       XBytes (Some h1); XPair (XBytes (Some h1)) (XInt 1); XBytes (Some h1);
       XBool false; XPair (XBytes (Some [10%N])) (XBool true); XBool true;
       XBytes (Some h2); XPair (XBytes (Some h2)) (XInt 2); XBytes (Some h2);
       XBytes (Some h1); XBytes (Some h2);
       XOk; XBytes (Some h1); XBytes (Some h2); XBytes (Some h2);
       XOk; XBytes (Some h2)].
Proof.
  do 2 eexists. split; [|split; [|split]].
  4: vm_compute; reflexivity.
  - discriminate.
  - reflexivity.
  - reflexivity.
Qed.

(** the hypotheses of the state-level theorems hold on that history, and the saved tree of
    version 2 is a genuinely mixed tree (nodes of version 1 shared with version 2) *)
Example C02_example_inv :
  let s := fst (run sha256 (init_state 0 false) C02_example_ops) in
  state_inv s /\ hash_inv sha256 s /\
  exists n, lookup 2 (forest s) = Some (Some n) /\ size n = 3 /\
            (exists u, subtree u n /\ ver (nmeta u) = 1) /\ ver (nmeta n) = 2.
Proof.
  cbv zeta. split; [|split].
  - exact (proj1 (C02_hash_inv_reachable sha256 0 false C02_example_ops
                    (Z.le_refl 0) (or_intror eq_refl))).
  - exact (proj2 (C02_hash_inv_reachable sha256 0 false C02_example_ops
                    (Z.le_refl 0) (or_intror eq_refl))).
  - vm_compute. eexists. split; [reflexivity|]. split; [reflexivity|]. split; [|reflexivity].
    eexists. split; [apply sub_right, sub_left, sub_refl|reflexivity].
Qed.

(** Read-only calls erased: same final state, same remaining outputs, on the example. *)
Example C02_example_erase :
  erase C02_example_ops =
    [OSet [1%N] [10%N]; OSet [2%N] [20%N]; OSet [3%N] [30%N]; OSave;
     OSet [4%N] [40%N]; ORemove [1%N]; OSet [2%N] [21%N]; OSave; OReopen; OPrune 1] /\
  fst (run sha256 (init_state 0 false) (erase C02_example_ops)) =
  fst (run sha256 (init_state 0 false) C02_example_ops).
Proof. vm_compute. split; reflexivity. Qed.

(** *** Why [iv <> 0 \/ ivset = false] is required (a limitation of the model, not of Go):
    the model identifies "new node" with "version 0", so with an explicitly set initial
    version 0 the first commit (version 0) leaves its nodes looking new, and the hash read
    back from version 0 is recomputed with version 1. *)
Example C02_init0_read_back_refuted :
  exists h h',
    h <> h' /\
    snd (run sha256 (init_state 0 true) [OSet [1%N] [10%N]; OSave; ORead (TVersion 0) RHash]) =
      [XBool false; XPair (XBytes (Some h)) (XInt 0); XBytes (Some h')].
Proof. vm_compute. do 2 eexists. split; [|reflexivity]. discriminate. Qed.

(** * Hash memoisation (Memo.v: node.hash, hashWithCount, saveNewNodes, resetUnsavedHashes)

    The model M1 above is pure, so "read-only calls never change a later hash" cannot fail in
    it. The code memoises hashes inside the nodes: [Memo.memo_step] transcribes that (a hash
    memoised by a read-only call is what saveNewNodes stores). On every history in which each
    memoising read uses the version the nodes will be saved under, and SetInitialVersion resets
    the memoised hashes (or there are none, or the working version does not change), the
    memoising machine returns what the pure machine returns. *)
Module MemoPart.
Import Memo MemoFacts.

Theorem C02_memo_refines_pure :
  forall (H : bytes -> bytes) (ops : list mop) (st : memo_state),
    minv H st -> run_ok H st ops = true ->
    snd (memo_run H st ops) = snd (pure_run H (erase_state st) ops) /\
    erase_state (fst (memo_run H st ops)) = fst (pure_run H (erase_state st) ops) /\
    minv H (fst (memo_run H st ops)).
Proof. exact run_refines. Qed.
Print Assumptions C02_memo_refines_pure.

Theorem C02_memo_invariant_initially :
  forall (H : bytes -> bytes) (iv : option Z), minv H (memo_init iv).
Proof. exact minv_init. Qed.
Print Assumptions C02_memo_invariant_initially.

(** Read-only calls (hash, working hash, proofs, graph dump: [MRead], [MWorkingHash]) can be
    deleted from a history without changing any output of the other calls or the final tree. *)
Theorem C02_reads_never_change_hashes :
  forall (H : bytes -> bytes) (st : memo_state) (ops : list mop),
    minv H st -> vrun_ok H (erase_state st) ops = true ->
    snd (memo_run H st (writes ops)) = write_outs ops (snd (memo_run H st ops)) /\
    erase_state (fst (memo_run H st (writes ops))) = erase_state (fst (memo_run H st ops)).
Proof. exact reads_never_change_hashes. Qed.
Print Assumptions C02_reads_never_change_hashes.

(** saveNewNodes stores the canonical hashes when the memoised ones are for its version. *)
Theorem C02_memo_save_is_stamp :
  forall (H : bytes -> bytes) (wv : Z) (t : mnode),
    memo_ok H wv t -> forall n,
    erase (fst (msave H wv n t)) = fst (stamp H wv n (erase t)) /\
    snd (msave H wv n t) = snd (stamp H wv n (erase t)).
Proof. exact msave_spec. Qed.
Print Assumptions C02_memo_save_is_stamp.

(** resetUnsavedHashes (fix b7ad1cb) re-establishes the invariant for any working version. *)
Theorem C02_reset_unsaved :
  forall (H : bytes -> bytes) (wv' : Z) (t : mnode),
    closed t -> memo_ok H wv' (reset_unsaved t) /\ erase (reset_unsaved t) = erase t.
Proof. exact reset_memo_ok. Qed.
Print Assumptions C02_reset_unsaved.

(** The repaired defects, as refutations of the unguarded statement (SHA-256, by computation):
    SetInitialVersion after WorkingHash without the reset (b7ad1cb), and a read-only call that
    hashes the working tree with version+1 instead of the initial version (Hash/WorkingHash/
    proofs before the nextVersion() fix, WriteDOTGraph before c402680). *)
Theorem C02_setiv_without_reset_refuted :
  exists ops,
    minv sha256 (memo_init None) /\
    (forall rv, ~ In (MRead rv) ops) /\
    snd (memo_run sha256 (memo_init None) ops) <> snd (pure_run sha256 (pure_init None) ops).
Proof. exact setiv_without_reset_refuted. Qed.
Print Assumptions C02_setiv_without_reset_refuted.

Theorem C02_read_with_wrong_version_refuted :
  exists ops,
    minv sha256 (memo_init (Some 10)) /\
    (forall v r, ~ In (MSetIV v r) ops) /\
    snd (memo_run sha256 (memo_init (Some 10)) ops) <>
      snd (pure_run sha256 (pure_init (Some 10)) ops).
Proof. exact read_with_wrong_version_refuted. Qed.
Print Assumptions C02_read_with_wrong_version_refuted.

(** non-vacuity: a 26-operation history with rotations, removals, reads of each kind, two
    SetInitialVersion calls and two commits meets the hypotheses *)
Example C02_memo_hypotheses_satisfiable :
  vrun_ok sha256 (pure_init (Some 7)) demo_ops = true /\
  run_ok sha256 (memo_init (Some 7)) demo_ops = true /\
  length (writes demo_ops) = 15%nat.
Proof. exact demo_admissible. Qed.
End MemoPart.
