(** C03: ICS-23 proofs.  For every key the tree produces a membership proof (key present) or
    a non-membership proof bracketed by the adjacent keys (key absent) that the standard ICS-23
    verifier (transcribed in Ics23.v, specialised to IavlSpec) accepts against the tree's
    root hash; asking for the wrong kind of proof, or for any proof of an empty tree, is an
    error; and a proof that the verifier accepts against the root hash of a tree states a
    true claim about that tree, unless two explicit different inputs with the same hash are
    found (constructive collision form) -- so a produced proof never verifies for a different
    value, a different key, or the root of a version in which the claim is false.
    Statements are restated in full; proofs are in Ics23Facts.v.

    Hypotheses used below:
    - [forall x, length (H x) = 32]: the hash function returns 32 bytes (true of the
      executable SHA-256: [C03_sha256_length]);
    - [wf]: the C01 tree invariant; [hash_ok H]: the C02 hash-consistency invariant;
    - [bounds wv t] ([C03_bounds_leaf], [C03_bounds_inner], [C03_simple_bounds]): heights,
      sizes, versions are non-negative int64, heights <= 128, and the three varints of every
      inner node take at most 11 bytes -- the ICS-23 IavlSpec prefix window 4..12 (+33);
    - keys and values non-empty: ICS-23 rejects empty keys and values (known finding,
      [C03_empty_value_no_proof], [C03_empty_value_refuted]);
    - [klen_ok], [keys_len_ok], [int64_tree] (soundness): byte-slice lengths < 2^63 - 1 and
      int64 heights/sizes/versions, as in Go. *)
From IAVL Require Import Bytes Varint Sha256 Tree VMap TreeFacts MTree MTreeFacts HashFacts
  Ics23 Ics23Facts.
Local Open Scope Z_scope.

(** ** 1. The existence proof of a present key recomputes the root hash *)
Theorem C03_calculate_path :
  forall (H : bytes -> bytes), (forall x, length (H x) = 32%nat) ->
  forall (wv : Z) (t : node) (k : bytes) (p : list proof_inner_node) (lv : bytes) (m : meta),
    path_to_leaf (pure_hash H wv) wv t k = (p, (k, lv, m), true) -> k <> [] -> lv <> [] ->
    calculate H (ExistenceProof k lv (convert_leaf_op (eff_ver wv m)) (convert_inner_ops p))
      = Some (pure_hash H wv t).
Proof. exact calculate_path. Qed.
Print Assumptions C03_calculate_path.

(** ** 2. Completeness of membership proofs *)
Theorem C03_complete_member :
  forall (H : bytes -> bytes), (forall x, length (H x) = 32%nat) ->
  forall (wv : Z) (t : node) (k v : bytes),
    wf t -> hash_ok H t -> bounds wv t ->
    snd (get t k) = Some v -> k <> [] -> v <> [] ->
    exists ep,
      get_membership_proof H wv (Some t) k = Some (PExist ep) /\
      get_proof H wv (Some t) k = Some (PExist ep) /\
      ep_key ep = k /\ ep_value ep = v /\
      calculate H ep = Some (node_hash H wv t) /\
      verify_membership H (node_hash H wv t) (PExist ep) k v = true.
Proof. exact complete_member. Qed.
Print Assumptions C03_complete_member.

(** the same against the structural hash, without the hash-consistency hypothesis *)
Theorem C03_complete_member_pure :
  forall (H : bytes -> bytes), (forall x, length (H x) = 32%nat) ->
  forall (wv : Z) (t : node) (k v : bytes),
    wf t -> bounds wv t -> snd (get t k) = Some v -> k <> [] -> v <> [] ->
    exists ep,
      get_membership_proof_gen (pure_hash H wv) wv (Some t) k = Some (PExist ep) /\
      ep_key ep = k /\ ep_value ep = v /\
      calculate H ep = Some (pure_hash H wv t) /\
      verify_membership H (pure_hash H wv t) (PExist ep) k v = true.
Proof. exact complete_member_pure. Qed.
Print Assumptions C03_complete_member_pure.

(** ** 3. Completeness of non-membership proofs.
    [rank k (elems t)] is the number of stored keys below [k]; the left neighbour is the leaf
    of index [rank - 1] (none if [rank = 0]), the right neighbour the leaf of index [rank]
    (none if [rank] = number of leaves): the adjacent keys in the sorted leaf sequence. *)
Theorem C03_complete_nonmember :
  forall (H : bytes -> bytes), (forall x, length (H x) = 32%nat) ->
  forall (wv : Z) (t : node) (k : bytes),
    wf t -> hash_ok H t -> bounds wv t ->
    Forall (fun p => fst p <> [] /\ snd p <> []) (elems t) ->
    snd (get t k) = None ->
    exists np,
      get_nonmembership_proof H wv (Some t) k = Some (PNonexist np) /\
      get_proof H wv (Some t) k = Some (PNonexist np) /\
      np_key np = k /\
      option_map (fun e => (ep_key e, ep_value e)) (np_left np) =
        (if 1 <=? rank k (elems t)
         then nth_error (elems t) (Z.to_nat (rank k (elems t) - 1)) else None) /\
      option_map (fun e => (ep_key e, ep_value e)) (np_right np) =
        nth_error (elems t) (Z.to_nat (rank k (elems t))) /\
      (forall e, np_left np = Some e ->
         ep_key e <b k /\
         get_membership_proof H wv (Some t) (ep_key e) = Some (PExist e) /\
         calculate H e = Some (node_hash H wv t)) /\
      (forall e, np_right np = Some e ->
         k <b ep_key e /\
         get_membership_proof H wv (Some t) (ep_key e) = Some (PExist e) /\
         calculate H e = Some (node_hash H wv t)) /\
      verify_nonmembership H (node_hash H wv t) (PNonexist np) k = true.
Proof. exact complete_nonmember. Qed.
Print Assumptions C03_complete_nonmember.

(** ** 4. Wrong-kind requests and the empty tree are errors *)
Theorem C03_kind_errors :
  forall (H : bytes -> bytes) (wv : Z) (t : node) (k : bytes),
    (snd (get t k) = None -> get_membership_proof H wv (Some t) k = None) /\
    (forall v, snd (get t k) = Some v -> get_nonmembership_proof H wv (Some t) k = None) /\
    get_membership_proof H wv None k = None /\
    get_proof H wv None k = None.
Proof. exact kind_errors. Qed.
Print Assumptions C03_kind_errors.

(** [GetNonMembershipProof] on the empty tree returns, without error, a proof with neither
    neighbour; no verifier call accepts it. *)
Theorem C03_empty_tree_nonmembership :
  forall (H : bytes -> bytes) (wv : Z) (hf : node -> bytes) (k : bytes),
    get_membership_proof_gen hf wv None k = None /\
    get_proof_gen hf wv None k = None /\
    get_nonmembership_proof_gen hf wv None k = Some (PNonexist (NonExistenceProof k None None)) /\
    (forall root k',
       verify_nonmembership_x H root (PNonexist (NonExistenceProof k None None)) k' = Some false).
Proof. exact empty_tree_errors. Qed.
Print Assumptions C03_empty_tree_nonmembership.

(** [GetProof] picks the kind by the presence of the key *)
Theorem C03_get_proof_kind :
  forall (wv : Z) (hf : node -> bytes) (t : node) (k : bytes),
    wf t ->
    get_proof_gen hf wv (Some t) k =
      match snd (get t k) with
      | Some _ => get_membership_proof_gen hf wv (Some t) k
      | None => get_nonmembership_proof_gen hf wv (Some t) k
      end.
Proof. exact get_proof_kind. Qed.
Print Assumptions C03_get_proof_kind.

(** ** 5. Known finding: empty values (and keys) have no verifying proof *)
Theorem C03_empty_value_no_proof :
  forall (H : bytes -> bytes) (root : bytes) (p : commitment_proof) (k : bytes),
    verify_membership H root p k [] = false.
Proof. exact empty_value_no_proof. Qed.
Print Assumptions C03_empty_value_no_proof.

Theorem C03_empty_key_no_proof :
  forall (H : bytes -> bytes) (root : bytes) (p : commitment_proof) (v : bytes),
    verify_membership H root p [] v = false.
Proof. exact empty_key_no_proof. Qed.
Print Assumptions C03_empty_key_no_proof.

Theorem C03_empty_neighbour_no_proof :
  forall (H : bytes -> bytes) (root : bytes) (np : nonexistence_proof) (k : bytes),
    (exists l, np_left np = Some l /\ (ep_value l = [] \/ ep_key l = [])) \/
    (exists r, np_right np = Some r /\ (ep_value r = [] \/ ep_key r = [])) ->
    verify_nonmembership H root (PNonexist np) k = false.
Proof. exact empty_neighbour_no_proof. Qed.
Print Assumptions C03_empty_neighbour_no_proof.

(** completeness without [v <> []] is false of the faithful model *)
Theorem C03_empty_value_refuted :
  exists (t : node) (k v : bytes),
    wf t /\ snd (get t k) = Some v /\ k <> [] /\
    forall (H : bytes -> bytes) (wv : Z), 0 <= wv < 2 ^ 34 ->
      hash_ok H t /\ bounds wv t /\
      exists p, get_membership_proof H wv (Some t) k = Some p /\
                verify_membership H (node_hash H wv t) p k v = false.
Proof. exact empty_value_refuted. Qed.
Print Assumptions C03_empty_value_refuted.

(** ** 6. Soundness (constructive collision form).
    [find_collision H wv t ep] searches the inputs hashed by the verifier for [ep]
    ([proof_inputs]) and those hashed by the tree ([tree_inputs]) for a pair [x <> y] with
    [H x = H y]. *)
Theorem C03_sound_member :
  forall (H : bytes -> bytes), (forall x, length (H x) = 32%nat) ->
  forall (wv : Z) (t : node) (p : commitment_proof) (k v : bytes),
    wf t -> hash_ok H t -> int64_tree wv t -> keys_len_ok t -> klen_ok k ->
    verify_membership H (node_hash H wv t) p k v = true ->
    snd (get t k) = Some v \/
    exists ep x y, p = PExist ep /\ find_collision H wv t ep = Some (x, y) /\ x <> y /\ H x = H y.
Proof. exact sound_member_node_hash. Qed.
Print Assumptions C03_sound_member.

Theorem C03_sound_member_pure :
  forall (H : bytes -> bytes), (forall x, length (H x) = 32%nat) ->
  forall (wv : Z) (t : node) (p : commitment_proof) (k v : bytes),
    wf t -> int64_tree wv t -> keys_len_ok t -> klen_ok k ->
    verify_membership H (pure_hash H wv t) p k v = true ->
    snd (get t k) = Some v \/
    exists ep x y, p = PExist ep /\ find_collision H wv t ep = Some (x, y) /\ x <> y /\ H x = H y.
Proof. exact sound_member. Qed.
Print Assumptions C03_sound_member_pure.

(** the accepted existence proof walks a real root-to-leaf path of the tree *)
Theorem C03_sound_existence :
  forall (H : bytes -> bytes), (forall x, length (H x) = 32%nat) ->
  forall (wv : Z) (t : node) (ep : existence_proof) (k v : bytes),
    wf t -> int64_tree wv t -> keys_len_ok t -> klen_ok k ->
    verify_existence H (pure_hash H wv t) ep k v = true ->
    ep_key ep = k /\ ep_value ep = v /\
    ((exists j, walk t (rev (ep_path ep)) = Some j /\ get_by_index t j = Some (k, v)) \/
     exists x y, In x (proof_inputs H ep) /\ In y (tree_inputs H wv t) /\ x <> y /\ H x = H y).
Proof. exact sound_existence. Qed.
Print Assumptions C03_sound_existence.

(** a produced proof is accepted, against any root, only for its own key and stored value
    (no hash assumption) *)
Theorem C03_produced_only_for_its_claim :
  forall (H : bytes -> bytes) (wv : Z) (hf : node -> bytes) (t : node) (k : bytes)
         (p : commitment_proof) (root k' v' : bytes),
    get_membership_proof_gen hf wv (Some t) k = Some p ->
    verify_membership H root p k' v' = true ->
    k' = k /\ snd (get t k) = Some v'.
Proof. exact produced_only_for_its_claim. Qed.
Print Assumptions C03_produced_only_for_its_claim.

(** soundness of non-membership, including the adjacency argument from the paddings *)
Theorem C03_sound_nonmember :
  forall (H : bytes -> bytes), (forall x, length (H x) = 32%nat) ->
  forall (wv : Z) (t : node) (p : commitment_proof) (k : bytes),
    wf t -> hash_ok H t -> int64_tree wv t -> keys_len_ok t ->
    (forall np, p = PNonexist np -> sub_key_ok (np_left np) /\ sub_key_ok (np_right np)) ->
    verify_nonmembership H (node_hash H wv t) p k = true ->
    snd (get t k) = None \/
    exists np x y, p = PNonexist np /\ find_collision_non H wv t np = Some (x, y) /\
                   x <> y /\ H x = H y.
Proof. exact sound_nonmember_node_hash. Qed.
Print Assumptions C03_sound_nonmember.

Theorem C03_sound_nonmember_pure :
  forall (H : bytes -> bytes), (forall x, length (H x) = 32%nat) ->
  forall (wv : Z) (t : node) (p : commitment_proof) (k : bytes),
    wf t -> int64_tree wv t -> keys_len_ok t ->
    (forall np, p = PNonexist np -> sub_key_ok (np_left np) /\ sub_key_ok (np_right np)) ->
    verify_nonmembership H (pure_hash H wv t) p k = true ->
    snd (get t k) = None \/
    exists np x y, p = PNonexist np /\ find_collision_non H wv t np = Some (x, y) /\
                   x <> y /\ H x = H y.
Proof. exact sound_nonmember. Qed.
Print Assumptions C03_sound_nonmember_pure.

(** ** The guards, spelled out *)
Theorem C03_bounds_leaf :
  forall (wv : Z) (k v : bytes) (m : meta),
    bounds wv (Leaf k v m) <-> 0 <= eff_ver wv m < 2 ^ 63.
Proof. exact bounds_leaf. Qed.
Print Assumptions C03_bounds_leaf.

Theorem C03_bounds_inner :
  forall (wv : Z) (k : bytes) (h s : Z) (m : meta) (l r : node),
    bounds wv (Inner k h s m l r) <->
    (0 <= h < 2 ^ 63) /\ h <= 128 /\ (0 <= s < 2 ^ 63) /\ (0 <= eff_ver wv m < 2 ^ 63) /\
    (length (varint_enc h) + length (varint_enc s) + length (varint_enc (eff_ver wv m)) <= 11)%nat /\
    bounds wv l /\ bounds wv r.
Proof. exact bounds_inner. Qed.
Print Assumptions C03_bounds_inner.

(** heights < 64 and sizes, versions < 2^34 are enough (1 + 5 + 5 varint bytes) *)
Theorem C03_simple_bounds :
  forall (wv : Z) (t : node), simple_bounds wv t -> bounds wv t.
Proof. exact simple_bounds_ok. Qed.
Print Assumptions C03_simple_bounds.

Theorem C03_bounds_int64 :
  forall (wv : Z) (t : node), bounds wv t -> int64_tree wv t.
Proof. exact bounds_int64_tree. Qed.
Print Assumptions C03_bounds_int64.

Theorem C03_sha256_length : forall x, length (sha256 x) = 32%nat.
Proof. exact sha256_length. Qed.
Print Assumptions C03_sha256_length.

(** ** Examples (executable SHA-256) *)
Definition C03_key (n : N) : bytes := [107%N; n].

(** keys k10, k20, ..., values 1, 2, ... inserted in order with [Tree.set] *)
Definition C03_kvs (n : nat) : list (bytes * bytes) :=
  map (fun i => (C03_key (N.of_nat (10 * (i + 1))), [N.of_nat (i + 1)])) (seq 0 n).
Definition C03_tree (n : nat) : node :=
  match C03_kvs n with
  | [] => Leaf [] [] new_meta
  | (k, v) :: rest => fold_left (fun t kv => fst (set t (fst kv) (snd kv))) rest (Leaf k v new_meta)
  end.
(** the absent keys k5, k15, ... : below, between and above the stored keys *)
Definition C03_gaps (n : nat) : list bytes :=
  map (fun i => C03_key (N.of_nat (10 * i + 5))) (seq 0 (S n)).

(** [GetProof] returns the proof of the right kind, it verifies, and the request of the other
    kind is an error *)
Definition C03_member_ok (wv : Z) (t : node) (root : bytes) (kv : bytes * bytes) : bool :=
  match get_proof sha256 wv (Some t) (fst kv) with
  | Some (PExist ep) =>
      verify_membership sha256 root (PExist ep) (fst kv) (snd kv) &&
      match get_nonmembership_proof sha256 wv (Some t) (fst kv) with None => true | Some _ => false end
  | _ => false
  end.
Definition C03_nonmember_ok (wv : Z) (t : node) (root : bytes) (k : bytes) : bool :=
  match get_proof sha256 wv (Some t) k with
  | Some (PNonexist np) =>
      verify_nonmembership sha256 root (PNonexist np) k &&
      match get_membership_proof sha256 wv (Some t) k with None => true | Some _ => false end
  | _ => false
  end.
Definition C03_all_ok (wv : Z) (t : node) (gaps : list bytes) : bool :=
  let root := node_hash sha256 wv t in
  forallb (C03_member_ok wv t root) (elems t) && forallb (C03_nonmember_ok wv t root) gaps.

(** trees of 1, 2, 3, 5, 8 keys saved as version 1 ([stamp]) and read with working version
    2: every key has a verifying membership proof, every gap a verifying non-membership
    proof (left-most, right-most and neighbour cases) *)
Definition C03_saved (n : nat) : node := fst (stamp sha256 1 0 (C03_tree n)).
Example C03_example_sizes :
  map (fun n => C03_all_ok 2 (C03_saved n) (C03_gaps n)) [1; 2; 3; 5; 8]%nat
    = [true; true; true; true; true].
Proof. vm_compute. reflexivity. Qed.

(** an unsaved working tree (all nodes new, hashed with working version 1) *)
Example C03_example_working : C03_all_ok 1 (C03_tree 3) (C03_gaps 3) = true.
Proof. vm_compute. reflexivity. Qed.

(** a mixed tree: persisted nodes of version 1 and new nodes (working version 2) *)
Definition C03_t5 : node := C03_saved 5.
Definition C03_t6 : node := fst (set C03_t5 (C03_key 35) [9%N]).
Example C03_example_mixed :
  C03_all_ok 2 C03_t6
    [C03_key 5; C03_key 15; C03_key 25; C03_key 32; C03_key 37; C03_key 45; C03_key 55] = true.
Proof. vm_compute. reflexivity. Qed.

(** the hypotheses of the theorems hold of these trees *)
Example C03_example_hyps :
  wf C03_t6 /\ hash_ok sha256 C03_t6 /\ bounds 2 C03_t6 /\
  Forall (fun p => fst p <> [] /\ snd p <> []) (elems C03_t6) /\
  int64_tree 2 C03_t6 /\ keys_len_ok C03_t6.
Proof.
  assert (B : bounds 2 C03_t6).
  { apply simple_bounds_ok. vm_compute. repeat split; discriminate. }
  split; [vm_compute; repeat split|].
  split.
  { assert (Hok5 : hash_ok sha256 (C03_tree 5)).
    { unfold C03_tree. cbn [C03_kvs map seq fold_left fst snd].
      do 4 apply set_hash_ok. apply hash_ok_new_leaf. }
    destruct (stamp_hash_ok sha256 1 0 (C03_tree 5) Hok5 eq_refl) as [X _].
    unfold C03_t6, C03_t5, C03_saved. apply set_hash_ok. exact X. }
  split; [exact B|].
  split; [vm_compute; repeat constructor; discriminate|].
  split; [apply bounds_int64_tree; exact B|].
  apply keys_len_ok_small. vm_compute. reflexivity.
Qed.

(** ... so the completeness theorems apply *)
Example C03_example_complete :
  exists ep,
    get_membership_proof sha256 2 (Some C03_t6) (C03_key 35) = Some (PExist ep) /\
    verify_membership sha256 (node_hash sha256 2 C03_t6) (PExist ep) (C03_key 35) [9%N] = true.
Proof.
  destruct C03_example_hyps as (W & Hok & B & _).
  destruct (C03_complete_member sha256 sha256_length 2 C03_t6 (C03_key 35) [9%N] W Hok B)
    as (ep & A1 & _ & _ & _ & _ & A6); [reflexivity|discriminate|discriminate|].
  exists ep. auto.
Qed.

(** negative cases: the proof of (k30, 3) is rejected for another value, another key, the
    root of another tree and the root computed for another working version; it is not a
    non-membership proof; a non-membership proof is rejected for a neighbour key, for a key
    in another gap, and against another root *)
Example C03_example_rejects :
  match get_membership_proof sha256 2 (Some C03_t5) (C03_key 30),
        get_nonmembership_proof sha256 2 (Some C03_t5) (C03_key 25) with
  | Some p, Some q =>
      let root := node_hash sha256 2 C03_t5 in
      [ verify_membership sha256 root p (C03_key 30) [3%N];
        verify_membership sha256 root p (C03_key 30) [4%N];
        verify_membership sha256 root p (C03_key 30) [3%N; 0%N];
        verify_membership sha256 root p (C03_key 20) [3%N];
        verify_membership sha256 root p (C03_key 20) [2%N];
        verify_membership sha256 (node_hash sha256 2 C03_t6) p (C03_key 30) [3%N];
        verify_membership sha256 (node_hash sha256 1 (C03_tree 3)) p (C03_key 30) [3%N];
        verify_nonmembership sha256 root p (C03_key 30);
        verify_nonmembership sha256 root q (C03_key 25);
        verify_nonmembership sha256 root q (C03_key 20);
        verify_nonmembership sha256 root q (C03_key 30);
        verify_nonmembership sha256 root q (C03_key 35);
        verify_nonmembership sha256 (node_hash sha256 2 C03_t6) q (C03_key 25);
        verify_membership sha256 root q (C03_key 25) [1%N] ]
  | _, _ => []
  end
  = [true; false; false; false; false; false; false; false;
     true; false; false; false; false; false].
Proof. vm_compute. reflexivity. Qed.

(** the working tree of 5 keys hashed with working version 1 and the same tree saved as
    version 1 have the same root; a proof taken before the commit verifies after it *)
Example C03_example_commit :
  node_hash sha256 1 (C03_tree 5) = node_hash sha256 2 C03_t5 /\
  match get_membership_proof sha256 1 (Some (C03_tree 5)) (C03_key 10) with
  | Some p => verify_membership sha256 (node_hash sha256 2 C03_t5) p (C03_key 10) [1%N] = true
  | None => False
  end.
Proof. vm_compute. split; reflexivity. Qed.

(** correspondence spot check: the protobuf encoding of the model's proof for k10 equals the
    bytes returned by the Go library ([tree.GetMembershipProof(k10)] followed by [Marshal()]
    on the same 5-key working tree; the real [ics23.VerifyMembership] accepts it) *)
Example C03_example_go_bytes :
  option_map marshal_commitment_proof (get_membership_proof sha256 1 (Some (C03_tree 5)) (C03_key 10))
  = Some [10; 110; 10; 2; 107; 10; 18; 1; 1; 26; 11; 8; 1; 24; 1; 32; 1; 42; 3; 0; 2; 2; 34; 43;
          8; 1; 18; 4; 2; 4; 2; 32; 26; 33; 32; 125; 129; 28; 255; 118; 179; 213; 56; 36; 60; 2;
          217; 198; 150; 133; 176; 40; 42; 206; 8; 66; 134; 234; 194; 175; 3; 45; 242; 147; 60;
          171; 142; 34; 43; 8; 1; 18; 4; 6; 10; 2; 32; 26; 33; 32; 179; 191; 26; 48; 224; 233;
          118; 100; 25; 0; 233; 55; 82; 70; 164; 113; 158; 232; 88; 25; 248; 30; 231; 155; 223;
          246; 235; 60; 97; 246; 85; 132]%N.
Proof. vm_compute. reflexivity. Qed.

(** the empty-value finding on a concrete tree: the proof is produced but cannot verify *)
Example C03_example_empty_value :
  let t := fst (set (C03_tree 3) (C03_key 25) []) in
  snd (get t (C03_key 25)) = Some [] /\
  match get_membership_proof sha256 1 (Some t) (C03_key 25) with
  | Some p => verify_membership sha256 (node_hash sha256 1 t) p (C03_key 25) [] = false
  | None => False
  end /\
  (* and it spoils the non-membership proofs of both adjacent gaps *)
  match get_nonmembership_proof sha256 1 (Some t) (C03_key 22),
        get_nonmembership_proof sha256 1 (Some t) (C03_key 27) with
  | Some p, Some q =>
      verify_nonmembership sha256 (node_hash sha256 1 t) p (C03_key 22) = false /\
      verify_nonmembership sha256 (node_hash sha256 1 t) q (C03_key 27) = false
  | _, _ => False
  end.
Proof. vm_compute. repeat split; reflexivity. Qed.

(** the collision search is executable: on an honest proof it finds nothing (so the first
    disjunct of [C03_sound_member] is the one that holds) *)
Example C03_example_no_collision :
  match get_membership_proof sha256 2 (Some (C03_saved 2)) (C03_key 10),
        get_nonmembership_proof sha256 2 (Some (C03_saved 2)) (C03_key 15) with
  | Some (PExist ep), Some (PNonexist np) =>
      find_collision sha256 2 (C03_saved 2) ep = None /\
      find_collision_non sha256 2 (C03_saved 2) np = None
  | _, _ => False
  end.
Proof. vm_compute. split; reflexivity. Qed.
