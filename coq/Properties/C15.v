(** C15: extracted change sets.  For a version whose predecessor is retained, the change set
    extracted by the two-iterator merge of diff.go is the net change of the version: in
    ascending key order and once per key, the keys written in the version that are present in
    it (with their values, also when unchanged) and the keys of the predecessor that are
    absent; applied to the predecessor's contents it gives the version's contents.
    SaveChangeSet applies a change set as one new version, rejects the removal of a missing
    key, and replaying the extracted change sets into an empty tree reproduces every
    version's contents.  Statements are restated in full; proofs are in DiffFacts.v. *)
From IAVL Require Import Bytes Varint Sha256 Tree VMap TreeFacts MTree MTreeFacts Diff DiffFacts.
Local Open Scope Z_scope.

(** ** The net change (specification level) *)

(** applying the net change to the contents of the previous version gives the contents of
    the new one; version consistency: a leaf not created after [pv] is a leaf of [prev] *)
Theorem C15_apply_net :
  forall (pv : Z) (prev cur : option node),
    owf prev -> owf cur ->
    (forall p, In p (oold pv cur) -> In p (oelems prev)) ->
    apply_changes (net prev cur pv) (oelems prev) = oelems cur.
Proof. exact apply_net. Qed.
Print Assumptions C15_apply_net.

(** ascending key order, hence each key once *)
Theorem C15_net_ascending :
  forall (pv : Z) (prev cur : option node),
    owf prev -> owf cur ->
    ksorted (map ckey (net prev cur pv)) /\ NoDup (map ckey (net prev cur pv)).
Proof. exact net_ascending. Qed.
Print Assumptions C15_net_ascending.

(** what the net change lists: the leaves of [cur] created after [pv], and the keys of
    [prev] absent from [cur] *)
Theorem C15_net_members :
  forall (pv : Z) (prev cur : option node) (k v : bytes),
    (In (CSet k v) (net prev cur pv) <-> In (k, v) (sets_of pv cur)) /\
    (In (CDel k) (net prev cur pv) <->
       In k (map fst (oelems prev)) /\ ~ In k (map fst (oelems cur))).
Proof. exact net_members. Qed.
Print Assumptions C15_net_members.

(** ** The algorithm (extractStateChanges) computes the net change.
    Hypotheses: both trees ordered; versions do not increase from a node to its children;
    persistent sharing (a subtree of [cur] not created after [pv] is a subtree of [prev]);
    node keys [(version, nonce)] identify subtrees across the two trees. *)
Theorem C15_extract_is_net :
  forall (pv : Z) (prev cur : option node),
    owf prev -> owf cur -> over_mono cur ->
    (forall s, osubtree s cur -> ver (nmeta s) <= pv -> osubtree s prev) ->
    (forall x y, osubtree x prev -> osubtree y cur -> nk x = nk y -> x = y) ->
    extract pv prev cur = Some (net prev cur pv).
Proof. exact extract_is_net. Qed.
Print Assumptions C15_extract_is_net.

(** the fuel of the executable model always suffices *)
Theorem C15_extract_total :
  forall (pv : Z) (prev cur : option node), exists cs, extract pv prev cur = Some cs.
Proof. exact extract_total. Qed.
Print Assumptions C15_extract_total.

(** one version of writes on top of a persisted tree produces a tree for which these
    hypotheses hold (and which is again persisted) *)
Theorem C15_version_step :
  forall (H : bytes -> bytes) (j : Z) (prev w : option node),
    0 <= j -> persisted j prev -> oclean prev w ->
    let cur := stamp_root H (j + 1) w in
    persisted (j + 1) cur /\ shared_in_prev j prev cur /\ keys_identify prev cur.
Proof. exact version_step. Qed.
Print Assumptions C15_version_step.

(** every saved version of a history of writes, saves and rollbacks from the empty store *)
Theorem C15_history_change_sets :
  forall (H : bytes -> bytes) (ops : list op) (v : Z) (cur : option node),
    forallb hist_op ops = true ->
    let s := fst (run H (init_state 0 false) ops) in
    lookup v (forest s) = Some cur ->
    let prev := vtree s (v - 1) in
    extract (v - 1) prev cur = Some (net prev cur (v - 1)) /\
    ksorted (map ckey (net prev cur (v - 1))) /\
    apply_changes (net prev cur (v - 1)) (oelems prev) = oelems cur.
Proof. exact history_change_sets. Qed.
Print Assumptions C15_history_change_sets.

(** ** SaveChangeSet *)
Theorem C15_save_change_set :
  forall (H : bytes -> bytes) (pv : Z) (prev cur : option node) (s : mstate),
    state_inv s -> root_is_new s = false ->
    oelems (root s) = oelems prev ->
    lookup (working_version s) (forest s) = None ->
    owf prev -> owf cur -> (forall p, In p (oold pv cur) -> In p (oelems prev)) ->
    exists r',
      apply_cs H s (net prev cur pv) =
        (MState r' (working_version s) r' (forest s ++ [(working_version s, r')])
                (init_ver s) false (init_opt s),
         XPair (XBytes (Some (root_hash H (working_version s) r'))) (XInt (working_version s))) /\
      oelems r' = oelems cur /\ (working_version s <> 0 -> onot_new r').
Proof. exact save_change_set_net. Qed.
Print Assumptions C15_save_change_set.

Theorem C15_save_missing_key :
  forall (H : bytes -> bytes) (pre : list change) (k : bytes) (post : list change) (s : mstate),
    state_inv s -> root_is_new s = false ->
    cs_ok pre (oelems (root s)) ->
    mem k (apply_changes pre (oelems (root s))) = false ->
    exists s',
      apply_cs H s (pre ++ CDel k :: post) = (s', XErr) /\
      forest s' = forest s /\ version s' = version s /\
      oelems (root s') = apply_changes pre (oelems (root s)).
Proof. exact save_change_set_missing. Qed.
Print Assumptions C15_save_missing_key.

Theorem C15_save_uncommitted :
  forall (H : bytes -> bytes) (s : mstate) (cs : list change),
    root_is_new s = true -> apply_cs H s cs = (s, XErr).
Proof. exact save_change_set_dirty. Qed.
Print Assumptions C15_save_uncommitted.

(** ** Replay *)
Theorem C15_replay_contents :
  forall (H : bytes -> bytes) (ts : list (option node)),
    chain 0 None ts ->
    let res := replay H (init_state 0 false) (nets 0 None ts) in
    forall i t, nth_error ts i = Some t ->
      (exists r, lookup (Z.of_nat i + 1) (forest (fst res)) = Some r /\ oelems r = oelems t) /\
      (exists o, nth_error (snd res) i = Some o /\ saved_out o (Z.of_nat i + 1)).
Proof. exact replay_contents. Qed.
Print Assumptions C15_replay_contents.

Theorem C15_history_replay :
  forall (H H' : bytes -> bytes) (ops : list op),
    forallb hist_op ops = true ->
    let s := fst (run H (init_state 0 false) ops) in
    let n := Z.to_nat (version s) in
    let css := nets 0 None (trees_from s 0 n) in
    let res := replay H' (init_state 0 false) css in
    forall v, 1 <= v <= version s ->
      (exists r, lookup v (forest (fst res)) = Some r /\ oelems r = oelems (vtree s v)) /\
      (exists o, nth_error (snd res) (Z.to_nat (v - 1)) = Some o /\ saved_out o v) /\
      nth_error css (Z.to_nat (v - 1)) = Some (net (vtree s (v - 1)) (vtree s v) (v - 1)).
Proof. exact history_replay. Qed.
Print Assumptions C15_history_replay.

(** ** Finding (outside the property's premise "whose predecessor is retained"): for the first
    retained version after pruning, traverseStateChanges reports neither the contents of the
    version nor the keys written in it. *)
Theorem C15_missing_predecessor_refuted :
  exists (s : mstate) (cur : option node),
    s = fst (run DiffExamples.Hid (init_state 0 false) (DiffExamples.ops3 ++ [OPrune 1])) /\
    lookup 1 (forest s) = None /\ lookup 2 (forest s) = Some cur /\
    traverse_state_changes s 0 100 =
      TOk [(2, [CSet [1%N] [11%N]]); (3, [CSet [3%N] [31%N]])] /\
    oelems cur = [([1%N], [11%N]); ([2%N], [20%N]); ([3%N], [30%N]); ([4%N], [40%N]); ([5%N], [51%N])] /\
    sets_of 1 cur = [([1%N], [11%N]); ([5%N], [51%N])].
Proof. exact DiffExamples.missing_predecessor_refuted. Qed.
Print Assumptions C15_missing_predecessor_refuted.

(** ** A concrete history (SHA-256): version 1 writes a key twice; version 2 has a removal, an
    identical rewrite, a remove-then-set, a key written twice and a set-then-remove; version 3
    is a no-op. *)
Definition C15_a : bytes := [97%N].
Definition C15_b : bytes := [98%N].
Definition C15_c : bytes := [99%N].
Definition C15_d : bytes := [100%N].
Definition C15_e : bytes := [101%N].
Definition C15_f : bytes := [102%N].

Definition C15_ops : list op :=
  [OSet C15_a [1%N]; OSet C15_b [2%N]; OSet C15_c [3%N]; OSet C15_b [22%N]; OSet C15_d [4%N]; OSave;
   ORemove C15_c; OSet C15_a [1%N]; ORemove C15_d; OSet C15_d [44%N];
   OSet C15_e [5%N]; OSet C15_e [55%N]; OSet C15_f [6%N]; ORemove C15_f; OSave;
   OSave].

Definition C15_state : mstate := fst (run sha256 (init_state 0 false) C15_ops).

Example C15_example_change_sets :
  let t := vtree C15_state in
  extract 0 (t 0) (t 1) = Some (net (t 0) (t 1) 0) /\
  net (t 0) (t 1) 0 =
    [CSet C15_a [1%N]; CSet C15_b [22%N]; CSet C15_c [3%N]; CSet C15_d [4%N]] /\
  extract 1 (t 1) (t 2) = Some (net (t 1) (t 2) 1) /\
  net (t 1) (t 2) 1 =
    [CSet C15_a [1%N]; CDel C15_c; CSet C15_d [44%N]; CSet C15_e [55%N]] /\
  extract 2 (t 2) (t 3) = Some (net (t 2) (t 3) 2) /\
  net (t 2) (t 3) 2 = [] /\
  traverse_state_changes C15_state 1 3 =
    TOk [(1, net (t 0) (t 1) 0); (2, net (t 1) (t 2) 1); (3, net (t 2) (t 3) 2)].
Proof. vm_compute. repeat split; reflexivity. Qed.

(** the hypotheses of [C15_extract_is_net] hold for the pair (version 1, version 2) *)
Example C15_example_hypotheses :
  let prev := vtree C15_state 1 in
  let cur := vtree C15_state 2 in
  good_pair 1 prev cur /\ diff_hyps_b 1 prev cur = true /\ oelems prev <> oelems cur.
Proof.
  assert (HI : hist_inv C15_state) by (apply hist_run; [reflexivity|apply hist_inv_init]).
  assert (V : version C15_state = 3) by (vm_compute; reflexivity).
  destruct (hi_pairs _ HI 2) as (cur & L & G); [lia|].
  assert (E : vtree C15_state 2 = cur) by (unfold vtree; rewrite L; reflexivity).
  cbv zeta. rewrite E. split; [exact G|]. rewrite <- E. clear.
  split; [vm_compute; reflexivity|]. vm_compute. discriminate.
Qed.

(** saving the three change sets into an empty tree reproduces the three versions' contents;
    a change set removing a missing key is rejected; uncommitted changes are refused *)
Example C15_example_replay :
  let t := vtree C15_state in
  let css := [net (t 0) (t 1) 0; net (t 1) (t 2) 1; net (t 2) (t 3) 2] in
  let res := replay sha256 (init_state 0 false) css in
  map (fun p => (fst p, oelems (snd p))) (forest (fst res)) =
    map (fun p => (fst p, oelems (snd p))) (forest C15_state) /\
  map (fun p => oelems (snd p)) (forest (fst res)) =
    [[(C15_a, [1%N]); (C15_b, [22%N]); (C15_c, [3%N]); (C15_d, [4%N])];
     [(C15_a, [1%N]); (C15_b, [22%N]); (C15_d, [44%N]); (C15_e, [55%N])];
     [(C15_a, [1%N]); (C15_b, [22%N]); (C15_d, [44%N]); (C15_e, [55%N])]] /\
  snd (apply_cs sha256 (fst res) [CSet C15_f [6%N]; CDel C15_c]) = XErr /\
  snd (apply_cs sha256 (fst (step sha256 (fst res) (OSet C15_f [6%N]))) [CDel C15_a]) = XErr.
Proof. vm_compute. repeat split; reflexivity. Qed.
