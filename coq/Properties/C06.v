(** C06: committed versions can be read concurrently with the writer.

    Model: Conc.v (shared objects of nodedb.go at the granularity of the critical sections of
    ndb.mtx; one writer, any number of readers; [run_schedule] interleaves atomic steps).
    Proofs: ConcFacts.v.  Go memory-model data races are NOT expressible in this model: it is
    about the logical interleaving of critical sections.

      out_ok h (OGet v k r b1 lat) :=
        exists c, lookup v h = Some c /\ (r = assoc k c \/ (v < b1 /\ lat = Some v /\ r = None))
      out_ok h (OIter v r lat b2) :=
        exists c, lookup v h = Some c /\ (r = c \/ (lat = v /\ v < b2 /\ lookup b2 h = Some r))
      out_right h (OGet v k r _ _) := exists c, lookup v h = Some c /\ r = assoc k c
      out_right h (OIter v r _ _)  := exists c, lookup v h = Some c /\ r = c

    [h] = [sh_hist]: version -> contents as of its commit (ghost, [C06_hist_*]);
    [lat]: the latestVersion the reader saw; [b1]/[b2] (ghost): the newest version whose
    batch was written when the fast node was read / the iterator created. *)
From IAVL Require Import Bytes Tree VMap MTree MTreeFacts Conc ConcFacts.
Local Open Scope Z_scope.

(** 1a. Every interleaving, any writer program, any readers: the possible outcomes. *)
Theorem C06_reads_outcomes :
  forall (wp : list wstep) (rps : list (list rop)) (sched : list nat),
    let s := run_schedule sched (init_cstate wp rps) in
    forall o, In o (all_outs s) -> out_ok (sh_hist (c_sh s)) o.
Proof. exact reads_outcomes. Qed.
Print Assumptions C06_reads_outcomes.

(** 1b. The wrong outcomes happen in the real protocol (SaveVersion = Commit(), then
    resetLatestVersion() in another critical section): a reader of version 1, the published
    latest, is told that key "a" is absent and iterates over the pairs of version 2. *)
Theorem C06_commit_window_refuted :
  exists (wp : list wstep) (rps : list (list rop)) (sched : list nat),
    wp = save_real ex_c1 ++ save_real ex_c2 /\
    let s := run_schedule sched (init_cstate wp rps) in
    lookup 1 (sh_hist (c_sh s)) = Some ex_c1 /\ assoc ex_ka ex_c1 = Some [1%N] /\
    In (OGet 1 ex_ka None 2 (Some 1)) (all_outs s) /\
    In (OIter 1 ex_c2 1 2) (all_outs s) /\ ex_c2 <> ex_c1.
Proof. exact commit_window_refuted. Qed.
Print Assumptions C06_commit_window_refuted.

(** 1c. The safe reads of the real protocol, in terms of what the reader itself observed
    (plus the ghost view, and "a Get never invents a value"). *)
Theorem C06_reads_linearize_safe :
  forall (wp : list wstep) (rps : list (list rop)) (sched : list nat),
    let s := run_schedule sched (init_cstate wp rps) in
    (forall v k r b1 lat, In (OGet v k r b1 lat) (all_outs s) -> lat <> Some v ->
       exists c, lookup v (sh_hist (c_sh s)) = Some c /\ r = assoc k c) /\
    (forall v r lat b2, In (OIter v r lat b2) (all_outs s) -> lat <> v ->
       exists c, lookup v (sh_hist (c_sh s)) = Some c /\ r = c) /\
    (forall v k r lat, In (OGet v k r v lat) (all_outs s) ->
       exists c, lookup v (sh_hist (c_sh s)) = Some c /\ r = assoc k c) /\
    (forall v r lat, In (OIter v r lat v) (all_outs s) ->
       exists c, lookup v (sh_hist (c_sh s)) = Some c /\ r = c) /\
    (forall v k r b1 lat val, In (OGet v k r b1 lat) (all_outs s) -> r = Some val ->
       exists c, lookup v (sh_hist (c_sh s)) = Some c /\ assoc k c = Some val).
Proof. exact reads_linearize_safe. Qed.
Print Assumptions C06_reads_linearize_safe.

(** 1d. Variant protocol (publish inside the critical section of the batch write): every Get
    is right ... *)
Theorem C06_get_linearize_variant :
  forall (wp : list wstep) (rps : list (list rop)) (sched : list nat),
    forallb wvariant wp = true ->
    let s := run_schedule sched (init_cstate wp rps) in
    forall v k r b1 lat, In (OGet v k r b1 lat) (all_outs s) ->
      exists c, lookup v (sh_hist (c_sh s)) = Some c /\ r = assoc k c.
Proof. exact get_linearize_variant. Qed.
Print Assumptions C06_get_linearize_variant.

(** ... the iterator is not (latestVersion check, then a whole SaveVersion, then creation) ... *)
Theorem C06_iter_toctou_variant_refuted :
  exists (wp : list wstep) (rps : list (list rop)) (sched : list nat),
    wp = save_variant ex_c1 ++ save_variant ex_c2 /\
    let s := run_schedule sched (init_cstate wp rps) in
    lookup 1 (sh_hist (c_sh s)) = Some ex_c1 /\
    In (OIter 1 ex_c2 1 2) (all_outs s) /\ ex_c2 <> ex_c1.
Proof. exact iter_toctou_variant_refuted. Qed.
Print Assumptions C06_iter_toctou_variant_refuted.

(** ... unless its check and creation are atomic: then every read of every interleaving
    returns exactly the contents of its version as of its commit. *)
Theorem C06_reads_linearize_variant :
  forall (wp : list wstep) (rps : list (list rop)) (sched : list nat),
    forallb wvariant wp = true -> Forall (fun p => forallb rvariant p = true) rps ->
    let s := run_schedule sched (init_cstate wp rps) in
    forall o, In o (all_outs s) -> out_right (sh_hist (c_sh s)) o.
Proof. exact reads_linearize_variant. Qed.
Print Assumptions C06_reads_linearize_variant.

(** the history: a commit records its contents under the next version, for ever *)
Theorem C06_hist_records_commit :
  forall (sh : shared) (c : kvs),
    inv sh ->
    lookup (sh_batch sh + 1) (sh_hist (commit_batch sh c)) = Some c /\
    sh_batch (commit_batch sh c) = sh_batch sh + 1.
Proof. exact hist_records_commit. Qed.
Print Assumptions C06_hist_records_commit.

Theorem C06_hist_stable :
  forall (sched : list nat) (s : cstate) (v : Z) (c : kvs),
    ginv s -> lookup v (sh_hist (c_sh s)) = Some c ->
    lookup v (sh_hist (c_sh (run_schedule sched s))) = Some c.
Proof. exact hist_stable. Qed.
Print Assumptions C06_hist_stable.

(** 2. Pins. *)
Theorem C06_pin_blocks_delete :
  forall (sh : shared) (ok : bool) (n v : Z),
    (0 < pin_count v (sh_pins sh))%nat -> first_of (sh_forest sh) <= v <= n ->
    wexec sh ok (WPruneCheck n) = (sh, false, WRefused) /\
    forall sh', wexec sh' false (WPruneDel n) = (sh', false, WRefused).
Proof. exact pin_blocks_delete. Qed.
Print Assumptions C06_pin_blocks_delete.

Theorem C06_export_pins :
  forall (sh : shared) (prog : list rop) (out : list rout) (v : Z),
    has_version v (sh_forest sh) = true ->
    pin_count v (sh_pins (fst (rstep sh (RState (RExportOpen v :: prog) PIdle out))))
      = S (pin_count v (sh_pins sh)) /\
    pin_count v (sh_pins (fst (rstep sh (RState (RExportClose v :: prog) PIdle out))))
      = Nat.pred (pin_count v (sh_pins sh)).
Proof. exact export_pins. Qed.
Print Assumptions C06_export_pins.

Theorem C06_unpinned_delete_proceeds :
  forall (sh : shared) (ok : bool) (n : Z),
    pinned_in (first_of (sh_forest sh)) n (sh_pins sh) = false -> n < sh_latest sh ->
    wexec sh ok (WPruneCheck n) = (sh, true, WOk) /\
    forall v, lookup v (sh_forest (fst (fst (wexec sh true (WPruneDel n)))))
              = if n <? v then lookup v (sh_forest sh) else None.
Proof. exact unpinned_delete_proceeds. Qed.
Print Assumptions C06_unpinned_delete_proceeds.

(** the check and the deletion are two critical sections: a pin taken in between is not
    honoured (the version is deleted while its export is open) *)
Theorem C06_late_pin_refuted :
  exists (wp : list wstep) (rps : list (list rop)) (sched : list nat),
    wp = save_real ex_c1 ++ save_real ex_c2 ++ prune 1 /\
    let s := run_schedule sched (init_cstate wp rps) in
    In (OPin 1) (all_outs s) /\ ~ In (OUnpin 1) (all_outs s) /\
    pin_count 1 (sh_pins (c_sh s)) = 1%nat /\
    lookup 1 (sh_forest (c_sh s)) = None /\ w_log (c_w s) = [WOk; WOk; WOk; WOk; WOk; WOk].
Proof. exact late_pin_refuted. Qed.
Print Assumptions C06_late_pin_refuted.

(** 3. Footprints: no step rewrites the contents of a committed version. *)
Theorem C06_persisted_immutable :
  forall (sh : shared) (ok : bool) (s : wstep),
    inv sh ->
    let sh' := fst (fst (wexec sh ok s)) in
    (forall v c, lookup v (sh_forest sh) = Some c ->
       lookup v (sh_forest sh') = Some c \/
       (In ODelVersions (wfootprint s) /\ lookup v (sh_forest sh') = None)) /\
    (~ In ONewVersion (wfootprint s) -> ~ In ODelVersions (wfootprint s) ->
       sh_forest sh' = sh_forest sh) /\
    (~ In OFast (wfootprint s) -> sh_fast sh' = sh_fast sh) /\
    (~ In OLatest (wfootprint s) -> sh_latest sh' = sh_latest sh) /\
    sh_pins sh' = sh_pins sh /\
    (forall r, same_but_pins sh (fst (rstep sh r))).
Proof. exact persisted_immutable. Qed.
Print Assumptions C06_persisted_immutable.

(** *** Examples (vm_compute).  Versions: 1 = {a:1, b:2}, 2 = {b:2}, 3 = {b:3, c:4}. *)
Definition C06_c3 : kvs := [(ex_kb, [3%N]); ([99%N], [4%N])].

(** the refuting schedule, step by step: thread 0 = writer, 1 = Get("a")@1, 2 = Iterate@1 *)
Example C06_example_refuting :
  all_outs (run_schedule [0; 0; 2; 0; 1; 1; 2; 0]%nat
              (init_cstate (save_real ex_c1 ++ save_real ex_c2) [[RGet 1 ex_ka]; [RIter 1]]))
  = [OGet 1 ex_ka None 2 (Some 1); OIter 1 ex_c2 1 2].
Proof. vm_compute. reflexivity. Qed.

(** a safe schedule of the same programs: the readers run after the publish *)
Example C06_example_safe :
  all_outs (run_schedule [0; 0; 0; 0; 1; 1; 1; 2; 2]%nat
              (init_cstate (save_real ex_c1 ++ save_real ex_c2) [[RGet 1 ex_ka]; [RIter 1]]))
  = [OGet 1 ex_ka (Some [1%N]) 2 (Some 2); OIter 1 ex_c1 2 2].
Proof. vm_compute. reflexivity. Qed.

(** three versions, readers of old and latest versions interleaved with commits, an export pin
    refusing a prune, the prune succeeding after Close, and a read of a pruned version *)
Example C06_example_mixed :
  let s := run_schedule
             [0; 0; 0; 0;            (* versions 1, 2 *)
              3;                     (* export of version 1 opens *)
              1; 0; 1;               (* Get("b")@2 around the batch of version 3 *)
              0;                     (* publish 3 *)
              0; 0;                  (* DeleteVersionsTo(1): refused *)
              3;                     (* export closes *)
              0; 0;                  (* DeleteVersionsTo(1): done *)
              2; 2; 2;               (* Get("a")@1: version gone *)
              4; 4]%nat              (* Iterate@3 = latest *)
             (init_cstate
                (save_real ex_c1 ++ save_real ex_c2 ++ save_real C06_c3 ++ prune 1 ++ prune 1)
                [[RGet 2 ex_kb]; [RGet 1 ex_ka]; [RExportOpen 1; RExportClose 1]; [RIter 3]]) in
  all_outs s = [OGet 2 ex_kb (Some [2%N]) 2 None; OErr 1; OPin 1; OUnpin 1; OIter 3 C06_c3 3 3] /\
  w_log (c_w s) = [WOk; WOk; WOk; WOk; WOk; WOk; WRefused; WRefused; WOk; WOk] /\
  map fst (sh_forest (c_sh s)) = [2; 3] /\
  sh_fast (c_sh s) = [(ex_kb, (3, [3%N])); ([99%N], (3, [4%N]))].
Proof. vm_compute. repeat split. Qed.

(** the variant protocol on the refuting schedule shape: no window *)
Example C06_example_variant :
  all_outs (run_schedule [0; 2; 0; 1; 1; 1; 2]%nat
              (init_cstate (save_variant ex_c1 ++ save_variant ex_c2)
                           [[RGet 1 ex_ka]; [RIterAtomic 1]]))
  = [OGet 1 ex_ka (Some [1%N]) 2 (Some 2); OIter 1 ex_c1 1 1].
Proof. vm_compute. reflexivity. Qed.

(** *** The re-keying hand-off between a deletion and concurrent readers (ConcRekey.v:
    nodedb.go deleteVersion - batch Set (v,0) then batch Delete (v,1), possibly with a flush in
    between - against GetRoot / GetNode, whose probes fall back from (v,1) to (v,0); GetRoot
    takes no lock).  For the code's write order under EVERY cut into physical batches and EVERY
    placement of the reader's probes between them, a reader of the retained version v+1 (whose
    root record still refers to (v,1)) gets the node - never an error, never another node; the
    two seeded variants (reader probes swapped; writes swapped with a flush between them) have
    schedules on which the reader reports that the retained version does not exist.  The harness
    places a reader between any two of its storage reads while a deletion runs ([park]). *)
From IAVL Require Import Store StoreFacts ConcRekey ConcRekeyFacts.

Theorem C06_rekey_handoff_safe :
  forall (d : list (Z * Z * entry)) (v : Z) (n : snode) (batches : list (list wop)) (sched : list nat),
    msorted kcmp d ->
    mfind kcmp (v, 1) d = Some (ENode n) ->
    mfind kcmp (v + 1, 1) d = Some (ERef (v, 1)) ->
    concat batches = rekey_ops v n ->
    match run_reader d batches (read_version (v + 1)) sched with
    | Done r => r = RNode (v, 1) n \/ r = RNode (v, 0) n
    | SchedShort => (length sched < 5)%nat
    | SchedBad => nondecb sched = false
    end.
Proof. exact rekey_handoff_no_wrong_answer. Qed.
Print Assumptions C06_rekey_handoff_safe.

Theorem C06_rekey_chain_safe :
  forall (d : list (Z * Z * entry)) (v : Z) (n : snode) (batches : list (list wop)) (sched : list nat),
    msorted kcmp d ->
    mfind kcmp (v, 1) d = Some (ENode n) ->
    mfind kcmp (v + 2, 1) d = Some (ERef (v, 1)) ->
    concat batches = chain_ops v n ->
    nondecb sched = true -> (5 <= length sched)%nat ->
    run_reader d batches (read_version (v + 2)) sched = Done (RNode (v, 1) n) \/
    run_reader d batches (read_version (v + 2)) sched = Done (RNode (v, 0) n).
Proof. exact rekey_chain_safe. Qed.
Print Assumptions C06_rekey_chain_safe.

Theorem C06_swapped_probes_refuted :
  exists sched : list nat,
    nondecb sched = true /\
    run_reader ex_disk (code_one_batch 1 ex_node) (read_version_swapped 2) sched = Done RErrNoVersion /\
    run_reader ex_disk (code_flushed 1 ex_node) (read_version_swapped 2) sched = Done RErrNoVersion.
Proof. exact swapped_probes_refuted. Qed.
Print Assumptions C06_swapped_probes_refuted.

Theorem C06_swapped_writes_refuted :
  exists sched : list nat,
    nondecb sched = true /\
    run_reader ex_disk (swapped_flushed 1 ex_node) (read_version 2) sched = Done RErrNoVersion.
Proof. exact swapped_writes_refuted. Qed.
Print Assumptions C06_swapped_writes_refuted.
