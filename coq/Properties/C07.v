(** C07 (iteration part): with the fast index enabled, iteration over the working state -
    persisted index merged with the uncommitted additions and removals by
    UnsavedFastIterator - equals the tree walk of the working tree.  Models in Iter.v, proofs in
    IterFacts.v. *)
From IAVL Require Import Bytes Tree VMap TreeFacts Iter IterFacts.
Local Open Scope Z_scope.

(** the unsaved iterator enumerates exactly the range selection of "index with removals deleted
    and additions inserted / overriding", for all bounds and both directions *)
Theorem C07_overlay_iter :
  forall (idx adds : kvs) (rms : list bytes) (start stop : option bytes) (asc : bool),
    sorted idx -> NoDup (map fst adds) -> (forall k, In k rms -> ~ In k (map fst adds)) ->
    uf_collect idx adds rms start stop asc false =
    Some (range_spec (apply_overlay idx adds rms) start stop false asc).
Proof. exact unsaved_iter_spec. Qed.
Print Assumptions C07_overlay_iter.

Theorem C07_overlay_meaning :
  forall (idx adds : kvs) (rms : list bytes),
    sorted idx -> NoDup (map fst adds) ->
    sorted (apply_overlay idx adds rms) /\
    forall a b, In (a, b) (apply_overlay idx adds rms) <->
       In (a, b) adds \/ (~ In a (map fst adds) /\ In (a, b) idx /\ ~ In a rms).
Proof. exact apply_overlay_spec. Qed.
Print Assumptions C07_overlay_meaning.

(** if the index describes the last committed tree [tc] and the working tree [tw] is [tc] with
    the unsaved changes applied, then the tree walk over [tw], the Iterator wrapper over [tw] and
    the unsaved fast iterator produce the same sequence; and the plain fast iterator agrees with
    the tree walk over [tc] *)
Theorem C07_three_iterators_agree :
  forall (tc tw : node) (adds : kvs) (rms : list bytes) (start stop : option bytes) (asc : bool),
    wf tc -> wf tw -> NoDup (map fst adds) -> (forall k, In k rms -> ~ In k (map fst adds)) ->
    elems tw = apply_overlay (elems tc) adds rms ->
    iter_tree tw start stop false asc = uf_collect (elems tc) adds rms start stop asc false /\
    it_collect_tree tw start stop asc = uf_collect (elems tc) adds rms start stop asc false /\
    fast_collect (elems tc) start stop asc = iter_tree tc start stop false asc.
Proof. exact three_iterators_agree. Qed.
Print Assumptions C07_three_iterators_agree.

(** MutableTree.Iterate over the fast index with a stop callback *)
Theorem C07_mutable_iterate :
  forall (t : node) (idx adds : kvs) (rms : list bytes) (fn : bytes * bytes -> bool),
    sorted idx -> NoDup (map fst adds) -> (forall k, In k rms -> ~ In k (map fst adds)) ->
    mut_iterate (Some t) idx adds rms false fn = Some (upto fn (apply_overlay idx adds rms)).
Proof. exact mut_iterate_spec. Qed.
Print Assumptions C07_mutable_iterate.

(** FINDING: an unsaved addition made with a nil key slice breaks the coherence *)
Theorem C07_overlay_nil_key_refuted :
  exists idx adds rms start stop asc,
    sorted idx /\ NoDup (map fst adds) /\ (forall k, In k rms -> ~ In k (map fst adds)) /\
    uf_collect idx adds rms start stop asc true <>
    Some (range_spec (apply_overlay idx adds rms) start stop false asc).
Proof. exact unsaved_iter_nil_key_refuted. Qed.
Print Assumptions C07_overlay_nil_key_refuted.

(** *** Non-vacuity: committed 6-key tree, then an uncommitted update of 20, inserts of 25 and 5,
    removals of 10 and 60; the removal of 60 and the insert of 5 are outside the window. *)
Definition C07_committed : node :=
  fold_left (fun t k => fst (set t [k] [(k + 1)%N]))
            [20%N; 30%N; 40%N; 50%N; 60%N] (Leaf [10%N] [11%N] new_meta).
Definition C07_adds : kvs := [([25%N], [0%N]); ([20%N], [99%N]); ([5%N], [6%N])].
Definition C07_rms : list bytes := [[60%N]; [10%N]].
Definition C07_working : option node :=
  let t1 := fst (set C07_committed [20%N] [99%N]) in
  let t2 := fst (set t1 [25%N] [0%N]) in
  let t3 := fst (set t2 [5%N] [6%N]) in
  match rm_self (remove t3 [10%N]) with
  | Some t4 => rm_self (remove t4 [60%N])
  | None => None
  end.

Example C07_example :
  exists tw,
    C07_working = Some tw /\ wf C07_committed /\ wf tw /\ NoDup (map fst C07_adds) /\
    (forall k, In k C07_rms -> ~ In k (map fst C07_adds)) /\
    elems tw = apply_overlay (elems C07_committed) C07_adds C07_rms /\
    uf_collect (elems C07_committed) C07_adds C07_rms (Some [10%N]) (Some [50%N]) true false
      = Some [([20%N], [99%N]); ([25%N], [0%N]); ([30%N], [31%N]); ([40%N], [41%N])] /\
    iter_tree tw (Some [10%N]) (Some [50%N]) false true
      = Some [([20%N], [99%N]); ([25%N], [0%N]); ([30%N], [31%N]); ([40%N], [41%N])] /\
    uf_collect (elems C07_committed) C07_adds C07_rms None None false false
      = Some [([50%N], [51%N]); ([40%N], [41%N]); ([30%N], [31%N]); ([25%N], [0%N]);
              ([20%N], [99%N]); ([5%N], [6%N])] /\
    it_collect_tree tw None None false
      = Some [([50%N], [51%N]); ([40%N], [41%N]); ([30%N], [31%N]); ([25%N], [0%N]);
              ([20%N], [99%N]); ([5%N], [6%N])].
Proof.
  eexists. split; [vm_compute; reflexivity|].
  split; [vm_compute; intuition congruence|].
  split; [vm_compute; intuition congruence|].
  split; [repeat constructor; cbn; intuition congruence|].
  split; [cbn; intuition congruence|].
  vm_compute. repeat split; reflexivity.
Qed.

(** *** The life cycle of the index (FastLife.v): persisted entries with their versions, the
    persisted and in-memory label, the option a tree object was opened with, unsaved additions and
    removals, through Set / Remove / SaveVersion (incl. the same-hash path) / Rollback / open with
    the index on or off / a new object loading any version directly / LoadVersion /
    LoadVersionForOverwriting / DeleteVersionsTo.  [fstep] returns what THE CODE answers through
    the index; these are the logical answers (MTree) at every point of every in-contract history. *)
From IAVL Require Import Varint Sha256 Tree MTree MTreeFacts VersionFacts Store StoreFacts FastLife FastLifeFacts1 FastLifeFacts2 FastLifeFacts3 FastLifeFacts FastLifeFacts4.
Local Open Scope Z_scope.

Theorem C07_invariant_spelled_out : forall st,
  fcoh st <->
  (dlabel st = mlabel st /\
   (skipf st = false -> mlabel st = Some (latest_version (ms st))) /\
   (forall u, dlabel st = Some u -> u <= latest_version (ms st)) /\
   (forall u, dlabel st = Some u -> u = latest_version (ms st) -> idx_valid (ms st) (fidx st)) /\
   (skipf st = true -> adds st = [] /\ rems st = []) /\
   msorted bcmp (adds st) /\ msorted bcmp (rems st) /\
   (forall k, mfind bcmp k (adds st) <> None -> mfind bcmp k (rems st) = None) /\
   (skipf st = false -> unsaved_ok (ms st) (adds st) (rems st)) /\
   adds_stamped (ms st) (adds st)).
Proof. exact fcoh_spec. Qed.
Print Assumptions C07_invariant_spelled_out.

Theorem C07_every_answer_through_the_index_is_logical :
  forall (H : bytes -> bytes) (st : fstate) (o : fop),
    state_inv (ms st) -> contig (ms st) -> fin_contract H st o -> fcoh st ->
    ms (fst (fstep H st o)) = fst (run H (ms st) (logical_ops o)) /\
    snd (fstep H st o) = last (snd (run H (ms st) (logical_ops o))) XErr.
Proof. exact fstep_logical. Qed.
Print Assumptions C07_every_answer_through_the_index_is_logical.

Theorem C07_invariant_preserved :
  forall (H : bytes -> bytes) (st : fstate) (o : fop),
    state_inv (ms st) -> contig (ms st) -> fin_contract H st o -> fcoh st ->
    fcoh (fst (fstep H st o)).
Proof. exact fcoh_step. Qed.
Print Assumptions C07_invariant_preserved.

Theorem C07_every_history :
  forall (H : bytes -> bytes) (iv : Z) (b : bool) (skip0 : bool) (ops : list fop),
    init_ok iv b ->
    let st0 := fst (fstep H (finit iv b) (FOpen skip0)) in
    frun_ok H st0 ops ->
    ms st0 = fst (step H (init_state iv b) OReopen) /\
    ms (fst (frun H st0 ops)) = fst (run H (ms st0) (concat (map logical_ops ops))) /\
    snd (frun H st0 ops) = visible ops (snd (run H (ms st0) (concat (map logical_ops ops)))) /\
    fcoh (fst (frun H st0 ops)).
Proof. exact frun_logical. Qed.
Print Assumptions C07_every_history.

(** [fin_contract] asks, at a commit of an EXISTING version, that equal hashes mean equal contents
    ([save_honest]); that holds unless the hash collides *)
Theorem C07_every_history_collision_free_hash :
  forall (H : bytes -> bytes), (forall x, length (H x) = 32%nat) ->
  forall (iv : Z) (b : bool) (skip0 : bool) (ops : list fop),
    (forall x y, H x = H y -> x = y) ->
    init_ok iv b ->
    let st0 := fst (fstep H (finit iv b) (FOpen skip0)) in
    frun_ok_cf H st0 ops ->
    snd (frun H st0 ops) =
      visible ops (snd (run H (ms st0) (concat (map logical_ops ops)))) /\
    ms (fst (frun H st0 ops)) = fst (run H (ms st0) (concat (map logical_ops ops))) /\
    fcoh (fst (frun H st0 ops)).
Proof. intros H Hlen. exact (frun_logical_collision_free H Hlen). Qed.
Print Assumptions C07_every_history_collision_free_hash.

(** why three details of the code matter *)
Theorem C07_drop_label_refuted : ltac:(let t := type of drop_label_refuted in exact t).
Proof. exact drop_label_refuted. Qed.
Print Assumptions C07_drop_label_refuted.
Theorem C07_rebuild_from_loaded_refuted : ltac:(let t := type of rebuild_from_loaded_refuted in exact t).
Proof. exact rebuild_from_loaded_refuted. Qed.
Print Assumptions C07_rebuild_from_loaded_refuted.
(** finding C07-unloaded-object-stale-index: an object whose first LoadVersion failed *)
Theorem C07_unloaded_object_refuted : ltac:(let t := type of openat_failed_refuted in exact t).
Proof. exact openat_failed_refuted. Qed.
Print Assumptions C07_unloaded_object_refuted.

Example C07_history_example : ltac:(let t := type of frun_logical_example in exact t).
Proof. exact frun_logical_example. Qed.
