(** C13: encodings. Every encoder/decoder pair round-trips; every decoder is guarded (reads
    within the buffer, returns outputs bounded by the input, enforces the int8 / uint32 /
    mode ranges, rejects node keys that are not 12 bytes and legacy children that are not
    32 bytes, and never panics); the big-endian node
    key layout is order preserving; the three kinds of root entries are distinguishable.
    Statements are restated in full; proofs are in VarintFacts.v / CodecFacts.v. *)
From IAVL Require Import Bytes Varint VarintFacts Codec CodecFacts.
Local Open Scope Z_scope.

(** *** 1. varints, length-prefixed bytes *)

Theorem C13_uvarint_roundtrip :
  forall (u : N) (rest : bytes),
    (u < 2 ^ 64)%N ->
    uvarint_dec (uvarint_enc u ++ rest) = Some (u, length (uvarint_enc u)).
Proof. exact uvarint_roundtrip. Qed.
Print Assumptions C13_uvarint_roundtrip.

Theorem C13_uvarint_length :
  forall u : N, (0 < length (uvarint_enc u) <= 10)%nat.
Proof. exact uvarint_enc_length. Qed.
Print Assumptions C13_uvarint_length.

Theorem C13_zigzag_inverse :
  forall x : Z, unzigzag (zigzag x) = x.
Proof. exact unzigzag_zigzag. Qed.
Print Assumptions C13_zigzag_inverse.

Theorem C13_zigzag_range :
  forall x : Z, - 2 ^ 63 <= x < 2 ^ 63 -> (zigzag x < 2 ^ 64)%N.
Proof. exact zigzag_range. Qed.
Print Assumptions C13_zigzag_range.

Theorem C13_varint_roundtrip :
  forall (x : Z) (rest : bytes),
    - 2 ^ 63 <= x < 2 ^ 63 ->
    varint_dec (varint_enc x ++ rest) = Some (x, length (varint_enc x)).
Proof. exact varint_roundtrip. Qed.
Print Assumptions C13_varint_roundtrip.

Theorem C13_bytes_roundtrip :
  forall (b rest : bytes),
    (N.of_nat (length b) < 2 ^ 63 - 1)%N ->
    bytes_dec (bytes_enc b ++ rest) = Some (b, length (bytes_enc b)).
Proof. exact bytes_roundtrip. Qed.
Print Assumptions C13_bytes_roundtrip.

(** *** 2. decoder guards *)

Theorem C13_uvarint_guard :
  forall (buf : bytes) (v : N) (n : nat),
    uvarint_dec buf = Some (v, n) ->
    (0 < n <= length buf)%nat /\ (n <= 10)%nat /\ (well_formed buf -> (v < 2 ^ 64)%N).
Proof. exact uvarint_dec_guard. Qed.
Print Assumptions C13_uvarint_guard.

Theorem C13_varint_guard :
  forall (buf : bytes) (x : Z) (n : nat),
    varint_dec buf = Some (x, n) ->
    (0 < n <= length buf)%nat /\ (n <= 10)%nat /\
    (well_formed buf -> - 2 ^ 63 <= x < 2 ^ 63).
Proof. exact varint_dec_guard. Qed.
Print Assumptions C13_varint_guard.

Theorem C13_bytes_guard :
  forall (buf b : bytes) (n : nat),
    bytes_dec buf = Some (b, n) ->
    (0 < n <= length buf)%nat /\ (length b <= length buf)%nat /\ (length b < n)%nat /\
    exists m, (0 < m <= 10)%nat /\ (n = m + length b)%nat /\
              b = firstn (length b) (skipn m buf).
Proof. exact bytes_dec_guard. Qed.
Print Assumptions C13_bytes_guard.

(** [legacy_guard]: inner legacy nodes have child hashes of exactly 32 bytes.
    [MakeNode]: [node_guard L n] = height in int8, key/value/hash lengths <= L, legacy
    children exactly 32 bytes, new-child nonces in uint32, leaf <-> value and no children,
    inner <-> two children;
    [node_guard_wf n] = size and versions in int64, outputs byte-valued. *)
Theorem C13_node_guard :
  forall (nk buf : bytes) (n : raw_node) (c : nat),
    decode_node_n nk buf = DOk (n, c) ->
    (0 < c <= length buf)%nat /\ length nk = 12%nat /\
    node_guard (length buf) n /\ (well_formed buf -> node_guard_wf n).
Proof. exact decode_node_n_guard. Qed.
Print Assumptions C13_node_guard.

Theorem C13_legacy_guard :
  forall (hash buf : bytes) (n : raw_legacy_node) (c : nat),
    decode_legacy_node_n hash buf = DOk (n, c) ->
    (0 < c <= length buf)%nat /\ legacy_guard (length buf) n /\
    (well_formed buf -> legacy_guard_wf n).
Proof. exact decode_legacy_node_n_guard. Qed.
Print Assumptions C13_legacy_guard.

Theorem C13_fast_guard :
  forall (key buf : bytes) (n : raw_fast_node) (c : nat),
    decode_fast_node_n key buf = DOk (n, c) ->
    (0 < c <= length buf)%nat /\ fn_key n = key /\
    (length (fn_value n) <= length buf)%nat /\
    (well_formed buf -> - 2 ^ 63 <= fn_version n < 2 ^ 63 /\ well_formed (fn_value n)).
Proof. exact decode_fast_node_n_guard. Qed.
Print Assumptions C13_fast_guard.

(** no decoder panics *)
Theorem C13_node_never_panics :
  forall nk buf : bytes, decode_node nk buf <> DPanic /\ decode_node_n nk buf <> DPanic.
Proof.
  intros nk buf.
  exact (conj (decode_node_never_panics nk buf) (decode_node_n_never_panics nk buf)).
Qed.
Print Assumptions C13_node_never_panics.

Theorem C13_node_bad_key :
  forall nk buf : bytes, length nk <> 12%nat -> decode_node nk buf = DErr.
Proof. exact decode_node_bad_key. Qed.
Print Assumptions C13_node_bad_key.

(** what [MakeNode] returns can be re-encoded ([writeBytes]) and sized ([encodedSize])
    without error or panic; those two only panic on hand-built nodes with a child key of
    fewer than 12 bytes *)
Theorem C13_decoded_node_writes :
  forall (nk buf : bytes) (n : raw_node) (c : nat),
    decode_node_n nk buf = DOk (n, c) ->
    (exists bz, write_node n = DOk bz) /\ (exists sz, encoded_size n = DOk sz).
Proof. exact decoded_node_writes. Qed.
Print Assumptions C13_decoded_node_writes.

Theorem C13_legacy_no_panic :
  forall hash buf : bytes, decode_legacy_node hash buf <> DPanic.
Proof. exact decode_legacy_node_no_panic. Qed.
Print Assumptions C13_legacy_no_panic.

Theorem C13_fast_no_panic :
  forall key buf : bytes, decode_fast_node key buf <> DPanic.
Proof. exact decode_fast_node_no_panic. Qed.
Print Assumptions C13_fast_no_panic.

(** *** 3. node round trips *)

Theorem C13_node_roundtrip :
  forall (nk : bytes) (n : raw_node) (rest : bytes),
    wf_raw n -> length nk = 12%nat ->
    decode_node nk (encode_node n ++ rest) = DOk n /\
    decode_node_n nk (encode_node n ++ rest) = DOk (n, length (encode_node n)) /\
    write_node n = DOk (encode_node n).
Proof.
  intros nk n rest Hw Hnk.
  exact (conj (decode_node_roundtrip nk n rest Hw Hnk)
        (conj (decode_node_n_roundtrip nk n rest Hw Hnk) (write_node_encode n Hw))).
Qed.
Print Assumptions C13_node_roundtrip.

Theorem C13_legacy_roundtrip :
  forall (hash : bytes) (n : raw_legacy_node) (rest : bytes),
    wf_legacy n -> decode_legacy_node hash (encode_legacy_node n ++ rest) = DOk n.
Proof. exact decode_legacy_node_roundtrip. Qed.
Print Assumptions C13_legacy_roundtrip.

Theorem C13_fast_roundtrip :
  forall (key : bytes) (version : Z) (value rest : bytes),
    - 2 ^ 63 <= version < 2 ^ 63 -> (N.of_nat (length value) < 2 ^ 63 - 1)%N ->
    decode_fast_node key (encode_fast_node version value ++ rest)
    = DOk (mk_raw_fast_node key version value).
Proof. exact decode_fast_node_roundtrip. Qed.
Print Assumptions C13_fast_roundtrip.

Theorem C13_node_key_roundtrip :
  forall v n : Z,
    - 2 ^ 63 <= v < 2 ^ 63 -> 0 <= n < 2 ^ 32 ->
    parse_node_key (node_key_bytes v n) = DOk (v, n) /\
    length (node_key_bytes v n) = 12%nat.
Proof.
  intros v n Hv Hn.
  exact (conj (parse_node_key_roundtrip v n Hv Hn) (node_key_bytes_length v n)).
Qed.
Print Assumptions C13_node_key_roundtrip.

(** *** 4. key order *)

Theorem C13_be_enc_monotone :
  forall (w : nat) (x y : N),
    (x < 256 ^ N.of_nat w)%N -> (y < 256 ^ N.of_nat w)%N ->
    (bcmp (be_enc w x) (be_enc w y) = Lt <-> (x < y)%N).
Proof. exact be_enc_lt. Qed.
Print Assumptions C13_be_enc_monotone.

Theorem C13_key_order :
  forall v n v' n' : Z,
    0 <= v < 2 ^ 63 -> 0 <= v' < 2 ^ 63 -> 0 <= n < 2 ^ 32 -> 0 <= n' < 2 ^ 32 ->
    (bcmp (node_key_bytes v n) (node_key_bytes v' n') = Lt <-> (v < v' \/ (v = v' /\ n < n'))).
Proof. exact node_key_order. Qed.
Print Assumptions C13_key_order.

Theorem C13_db_key_order :
  forall v n v' n' : Z,
    0 <= v < 2 ^ 63 -> 0 <= v' < 2 ^ 63 -> 0 <= n < 2 ^ 32 -> 0 <= n' < 2 ^ 32 ->
    (bcmp (db_node_key (node_key_bytes v n)) (db_node_key (node_key_bytes v' n')) = Lt
     <-> (v < v' \/ (v = v' /\ n < n'))).
Proof. exact db_node_key_order. Qed.
Print Assumptions C13_db_key_order.

Theorem C13_version_prefix :
  forall v n : Z,
    is_prefix (db_node_prefix_key v) (db_node_key (node_key_bytes v n)) = true.
Proof. exact db_node_prefix_key_prefix. Qed.
Print Assumptions C13_version_prefix.

(** *** 5. root entries *)

Theorem C13_root_node :
  forall n : raw_node, rn_height n <> -58 -> classify_root (encode_node n) = RootNode.
Proof. exact classify_root_node. Qed.
Print Assumptions C13_root_node.

Theorem C13_root_ref :
  forall v n : Z,
    - 2 ^ 63 <= v < 2 ^ 63 -> 0 <= n < 2 ^ 32 ->
    classify_root (root_ref_value v n) = RootRef13 v n.
Proof. exact classify_root_ref13. Qed.
Print Assumptions C13_root_ref.

Theorem C13_root_ref9 :
  forall v : Z, - 2 ^ 63 <= v < 2 ^ 63 -> classify_root (db_node_prefix_key v) = RootRef9 v.
Proof. exact classify_root_ref9. Qed.
Print Assumptions C13_root_ref9.

Theorem C13_root_empty :
  forall v : bytes, classify_root v = RootEmpty <-> v = [].
Proof. exact classify_root_empty. Qed.
Print Assumptions C13_root_empty.

Theorem C13_root_kinds_distinct :
  forall (n : raw_node) (v k : Z),
    rn_height n <> -58 -> - 2 ^ 63 <= v < 2 ^ 63 -> 0 <= k < 2 ^ 32 ->
    encode_node n <> root_ref_value v k /\ encode_node n <> root_empty_value /\
    root_ref_value v k <> root_empty_value.
Proof. exact root_kinds_distinct. Qed.
Print Assumptions C13_root_kinds_distinct.

(** even at the (accepted but never produced) height -58 a well-formed inner node body is
    not taken for a valid reference: GetRoot answers "invalid reference root" *)
Theorem C13_root_inner_never_ref :
  forall n : raw_node,
    wf_raw n -> rn_height n <> 0 ->
    classify_root (encode_node n) = RootNode \/ classify_root (encode_node n) = RootBadRef.
Proof. exact classify_root_inner_never_ref. Qed.
Print Assumptions C13_root_inner_never_ref.

(** *** 6. storage version label *)

Theorem C13_storage_label :
  forall v latest : Z,
    0 <= v ->
    parse_storage_label (fast_storage_label v) = Some (fast_storage_version, Some v) /\
    should_force_upgrade (fast_storage_label v) latest = negb (v =? latest) /\
    set_fast_storage_version (fast_storage_label v) latest = Some (fast_storage_label latest).
Proof.
  intros v latest Hv.
  exact (conj (parse_storage_label_roundtrip v Hv)
        (conj (should_force_upgrade_label v latest Hv)
              (set_fast_storage_version_label v latest Hv))).
Qed.
Print Assumptions C13_storage_label.

(** *** 7. size hints *)

Theorem C13_fast_encoded_size :
  forall (version : Z) (value : bytes),
    - 2 ^ 63 <= version < 2 ^ 63 -> (N.of_nat (length value) < 2 ^ 63 - 1)%N ->
    fast_encoded_size version value = length (encode_fast_node version value).
Proof. exact fast_encoded_size_spec. Qed.
Print Assumptions C13_fast_encoded_size.

Theorem C13_encoded_size_leaf :
  forall n : raw_node,
    wf_raw n -> rn_height n = 0 -> encoded_size n = DOk (length (encode_node n)).
Proof. exact encoded_size_leaf. Qed.
Print Assumptions C13_encoded_size_leaf.

(** [Node.encodedSize] undercounts inner nodes (no mode byte; legacy children mis-sized) *)
Theorem C13_encoded_size_refuted :
  exists n, wf_raw n /\ exists sz, encoded_size n = DOk sz /\ (sz < length (encode_node n))%nat.
Proof. exact encoded_size_refuted. Qed.
Print Assumptions C13_encoded_size_refuted.

(** *** Non-vacuity: concrete nodes and malformed inputs *)

Definition C13_nk : bytes := node_key_bytes (2 ^ 40) (2 ^ 31).

Definition C13_leaf : raw_node :=
  mk_raw_node 0 1 [107; 101; 121]%N (Some [118; 97; 108; 117; 101]%N) [] RefNone RefNone.

Definition C13_inner : raw_node :=
  mk_raw_node 3 5 [107%N] None (repeat 7%N 32)
    (RefNew (2 ^ 40) (2 ^ 31)) (RefLegacy (repeat 9%N 32)).

Example C13_example_wf : wf_raw C13_leaf /\ wf_raw C13_inner.
Proof.
  unfold wf_raw, in_int8, in_int64, in_uint32, short; cbn.
  repeat split; try lia; try discriminate; eauto.
  exists [118; 97; 108; 117; 101]%N. split; [reflexivity | cbn; lia].
Qed.

(** the bytes are those produced by Go's writeBytes for the same nodes *)
Example C13_example_leaf :
  encode_node C13_leaf = [0; 2; 3; 107; 101; 121; 5; 118; 97; 108; 117; 101]%N /\
  decode_node C13_nk (encode_node C13_leaf ++ [99; 99]%N) = DOk C13_leaf.
Proof. vm_compute. split; reflexivity. Qed.

Example C13_example_inner :
  encode_node C13_inner =
    ([6; 10; 1; 107; 32] ++ repeat 7 32 ++ [4; 128; 128; 128; 128; 128; 64; 128; 128; 128; 128; 16; 32]
     ++ repeat 9 32)%N /\
  decode_node C13_nk (encode_node C13_inner) = DOk C13_inner /\
  write_node C13_inner = DOk (encode_node C13_inner) /\
  C13_nk = [0; 0; 1; 0; 0; 0; 0; 0; 128; 0; 0; 0]%N /\
  parse_node_key C13_nk = DOk (2 ^ 40, 2 ^ 31) /\
  encoded_size C13_inner = DOk 62%nat /\ length (encode_node C13_inner) = 82%nat.
Proof. vm_compute. repeat split; reflexivity. Qed.

(** all four child-mode combinations *)
Example C13_example_modes :
  forall l r,
    In l [RefNew (2 ^ 40) (2 ^ 31); RefLegacy (repeat 8%N 32)] ->
    In r [RefNew 3 4; RefLegacy (repeat 9%N 32)] ->
    decode_node C13_nk (encode_node (mk_raw_node 3 5 [107%N] None (repeat 7%N 32) l r))
    = DOk (mk_raw_node 3 5 [107%N] None (repeat 7%N 32) l r).
Proof.
  intros l r [<-|[<-|[]]] [<-|[<-|[]]]; vm_compute; reflexivity.
Qed.

(** malformed inputs are errors: truncated value, overlong varint (11 bytes), uvarint
    overflow (10th byte > 1), height outside int8, mode 4, nonce 2^32, nonce -1, empty *)
Example C13_example_errors :
  decode_node C13_nk [0; 2; 1; 97; 5; 98]%N = DErr /\
  decode_node C13_nk [128; 128; 128; 128; 128; 128; 128; 128; 128; 128; 0]%N = DErr /\
  decode_node C13_nk [255; 255; 255; 255; 255; 255; 255; 255; 255; 2]%N = DErr /\
  decode_node C13_nk [128; 2; 2; 1; 97; 1; 98]%N = DErr /\
  decode_node C13_nk [2; 4; 1; 97; 0; 8; 2; 4; 2; 4]%N = DErr /\
  decode_node C13_nk [2; 4; 1; 97; 0; 0; 2; 128; 128; 128; 128; 32; 2; 4]%N = DErr /\
  decode_node C13_nk [2; 4; 1; 97; 0; 0; 2; 1; 2; 4]%N = DErr /\
  decode_node C13_nk [] = DErr /\
  decode_fast_node [107%N] [2; 5; 1]%N = DErr /\
  decode_legacy_node [] [2; 4; 2; 1; 97; 32]%N = DErr /\
  bytes_dec [255; 255; 255; 255; 255; 255; 255; 255; 127; 1]%N = None.
Proof. vm_compute. repeat split; reflexivity. Qed.

(** non-canonical varints are accepted, as by Go's binary.Uvarint *)
Example C13_example_noncanonical :
  decode_node C13_nk [128; 0; 2; 1; 97; 1; 98]%N
  = DOk (mk_raw_node 0 1 [97%N] (Some [98%N]) [] RefNone RefNone).
Proof. vm_compute. reflexivity. Qed.

(** the former panic inputs (short node key; 5-byte "legacy" child) are errors now, as is an
    over-long node key *)
Example C13_example_former_panics :
  decode_node [1; 2; 3; 4; 5]%N [0; 2; 1; 97; 1; 98]%N = DErr /\
  decode_node C13_nk [2; 4; 1; 97; 0; 2; 5; 1; 2; 3; 4; 5; 2; 4]%N = DErr /\
  decode_node (repeat 1%N 20) [0; 2; 1; 97; 1; 98]%N = DErr /\
  decode_node C13_nk [0; 2; 1; 97; 1; 98]%N
  = DOk (mk_raw_node 0 1 [97%N] (Some [98%N]) [] RefNone RefNone) /\
  (* legacy node whose left child hash has 5 bytes *)
  decode_legacy_node (repeat 5%N 32) [2; 4; 2; 1; 97; 5; 1; 2; 3; 4; 5; 0]%N = DErr.
Proof. vm_compute. repeat split; reflexivity. Qed.

Example C13_example_legacy_fast :
  let ln := mk_raw_legacy_node 2 3 (2 ^ 40) [107%N] None (repeat 1%N 32) (repeat 2%N 32) in
  wf_legacy ln /\
  decode_legacy_node (repeat 5%N 32) (encode_legacy_node ln) = DOk ln /\
  decode_fast_node [107%N] (encode_fast_node (2 ^ 40) [118; 97; 108]%N ++ [1; 2; 3]%N)
  = DOk (mk_raw_fast_node [107%N] (2 ^ 40) [118; 97; 108]%N) /\
  encode_fast_node (2 ^ 40) [118; 97; 108]%N = [128; 128; 128; 128; 128; 64; 3; 118; 97; 108]%N.
Proof.
  cbv zeta. split.
  - unfold wf_legacy, in_int8, in_int64, short; cbn. repeat split; try lia.
  - vm_compute. repeat split; reflexivity.
Qed.

Example C13_example_keys :
  bcmp (node_key_bytes 255 (2 ^ 32 - 1)) (node_key_bytes 256 0) = Lt /\
  bcmp (node_key_bytes 256 0) (node_key_bytes 256 1) = Lt /\
  db_node_key C13_nk = [115; 0; 0; 1; 0; 0; 0; 0; 0; 128; 0; 0; 0]%N /\
  db_legacy_root_key (2 ^ 40 + 5) = [114; 0; 0; 1; 0; 0; 0; 0; 5]%N /\
  db_fast_key [97; 98]%N = [102; 97; 98]%N /\
  classify_root (root_ref_value 7 1) = RootRef13 7 1 /\
  classify_root (encode_node C13_inner) = RootNode /\
  classify_root [] = RootEmpty /\
  classify_root [115; 1; 2]%N = RootBadRef /\
  fast_storage_label 1234567 = [49; 46; 49; 46; 48; 45; 49; 50; 51; 52; 53; 54; 55]%N /\
  should_force_upgrade (fast_storage_label 12) 13 = true /\
  should_force_upgrade (fast_storage_label 12) 12 = false.
Proof. vm_compute. repeat split; reflexivity. Qed.

(** *** The whole database as bytes (DbImage.v): the image of a store, an index and a label under
    the Codec encoders in key order; decoding is its inverse on encodable databases; and opening
    the image of the physical store of ANY reachable in-contract state - decode, discover the
    version range by the binary search, load every discovered version node by node - returns
    exactly the model's forest (every retained version, hashes included, and no other version),
    provided no stale root key survives (finding C14-stale-root-key; without the proviso every
    retained version still loads back exactly and only the discovered range may start earlier). *)
From IAVL Require Import MTree VersionFacts Store StoreFacts PruneAlgo PruneAlgoFacts6 FastLife Discover DiscoverFacts DbImage DbImageFacts.
Local Open Scope Z_scope.

Theorem C13_decode_encode_image :
  forall st fi l, image_ok st fi l = true -> decode_image (encode_image st fi l) = Some (st, fi, l).
Proof. exact decode_encode_image. Qed.
Print Assumptions C13_decode_encode_image.

Theorem C13_encode_image_injective : ltac:(let t := type of encode_image_injective in exact t).
Proof. exact encode_image_injective. Qed.
Print Assumptions C13_encode_image_injective.

Theorem C13_reopen_reads_back_the_model :
  forall (H : bytes -> bytes) iv b ops r fi l,
    init_ok iv b -> run_ok H (init_state iv b) ops ->
    let s := fst (run H (init_state iv b) ops) in
    rekey_ok r (forest s) -> stale_free_rel r (forest s) -> latest_version s < 2 ^ 63 ->
    image_ok (phys_of r (forest s)) fi l = true ->
    let img := encode_image (phys_of r (forest s)) fi l in
    decode_image img = Some (phys_of r (forest s), fi, l) /\
    open_image H iv img = DbOk (map (fun p => (fst p, POk (snd p))) (forest s)) /\
    open_forest H iv img = DbOk (forest s).
Proof. exact reopen_reads_back_the_model. Qed.
Print Assumptions C13_reopen_reads_back_the_model.

Theorem C13_reopen_retained_versions : ltac:(let t := type of reopen_retained_versions in exact t).
Proof. exact reopen_retained_versions. Qed.
Print Assumptions C13_reopen_retained_versions.

Example C13_image_example : ltac:(let t := type of ex_open in exact t).
Proof. exact ex_open. Qed.
