(** C08: iterator contract - exact range, order and termination on every iterator; stop
    callbacks; the tree-walk, persisted-index and index-plus-uncommitted-changes iterators are
    indistinguishable.  Models in Iter.v (transcribed from iterator.go, fast_iterator.go,
    unsaved_fast_iterator.go, node.go traverseInRange, immutable_tree.go / mutable_tree.go
    Iterate and IterateRange), proofs in IterFacts.v.  Bounds are [option bytes]: [None] = nil (open),
    [Some []] = empty non-nil slice; all statements hold for every bound combination
    (absent, empty, equal, inverted, outside the key range). *)
From IAVL Require Import Bytes Tree VMap TreeFacts Iter IterFacts.
Local Open Scope Z_scope.

(** *** 1. the tree walk (traversal.next, IterateRange / IterateRangeInclusive) *)
Theorem C08_tree_walk_range :
  forall (t : node) (start stop : option bytes) (incl asc : bool),
    wf t -> iter_tree t start stop incl asc = Some (range_spec (elems t) start stop incl asc).
Proof. exact iter_tree_spec. Qed.
Print Assumptions C08_tree_walk_range.

(** the post-order traversal delivers the same leaves *)
Theorem C08_tree_walk_postorder :
  forall (t : node) (start stop : option bytes) (incl asc : bool),
    wf t ->
    option_map leaves_of (traverse_all (tree_fuel t) (tv_new (Some t) start stop asc incl true))
    = Some (range_spec (elems t) start stop incl asc).
Proof. exact traverse_post_leaves. Qed.
Print Assumptions C08_tree_walk_postorder.

(** *** 2. the Iterator wrapper (NewIterator / Valid / Key / Value / Next) *)
Theorem C08_iterator_wrapper :
  forall (t : node) (start stop : option bytes) (asc : bool),
    wf t -> it_collect_tree t start stop asc = Some (range_spec (elems t) start stop false asc).
Proof. exact it_collect_spec. Qed.
Print Assumptions C08_iterator_wrapper.

(** after one Next() per element the iterator is invalid, and any number of further Next() calls
    leaves it unchanged (invalid for good) *)
Theorem C08_iterator_invalid_for_good :
  forall (t : node) (start stop : option bytes) (asc : bool),
    wf t ->
    let n := length (range_spec (elems t) start stop false asc) in
    exists it0 it1,
      it_new (tree_fuel t) start stop asc (Some (Some t)) = Some it0 /\
      it_steps n (tree_fuel t) it0 = Some it1 /\ it_valid it1 = false /\
      forall m, it_steps m (tree_fuel t) it1 = Some it1.
Proof. exact it_exhausted_stays_invalid. Qed.
Print Assumptions C08_iterator_invalid_for_good.

(** nil tree: invalid iterator carrying the error; nil root: invalid iterator *)
Theorem C08_iterator_nil_tree :
  forall fuel start stop asc,
    it_new fuel start stop asc None = Some (Iter start stop None None false true None) /\
    it_new (S fuel) start stop asc (Some None) = Some (Iter start stop None None false false None).
Proof. intros fuel start stop asc. exact (conj (it_new_nil_tree fuel start stop asc) (it_new_nil_root fuel start stop asc)). Qed.
Print Assumptions C08_iterator_nil_tree.

(** *** 3. the persisted-index iterator (FastIterator) *)
Theorem C08_fast_index_iterator :
  forall (idx : kvs) (start stop : option bytes) (asc : bool),
    sorted idx -> fast_collect idx start stop asc = Some (range_spec idx start stop false asc).
Proof. exact fast_iter_spec. Qed.
Print Assumptions C08_fast_index_iterator.

(** FINDING: Next() on an exhausted FastIterator panics (the backing store iterator's Next()
    asserts validity), whereas Iterator.Next() and UnsavedFastIterator.Next() are no-ops *)
Theorem C08_fast_next_past_end_panics :
  forall it : fiter, fi_pos it [] -> fi_next it = FPanic.
Proof. exact fi_next_past_end. Qed.
Print Assumptions C08_fast_next_past_end_panics.

(** *** 4. the index-plus-uncommitted-changes iterator (UnsavedFastIterator) *)
Theorem C08_overlay_iterator :
  forall (idx adds : kvs) (rms : list bytes) (start stop : option bytes) (asc : bool),
    sorted idx -> NoDup (map fst adds) -> (forall k, In k rms -> ~ In k (map fst adds)) ->
    uf_collect idx adds rms start stop asc false =
    Some (range_spec (apply_overlay idx adds rms) start stop false asc).
Proof. exact unsaved_iter_spec. Qed.
Print Assumptions C08_overlay_iterator.

(** meaning of [apply_overlay]: sorted, and an entry is in it iff it is an unsaved addition, or
    an index entry whose key is neither re-added nor removed *)
Theorem C08_overlay_meaning :
  forall (idx adds : kvs) (rms : list bytes),
    sorted idx -> NoDup (map fst adds) ->
    sorted (apply_overlay idx adds rms) /\
    forall a b, In (a, b) (apply_overlay idx adds rms) <->
       In (a, b) adds \/ (~ In a (map fst adds) /\ In (a, b) idx /\ ~ In a rms).
Proof. exact apply_overlay_spec. Qed.
Print Assumptions C08_overlay_meaning.

Theorem C08_overlay_invalid_for_good :
  forall start stop asc adds rms fuel it,
    uf_at start stop asc adds rms it [] [] ->
    exists it', uf_next (S fuel) it = UOk it' /\ uf_at start stop asc adds rms it' [] [] /\
                uf_next_key it' = None /\ uf_valid it' = false.
Proof. exact uf_invalid_stable. Qed.
Print Assumptions C08_overlay_invalid_for_good.

(** FINDING: with an unsaved addition made by Set(nil, v) (nil key slice) the statement is
    false: Valid() tests nextKey != nil, so the entry is dropped when it is delivered last *)
Theorem C08_overlay_nil_key_refuted :
  exists idx adds rms start stop asc,
    sorted idx /\ NoDup (map fst adds) /\ (forall k, In k rms -> ~ In k (map fst adds)) /\
    uf_collect idx adds rms start stop asc true <>
    Some (range_spec (apply_overlay idx adds rms) start stop false asc).
Proof. exact unsaved_iter_nil_key_refuted. Qed.
Print Assumptions C08_overlay_nil_key_refuted.

(** *** 5. the three iterators are indistinguishable *)
Theorem C08_three_iterators_agree :
  forall (tc tw : node) (adds : kvs) (rms : list bytes) (start stop : option bytes) (asc : bool),
    wf tc -> wf tw -> NoDup (map fst adds) -> (forall k, In k rms -> ~ In k (map fst adds)) ->
    elems tw = apply_overlay (elems tc) adds rms ->
    iter_tree tw start stop false asc = uf_collect (elems tc) adds rms start stop asc false /\
    it_collect_tree tw start stop asc = uf_collect (elems tc) adds rms start stop asc false /\
    fast_collect (elems tc) start stop asc = iter_tree tc start stop false asc.
Proof. exact three_iterators_agree. Qed.
Print Assumptions C08_three_iterators_agree.

(** *** 6. stop callbacks: [upto fn l] = (elements delivered, stopped) *)
Theorem C08_upto_meaning :
  forall (A : Type) (f : A -> bool) (l : list A),
    (exists rest, l = fst (upto f l) ++ rest) /\
    snd (upto f l) = existsb f l /\
    (snd (upto f l) = true ->
       exists p x, fst (upto f l) = p ++ [x] /\ f x = true /\ forallb (fun y => negb (f y)) p = true) /\
    (snd (upto f l) = false -> fst (upto f l) = l /\ forallb (fun y => negb (f y)) l = true).
Proof. intros A f l. exact (conj (upto_prefix f l) (upto_stopped f l)). Qed.
Print Assumptions C08_upto_meaning.

Theorem C08_stop_traverse_in_range :
  forall (t : node) (start stop : option bytes) (asc incl post : bool) (cb : node -> bool),
    traverse_in_range t start stop asc incl post cb =
    Some (upto cb (walk start stop asc incl post t)).
Proof. exact traverse_in_range_spec. Qed.
Print Assumptions C08_stop_traverse_in_range.

Theorem C08_stop_iterate_range :
  forall (t : node) (start stop : option bytes) (asc incl : bool) (fn : bytes * bytes -> bool),
    wf t ->
    iterate_range (Some t) start stop asc incl fn =
    Some (upto fn (range_spec (elems t) start stop incl asc)).
Proof. exact iterate_range_spec. Qed.
Print Assumptions C08_stop_iterate_range.

Theorem C08_stop_immutable_iterate :
  forall (t : node) (fn : bytes * bytes -> bool),
    wf t -> imm_iterate (Some t) fn = Some (upto fn (elems t)).
Proof. exact imm_iterate_spec. Qed.
Print Assumptions C08_stop_immutable_iterate.

Theorem C08_stop_overlay_iterate :
  forall (idx adds : kvs) (rms : list bytes) (start stop : option bytes) (asc : bool)
         (fn : bytes * bytes -> bool),
    sorted idx -> NoDup (map fst adds) -> (forall k, In k rms -> ~ In k (map fst adds)) ->
    uf_iterate idx adds rms start stop asc false fn =
    Some (upto fn (range_spec (apply_overlay idx adds rms) start stop false asc)).
Proof. exact uf_iterate_spec. Qed.
Print Assumptions C08_stop_overlay_iterate.

Theorem C08_stop_mutable_iterate :
  forall (t : node) (idx adds : kvs) (rms : list bytes) (fn : bytes * bytes -> bool),
    sorted idx -> NoDup (map fst adds) -> (forall k, In k rms -> ~ In k (map fst adds)) ->
    mut_iterate (Some t) idx adds rms false fn = Some (upto fn (apply_overlay idx adds rms)).
Proof. exact mut_iterate_spec. Qed.
Print Assumptions C08_stop_mutable_iterate.

Theorem C08_empty_tree :
  forall start stop asc incl fn idx adds rms nilk,
    iterate_range None start stop asc incl fn = Some ([], false) /\
    imm_iterate None fn = Some ([], false) /\
    mut_iterate None idx adds rms nilk fn = Some ([], false).
Proof. intros. exact (conj (iterate_range_nil start stop asc incl fn) (conj (imm_iterate_nil fn) (mut_iterate_nil idx adds rms nilk fn))). Qed.
Print Assumptions C08_empty_tree.

(** *** 7. strictly monotone, duplicate free *)
Theorem C08_range_monotone :
  forall (l : kvs) (start stop : option bytes) (incl asc : bool),
    sorted l -> dsorted asc (range_spec l start stop incl asc).
Proof. exact range_spec_dsorted. Qed.
Print Assumptions C08_range_monotone.

Theorem C08_tree_walk_monotone :
  forall (t : node) (start stop : option bytes) (incl asc : bool) (l : list (bytes * bytes)),
    wf t -> iter_tree t start stop incl asc = Some l -> dsorted asc l /\ NoDup (map fst l).
Proof. exact iter_tree_monotone. Qed.
Print Assumptions C08_tree_walk_monotone.

Theorem C08_fast_monotone :
  forall (idx : kvs) (start stop : option bytes) (asc : bool) (l : list (bytes * bytes)),
    sorted idx -> fast_collect idx start stop asc = Some l -> dsorted asc l /\ NoDup (map fst l).
Proof. exact fast_collect_monotone. Qed.
Print Assumptions C08_fast_monotone.

Theorem C08_overlay_monotone :
  forall (idx adds : kvs) (rms : list bytes) (start stop : option bytes) (asc : bool)
         (l : list (bytes * bytes)),
    sorted idx -> NoDup (map fst adds) -> (forall k, In k rms -> ~ In k (map fst adds)) ->
    uf_collect idx adds rms start stop asc false = Some l -> dsorted asc l /\ NoDup (map fst l).
Proof. exact uf_collect_monotone. Qed.
Print Assumptions C08_overlay_monotone.

(** *** Non-vacuity: a 7-key tree built with [Tree.set] (with rebalancing), bounds that cut the
    range, both directions, every iterator *)
Definition C08_tree : node :=
  fold_left (fun t k => fst (set t [k] [(k + 100)%N]))
            [3%N; 8%N; 1%N; 4%N; 7%N; 9%N] (Leaf [5%N] [105%N] new_meta).

Example C08_example_tree : wf C08_tree /\ avl C08_tree /\ height C08_tree = 3.
Proof. vm_compute. intuition congruence. Qed.

Example C08_example_walk :
  iter_tree C08_tree (Some [3%N]) (Some [8%N]) false true
    = Some [([3%N], [103%N]); ([4%N], [104%N]); ([5%N], [105%N]); ([7%N], [107%N])] /\
  iter_tree C08_tree (Some [3%N]) (Some [8%N]) true false
    = Some [([8%N], [108%N]); ([7%N], [107%N]); ([5%N], [105%N]); ([4%N], [104%N]); ([3%N], [103%N])] /\
  iter_tree C08_tree (Some [2%N]) (Some [6%N; 0%N]) false false
    = Some [([5%N], [105%N]); ([4%N], [104%N]); ([3%N], [103%N])] /\
  iter_tree C08_tree (Some [8%N]) (Some [3%N]) true true = Some [] /\
  iter_tree C08_tree (Some []) (Some []) true true = Some [] /\
  it_collect_tree C08_tree (Some [3%N]) (Some [8%N]) false
    = Some [([7%N], [107%N]); ([5%N], [105%N]); ([4%N], [104%N]); ([3%N], [103%N])] /\
  fast_collect (elems C08_tree) (Some [3%N]) (Some [8%N]) false
    = Some [([7%N], [107%N]); ([5%N], [105%N]); ([4%N], [104%N]); ([3%N], [103%N])] /\
  iterate_range (Some C08_tree) None (Some [8%N]) true false (fun p => beq (fst p) [4%N])
    = Some ([([1%N], [101%N]); ([3%N], [103%N]); ([4%N], [104%N])], true).
Proof. vm_compute. repeat split; reflexivity. Qed.

(** a working tree with an uncommitted insert, update and removal against the committed
    [C08_tree] and the corresponding overlay *)
Definition C08_adds : kvs := [([4%N], [44%N]); ([6%N], [66%N])].
Definition C08_rms : list bytes := [[5%N]].
Definition C08_work : option node :=
  rm_self (remove (fst (set (fst (set C08_tree [4%N] [44%N])) [6%N] [66%N])) [5%N]).

Example C08_example_overlay :
  exists tw,
    C08_work = Some tw /\ wf C08_tree /\ wf tw /\ NoDup (map fst C08_adds) /\
    (forall k, In k C08_rms -> ~ In k (map fst C08_adds)) /\
    elems tw = apply_overlay (elems C08_tree) C08_adds C08_rms /\
    uf_collect (elems C08_tree) C08_adds C08_rms (Some [3%N]) (Some [8%N]) true false
      = Some [([3%N], [103%N]); ([4%N], [44%N]); ([6%N], [66%N]); ([7%N], [107%N])] /\
    iter_tree tw (Some [3%N]) (Some [8%N]) false true
      = Some [([3%N], [103%N]); ([4%N], [44%N]); ([6%N], [66%N]); ([7%N], [107%N])] /\
    uf_collect (elems C08_tree) C08_adds C08_rms (Some [3%N]) (Some [8%N]) false false
      = Some [([7%N], [107%N]); ([6%N], [66%N]); ([4%N], [44%N]); ([3%N], [103%N])] /\
    iter_tree tw (Some [3%N]) (Some [8%N]) false false
      = Some [([7%N], [107%N]); ([6%N], [66%N]); ([4%N], [44%N]); ([3%N], [103%N])].
Proof.
  eexists. split; [vm_compute; reflexivity|].
  split; [vm_compute; intuition congruence|].
  split; [vm_compute; intuition congruence|].
  split; [repeat constructor; cbn; intuition congruence|].
  split; [cbn; intuition congruence|].
  vm_compute. repeat split; reflexivity.
Qed.
