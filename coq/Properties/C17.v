(** C17: storage failures surface as errors, never as wrong or partial answers.

    Model: Fault.v (readers of node.go / iterator.go / immutable_tree.go / export.go / proof.go
    and the commit, over a store whose i-th call can fail).  Proofs: FaultFacts.v.

      M A := nat (calls so far) -> result A * nat        result A := Ok a | Err | Fuel
      FS m := forall i c,
                c <= snd (m None c) /\
                (i < c \/ snd (m None c) <= i -> m (Some i) c = m None c) /\
                (c <= i < snd (m None c)      -> m (Some i) c = (Err, S i))
      fail_stop_to m a := forall i c,
                fst (m None c) = Ok a /\
                (fst (m (Some i) c) = Err \/
                 ((i < c \/ snd (m None c) <= i) /\ m (Some i) c = m None c))
      repr st t := every child of every inner node of t is in st under its node key *)
From IAVL Require Import Bytes Varint Sha256 Tree VMap TreeFacts Iter IterFacts ExportImport
  Fault FaultFacts.
Local Open Scope Z_scope.

(** 1. Every reader with an error result is fail-stop and, without fault, returns the M1
    answer: for every store containing a well-formed persisted tree, every key / index /
    bounds and EVERY fault position. *)
Theorem C17_reads_fail_stop :
  forall (st : store) (t : node),
    wf t -> repr st t ->
    let root := snode_of t in
    (forall key, fail_stop_to (fun fa => f_get fa st (desc_fuel root) root key) (get t key)) /\
    (forall key, fail_stop_to (fun fa => f_has fa st (desc_fuel root) root key) (has t key)) /\
    (forall idx, fail_stop_to (fun fa => f_get_by_index fa st (desc_fuel root) root idx)
                              (get_by_index t idx)) /\
    (forall start stop asc,
       fail_stop_to (fun fa => f_iterate fa st root start stop asc)
                    (range_spec (elems t) start stop false asc)) /\
    fail_stop_to (fun fa => f_export fa st root) (export_node t) /\
    (forall key, fail_stop_to (fun fa => f_path_to_leaf fa st (desc_fuel root) root key)
                              (path_pure t key)).
Proof. exact reads_fail_stop. Qed.
Print Assumptions C17_reads_fail_stop.

(** The fail-stop half holds for ANY store and any node in hand (corrupt, incomplete...). *)
Theorem C17_reads_fail_stop_any_store :
  forall (st : store) (root : snode),
    (forall fuel key, FS (fun fa => f_get fa st fuel root key)) /\
    (forall fuel key, FS (fun fa => f_has fa st fuel root key)) /\
    (forall fuel idx, FS (fun fa => f_get_by_index fa st fuel root idx)) /\
    (forall start stop asc, FS (fun fa => f_iterate fa st root start stop asc)) /\
    FS (fun fa => f_export fa st root) /\
    (forall fuel key, FS (fun fa => f_path_to_leaf fa st fuel root key)) /\
    (forall fuel key, FS (fun fa => f_existence_proof fa st fuel root key)).
Proof. exact reads_fail_stop_any_store. Qed.
Print Assumptions C17_reads_fail_stop_any_store.

(** a store built from a tree whose node keys are distinct contains it *)
Theorem C17_to_store_repr :
  forall t : node, NoDup (map fst (to_store t)) -> repr (to_store t) t.
Proof. exact to_store_repr. Qed.
Print Assumptions C17_to_store_repr.

(** what the consumer of a failing export has received is a prefix of the full export,
    and (C17_reads_fail_stop) it ends with the error *)
Theorem C17_export_partial_prefix :
  forall (st : store) (root : snode) (i c : nat),
    exists rest, f_export_partial None st root c = f_export_partial (Some i) st root c ++ rest.
Proof. exact export_partial_prefix. Qed.
Print Assumptions C17_export_partial_prefix.

(** ImmutableTree.Get through the fast index: a failing GetFastNode falls back to the tree
    walk; whatever the fault, the answer is the error or the right value. *)
Theorem C17_imm_get_fail_stop :
  forall (st : store) (t : node) (fidx : fastidx) (latest version : Z) (key : bytes)
         (fa : option nat) (c : nat),
    wf t -> repr st t ->
    (forall k, match fassoc k fidx with
               | Some (u, v) => u <= version -> assoc k (elems t) = Some v
               | None => version = latest -> assoc k (elems t) = None
               end) ->
    let r := fst (f_imm_get fa st fidx latest version (desc_fuel (snode_of t)) (snode_of t) key c) in
    r = Err \/ r = Ok (assoc key (elems t)).
Proof. exact imm_get_fail_stop. Qed.
Print Assumptions C17_imm_get_fail_stop.

(** 2. The exception: IterateRange / IterateRangeInclusive (node.traverseInRange) have no error
    result and drop the error of t.next(): whatever the fault they answer [Ok] of a prefix
    of the right list ... *)
Theorem C17_iterate_range_never_fails :
  forall (st : store) (t : node) (start stop : option bytes) (asc incl : bool) (i c : nat),
    wf t -> repr st t ->
    exists l, fst (f_iterate_range (Some i) st (snode_of t) start stop asc incl c) = Ok l /\
              exists rest, range_spec (elems t) start stop incl asc = l ++ rest.
Proof. exact iterate_range_never_fails. Qed.
Print Assumptions C17_iterate_range_never_fails.

(** ... and the prefix can be strict: fail-stop is REFUTED for them. *)
Theorem C17_iterate_range_swallows_refuted :
  exists (st : store) (t : node) (i : nat) (l : list (bytes * bytes)),
    wf t /\ repr st t /\
    fst (f_iterate_range_top None st (snode_of t) None None true false) = Ok (elems t) /\
    fst (f_iterate_range_top (Some i) st (snode_of t) None None true false) = Ok l /\
    l = [([1%N], [10%N]); ([2%N], [20%N])] /\
    elems t = [([1%N], [10%N]); ([2%N], [20%N]); ([3%N], [30%N]); ([4%N], [40%N]); ([5%N], [50%N])].
Proof. exact iterate_range_swallows_refuted. Qed.
Print Assumptions C17_iterate_range_swallows_refuted.

(** 3. A commit (SaveVersion / DeleteVersionsTo / rollback / import: [length ops] batch
    operations, then the batch write) during which a write failed is not reported successful;
    one reported successful saw no fault and wrote everything. *)
Theorem C17_commit_not_ok :
  forall (ops : list wop) (s : store) (i c : nat),
    (c <= i < c + length ops + 1)%nat -> f_commit (Some i) ops s c = (Err, S i).
Proof. exact commit_not_ok. Qed.
Print Assumptions C17_commit_not_ok.

Theorem C17_commit_ok_inv :
  forall (ops : list wop) (s : store) (i c : nat) (s' : store) (c' : nat),
    f_commit (Some i) ops s c = (Ok s', c') ->
    (i < c \/ c + length ops + 1 <= i)%nat /\ s' = fold_left apply_wop ops s /\
    c' = (c + length ops + 1)%nat.
Proof. exact commit_ok_inv. Qed.
Print Assumptions C17_commit_ok_inv.

(** 4. Cost by-product (C11): storage calls of the descents with a cold node cache. *)
Theorem C17_get_cost :
  forall (st : store) (t : node) (key : bytes),
    wf t -> repr st t ->
    Z.of_nat (snd (f_get_top None st (snode_of t) key)) <= height t /\
    fst (f_get_top None st (snode_of t) key) = Ok (get t key).
Proof. exact get_cost. Qed.
Print Assumptions C17_get_cost.

Theorem C17_has_cost :
  forall (st : store) (t : node) (key : bytes),
    wf t -> repr st t ->
    Z.of_nat (snd (f_has_top None st (snode_of t) key)) <= height t /\
    fst (f_has_top None st (snode_of t) key) = Ok (has t key).
Proof. exact has_cost. Qed.
Print Assumptions C17_has_cost.

Theorem C17_get_by_index_cost :
  forall (st : store) (t : node) (idx : Z),
    wf t -> repr st t ->
    Z.of_nat (snd (f_get_by_index_top None st (snode_of t) idx)) <= 2 * height t /\
    fst (f_get_by_index_top None st (snode_of t) idx) = Ok (get_by_index t idx).
Proof. exact get_by_index_cost. Qed.
Print Assumptions C17_get_by_index_cost.

Theorem C17_get_cost_avl :
  forall (st : store) (t : node) (key : bytes),
    wf t -> avl t -> repr st t ->
    fib (snd (f_get_top None st (snode_of t) key) + 2) <= size t.
Proof. exact get_cost_avl. Qed.
Print Assumptions C17_get_cost_avl.

(** *** Non-vacuity: [ex_tree] (FaultFacts) = keys 1..5 saved at version 1 with SHA-256:
    9 nodes, height 3; [ex_store] its store.  A fault at EVERY position. *)
Example C17_example_tree :
  wf ex_tree /\ avl ex_tree /\ repr ex_store ex_tree /\ NoDup (map fst ex_store) /\
  height ex_tree = 3 /\ size ex_tree = 5 /\ length ex_store = 9%nat.
Proof.
  split; [exact ex_wf|]. split; [exact ex_avl|]. split; [exact ex_repr|].
  split; [|vm_compute; repeat split].
  vm_compute. repeat (constructor; [cbn; intuition discriminate|]). constructor.
Qed.

(** get: 3 storage calls; a fault at 0,1,2 is reported, at 3.. it is never reached *)
Example C17_example_get :
  f_get_top None ex_store ex_root [4%N] = (Ok (3, Some [40%N]), 3%nat) /\
  map (fun i => fst (f_get_top (Some i) ex_store ex_root [4%N])) (List.seq 0 5)
  = [Err; Err; Err; Ok (3, Some [40%N]); Ok (3, Some [40%N])] /\
  map (fun i => fst (f_has_top (Some i) ex_store ex_root [5%N])) (List.seq 0 4)
  = [Err; Err; Ok true; Ok true] /\
  map (fun i => fst (f_get_by_index_top (Some i) ex_store ex_root 3)) (List.seq 0 6)
  = [Err; Err; Err; Err; Err; Ok (Some ([4%N], [40%N]))].
Proof. vm_compute. repeat split. Qed.

(** Iterate (Iterator + Error() check), export and the proof path: every one of the 8
    fetches failing gives [Err]; from position 8 on, the complete answer. *)
Example C17_example_iterate :
  let full := [([1%N], [10%N]); ([2%N], [20%N]); ([3%N], [30%N]); ([4%N], [40%N]); ([5%N], [50%N])] in
  f_iterate_top None ex_store ex_root None None true = (Ok full, 8%nat) /\
  forallb (fun i => match f_iterate_top (Some i) ex_store ex_root None None true with
                    | (Err, c) => Nat.eqb c (S i) | _ => false end) (List.seq 0 8) = true /\
  fst (f_iterate_top (Some 8%nat) ex_store ex_root None None true) = Ok full /\
  fst (f_iterate_top None ex_store ex_root (Some [2%N]) (Some [5%N]) false) =
    Ok [([4%N], [40%N]); ([3%N], [30%N]); ([2%N], [20%N])] /\
  forallb (fun i => match f_export_top (Some i) ex_store ex_root with
                    | (Err, c) => Nat.eqb c (S i) | _ => false end) (List.seq 0 8) = true /\
  fst (f_export_top None ex_store ex_root) = Ok (export_node ex_tree) /\
  length (export_node ex_tree) = 9%nat /\
  map (fun i => match fst (f_path_to_leaf_top (Some i) ex_store ex_root [4%N]) with
                | Err => 0 | Fuel => 1 | Ok _ => 2 end) (List.seq 0 8)
  = [0; 0; 0; 0; 0; 0; 2; 2].
Proof. vm_compute. repeat split. Qed.

(** IterateRange with the same faults: never an error, the list silently shrinks
    (lengths of the answers for a fault at 0..8; the full answer has 5 pairs). *)
Example C17_example_iterate_range :
  map (fun i => match f_iterate_range_top (Some i) ex_store ex_root None None true false with
                | (Ok l, _) => Z.of_nat (length l) | _ => -1 end) (List.seq 0 9)
  = [0; 0; 0; 0; 2; 2; 3; 3; 5].
Proof. vm_compute. reflexivity. Qed.

(** commit of 3 batch operations: a fault at 0..3 (3 ops + the batch write) fails it *)
Example C17_example_commit :
  let ops := [WSet (2, 1) (SLeaf [7%N] [70%N] (Meta 2 1 [])); WDel (1, 5); WDel (1, 9)] in
  map (fun i => match fst (f_commit_top (Some i) ops ex_store) with
                | Ok s => Z.of_nat (length s) | _ => -1 end) (List.seq 0 5)
  = [-1; -1; -1; -1; 8] /\
  snd (f_commit_top None ops ex_store) = 4%nat.
Proof. vm_compute. repeat split. Qed.

(** *** Faults during the physical DeleteVersionsTo (PruneFault.v: the algorithm of PruneAlgo.v over
    a storage whose k-th call - a read of GetNode / GetRoot, a batch Set / Delete, a flush, the
    final Commit - fails).  For every reachable in-contract state, every flush schedule and EVERY
    fault position: the deletion reports an error or is the fault-free run; what it leaves behind
    - every state the disk went through AND the disk after the pending batch is written by a later
    Commit - still reads every retained version back node for node; it issues no write the
    fault-free run would not have issued.  The loop as it was before /repo commit 9c131ef is refuted
    by a concrete fault position. *)
From IAVL Require Import Ics23Facts Store StoreFacts MTree VersionFacts PruneAlgo PruneAlgoFacts6 PruneAlgoFacts9 PruneAlgoFacts10 PruneFault PruneFaultFacts1 PruneFaultFacts.
Local Open Scope Z_scope.

Theorem C17_deletion_fault_is_reported :
  forall (H : bytes -> bytes), (forall x, length (H x) = 32%nat) ->
  forall iv b ops (r : list Z) (sched : list bool) (eff : bool) (n : Z) (k : nat),
    init_ok iv b -> run_ok H (init_state iv b) ops ->
    let s := fst (run H (init_state iv b) ops) in
    forest_bounds (forest s) -> rekey_ok r (forest s) -> n < version s -> n < latest_version s ->
    (prune_forest_fault H true eff r (forest s) sched n (Some k) =
       prune_forest_fault H true eff r (forest s) sched n None \/
     exists p, prune_forest_fault H true eff r (forest s) sched n (Some k) = FErr p)
    \/ collision H.
Proof. exact fault_reported_reachable. Qed.
Print Assumptions C17_deletion_fault_is_reported.

Theorem C17_deletion_fault_leaves_retained_versions_intact :
  forall (H : bytes -> bytes), (forall x, length (H x) = 32%nat) ->
  forall iv b ops (r : list Z) (sched : list bool) (eff : bool) (n : Z) (k : nat) (p : pdb),
    init_ok iv b -> run_ok H (init_state iv b) ops ->
    let s := fst (run H (init_state iv b) ops) in
    forest_bounds (forest s) -> rekey_ok r (forest s) -> n < version s -> n < latest_version s ->
    prune_forest_fault H true eff r (forest s) sched n (Some k) = FErr p ->
    (let f' := filter (fun q => n <? fst q) (forest s) in
     Forall (fun d => readable H d f' = true) (dhist p) /\
     readable H (disk (pflush p)) f' = true)
    \/ collision H.
Proof. exact fault_leaves_retained_intact_reachable. Qed.
Print Assumptions C17_deletion_fault_leaves_retained_versions_intact.

Theorem C17_deletion_fault_causes_no_extra_write :
  forall (H : bytes -> bytes), (forall x, length (H x) = 32%nat) ->
  forall (s : mstate) (r : list Z) (sched : list bool) (eff : bool) (n : Z) (k : nat) (p : pdb),
    store_ok H s -> forest_bounds (forest s) -> rekey_ok r (forest s) -> n < latest_version s ->
    prune_forest_fault H true eff r (forest s) sched n (Some k) = FErr p ->
    (exists p0 W, prune_forest_fault H true eff r (forest s) sched n None = FOk p0 /\
                  wlog p0 = wlog p ++ W)
    \/ collision H.
Proof. exact fault_prefix. Qed.
Print Assumptions C17_deletion_fault_causes_no_extra_write.

(** the fault-free instance of the fault model IS the algorithm tied to the code (PruneAlgo) *)
Theorem C17_fault_model_is_the_tied_algorithm :
  forall (H : bytes -> bytes) (eff : bool) (st : store) (schedule : list bool) (first latest to : Z),
    pf_result eff (prune_fault H true eff st schedule first latest to None) =
    prune_phys H eff st schedule first latest to /\
    pf_disks (prune_fault H true eff st schedule first latest to None) =
    prune_phys_disks H eff st schedule first latest to.
Proof. exact PF_fault_free_same. Qed.
Print Assumptions C17_fault_model_is_the_tied_algorithm.

Theorem C17_unfixed_orphan_loop_refuted : ltac:(let t := type of unfixed_read_fault_refuted in exact t).
Proof. exact unfixed_read_fault_refuted. Qed.
Print Assumptions C17_unfixed_orphan_loop_refuted.

(** every fault position of one deletion, enumerated *)
Example C17_all_fault_positions_example : ltac:(let t := type of pf_all_positions_1 in exact t).
Proof. exact pf_all_positions_1. Qed.

(** *** BatchWithFlusher over a backend whose n-th physical write fails (Flusher.v, batch.go):
    the failure is returned by the Set / Delete / Write that triggered the flush (never
    swallowed), the database holds exactly the first n-1 batches - a prefix of the operation's
    writes ending at a cut position - and nothing issued later was applied. *)
From IAVL Require Flusher FlusherFacts.

Theorem C17_flusher_write_failure_reported :
  forall (th : Z) (n : nat) (ops : list Flusher.bop),
    FlusherFacts.keys_ok ops -> (1 <= n <= length (Flusher.fl_batches th ops))%nat ->
    exists s, Flusher.ffl_commit th n ops = Flusher.FErr Flusher.EWriteFailed s /\
              Flusher.nwrites s = n.
Proof. exact FlusherFacts.fl_fault_reported. Qed.
Print Assumptions C17_flusher_write_failure_reported.

Theorem C17_flusher_write_failure_leaves_a_prefix :
  forall (th : Z) (n : nat) (ops : list Flusher.bop) (s : Flusher.ffl),
    Flusher.ffl_commit th n ops = Flusher.FErr Flusher.EWriteFailed s ->
    Flusher.ffl_db_batches (Flusher.FErr Flusher.EWriteFailed s) =
      firstn (n - 1) (Flusher.fl_batches th ops) /\
    concat (Flusher.ffl_db_batches (Flusher.FErr Flusher.EWriteFailed s)) =
      firstn (nth (n - 1) (0%nat :: Flusher.cut_positions th ops ++ [length ops]) (length ops)) ops /\
    (forall m : VMap.kvs,
       Flusher.kv_apply_batches m (Flusher.ffl_db_batches (Flusher.FErr Flusher.EWriteFailed s)) =
       Flusher.kv_apply_ops m
         (firstn (nth (n - 1) (0%nat :: Flusher.cut_positions th ops ++ [length ops]) (length ops)) ops)).
Proof. exact FlusherFacts.fl_fault_prefix. Qed.
Print Assumptions C17_flusher_write_failure_leaves_a_prefix.

(** the same for the byte stream of a commit (PhysCommit.v): a failing physical write during
    SaveVersion is reported, and the database holds the first n-1 batches of the commit *)
From IAVL Require Import FastLife PhysCommit PhysCommitFacts.

Theorem C17_commit_write_failure_reported :
  forall (H : bytes -> bytes) (th : Z) (n : nat) (st : fstate),
    (1 <= n <= length (commit_batches H th st))%nat ->
    exists s : Flusher.ffl,
      Flusher.ffl_commit th n (commit_bops H st) = Flusher.FErr Flusher.EWriteFailed s /\
      Flusher.nwrites s = n /\
      Flusher.ffl_db_batches (Flusher.FErr Flusher.EWriteFailed s) =
        firstn (n - 1) (commit_batches H th st) /\
      (forall m : VMap.kvs,
         Flusher.kv_apply_batches m (Flusher.ffl_db_batches (Flusher.FErr Flusher.EWriteFailed s)) =
         Flusher.kv_apply_ops m
           (firstn (nth (n - 1)
                      (0%nat :: Flusher.cut_positions th (commit_bops H st) ++ [length (commit_bops H st)])
                      (length (commit_bops H st))) (commit_bops H st))).
Proof. exact commit_write_failure_reported. Qed.
Print Assumptions C17_commit_write_failure_reported.
