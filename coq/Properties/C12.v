(** C12: after every commit, deletion of old versions or rollback, the stored tree nodes are
    exactly those reachable from the roots of the retained versions: no node a retained version
    needs is missing and no unreachable node is left behind.  The persisted fast index holds
    exactly the latest version's pairs, and once every key has been removed and older versions
    deleted no node remains at all.

    (M2 level: [Store.expected_store f] is the sorted store holding exactly [Store.reach f], the
    nodes reachable from the retained roots plus the root entries; the theorems say that the
    ordered physical writes of each operation turn the expected store of the old forest into the
    expected store of the new forest.  Deletion of old versions is stated for the
    specification-level delete set [Store.prune_ops]; the per-version physical protocol with the
    (v,1) -> (v,0) re-keying, [Store.prune_steps], is checked on the examples below up to
    [Store.norm_store].)
    Statements are restated in full; proofs are in StoreFacts.v. *)
From IAVL Require Import Bytes Varint Sha256 Tree VMap TreeFacts MTree MTreeFacts HashFacts VersionFacts
  Store StoreFacts.
Local Open Scope Z_scope.

(** the invariant under which everything below holds is satisfied by every state reachable
    within the usage contract *)
Theorem C12_store_ok_reachable :
  forall (H : bytes -> bytes) (iv : Z) (b : bool) (ops : list op),
    init_ok iv b -> run_ok H (init_state iv b) ops ->
    store_ok H (fst (run H (init_state iv b) ops)).
Proof. exact store_ok_reachable. Qed.
Print Assumptions C12_store_ok_reachable.

Theorem C12_store_ok_step :
  forall (H : bytes -> bytes) (s : mstate) (o : op),
    store_ok H s -> in_contract s o -> store_ok H (fst (step H s o)).
Proof. exact store_ok_step. Qed.
Print Assumptions C12_store_ok_step.

(** the expected store holds exactly the reachable entries: nothing missing, nothing else *)
Theorem C12_expected_exactly_reachable :
  forall (f : list (Z * option node)) (k : Z * Z) (e : entry),
    forest_inv f -> NoDup (map fst f) ->
    (In (k, e) (expected_store f) <-> In (k, e) (reach f)).
Proof. exact expected_In. Qed.
Print Assumptions C12_expected_exactly_reachable.

Theorem C12_reach_characterised :
  forall (f : list (Z * option node)) (k : Z * Z) (e : entry),
    In (k, e) (reach f) <->
    (exists u, sub_of f u /\ k = node_key u /\ e = ENode (snode_of u)) \/
    (exists v r, In (v, r) f /\ root_entry v r = Some (k, e)).
Proof. exact reach_In. Qed.
Print Assumptions C12_reach_characterised.

(** a sorted store with the lookups of the reachable entries is the expected store *)
Theorem C12_store_unique :
  forall (f : list (Z * option node)) (st : list ((Z * Z) * entry)),
    forest_inv f -> NoDup (map fst f) -> msorted kcmp st ->
    (forall k e, mfind kcmp k st = Some e <-> In (k, e) (reach f)) ->
    st = expected_store f.
Proof. exact store_unique. Qed.
Print Assumptions C12_store_unique.

(** 1. commit *)
Theorem C12_commit_exact :
  forall (H : bytes -> bytes) (fast : bool) (s : mstate) (d : db),
    store_ok H s -> nodes d = expected_store (forest s) ->
    nodes (apply_ops d (commit_ops H fast s)) = expected_store (forest (fst (do_save H s))).
Proof. exact commit_exact. Qed.
Print Assumptions C12_commit_exact.

Theorem C12_commit_keys_fresh :
  forall (H : bytes -> bytes) (s : mstate),
    store_ok H s -> lookup (working_version s) (forest s) = None ->
    forall p, In p (node_writes H s) ->
      fst (fst p) = working_version s /\ mfind kcmp (fst p) (expected_store (forest s)) = None.
Proof. exact commit_keys_fresh. Qed.
Print Assumptions C12_commit_keys_fresh.

(** 2. rollback *)
Theorem C12_rollback_exact :
  forall (H : bytes -> bytes) (s : mstate) (d : db) (v : Z),
    store_ok H s -> in_range s v -> nodes d = expected_store (forest s) ->
    forest (fst (step H s (OLvfo v))) = filter (fun p => fst p <=? v) (forest s) /\
    nodes (apply_ops d (rollback_ops d v)) = expected_store (forest (fst (step H s (OLvfo v)))).
Proof. exact rollback_exact. Qed.
Print Assumptions C12_rollback_exact.

(** 3. deletion of old versions (specification level) *)
Theorem C12_prune_spec_exact :
  forall (H : bytes -> bytes) (s : mstate) (d : db) (n : Z),
    store_ok H s -> n < latest_version s -> nodes d = expected_store (forest s) ->
    forest (fst (step H s (OPrune n))) = filter (fun p => n <? fst p) (forest s) /\
    nodes (apply_ops d (prune_ops (forest s) n)) =
      expected_store (forest (fst (step H s (OPrune n)))).
Proof. exact prune_spec_exact. Qed.
Print Assumptions C12_prune_spec_exact.

Theorem C12_drop_exact :
  forall (keep : Z -> bool) (f : list (Z * option node)) (d : db),
    forest_inv f -> NoDup (map fst f) -> nodes d = expected_store f ->
    nodes (apply_ops d (drop_ops keep f)) = expected_store (filter (fun p => keep (fst p)) f).
Proof. exact drop_exact. Qed.
Print Assumptions C12_drop_exact.

(** 4. emptied trees *)
Theorem C12_empty_store :
  forall f : list (Z * option node),
    (forall v r, In (v, r) f -> r = None) ->
    forall k e, In (k, e) (expected_store f) -> e = EEmpty /\ snd k = 1 /\ In (fst k) (map fst f).
Proof. exact empty_store. Qed.
Print Assumptions C12_empty_store.

Theorem C12_empty_store_no_node :
  forall f : list (Z * option node),
    (forall v r, In (v, r) f -> r = None) -> forall k n, ~ In (k, ENode n) (expected_store f).
Proof. exact empty_store_no_node. Qed.
Print Assumptions C12_empty_store_no_node.

(** 5. the fast index *)
Theorem C12_index_exact :
  forall (H : bytes -> bytes) (s : mstate) (d : db),
    store_ok H s -> lookup (working_version s) (forest s) = None ->
    fastidx d = oelems (last_saved s) ->
    fastidx (apply_ops d (commit_ops H true s)) = oelems (root (fst (do_save H s))) /\
    label (apply_ops d (commit_ops H true s)) = Some (working_version s).
Proof. exact index_exact. Qed.
Print Assumptions C12_index_exact.

(** the index rebuild that follows a rollback writes exactly the latest tree's pairs *)
Theorem C12_rebuild_exact :
  forall (d : db) (latest : Z) (t : option node),
    oinv t -> msorted bcmp (fastidx d) ->
    fastidx (apply_ops d (rebuild_ops d latest t)) = oelems t /\
    label (apply_ops d (rebuild_ops d latest t)) = Some latest /\
    nodes (apply_ops d (rebuild_ops d latest t)) = nodes d.
Proof. exact rebuild_exact. Qed.
Print Assumptions C12_rebuild_exact.

(** children are never younger than their parent in any retained tree of a reachable state
    (so a tree of version v refers only to node keys of versions <= v: [fi_ver]) *)
Theorem C12_ver_mono_reachable :
  forall (H : bytes -> bytes) (iv : Z) (b : bool) (ops : list op),
    init_ok iv b -> run_ok H (init_state iv b) ops ->
    forall v t, In (v, Some t) (forest (fst (run H (init_state iv b) ops))) -> ver_mono t.
Proof. exact mono_ok_reachable. Qed.
Print Assumptions C12_ver_mono_reachable.

Theorem C12_set_ver_mono :
  forall (t : node) (k v : bytes), ver_mono t -> ver_mono (fst (set t k v)).
Proof. exact set_ver_mono. Qed.
Print Assumptions C12_set_ver_mono.

Theorem C12_remove_ver_mono :
  forall (t : node) (k : bytes) (t' : node),
    rm_self (remove t k) = Some t' -> ver_mono t -> ver_mono t'.
Proof. exact remove_ver_mono. Qed.
Print Assumptions C12_remove_ver_mono.

Theorem C12_stamp_ver_mono :
  forall (H : bytes -> bytes) (wv n : Z) (t : node),
    wv <> 0 -> oldok wv t ->
    (forall u, subtree u t -> ver (nmeta u) <> 0 -> ver (nmeta u) < wv) ->
    ver_mono t -> ver_mono (fst (stamp H wv n t)).
Proof. exact stamp_ver_mono. Qed.
Print Assumptions C12_stamp_ver_mono.

(** the writes of a commit are [Tree.stamp] plus the post-order list of the new nodes *)
Theorem C12_assign_stamp :
  forall (H : bytes -> bytes) (wv : Z) (t : node) (n : Z),
    fst (assign H wv n t) = stamp H wv n t.
Proof. exact assign_stamp. Qed.
Print Assumptions C12_assign_stamp.

(** ** A concrete history (SHA-256): three versions, the second a commit without writes, the
    third an emptied tree; then deletion of old versions and rollback. *)
Definition c12_a : bytes := [97%N].
Definition c12_b : bytes := [98%N].
Definition c12_c : bytes := [99%N].
Definition c12_hist : list op :=
  [OSet c12_a c12_a; OSet c12_b c12_b; OSet c12_c c12_c; OSave; OSave;
   ORemove c12_a; ORemove c12_b; ORemove c12_c; OSave].

Example c12_hypotheses_hold :
  run_okb sha256 (init_state 0 false) (c12_hist ++ [OPrune 2]) = true /\
  run_okb sha256 (init_state 0 false) (c12_hist ++ [OLvfo 1]) = true.
Proof. vm_compute. split; reflexivity. Qed.

(** the writes issued along the history produce exactly the expected database *)
Example c12_history_exact :
  let r := db_run sha256 true (init_state 0 false) empty_db c12_hist in
  snd r = expected_db (forest (fst r)) /\
  map fst (nodes (snd r)) = [(1, 1); (1, 2); (1, 3); (1, 4); (1, 5); (2, 1); (3, 1)] /\
  mfind kcmp (2, 1) (nodes (snd r)) = Some (ERef (1, 1)) /\
  mfind kcmp (3, 1) (nodes (snd r)) = Some EEmpty /\
  fastidx (snd r) = [] /\ label (snd r) = Some 3.
Proof. vm_compute. repeat split; reflexivity. Qed.

(** deleting version 1 keeps every node (version 2 shares the whole tree) ... *)
Example c12_prune_shared :
  let r := db_run sha256 true (init_state 0 false) empty_db (c12_hist ++ [OPrune 1]) in
  snd r = expected_db (forest (fst r)) /\
  map fst (nodes (snd r)) = [(1, 1); (1, 2); (1, 3); (1, 4); (1, 5); (2, 1); (3, 1)].
Proof. vm_compute. split; reflexivity. Qed.

(** ... and once the emptied version is the only one left, no node remains at all *)
Example c12_prune_to_empty :
  let r := db_run sha256 true (init_state 0 false) empty_db (c12_hist ++ [OPrune 2]) in
  snd r = expected_db (forest (fst r)) /\ nodes (snd r) = [((3, 1), EEmpty)].
Proof. vm_compute. split; reflexivity. Qed.

(** the per-version physical protocol (root re-keyed to (1,0) before (1,1) is deleted) gives
    the same stores once nonce 0 is read as nonce 1 *)
Example c12_prune_steps :
  let r := db_run sha256 true (init_state 0 false) empty_db c12_hist in
  let f := forest (fst r) in
  hd (WDel KLabel) (prune_steps f [1]) = set_node ((1, 0), ENode (snode_of
     (match lookup 1 f with Some (Some t) => t | _ => Leaf [] [] new_meta end))) /\
  norm_store (nodes (apply_ops (snd r) (prune_steps f [1]))) =
    expected_store (filter (fun p => 1 <? fst p) f) /\
  norm_store (nodes (apply_ops (snd r) (prune_steps f [1; 2]))) =
    expected_store (filter (fun p => 2 <? fst p) f).
Proof. vm_compute. repeat split; reflexivity. Qed.

(** rollback to version 1, followed by the index rebuild *)
Example c12_rollback :
  let r := db_run sha256 true (init_state 0 false) empty_db (c12_hist ++ [OLvfo 1]) in
  snd r = expected_db (forest (fst r)) /\
  map fst (nodes (snd r)) = [(1, 1); (1, 2); (1, 3); (1, 4); (1, 5)] /\
  map fst (fastidx (snd r)) = [c12_a; c12_b; c12_c] /\ label (snd r) = Some 1.
Proof. vm_compute. repeat split; reflexivity. Qed.

(** *** The physical store along every history (PruneAlgo.v, PruneAlgoFacts11): commits write the
    new nodes and the root entry, DeleteVersionsTo runs the code's orphan traversal with re-keying
    under an arbitrary flush schedule, LoadVersionForOverwriting deletes the later keys.  After
    EVERY step of EVERY in-contract history the store is exactly the physical store of the retained
    versions ([phys_of r]: the expected store with the roots in [r] re-keyed to nonce 0), hence,
    read with nonce 0 as 1, exactly [expected_store]: nothing missing, nothing left over. *)
From IAVL Require Import Ics23Facts Store StoreFacts PruneAlgo PruneAlgoFacts1 PruneAlgoFacts2 PruneAlgoFacts5 PruneAlgoFacts6 PruneAlgoFacts7 PruneAlgoFacts8 PruneAlgoFacts9 PruneAlgoFacts10 PruneAlgoFacts11 PruneAlgoFacts12 PruneAlgoFacts13 PruneAlgoFacts.
Local Open Scope Z_scope.

Theorem C12_physical_store_along_every_history :
  forall (H : bytes -> bytes), (forall x, length (H x) = 32%nat) ->
  forall (fast : bool) (iv : Z) (b : bool) (ops : list op) (orcs : list (list bool * bool)),
    init_ok iv b -> run_ok H (init_state iv b) ops -> bounded_run H (init_state iv b) ops ->
    Forall phys_inv (phys_trace H fast (init_state iv b) [] ops orcs) \/ collision H.
Proof. exact PA_phys_run_reachable. Qed.
Print Assumptions C12_physical_store_along_every_history.

Theorem C12_physical_deletion_exact :
  forall (H : bytes -> bytes), (forall x, length (H x) = 32%nat) ->
  forall (s : mstate) (r : list Z) (sched : list bool) (eff : bool) (n : Z),
    store_ok H s -> forest_bounds (forest s) ->
    rekey_ok r (forest s) -> n < latest_version s ->
    (exists st' log fl,
       prune_forest H eff r (forest s) sched n = POk (st', log, fl) /\
       let f' := filter (fun p => n <? fst p) (forest s) in
       st' = phys_of (rekeyed st') f' /\ rekey_ok (rekeyed st') f' /\
       norm_store st' = expected_store f')
    \/ collision H.
Proof. exact PA_prune_refines. Qed.
Print Assumptions C12_physical_deletion_exact.

Theorem C12_physical_deletion_schedule_independent :
  forall (H : bytes -> bytes), (forall x, length (H x) = 32%nat) ->
  forall (s : mstate) (r : list Z) (sched1 : list bool) (eff1 : bool) (sched2 : list bool) (eff2 : bool)
         (n : Z) st1 log1 fl1 st2 log2 fl2,
    store_ok H s -> forest_bounds (forest s) ->
    rekey_ok r (forest s) -> n < latest_version s ->
    prune_forest H eff1 r (forest s) sched1 n = POk (st1, log1, fl1) ->
    prune_forest H eff2 r (forest s) sched2 n = POk (st2, log2, fl2) ->
    st1 = st2 \/ collision H.
Proof. exact PA_prune_schedule_independent. Qed.
Print Assumptions C12_physical_deletion_schedule_independent.

(** the keys one deleteVersion removes are exactly those of [Store.prune_version_ops] *)
Theorem C12_deleted_keys_exact :
  forall (f : forest_t) (iv : Z),
    forest_inv f -> NoDup (map fst f) -> forest_ok f iv ->
    forall (v : Z) (rv rn : option node) (f'' : forest_t) (r : list Z),
      f = (v, rv) :: (v + 1, rn) :: f'' -> rekey_ok r f ->
      forall k,
        (mfind kcmp k (phys_of r f) <> None /\
         mfind kcmp k (phys_of (rk_next v rn r) ((v + 1, rn) :: f'')) = None) <->
        (In k (del_keys (prune_version_ops f v)) /\ mfind kcmp k (phys_of r f) <> None).
Proof. exact PA_version_keys_exact. Qed.
Print Assumptions C12_deleted_keys_exact.

Example C12_physical_history_example : ltac:(let t := type of pa_history_trace in exact t).
Proof. exact pa_history_trace. Qed.

(** *** The ORDER of the physical writes of a deletion (PruneAlgoFacts14): the effective write list
    of DeleteVersionsTo is exactly [spec_elog_range], a function of the forest alone - for every
    version: the orphans of tree v (nodes absent from tree v+1) in the pre-order of tree v, each
    deleted under the key it is stored under, then the root entry of an empty / reference root,
    then the re-keying [set (v,0); del (v,1)] when tree v+1 keeps the root of v - whatever the flush
    schedule.  This list is what the correspondence check compares with the real library (wprune). *)
From IAVL Require Import PruneAlgoFacts14.

Theorem C12_deletion_effective_writes_exact :
  forall (H : bytes -> bytes), (forall x, length (H x) = 32%nat) ->
  forall (s : mstate) (r : list Z) (sched : list bool) (n : Z),
    store_ok H s -> forest_bounds (forest s) -> rekey_ok r (forest s) -> n < latest_version s ->
    forest s <> [] ->
    (exists st' fl,
       prune_forest H true r (forest s) sched n =
         POk (st', spec_elog_range (Z.to_nat (n + 1 - first_of (forest s))) (forest s) r, fl))
    \/ collision H.
Proof. exact prune_elog. Qed.
Print Assumptions C12_deletion_effective_writes_exact.

Example C12_effective_writes_example : ltac:(let t := type of pe_whole in exact t).
Proof. exact pe_whole. Qed.
