(** C19: iavl/v2 computes the same tree as v1: same hashes, contents and iteration.
    v2 mutates nodes in place and assigns the node version when a node is mutated; v1 clones
    and assigns it when the version is saved.  The two coincide node by node: no normal-form
    hypothesis on the history is needed.
    Statements are restated in full; proofs are in V2Facts.v. *)
From IAVL Require Import Bytes Varint Sha256 Tree VMap TreeFacts MTree MTreeFacts HashFacts V2 V2Facts.
Local Open Scope Z_scope.

(** One [Set]: v2 on [t1] against v1 on any [veq]-related [t2] (same keys, values, heights,
    sizes, effective versions; only sequences and stored hashes may differ).  [None] is a Go
    panic/error of v2, excluded for well-formed trees by [C19_set_defined]. *)
Theorem C19_set_step :
  forall (wv sq : Z) (k v : bytes) (t1 t2 : node),
    veq wv t1 t2 ->
    match v2_set wv sq t1 k v with
    | Some (t1', upd) => veq wv t1' (fst (set t2 k v)) /\ upd = snd (set t2 k v)
    | None => True
    end.
Proof.
  intros wv sq k v t1 t2 E. pose proof (v2_set_veq wv sq k v t1 t2 E) as R.
  destruct (v2_set wv sq t1 k v) as [[t1' upd]|]; exact R.
Qed.
Print Assumptions C19_set_step.

Theorem C19_set_shape :
  forall (wv sq : Z) (t : node) (k v : bytes),
    wf t ->
    exists t', v2_set wv sq t k v = Some (t', snd (set t k v)) /\
               veq wv t' (fst (set t k v)) /\ shape_eq wv t' (fst (set t k v)).
Proof. exact v2_set_shape. Qed.
Print Assumptions C19_set_shape.

Theorem C19_remove_shape :
  forall (wv : Z) (t : node) (k : bytes),
    wf t -> avl t ->
    exists res, v2_remove wv t k = Some res /\
      rm_val res = rm_val (remove t k) /\ rm_key res = rm_key (remove t k) /\
      match rm_self res, rm_self (remove t k) with
      | Some x, Some y => veq wv x y /\ shape_eq wv x y
      | None, None => True
      | _, _ => False
      end.
Proof. exact v2_remove_shape. Qed.
Print Assumptions C19_remove_shape.

(** [veq] is finer than the shape the hash depends on *)
Theorem C19_veq_hash :
  forall (H : bytes -> bytes) (wv : Z) (t1 t2 : node),
    veq wv t1 t2 -> shape_eq wv t1 t2 /\ pure_hash H wv t1 = pure_hash H wv t2.
Proof.
  intros H wv t1 t2 E. exact (conj (veq_shape_eq wv t1 t2 E) (pure_hash_ext H wv t1 t2 (veq_shape_eq wv t1 t2 E))).
Qed.
Print Assumptions C19_veq_hash.

(** v2's hash from scratch (every node with its own node-key version) is the IAVL+ hash *)
Theorem C19_v2_hash :
  forall (H : bytes -> bytes) (t : node), v2_hash H t = pure_hash H 0 t.
Proof. exact v2_hash_pure. Qed.
Print Assumptions C19_v2_hash.

(** Whole histories of Set / Remove / SaveVersion from the empty tree: v2 never fails and
    returns exactly what the v1 MutableTree returns (updated flags, removed values, versions,
    root hashes); the working trees are related, hence equal contents and equal structural
    hash for every hash function. *)
Theorem C19_same_hash :
  forall (H : bytes -> bytes) (ops : list wop),
    let r1 := MTree.run H (init_state 0 false) (map wop_v1 ops) in
    exists s2 xs,
      v2t_run H v2t_empty ops = Some (s2, xs) /\
      xs = snd r1 /\
      vt_version s2 = version (fst r1) /\
      oveq (version (fst r1) + 1) (vt_root s2) (root (fst r1)) /\
      oelems (vt_root s2) = oelems (root (fst r1)) /\
      (forall H', opure_hash H' (version (fst r1) + 1) (vt_root s2) =
                  opure_hash H' (version (fst r1) + 1) (root (fst r1))) /\
      oinv (vt_root s2).
Proof. exact v2_same_hash_full. Qed.
Print Assumptions C19_same_hash.

(** Reads of related trees agree, and the v1 invariants transfer (C01, C11). *)
Theorem C19_reads_transfer :
  forall (wv : Z) (t2 t1 : node),
    veq wv t2 t1 ->
    (forall k, get t2 k = get t1 k) /\ (forall k, has t2 k = has t1 k) /\
    (forall i, get_by_index t2 i = get_by_index t1 i) /\
    size t2 = size t1 /\ height t2 = height t1 /\ elems t2 = elems t1 /\
    (wf t1 -> wf t2) /\ (avl t1 -> avl t2) /\
    (forall H, pure_hash H wv t2 = pure_hash H wv t1).
Proof. exact v2_reads_transfer. Qed.
Print Assumptions C19_reads_transfer.

(** The TreeIterator: Iterator(start, end, inclusive) yields the range selection of the
    sorted leaves; ReverseIterator(start, end) the reversed exclusive selection. *)
Theorem C19_iter_forward :
  forall (t : node) (start stop : option bytes) (incl : bool),
    wf t ->
    v2_iter_collect (Some t) start stop incl true =
      Some (range_spec (elems t) start stop incl true).
Proof. exact v2_iter_spec_asc. Qed.
Print Assumptions C19_iter_forward.

Theorem C19_iter_reverse :
  forall (t : node) (start stop : option bytes) (incl : bool),
    wf t ->
    v2_iter_collect (Some t) start stop incl false =
      Some (range_spec (elems t) start stop false false).
Proof. exact v2_iter_spec_desc. Qed.
Print Assumptions C19_iter_reverse.

Theorem C19_iter_spec :
  forall (root : option node) (start stop : option bytes) (incl asc : bool),
    oinv root ->
    v2_iter_collect root start stop incl asc =
      Some (range_spec (oelems root) start stop (incl && asc) asc).
Proof. exact v2_iter_spec. Qed.
Print Assumptions C19_iter_spec.

(** REFUTED (dead code): stepDescend's inclusive branch skips the end key itself. *)
Theorem C19_iter_desc_inclusive_refuted :
  exists t start stop,
    wf t /\
    v2_iter_collect (Some t) start stop true false <>
      Some (range_spec (elems t) start stop true false).
Proof. exact v2_iter_desc_inclusive_refuted. Qed.
Print Assumptions C19_iter_desc_inclusive_refuted.

(** *** Non-vacuity: three versions with insertions (rotations), updates of existing keys,
    a key written twice in one version and removals; v1 and v2 return the same outputs,
    in particular the same three SHA-256 root hashes. *)
Definition C19_example_ops : list wop :=
  [WSet [1%N] [10%N]; WSet [2%N] [20%N]; WSet [3%N] [30%N]; WSet [4%N] [40%N]; WSet [5%N] [50%N];
   WSave;
   WSet [3%N] [31%N]; WSet [6%N] [60%N]; WSet [6%N] [61%N]; WRemove [1%N]; WSet [7%N] [70%N];
   WSave;
   WRemove [4%N]; WSet [0%N] [1%N]; WRemove [9%N];
   WSave].

Definition C19_hash_of (x : out) : option bytes :=
  match x with XPair (XBytes h) _ => h | _ => None end.

Example C19_example :
  match v2t_run sha256 v2t_empty C19_example_ops with
  | Some (s2, xs) =>
      let xs1 := snd (MTree.run sha256 (init_state 0 false) (map wop_v1 C19_example_ops)) in
      let h i := C19_hash_of (nth i xs XErr) in
      let h1 i := C19_hash_of (nth i xs1 XErr) in
      let beq a b := match a, b with
                     | Some x, Some y => if list_eq_dec N.eq_dec x y then true else false
                     | _, _ => false
                     end in
      Some (length xs, length xs1,
            (* the three commits return the same hashes in v1 and v2, all different *)
            [beq (h 5%nat) (h1 5%nat); beq (h 11%nat) (h1 11%nat); beq (h 15%nat) (h1 15%nat)],
            [beq (h 5%nat) (h 11%nat); beq (h 11%nat) (h 15%nat)],
            (* the other outputs *)
            firstn 5 xs, firstn 5 xs1, nth 9 xs XErr, nth 9 xs1 XErr, nth 14 xs XErr, nth 14 xs1 XErr,
            vt_version s2,
            v2_iter_collect (vt_root s2) (Some [2%N]) (Some [6%N]) true true,
            v2_iter_collect (vt_root s2) (Some [2%N]) (Some [6%N]) false false)
  | None => None
  end =
  Some (16%nat, 16%nat, [true; true; true], [false; false],
        [XBool false; XBool false; XBool false; XBool false; XBool false],
        [XBool false; XBool false; XBool false; XBool false; XBool false],
        XPair (XBytes (Some [10%N])) (XBool true), XPair (XBytes (Some [10%N])) (XBool true),
        XPair (XBytes None) (XBool false), XPair (XBytes None) (XBool false),
        3,
        Some [([2%N], [20%N]); ([3%N], [31%N]); ([5%N], [50%N]); ([6%N], [61%N])],
        Some [([5%N], [50%N]); ([3%N], [31%N]); ([2%N], [20%N])]).
Proof. vm_compute. reflexivity. Qed.
