(** C20: iavl/v2 persistence.  Any retained version reloads exactly (checkpoint + replay of
    the leaf changelog), also after pruning; snapshots round-trip.
    Statements are restated in full; proofs are in V2Facts.v.

    FINDINGS (outside the normal form the theorem needs):
    - a key written twice in one version makes LoadVersion fail ("sequence mismatch");
    - a key updated and then removed in the same version makes LoadVersion fail ("root hash
      mismatch"): the changelog of that version contains neither the write nor the delete. *)
From IAVL Require Import Bytes Varint Sha256 Tree VMap TreeFacts MTree MTreeFacts HashFacts V2 V2Facts.
Local Open Scope Z_scope.

(** One version from a saved tree [R] (version [a], every leaf version <= a), operations in
    normal form (each key at most once, removals only of keys present at the start): the
    operations succeed; the rows SaveVersion writes are the operations numbered 1, 2, ...;
    replaying these rows (with the sequence checks of replayChangelog) from ANY tree related
    to [R] succeeds and gives a tree related to the result. *)
Theorem C20_version_replay :
  forall (H : bytes -> bytes) (a : Z), 0 <= a ->
  forall (m0 : kvs) (R : option node) (ops : list logop),
    good H R -> oelems R = m0 -> Forall (fun x => ver (snd x) <= a) (oleaves R) ->
    nf_version m0 ops ->
    exists sp,
      v2_apply_all (V2Tree R a 0 []) ops = Some sp /\
      vt_version sp = a /\ good H (vt_root sp) /\
      oelems (vt_root sp) = apply_kvs m0 ops /\
      Forall (fun x => ver (snd x) <= a + 1) (oleaves (vt_root sp)) /\
      v2_changelog sp = numbered 1 ops /\
      forall s', oveq 0 (vt_root s') R -> good H (vt_root s') ->
        exists s'', replay_version s' (a + 1, v2_changelog sp) = Some s'' /\
                    oveq 0 (vt_root s'') (vt_root sp) /\ good H (vt_root s'').
Proof. exact version_replay. Qed.
Print Assumptions C20_version_replay.

(** Item 4. *)
Theorem C20_replay_deterministic :
  forall (H : bytes -> bytes) (interval : Z) (hist : list (list logop * bool)),
    nf_history [] hist ->
    exists s db,
      v2_history H interval (v2t_empty, db_empty) hist = Some (s, db) /\
      forall v, 1 <= v <= Z.of_nat (length hist) ->
        exists sv dbv s',
          v2_history H interval (v2t_empty, db_empty) (firstn (Z.to_nat v) hist) = Some (sv, dbv) /\
          v2_load H db v = Some s' /\
          vt_version s' = v /\ vt_version sv = v /\ vt_lseq s' = 0 /\ vt_dels s' = [] /\
          oveq 0 (vt_root s') (vt_root sv) /\
          oelems (vt_root s') = oelems (vt_root sv) /\
          v2_compute_hash H (vt_root s') = v2_compute_hash H (vt_root sv) /\
          good H (vt_root s').
Proof. exact replay_deterministic. Qed.
Print Assumptions C20_replay_deterministic.

(** continuing from a reloaded tree: same changelog, same hash, related tree *)
Theorem C20_continue :
  forall (H : bytes -> bytes) (a : Z) (R R' : option node) (ops : list logop),
    0 <= a -> good H R -> good H R' -> oveq 0 R' R ->
    Forall (fun x => ver (snd x) <= a) (oleaves R) -> nf_version (oelems R) ops ->
    exists sp sp',
      v2_apply_all (V2Tree R a 0 []) ops = Some sp /\
      v2_apply_all (V2Tree R' a 0 []) ops = Some sp' /\
      oveq 0 (vt_root sp') (vt_root sp) /\ good H (vt_root sp) /\ good H (vt_root sp') /\
      v2_changelog sp' = v2_changelog sp /\
      v2_compute_hash H (vt_root sp') = v2_compute_hash H (vt_root sp).
Proof. exact continue_version. Qed.
Print Assumptions C20_continue.

(** Item 5: FindPrevious returns the greatest checkpoint <= v. *)
Theorem C20_find_previous :
  forall (vs : list Z) (v : Z),
    zsorted vs ->
    match vs with
    | [] => find_previous vs v = FPVal (-1)
    | v0 :: _ =>
        if v <? v0 then find_previous vs v = FPVal (-1)
        else exists c, find_previous vs v = FPVal c /\
                       In c vs /\ c <= v /\ forall x, In x vs -> x <= v -> x <= c
    end.
Proof. exact find_previous_spec. Qed.
Print Assumptions C20_find_previous.

Theorem C20_prune_keeps :
  forall (H : bytes -> bytes) (db : v2db) (n c v : Z),
    zsorted (db_ckpts db) ->
    find_previous (db_ckpts db) n = FPVal c -> c <> -1 -> In c (db_ckpts db) -> c <= v ->
    v2_load H (v2_prune db n) v = v2_load H db v.
Proof. exact prune_keeps. Qed.
Print Assumptions C20_prune_keeps.

Theorem C20_prune_removes :
  forall (db : v2db) (n c : Z),
    find_previous (db_ckpts db) n = FPVal c -> c <> -1 ->
    Forall (fun x => c <= x) (db_ckpts (v2_prune db n)) /\
    Forall (fun p => c <= fst p) (db_roots (v2_prune db n)) /\
    Forall (fun p => c <= fst p) (db_hashes (v2_prune db n)) /\
    Forall (fun p => c <= fst p) (db_log (v2_prune db n)).
Proof. exact prune_removes. Qed.
Print Assumptions C20_prune_removes.

(** pruning the database of a normal-form history keeps every version from the last
    checkpoint <= n on (their loads are unchanged, hence still correct by
    [C20_replay_deterministic]) *)
Theorem C20_prune_then_load :
  forall (H : bytes -> bytes) (interval : Z) (hist : list (list logop * bool))
         (s : v2tree) (db : v2db) (n c v : Z),
    nf_history [] hist ->
    v2_history H interval (v2t_empty, db_empty) hist = Some (s, db) ->
    find_previous (db_ckpts db) n = FPVal c -> c <> -1 -> c <= v ->
    v2_load H (v2_prune db n) v = v2_load H db v.
Proof. exact prune_then_load. Qed.
Print Assumptions C20_prune_then_load.

Theorem C20_history_checkpoints :
  forall (H : bytes -> bytes) (interval : Z) (hist : list (list logop * bool)) (s : v2tree) (db : v2db),
    nf_history [] hist ->
    v2_history H interval (v2t_empty, db_empty) hist = Some (s, db) ->
    zsorted (db_ckpts db) /\
    Forall (fun c => 1 <= c <= Z.of_nat (length hist)) (db_ckpts db) /\
    (hist <> [] -> In 1 (db_ckpts db)) /\
    vt_version s = Z.of_nat (length hist).
Proof. exact history_checkpoints. Qed.
Print Assumptions C20_history_checkpoints.

(** Item 6: snapshots. *)
Theorem C20_snapshot_roundtrip_pre :
  forall (H : bytes -> bytes) (t : node),
    hproper t -> v2_full H t -> import_pre H (snapshot_pre t) = Some t.
Proof. exact snapshot_roundtrip_pre. Qed.
Print Assumptions C20_snapshot_roundtrip_pre.

Theorem C20_snapshot_roundtrip_post :
  forall (H : bytes -> bytes) (t : node),
    hproper t -> v2_full H t -> import_post H (snapshot_post t) = Some t.
Proof. exact snapshot_roundtrip_post. Qed.
Print Assumptions C20_snapshot_roundtrip_post.

Theorem C20_restore_post :
  forall (H : bytes -> bytes) (t : node),
    hproper t ->
    exists t', restore_post H (export_post t) = Some t' /\
               veq 0 t' t /\ v2_hash H t' = v2_hash H t /\ v2_full H t' /\
               import_post H (snapshot_post t') = Some t'.
Proof. exact restore_post_roundtrip. Qed.
Print Assumptions C20_restore_post.

Theorem C20_restore_pre :
  forall (H : bytes -> bytes) (t : node),
    hproper t ->
    exists t', restore_pre H (export_pre t) = Some t' /\
               veq 0 t' t /\ v2_hash H t' = v2_hash H t /\ v2_full H t' /\
               import_pre H (snapshot_pre t') = Some t'.
Proof. exact restore_pre_roundtrip. Qed.
Print Assumptions C20_restore_pre.

Theorem C20_wf_hproper : forall t : node, wf t -> hproper t.
Proof. exact wf_hproper. Qed.
Print Assumptions C20_wf_hproper.

(** REFUTED outside the normal form. *)
Theorem C20_load_double_write_refuted :
  exists hist s db,
    ~ nf_history [] hist /\
    v2_history idh 0 (v2t_empty, db_empty) hist = Some (s, db) /\
    vt_version s = 2 /\ v2_load idh db 1 <> None /\ v2_load idh db 2 = None.
Proof. exact load_double_write_refuted. Qed.
Print Assumptions C20_load_double_write_refuted.

Theorem C20_load_update_then_remove_refuted :
  exists hist s db,
    ~ nf_history [] hist /\
    v2_history idh 0 (v2t_empty, db_empty) hist = Some (s, db) /\
    lookup 2 (db_log db) = Some [] /\
    oelems (vt_root s) = [([2%N], [20%N])] /\
    v2_load idh db 2 = None.
Proof. exact load_update_then_remove_refuted. Qed.
Print Assumptions C20_load_update_then_remove_refuted.

(** *** Non-vacuity: five versions in normal form, checkpoint interval 2 (checkpoints 1, 3, 5),
    SHA-256.  Every version loads with the hash the run stored; version 4 is replayed from
    checkpoint 3; after pruning to 4 (i.e. to checkpoint 3) versions 3..5 still load to the
    same trees and versions 1, 2 are gone.  (One [vm_compute] per example.) *)
Definition C20_hist : list (list logop * bool) :=
  [([LSet [1%N] [10%N]; LSet [2%N] [20%N]; LSet [3%N] [30%N]], false);
   ([LSet [4%N] [40%N]; LDel [1%N]; LSet [2%N] [21%N]], false);
   ([LSet [5%N] [50%N]; LSet [6%N] [60%N]; LDel [3%N]], false);
   ([LSet [1%N] [11%N]; LDel [4%N]], false);
   ([LSet [7%N] [70%N]], false)].

Example C20_example_nf : nf_history [] C20_hist.
Proof.
  unfold C20_hist. cbn [nf_history fst apply_kvs fold_left apply_kv].
  repeat match goal with |- _ /\ _ => split end; try exact I;
    match goal with
    | |- nf_version _ _ =>
        split;
        [ cbn [map op_key]; repeat constructor; cbn [In]; intuition discriminate
        | intros k Hk; cbn [In] in Hk;
          repeat match type of Hk with
                 | _ \/ _ => destruct Hk as [Hk|Hk]
                 end;
          try contradiction; try discriminate Hk; injection Hk as <-; vm_compute; reflexivity ]
    end.
Qed.

Definition C20_beq (a b : option bytes) : bool :=
  match a, b with
  | Some x, Some y => if list_eq_dec N.eq_dec x y then true else false
  | None, None => true
  | _, _ => false
  end.

Definition C20_same (a b : option v2tree) : bool :=
  match a, b with
  | Some x, Some y =>
      (vt_version x =? vt_version y) &&
      C20_beq (Some (v2_compute_hash sha256 (vt_root x))) (Some (v2_compute_hash sha256 (vt_root y))) &&
      (Nat.eqb (length (oelems (vt_root x))) (length (oelems (vt_root y))))
  | None, None => true
  | _, _ => false
  end.

Example C20_example :
  match v2_history sha256 2 (v2t_empty, db_empty) C20_hist with
  | Some (s, db) =>
      let db' := v2_prune db 4 in
      Some (db_ckpts db, map fst (db_log db), lookup 2 (db_log db),
            map (fun v => match v2_load sha256 db v with
                          | Some s' => Some (vt_version s',
                                             C20_beq (Some (v2_compute_hash sha256 (vt_root s')))
                                                     (lookup v (db_hashes db)))
                          | None => None
                          end) [1; 2; 3; 4; 5; 6],
            option_map (fun s' => oelems (vt_root s')) (v2_load sha256 db 4),
            find_previous (db_ckpts db) 4,
            db_ckpts db', map fst (db_log db'),
            map (fun v => C20_same (v2_load sha256 db' v) (v2_load sha256 db v)) [3; 4; 5],
            option_map vt_version (v2_load sha256 db' 2))
  | None => None
  end =
  Some ([1; 3; 5], [1; 2; 3; 4; 5],
        Some [(1, LSet [4%N] [40%N]); (2, LDel [1%N]); (3, LSet [2%N] [21%N])],
        [Some (1, true); Some (2, true); Some (3, true); Some (4, true); Some (5, true); None],
        Some [([1%N], [11%N]); ([2%N], [21%N]); ([5%N], [50%N]); ([6%N], [60%N])],
        FPVal 3,
        [3; 5], [3; 4; 5], [true; true; true], None).
Proof. vm_compute. reflexivity. Qed.

(** a snapshot of the final tree of the same history round-trips in both orders *)
Example C20_example_snapshot :
  match v2_history sha256 2 (v2t_empty, db_empty) C20_hist with
  | Some (s, db) =>
      match vt_root s with
      | Some t =>
          let same (x : option node) :=
            match x with
            | Some t' => C20_beq (Some (v2_hash sha256 t')) (Some (v2_hash sha256 t))
            | None => false
            end in
          Some (same (import_pre sha256 (snapshot_pre t)), same (import_post sha256 (snapshot_post t)),
                same (restore_post sha256 (export_post t)), same (restore_pre sha256 (export_pre t)),
                length (snapshot_pre t), length (export_post t))
      | None => None
      end
  | None => None
  end = Some (true, true, true, true, 9%nat, 9%nat).
Proof. vm_compute. reflexivity. Qed.

(** *** Orphan bookkeeping and pruning at node level (V2Orphans.v: v2/tree.go recursiveSet /
    recursiveRemove / mutateNode / addOrphan with the branch sequence counter, sqlite_batch.go
    saveBranches / execBranchOrphan, sqlite_writer.go treeLoop: delete the branches named by orphan
    rows with [at <= n], the root rows below the previous checkpoint).  The keys recorded as
    orphans are EXACTLY the persisted branches that left the tree (a Remove of an absent key records
    nothing); an orphan row means exactly "node of the checkpoint trees from its creation to the
    checkpoint before [at], of none from [at] on"; after any history of versions and deletions every
    retained checkpoint loads back node for node (and nothing unreachable is left, as long as no
    branchless checkpoint loses pending orphans: see below).  The seeded
    defects (orphans recorded before knowing whether the key exists; orphan rows tagged with the
    previous checkpoint) are refuted, and so is the deletion whose bound lies beyond the latest
    version while later checkpoints are written before the pruner runs (the writer selects by
    [at <= n], not by the checkpoint-aligned bound the leaf pruner uses): the versions between
    the bound computed at the call and the newest checkpoint keep their root rows and lose
    branches - outside the property (they are below "the last checkpoint not after n" once the
    deletion has run), accepted as optional by the harness oracle, delimited here. *)
From IAVL Require Import V2Orphans V2OrphansFacts V2OrphansFacts2.

Theorem C20_orphans_exact_remove :
  forall (wv ckpt bs : Z) (t : node) (k : bytes) (res : rm_res) (os : list nkey2) (bs' : Z),
    v2_remove_o wv ckpt bs t k = Some (res, os, bs') ->
    NoDup (ikeys t) ->
    Forall (below wv bs) (ikeys t) ->
    Permutation.Permutation (pkeys ckpt t) (os ++ opkeys ckpt (rm_self res)) /\
    NoDup (okeys (rm_self res)) /\
    Forall (below wv bs') (okeys (rm_self res)) /\
    NoDup os /\
    (forall x : nkey2, In x os <-> In x (pkeys ckpt t) /\ ~ In x (okeys (rm_self res))) /\
    (forall x : nkey2, In x (okeys (rm_self res)) -> In x (ikeys t) \/ fst x = wv /\ bs < snd x).
Proof. exact orphans_exact_remove. Qed.
Print Assumptions C20_orphans_exact_remove.

Theorem C20_remove_absent_no_orphans :
  forall (wv ckpt : Z) (t : node) (k : bytes) (bs : Z) (res : rm_res) (os : list nkey2) (bs' : Z),
    v2_remove_o wv ckpt bs t k = Some (res, os, bs') ->
    rm_val res = None ->
    os = [] /\ bs' = bs /\ rm_self res = Some t.
Proof. exact remove_absent_no_orphans. Qed.
Print Assumptions C20_remove_absent_no_orphans.

Theorem C20_prune_keeps_checkpoints_node_level :
  forall H : bytes -> bytes,
    (forall x : bytes, H x <> []) ->
    forall (interval : Z) (hist : list hstep) (s : ostate) (tr : list (Z * option node))
           (n c : Z) (st' : ostore) (v : Z) (T : option node),
      os_run H false false interval ostate_empty hist = Some s ->
      os_trace H false false interval ostate_empty hist = Some tr ->
      prune_tree (os_store s) n = Some st' ->
      find_previous (ckpts (os_store s)) n = FPVal c ->
      In (v, T) tr ->
      run_floor H interval ostate_empty hist (-1) <= v ->
      c <= v -> load_checkpoint st' v = Some T.
Proof. exact prune_keeps_checkpoints. Qed.
Print Assumptions C20_prune_keeps_checkpoints_node_level.

(** Exactness ("nothing unreachable is left") holds only for histories in which no checkpoint of
    a tree WITHOUT a branch root (empty tree, single leaf) has pending orphans: there the library
    writes nothing (saveBranches does everything under isCheckpoint() = len(tree.branches) > 0) and
    SaveVersion clears the pending list - the orphans are lost and their rows are never deleted.
    Found by the tie (x oraw: the raw orphan / branch / root rows of the real database against
    this model), modelled faithfully ([checkpoint_write_at], [root_is_branch]), refuted in general.
    A leak: nothing needed is lost, the property does not speak about it. *)
Theorem C20_prune_exact_node_level_partial :
  forall H : bytes -> bytes,
    (forall x : bytes, H x <> []) ->
    forall (interval : Z) (hist : list hstep) (s : ostate) (tr : list (Z * option node))
           (n c : Z) (st' : ostore) (key : nkey2) (row : node_row),
      no_loss H interval ostate_empty hist = true ->
      os_run H false false interval ostate_empty hist = Some s ->
      os_trace H false false interval ostate_empty hist = Some tr ->
      prune_tree (os_store s) n = Some st' ->
      find_previous (ckpts (os_store s)) n = FPVal c ->
      In (key, row) (branches st') ->
      exists (v : Z) (T : option node),
        In (v, T) tr /\
        Z.max (run_floor H interval ostate_empty hist (-1)) c <= v /\
        In key (okeys T).
Proof. exact prune_exact_partial. Qed.
Print Assumptions C20_prune_exact_node_level_partial.

Theorem C20_prune_exact_node_level_refuted :
  exists (hist : list hstep) (s : ostate) (tr : list (Z * option node))
         (n c : Z) (st' : ostore) (key : nkey2) (row : node_row),
    os_run sha256 false false 1 ostate_empty hist = Some s /\
    os_trace sha256 false false 1 ostate_empty hist = Some tr /\
    prune_tree (os_store s) n = Some st' /\
    find_previous (ckpts (os_store s)) n = FPVal c /\
    In (key, row) (branches st') /\
    ~ (exists (v : Z) (T : option node),
         In (v, T) tr /\
         Z.max (run_floor sha256 1 ostate_empty hist (-1)) c <= v /\
         In key (okeys T)).
Proof. exact prune_exact_refuted. Qed.
Print Assumptions C20_prune_exact_node_level_refuted.

Theorem C20_prune_with_a_stale_checkpoint_list :
  forall H : bytes -> bytes,
    (forall x : bytes, H x <> []) ->
    forall (interval : Z) (hist : list hstep) (s : ostate) (tr : list (Z * option node))
           (cks : list Z) (n c : Z) (st' : ostore) (v : Z) (T : option node),
      os_run H false false interval ostate_empty hist = Some s ->
      os_trace H false false interval ostate_empty hist = Some tr ->
      prune_tree_with cks (os_store s) n = Some st' ->
      find_previous cks n = FPVal c ->
      (forall a : Z, In a (ckpts (os_store s)) -> a <= n -> a <= c) ->
      In (v, T) tr ->
      run_floor H interval ostate_empty hist (-1) <= v ->
      c <= v -> load_checkpoint st' v = Some T.
Proof. exact prune_keeps_checkpoints_race. Qed.
Print Assumptions C20_prune_with_a_stale_checkpoint_list.

Theorem C20_remove_early_refuted :
  x_outcome true false x_hist_early 3 = Some ([1; 3], FPVal 3, true, false, false) /\
  x_outcome false false x_hist_early 3 = Some ([1; 3], FPVal 3, true, true, true).
Proof. exact remove_early_history_refuted. Qed.
Print Assumptions C20_remove_early_refuted.

Theorem C20_orphans_tagged_with_previous_checkpoint_refuted :
  x_outcome false true x_hist_prev 4 = Some ([1; 3; 5], FPVal 3, true, false, false) /\
  x_outcome false false x_hist_prev 4 = Some ([1; 3; 5], FPVal 3, true, true, true).
Proof. exact checkpoint_write_prev_refuted. Qed.
Print Assumptions C20_orphans_tagged_with_previous_checkpoint_refuted.

(** *** The leaf side: leaf / leaf_delete / leaf_orphan rows and the leaf pruner (V2Leaves.v:
    sqlite_batch.go saveLeaves, tree.go addOrphan / addDelete / nextLeafNodeKey, sqlite_writer.go
    leafLoop with its checkpoint-aligned bound, sqlite.go replayChangelog).  A leaf_orphan row
    means exactly the lifetime of the leaf; after any history of versions and deletions the rows
    a replay from any retained checkpoint to any later version reads are exactly those of the
    uninterrupted run, and every leaf that is current in a retained version is still stored.
    Exactness is refuted for the code as it is (removed leaves are never recorded as orphans:
    their rows stay; a leak) - V2LeavesFacts.prune_leaves_exact_refuted - and the seeded
    unaligned bound (C20c) loses rows a retained version needs
    (V2LeavesFacts.leaf_prune_unaligned_refuted).  Modelled for heightFilter > 0. *)
From IAVL Require Import V2Leaves V2LeavesFacts.

Theorem C20_leaf_orphans_sound :
  forall (H : bytes -> bytes) (interval : Z) (hist : list hstep) (s : lstate) (tr : ltrace)
         (nk : nkey2) (at_ : Z),
    ls_run_tr H false interval (ls_empty, []) hist = Some (s, tr) ->
    In (nk, at_) (lorphans (ls_store s)) ->
    (fst nk < at_ /\ at_ <= ls_version s) /\
    (forall (w : Z) (c : cur_t), In (w, c) tr -> fst nk <= w /\ w < at_ -> In nk (cur_keys c)) /\
    (forall (w : Z) (c : cur_t), In (w, c) tr -> at_ <= w -> ~ In nk (cur_keys c)).
Proof. exact leaf_orphans_sound. Qed.
Print Assumptions C20_leaf_orphans_sound.

Theorem C20_leaf_prune_keeps_replay :
  forall (H : bytes -> bytes) (interval : Z) (hist : list hstep) (s0 : lstate) (tr : ltrace)
         (n c : Z) (st' : lstore),
    ls_run_tr H false interval (ls_empty, []) hist = Some (s0, tr) ->
    find_previous (ls_ckpts s0) n = FPVal c ->
    prune_leaves (ls_ckpts s0) (ls_store s0) n = Some st' ->
    exists sf : lstate,
      ls_run_tr H false interval (ls_empty, []) (no_prunes hist) = Some (sf, tr) /\
      (forall c' t : Z, Z.max (ls_floor s0) c <= c' -> replay st' c' t = replay (ls_store sf) c' t) /\
      (forall (w : Z) (cur : cur_t) (k : bytes) (nk : nkey2) (v : bytes),
         In (w, cur) tr -> Z.max (ls_floor s0) c <= w -> In (k, (nk, v)) cur ->
         get_leaf nk (leaves st') =
         Some {| lr_key := k; lr_val := v; lr_hash := H (leaf_preimage H (fst nk) k v) |}).
Proof. exact prune_leaves_keeps_replay_last. Qed.
Print Assumptions C20_leaf_prune_keeps_replay.
