(** C11: every tree of every reachable state is a well-formed AVL tree; AVL trees have
    Fibonacci-bounded height; index and rank lookups are mutually inverse.
    Statements are restated in full; proofs are in MTreeFacts.v / TreeFacts.v. *)
From IAVL Require Import Bytes Varint Sha256 Tree VMap TreeFacts MTree MTreeFacts.
From IAVL Require Cost CostFacts.
Local Open Scope Z_scope.

Theorem C11_avl_reachable :
  forall (H : bytes -> bytes) (iv : Z) (b : bool) (ops : list op),
    0 <= iv ->
    let s := fst (run H (init_state iv b) ops) in
    (forall n, root s = Some n -> wf n /\ avl n) /\
    (forall n, last_saved s = Some n -> wf n /\ avl n) /\
    (forall v n, In (v, Some n) (forest s) -> wf n /\ avl n) /\
    (forall v n, lookup v (forest s) = Some (Some n) -> wf n /\ avl n).
Proof. exact reachable_avl. Qed.
Print Assumptions C11_avl_reachable.

Theorem C11_fib_bound :
  forall t : node, wf t -> avl t -> fib (Z.to_nat (height t) + 2) <= size t.
Proof. exact avl_fib. Qed.
Print Assumptions C11_fib_bound.

Theorem C11_rank_inverse :
  forall (t : node) (i : Z) (k v : bytes),
    wf t ->
    (get_by_index t i = Some (k, v) <-> (0 <= i /\ get t k = (i, Some v))).
Proof. exact get_by_index_get. Qed.
Print Assumptions C11_rank_inverse.

Theorem C11_index_out_of_range :
  forall (t : node) (i : Z),
    wf t -> i < 0 \/ size t <= i -> get_by_index t i = None.
Proof. exact get_by_index_out_of_range. Qed.
Print Assumptions C11_index_out_of_range.

(** Stamping (SaveVersion's node persistence) preserves shape and both invariants. *)
Theorem C11_stamp_preserves :
  forall (H : bytes -> bytes) (wv n : Z) (t : node),
    elems (fst (stamp H wv n t)) = elems t /\
    height (fst (stamp H wv n t)) = height t /\
    size (fst (stamp H wv n t)) = size t /\
    (wf t -> wf (fst (stamp H wv n t))) /\
    (avl t -> avl (fst (stamp H wv n t))).
Proof.
  intros H wv n t.
  exact (conj (stamp_elems H wv n t) (conj (stamp_height H wv n t) (conj (stamp_size H wv n t)
        (conj (stamp_wf H wv t n) (stamp_avl H wv t n))))).
Qed.
Print Assumptions C11_stamp_preserves.

(** *** Non-vacuity: a concrete reachable state (SHA-256 as the hash) whose working tree went
    through insertions with rebalancing, a removal and a save. *)
Definition C11_example_ops : list op :=
  [OSet [1%N] [10%N]; OSet [2%N] [20%N]; OSet [3%N] [30%N]; OSet [4%N] [40%N];
   OSet [5%N] [50%N]; OSave; OSet [6%N] [60%N]; OSet [7%N] [70%N]; ORemove [1%N]].

Example C11_example :
  let s := fst (run sha256 (init_state 0 false) C11_example_ops) in
  exists n sv,
    root s = Some n /\ lookup 1 (forest s) = Some (Some sv) /\
    (* the working tree: 6 leaves at height 3 (a degenerate tree would have height 5) *)
    map fst (elems n) = [[2%N]; [3%N]; [4%N]; [5%N]; [6%N]; [7%N]] /\
    size n = 6 /\ height n = 3 /\
    (fib (Z.to_nat (height n) + 2) <=? size n) = true /\
    (* the saved tree *)
    size sv = 5 /\ height sv = 3 /\
    (* both sides of the rank/index equivalence hold at index 2; out of range is None *)
    get_by_index n 2 = Some ([4%N], [40%N]) /\ get n [4%N] = (2, Some [40%N]) /\
    get_by_index n 6 = None /\ get_by_index n (-1) = None.
Proof. vm_compute. do 2 eexists. repeat split; reflexivity. Qed.

(** * Node reads of lookups and proofs with nothing cached (Cost.v: getLeftNode/getRightNode
    fetch a child with one read and do not keep it; [Node.get], [has], [getByIndex],
    [pathToLeaf], [GetMembershipProof], [GetNonMembershipProof], [GetProof] as coded) *)
Module CostPart.
Import Cost CostFacts.

(** the second half of the property, for every well-formed tree (balance is not needed) *)
Theorem C11_read_bounds :
  forall t : node, wf t ->
    (forall k, cost_get t k <= 2 * height t + 2) /\
    (forall k, cost_has t k <= 2 * height t + 2) /\
    (forall k, cost_get_with_index t k <= 2 * height t + 2) /\
    (forall i, cost_get_by_index t i <= 2 * height t + 2) /\
    (forall k, cost_membership_proof t k <= 10 * height t + 10) /\
    (forall k, cost_nonmembership_proof t k <= 10 * height t + 10) /\
    (forall k, cost_get_proof t k <= 10 * height t + 10).
Proof. exact cost_C11. Qed.
Print Assumptions C11_read_bounds.

(** exact costs: a lookup reads one node per level of the search path, an existence proof two *)
Theorem C11_get_cost_exact :
  forall (t : node) (k : bytes), cost_get t k = depth t k.
Proof. exact cost_get_exact. Qed.
Print Assumptions C11_get_cost_exact.

Theorem C11_membership_cost_exact :
  forall (t : node) (k : bytes), cost_membership_proof t k = 2 * depth t k.
Proof. exact cost_membership_proof_exact. Qed.
Print Assumptions C11_membership_cost_exact.

(** the sharp bound for [GetProof], and a family of trees of every height that attains it: the
    margin of the property's 10h+10 is eleven reads *)
Theorem C11_proof_cost_sharp :
  forall (t : node) (k : bytes),
    heights_ok t -> sizes_pos t -> 1 <= height t -> cost_get_proof t k <= 10 * height t - 1.
Proof. exact cost_get_proof_sharp. Qed.
Print Assumptions C11_proof_cost_sharp.

Theorem C11_proof_cost_sharp_attained :
  forall n : nat, exists t k,
    wf t /\ height t = Z.of_nat n + 1 /\ has t k = false /\
    ((n <= 125)%nat -> keys_all well_formed t /\ well_formed k) /\
    cost_get_proof t k = 10 * height t - 1.
Proof. exact cost_get_proof_sharp_attained. Qed.
Print Assumptions C11_proof_cost_sharp_attained.

(** a lookup by rank fetches the left child at every step (for its size) and both children on a
    right step: "one read per level" is false for it, 2h is the bound *)
Theorem C11_get_by_index_one_per_level_refuted :
  exists t i, wf t /\ avl t /\ get_by_index t i <> None /\ ~ cost_get_by_index t i <= height t.
Proof. exact cost_get_by_index_le_height_refuted. Qed.
Print Assumptions C11_get_by_index_one_per_level_refuted.
End CostPart.
