(** C09: discarding uncommitted changes (Rollback) returns the working state exactly to the last
    committed version.  Rolling back to version v (LoadVersionForOverwriting) removes every version
    greater than v and nothing else, and from then on the tree is indistinguishable from a tree
    whose history simply ended at v.

    The results hold under the usage contract of VersionFacts.v ([contig] states reached by
    [in_contract] steps).  Statements are restated in full; proofs are in VersionFacts.v. *)
From IAVL Require Import Bytes Varint Sha256 Tree VMap TreeFacts MTree MTreeFacts VersionFacts.
Local Open Scope Z_scope.

Theorem C09_defs :
  (forall o, root_only o =
     match o with
     | OSet _ _ | OSetNil _ | ORemove _ | ORead _ _ | OGetVersioned _ _ | OVersionExists _
     | OLatest | OAvailable | OWorkingHash | OWorkingVersion | OHash => true
     | _ => false
     end) /\
  (forall v o, no_prune_above v o =
     match o with OPrune _ => false | OLvfo w => v <=? w | _ => true end) /\
  (forall s b, set_init_set s b =
     MState (root s) (version s) (last_saved s) (forest s) (init_ver s) b (init_opt s)) /\
  (forall s v, base_state s v =
     (contig s /\ 1 <= v /\ version s = v /\ latest_version s = v /\ root s = last_saved s)) /\
  (forall s s', same_but_root s s' =
     (version s' = version s /\ last_saved s' = last_saved s /\ forest s' = forest s /\
      init_ver s' = init_ver s /\ init_set s' = init_set s /\ init_opt s' = init_opt s)) /\
  (forall H s o ops, run_ok H s (o :: ops) = (in_contract s o /\ run_ok H (fst (step H s o)) ops)) /\
  (forall H s, run_ok H s [] = True).
Proof. repeat split; intros; try destruct o; reflexivity. Qed.
Print Assumptions C09_defs.

(** *** 1. Rollback *)

Theorem C09_rollback_is_last_saved :
  forall (H : bytes -> bytes) (s : mstate),
    contig s ->
    let s' := fst (step H s ORollback) in
    snd (step H s ORollback) = XOk /\
    root s' = last_saved s /\
    same_but_root s s' /\
    contig s' /\
    (version s = 0 -> root s' = None /\ forest s' = []) /\
    (version s <> 0 ->
     lookup (version s) (forest s') = Some (root s') /\
     s' = fst (step H s (OLoad (version s))) /\
     working_version s' = version s + 1 /\
     (forall r : read,
        step H s' (ORead TWorking r) = step H s' (ORead (TVersion (version s)) r))).
Proof. exact rollback_is_last_saved. Qed.
Print Assumptions C09_rollback_is_last_saved.

(** whatever was written and read since the last commit / load, rollback restores that state
    exactly (every field) *)
Theorem C09_rollback_restores :
  forall (H : bytes -> bytes) (s0 : mstate) (ops : list op),
    contig s0 ->
    root s0 = last_saved s0 ->
    forallb root_only ops = true ->
    step H (fst (run H s0 ops)) ORollback = (s0, XOk).
Proof. exact rollback_restores. Qed.
Print Assumptions C09_rollback_restores.

(** *** 2. LoadVersionForOverwriting removes exactly the later versions *)

Theorem C09_lvfo_removes_exactly :
  forall (H : bytes -> bytes) (s : mstate) (v : Z),
    contig s -> in_range s v ->
    let s' := fst (step H s (OLvfo v)) in
    exists t : option node,
      lookup v (forest s) = Some t /\
      step H s (OLvfo v) =
        (MState t v t (filter (fun p => fst p <=? v) (forest s))
                (init_ver s) (init_set s) (init_opt s), XOk) /\
      (forall w : Z, w <= v -> lookup w (forest s') = lookup w (forest s)) /\
      (forall w : Z, v < w -> lookup w (forest s') = None) /\
      first_version s' = first_version s /\
      latest_version s' = v /\
      available s' = zrange (first_version s) v /\
      contig s'.
Proof. exact lvfo_removes_exactly. Qed.
Print Assumptions C09_lvfo_removes_exactly.

Theorem C09_lvfo_out_of_range :
  forall (H : bytes -> bytes) (s : mstate) (v : Z),
    contig s -> 0 < v -> ~ in_range s v -> step H s (OLvfo v) = (s, XErr).
Proof. exact lvfo_out_of_range. Qed.
Print Assumptions C09_lvfo_out_of_range.

(** *** 3. Afterwards the tree is the tree whose history ended at v *)

(** [s1]: any state right after committing / loading-for-overwriting its latest version [v].
    [ops]: any in-contract continuation without pruning and without rollbacks below [v].
    Then LoadVersionForOverwriting(v) restores [s1] in every field except the
    [initialVersionSet] flag, which keeps its current value. *)
Theorem C09_lvfo_equals_history_ended_at_v :
  forall (H : bytes -> bytes) (s1 : mstate) (v : Z) (ops : list op),
    base_state s1 v ->
    run_ok H s1 ops ->
    forallb (no_prune_above v) ops = true ->
    let s2 := fst (run H s1 ops) in
    step H s2 (OLvfo v) = (set_init_set s1 (init_set s2), XOk).
Proof. exact lvfo_equals_history_ended_at_v. Qed.
Print Assumptions C09_lvfo_equals_history_ended_at_v.

Theorem C09_lvfo_same_future :
  forall (H : bytes -> bytes) (s1 : mstate) (v : Z) (ops ops' : list op),
    base_state s1 v ->
    run_ok H s1 ops ->
    forallb (no_prune_above v) ops = true ->
    let s2 := fst (run H s1 ops) in
    run H (fst (step H s2 (OLvfo v))) ops' = run H (set_init_set s1 (init_set s2)) ops'.
Proof. exact lvfo_same_future. Qed.
Print Assumptions C09_lvfo_same_future.

(** the states are equal outright when the flag did not move (e.g. no reopen with the
    initial-version option in between) *)
Theorem C09_lvfo_restores_exactly :
  forall (H : bytes -> bytes) (s1 : mstate) (v : Z) (ops : list op),
    base_state s1 v ->
    run_ok H s1 ops ->
    forallb (no_prune_above v) ops = true ->
    init_set (fst (run H s1 ops)) = init_set s1 ->
    step H (fst (run H s1 ops)) (OLvfo v) = (s1, XOk).
Proof. exact lvfo_restores_exactly. Qed.
Print Assumptions C09_lvfo_restores_exactly.

(** the flag is unobservable once a version exists: states differing only in it give the same
    outputs along every in-contract history *)
Theorem C09_run_upto_init_set :
  forall (H : bytes -> bytes) (ops : list op) (s : mstate) (b : bool),
    contig s ->
    forest s <> [] ->
    run_ok H s ops ->
    snd (run H (set_init_set s b) ops) = snd (run H s ops) /\
    (exists b' : bool, fst (run H (set_init_set s b) ops) = set_init_set (fst (run H s ops)) b').
Proof. exact run_upto_init_set. Qed.
Print Assumptions C09_run_upto_init_set.

(** hence: every in-contract future of the rolled-back tree yields exactly the outputs (reads,
    commit hashes and version numbers, prune / reopen results) of the tree whose history ended
    at [v] *)
Theorem C09_lvfo_indistinguishable :
  forall (H : bytes -> bytes) (s1 : mstate) (v : Z) (ops ops' : list op),
    base_state s1 v ->
    run_ok H s1 ops ->
    forallb (no_prune_above v) ops = true ->
    run_ok H s1 ops' ->
    let s2 := fst (run H s1 ops) in
    snd (step H s2 (OLvfo v)) = XOk /\
    snd (run H (fst (step H s2 (OLvfo v))) ops') = snd (run H s1 ops') /\
    (exists b' : bool,
       fst (run H (fst (step H s2 (OLvfo v))) ops') = set_init_set (fst (run H s1 ops')) b').
Proof. exact lvfo_indistinguishable. Qed.
Print Assumptions C09_lvfo_indistinguishable.

(** *** Non-vacuity (SHA-256).  Base: three commits (the second without writes).  Continuation:
    two more commits, a load of an old version, a reopen, uncommitted writes, a rollback.
    Then LoadVersionForOverwriting(3). *)
Definition C09_k1 : bytes := [1%N].
Definition C09_k2 : bytes := [2%N].
Definition C09_k3 : bytes := [3%N].

Definition C09_base_ops : list op :=
  [OSet C09_k1 [10%N]; OSave; OSave; OSet C09_k2 [20%N]; OSave].
Definition C09_later_ops : list op :=
  [OSet C09_k3 [30%N]; OSave; ORemove C09_k1; OSave; OLoad 4; OReopen;
   OSet C09_k1 [11%N]; ORemove C09_k2; ORollback; OLvfo 4; OAvailable].
Definition C09_future_ops : list op :=
  [OAvailable; OSet C09_k3 [33%N]; OSave; ORead (TVersion 4) RHash; OReopen;
   ORead TWorking (RIter None None false true); OPrune 2; OAvailable].

Example C09_example :
  let s1 := fst (run sha256 (init_state 0 false) C09_base_ops) in
  let s2 := fst (run sha256 s1 C09_later_ops) in
  (* hypotheses *)
  base_state s1 3 /\
  run_okb sha256 s1 C09_later_ops = true /\
  forallb (no_prune_above 3) C09_later_ops = true /\
  run_okb sha256 s1 C09_future_ops = true /\
  (* what the continuation did: versions 4 and 5 were committed, 5 removed again *)
  last (snd (run sha256 s1 C09_later_ops)) XErr = XInts [1; 2; 3; 4] /\
  (* conclusions observed *)
  step sha256 s2 (OLvfo 3) = (s1, XOk) /\
  available (fst (step sha256 s2 (OLvfo 3))) = [1; 2; 3] /\
  snd (run sha256 (fst (step sha256 s2 (OLvfo 3))) C09_future_ops) =
    snd (run sha256 s1 C09_future_ops) /\
  exists h4,
    snd (run sha256 s1 C09_future_ops) =
      [XInts [1; 2; 3]; XBool false; XPair (XBytes (Some h4)) (XInt 4); XBytes (Some h4); XOk;
       XKvs [(C09_k1, [10%N]); (C09_k2, [20%N]); (C09_k3, [33%N])]; XOk; XInts [3; 4]].
Proof.
  cbv zeta.
  assert (C : contig (fst (run sha256 (init_state 0 false) C09_base_ops))).
  { apply reachable_contig; [unfold init_ok; lia|]. apply run_okb_iff. vm_compute. reflexivity. }
  split.
  { split; [exact C|]. split; [lia|]. repeat split; vm_compute; reflexivity. }
  split; [vm_compute; reflexivity|]. split; [vm_compute; reflexivity|].
  split; [vm_compute; reflexivity|]. split; [vm_compute; reflexivity|].
  split; [vm_compute; reflexivity|]. split; [vm_compute; reflexivity|].
  split; [vm_compute; reflexivity|].
  vm_compute. eexists. reflexivity.
Qed.

(** rollback: after a commit, uncommitted writes and reads are discarded exactly *)
Example C09_example_rollback :
  let s0 := fst (run sha256 (init_state 0 false) C09_base_ops) in
  let ops := [OSet C09_k3 [30%N]; ORemove C09_k1; ORead TWorking RSize; OSet C09_k2 [21%N]] in
  let s := fst (run sha256 s0 ops) in
  contig s0 /\ root s0 = last_saved s0 /\ forallb root_only ops = true /\
  root s <> root s0 /\
  step sha256 s ORollback = (s0, XOk) /\
  (forall r, r = RHash \/ r = RSize \/ r = RGet C09_k1 ->
     step sha256 (fst (step sha256 s ORollback)) (ORead TWorking r) =
     step sha256 (fst (step sha256 s ORollback)) (ORead (TVersion 3) r)).
Proof.
  cbv zeta.
  split.
  { apply reachable_contig; [unfold init_ok; lia|]. apply run_okb_iff. vm_compute. reflexivity. }
  split; [vm_compute; reflexivity|]. split; [vm_compute; reflexivity|].
  split; [vm_compute; discriminate|]. split; [vm_compute; reflexivity|].
  intros r [->|[->| ->]]; vm_compute; reflexivity.
Qed.

(** *** Node keys of the erased future are reused, the node cache is never invalidated
    (NodeCache.v).  From ANY cache state (no coherence needed - the cache may be full of nodes of
    the erased timeline) and for EVERY capacity: delete the keys of the versions above [v], commit,
    save the new nodes under the reused keys, commit: GetNode of a reused key returns the NEW
    node.  What makes it true is that SaveNode replaces the cached entry of the key it writes;
    the two variants without that are refuted in Properties/C01. *)
From IAVL Require Import Store StoreFacts NodeCache NodeCacheFacts.

Theorem C09_reused_node_keys_read_the_new_nodes :
  forall (V : Type) (is_node : V -> bool) (cap : nat) (st : cstate V)
         (dels : list (Z * Z)) (news : list (Z * Z * V)) (k : Z * Z) (v : V),
    lru_wf (cache st) -> NoDup (map fst news) -> In (k, v) news -> is_node v = true ->
    last (fst (crun is_node cap st
                 (map (@CDel V) dels ++ [CCommit] ++ save_ops news ++ [CCommit; CGet k])))
         OUnit = OGot (Some v).
Proof. exact rollback_recommit. Qed.
Print Assumptions C09_reused_node_keys_read_the_new_nodes.
