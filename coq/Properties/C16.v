(** C16: databases in the legacy (pre-1.0) format stay fully usable.
    A legacy node is stored under its hash and refers to its children by hash.  Every legacy
    version opens with the contents and hashes the legacy library reported; the hash of a node
    does not depend on the storage format; versions committed on top of a loaded legacy tree
    are the canonical ones.
    FINDING (C16-history-rewritten): re-saving referenced legacy roots uses the node key
    (version, 0), which all legacy nodes of one version share.
    Statements are restated in full; proofs are in LegacyFacts.v. *)
From IAVL Require Import Bytes Varint Sha256 Tree VMap TreeFacts MTree MTreeFacts HashFacts
  Codec CodecFacts V2 V2Facts Legacy LegacyFacts.
Local Open Scope Z_scope.

(** Item 7: what the legacy library wrote for [t] reads back, through MakeLegacyNode, as [t]
    itself up to node keys (now (version, 0)) and stored hashes (now present everywhere):
    same keys, values, heights, sizes, versions. *)
Theorem C16_legacy_roundtrip :
  forall (H : bytes -> bytes) (t : node),
    legacy_ok H t -> NoDup (map fst (legacy_nodes H t)) ->
    let st := fst (legacy_encode_tree H t) in
    legacy_load (S (length st)) (lstore_bytes st) (snd (legacy_encode_tree H t)) =
      Some (legacy_view H t) /\
    veq 0 (legacy_view H t) t /\ shape_eq 0 (legacy_view H t) t /\
    hs (nmeta (legacy_view H t)) = snd (legacy_encode_tree H t).
Proof. exact legacy_roundtrip. Qed.
Print Assumptions C16_legacy_roundtrip.

Theorem C16_legacy_roundtrip_store :
  forall (H : bytes -> bytes) (t : node) (st : lstore),
    legacy_ok H t -> NoDup (map fst st) -> incl (legacy_nodes H t) st ->
    (ldepth t <= length st)%nat ->
    legacy_load (S (length st)) (lstore_bytes st) (pure_hash H 0 t) = Some (legacy_view H t).
Proof. exact legacy_roundtrip_store. Qed.
Print Assumptions C16_legacy_roundtrip_store.

(** Item 8. *)
Theorem C16_same_hash_rule :
  forall (H : bytes -> bytes) (t : node),
    (forall H' wv, pure_hash H' wv (legacy_view H t) = pure_hash H' wv t) /\
    elems (legacy_view H t) = elems t /\ height (legacy_view H t) = height t /\
    size (legacy_view H t) = size t /\
    (all_persisted t -> hash_ok H (legacy_view H t) /\ all_persisted (legacy_view H t) /\
                        forall wv, node_hash H wv (legacy_view H t) = pure_hash H 0 t).
Proof. exact same_hash_rule. Qed.
Print Assumptions C16_same_hash_rule.

Theorem C16_legacy_then_write :
  forall (wv : Z) (t' t : node),
    veq wv t' t ->
    (forall k v, veq wv (fst (set t' k v)) (fst (set t k v)) /\ snd (set t' k v) = snd (set t k v)) /\
    (forall k, rm_rel wv (remove t' k) (remove t k)).
Proof. exact legacy_then_write. Qed.
Print Assumptions C16_legacy_then_write.

Theorem C16_legacy_then_commit :
  forall (H : bytes -> bytes) (wv n n' : Z) (t' t : node),
    wv <> 0 -> veq wv t' t ->
    veq wv (fst (stamp H wv n' t')) (fst (stamp H wv n t)) /\
    (hash_ok H t' -> hash_ok H t -> 0 < wv ->
       hs (nmeta (fst (stamp H wv n' t'))) = hs (nmeta (fst (stamp H wv n t)))).
Proof. exact legacy_then_commit. Qed.
Print Assumptions C16_legacy_then_commit.

Theorem C16_fetch_any_legacy :
  forall (newst legst : lbstore) (nk : bytes),
    length nk = 32%nat ->
    fetch_any newst legst nk =
      match lfind nk legst with Some b => FFound true b | None => FMissing end.
Proof. exact fetch_any_legacy. Qed.
Print Assumptions C16_fetch_any_legacy.

Theorem C16_fetch_any_new :
  forall (newst legst : lbstore) (nk b : bytes),
    length nk <> 32%nat -> lfind nk newst = Some b -> fetch_any newst legst nk = FFound false b.
Proof. exact fetch_any_new. Qed.
Print Assumptions C16_fetch_any_new.

(** Item 9: REFUTED (recorded finding C16-history-rewritten). *)
Theorem C16_legacy_key_collision_refuted :
  exists (t : node) (h1 h2 : bytes) (n1 n2 : raw_legacy_node),
    In (h1, n1) (legacy_nodes sha256 t) /\ In (h2, n2) (legacy_nodes sha256 t) /\
    h1 <> h2 /\ n1 <> n2 /\ ln_version n1 = ln_version n2 /\
    resave_key n1 = resave_key n2 /\
    let key := fst (resave_entry h1 n1) in
    let st1 := lput (resave_entry h1 n1) [] in
    let st2 := lput (resave_entry h2 n2) st1 in
    option_map (fun b => dmap rn_height (decode_node key b)) (lfind key st1) = Some (DOk 1) /\
    option_map (fun b => dmap rn_height (decode_node key b)) (lfind key st2) = Some (DOk 0).
Proof. exact legacy_key_collision_refuted. Qed.
Print Assumptions C16_legacy_key_collision_refuted.

(** *** Non-vacuity.  The tree of version 2 of a v1 history (SHA-256): five leaves, nodes of
    versions 1 and 2.  Its legacy encoding satisfies the hypotheses, reads back, and a write
    plus commit on the loaded tree gives the hash the same write gives on the original. *)
Definition C16_tree : option node :=
  match lookup 2 (forest (fst (MTree.run sha256 (init_state 0 false)
          [OSet [1%N] [10%N]; OSet [2%N] [20%N]; OSet [3%N] [30%N]; OSet [4%N] [40%N]; OSave;
           OSet [5%N] [50%N]; OSet [2%N] [21%N]; ORemove [1%N]; OSet [6%N] [60%N]; OSave]))) with
  | Some t => t
  | None => None
  end.

Example C16_example :
  match C16_tree with
  | Some t =>
      let st := fst (legacy_encode_tree sha256 t) in
      let root := snd (legacy_encode_tree sha256 t) in
      match legacy_load (S (length st)) (lstore_bytes st) root with
      | Some t' =>
          let w x := fst (stamp sha256 3 0 (fst (set x [7%N] [70%N]))) in
          Some (length st, nodupb (map fst st), length root,
                elems t', bytes_eqb (hs (nmeta t')) (hs (nmeta t)),
                bytes_eqb (pure_hash sha256 0 t') (pure_hash sha256 0 t),
                bytes_eqb (hs (nmeta (w t'))) (hs (nmeta (w t))),
                bytes_eqb (hs (nmeta (w t))) (hs (nmeta t)))
      | None => None
      end
  | None => None
  end =
  Some (9%nat, true, 32%nat,
        [([2%N], [21%N]); ([3%N], [30%N]); ([4%N], [40%N]); ([5%N], [50%N]); ([6%N], [60%N])],
        true, true, true, false).
Proof. vm_compute. reflexivity. Qed.

(** the hypotheses of [C16_legacy_roundtrip] hold for that tree *)
Example C16_example_hyps :
  exists t, C16_tree = Some t /\
            legacy_ok sha256 t /\ NoDup (map fst (legacy_nodes sha256 t)).
Proof.
  destruct C16_tree as [t|] eqn:E; [|vm_compute in E; discriminate E].
  exists t. split; [reflexivity|].
  assert (B : legacy_okb sha256 t && nodupb (map fst (legacy_nodes sha256 t)) = true).
  { assert (B0 : match C16_tree with
                 | Some t => legacy_okb sha256 t && nodupb (map fst (legacy_nodes sha256 t))
                 | None => false
                 end = true) by (vm_compute; reflexivity).
    rewrite E in B0. exact B0. }
  apply andb_prop in B. destruct B as [B1 B2].
  split; [apply legacy_okb_sound, B1|apply nodupb_sound, B2].
Qed.
