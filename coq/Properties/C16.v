(** C16: databases in the legacy (pre-1.0) format stay fully usable.
    A legacy node is stored under its hash and refers to its children by hash.  Every legacy
    version opens with the contents and hashes the legacy library reported; the hash of a node
    does not depend on the storage format; versions committed on top of a loaded legacy tree
    are the canonical ones.
    FINDING (C16-history-rewritten): re-saving referenced legacy roots uses the node key
    (version, 0), which all legacy nodes of one version share.
    Statements are restated in full; proofs are in LegacyFacts.v. *)
From IAVL Require Import Bytes Varint Sha256 Tree VMap TreeFacts MTree MTreeFacts HashFacts
  Codec CodecFacts V2 V2Facts Legacy LegacyFacts.
Local Open Scope Z_scope.

(** Item 7: what the legacy library wrote for [t] reads back, through MakeLegacyNode, as [t]
    itself up to node keys (now (version, 0)) and stored hashes (now present everywhere):
    same keys, values, heights, sizes, versions. *)
Theorem C16_legacy_roundtrip :
  forall (H : bytes -> bytes) (t : node),
    legacy_ok H t -> NoDup (map fst (legacy_nodes H t)) ->
    let st := fst (legacy_encode_tree H t) in
    legacy_load (S (length st)) (lstore_bytes st) (snd (legacy_encode_tree H t)) =
      Some (legacy_view H t) /\
    veq 0 (legacy_view H t) t /\ shape_eq 0 (legacy_view H t) t /\
    hs (nmeta (legacy_view H t)) = snd (legacy_encode_tree H t).
Proof. exact legacy_roundtrip. Qed.
Print Assumptions C16_legacy_roundtrip.

Theorem C16_legacy_roundtrip_store :
  forall (H : bytes -> bytes) (t : node) (st : lstore),
    legacy_ok H t -> NoDup (map fst st) -> incl (legacy_nodes H t) st ->
    (ldepth t <= length st)%nat ->
    legacy_load (S (length st)) (lstore_bytes st) (pure_hash H 0 t) = Some (legacy_view H t).
Proof. exact legacy_roundtrip_store. Qed.
Print Assumptions C16_legacy_roundtrip_store.

(** Item 8. *)
Theorem C16_same_hash_rule :
  forall (H : bytes -> bytes) (t : node),
    (forall H' wv, pure_hash H' wv (legacy_view H t) = pure_hash H' wv t) /\
    elems (legacy_view H t) = elems t /\ height (legacy_view H t) = height t /\
    size (legacy_view H t) = size t /\
    (all_persisted t -> hash_ok H (legacy_view H t) /\ all_persisted (legacy_view H t) /\
                        forall wv, node_hash H wv (legacy_view H t) = pure_hash H 0 t).
Proof. exact same_hash_rule. Qed.
Print Assumptions C16_same_hash_rule.

Theorem C16_legacy_then_write :
  forall (wv : Z) (t' t : node),
    veq wv t' t ->
    (forall k v, veq wv (fst (set t' k v)) (fst (set t k v)) /\ snd (set t' k v) = snd (set t k v)) /\
    (forall k, rm_rel wv (remove t' k) (remove t k)).
Proof. exact legacy_then_write. Qed.
Print Assumptions C16_legacy_then_write.

Theorem C16_legacy_then_commit :
  forall (H : bytes -> bytes) (wv n n' : Z) (t' t : node),
    wv <> 0 -> veq wv t' t ->
    veq wv (fst (stamp H wv n' t')) (fst (stamp H wv n t)) /\
    (hash_ok H t' -> hash_ok H t -> 0 < wv ->
       hs (nmeta (fst (stamp H wv n' t'))) = hs (nmeta (fst (stamp H wv n t)))).
Proof. exact legacy_then_commit. Qed.
Print Assumptions C16_legacy_then_commit.

Theorem C16_fetch_any_legacy :
  forall (newst legst : lbstore) (nk : bytes),
    length nk = 32%nat ->
    fetch_any newst legst nk =
      match lfind nk legst with Some b => FFound true b | None => FMissing end.
Proof. exact fetch_any_legacy. Qed.
Print Assumptions C16_fetch_any_legacy.

Theorem C16_fetch_any_new :
  forall (newst legst : lbstore) (nk b : bytes),
    length nk <> 32%nat -> lfind nk newst = Some b -> fetch_any newst legst nk = FFound false b.
Proof. exact fetch_any_new. Qed.
Print Assumptions C16_fetch_any_new.

(** Item 9: REFUTED (recorded finding C16-history-rewritten). *)
Theorem C16_legacy_key_collision_refuted :
  exists (t : node) (h1 h2 : bytes) (n1 n2 : raw_legacy_node),
    In (h1, n1) (legacy_nodes sha256 t) /\ In (h2, n2) (legacy_nodes sha256 t) /\
    h1 <> h2 /\ n1 <> n2 /\ ln_version n1 = ln_version n2 /\
    resave_key n1 = resave_key n2 /\
    let key := fst (resave_entry h1 n1) in
    let st1 := lput (resave_entry h1 n1) [] in
    let st2 := lput (resave_entry h2 n2) st1 in
    option_map (fun b => dmap rn_height (decode_node key b)) (lfind key st1) = Some (DOk 1) /\
    option_map (fun b => dmap rn_height (decode_node key b)) (lfind key st2) = Some (DOk 0).
Proof. exact legacy_key_collision_refuted. Qed.
Print Assumptions C16_legacy_key_collision_refuted.

(** *** Non-vacuity.  The tree of version 2 of a v1 history (SHA-256): five leaves, nodes of
    versions 1 and 2.  Its legacy encoding satisfies the hypotheses, reads back, and a write
    plus commit on the loaded tree gives the hash the same write gives on the original. *)
Definition C16_tree : option node :=
  match lookup 2 (forest (fst (MTree.run sha256 (init_state 0 false)
          [OSet [1%N] [10%N]; OSet [2%N] [20%N]; OSet [3%N] [30%N]; OSet [4%N] [40%N]; OSave;
           OSet [5%N] [50%N]; OSet [2%N] [21%N]; ORemove [1%N]; OSet [6%N] [60%N]; OSave]))) with
  | Some t => t
  | None => None
  end.

Example C16_example :
  match C16_tree with
  | Some t =>
      let st := fst (legacy_encode_tree sha256 t) in
      let root := snd (legacy_encode_tree sha256 t) in
      match legacy_load (S (length st)) (lstore_bytes st) root with
      | Some t' =>
          let w x := fst (stamp sha256 3 0 (fst (set x [7%N] [70%N]))) in
          Some (length st, nodupb (map fst st), length root,
                elems t', bytes_eqb (hs (nmeta t')) (hs (nmeta t)),
                bytes_eqb (pure_hash sha256 0 t') (pure_hash sha256 0 t),
                bytes_eqb (hs (nmeta (w t'))) (hs (nmeta (w t))),
                bytes_eqb (hs (nmeta (w t))) (hs (nmeta t)))
      | None => None
      end
  | None => None
  end =
  Some (9%nat, true, 32%nat,
        [([2%N], [21%N]); ([3%N], [30%N]); ([4%N], [40%N]); ([5%N], [50%N]); ([6%N], [60%N])],
        true, true, true, false).
Proof. vm_compute. reflexivity. Qed.

(** the hypotheses of [C16_legacy_roundtrip] hold for that tree *)
Example C16_example_hyps :
  exists t, C16_tree = Some t /\
            legacy_ok sha256 t /\ NoDup (map fst (legacy_nodes sha256 t)).
Proof.
  destruct C16_tree as [t|] eqn:E; [|vm_compute in E; discriminate E].
  exists t. split; [reflexivity|].
  assert (B : legacy_okb sha256 t && nodupb (map fst (legacy_nodes sha256 t)) = true).
  { assert (B0 : match C16_tree with
                 | Some t => legacy_okb sha256 t && nodupb (map fst (legacy_nodes sha256 t))
                 | None => false
                 end = true) by (vm_compute; reflexivity).
    rewrite E in B0. exact B0. }
  apply andb_prop in B. destruct B as [B1 B2].
  split; [apply legacy_okb_sound, B1|apply nodupb_sound, B2].
Qed.

(** ===== Deletion side of the legacy store (LegacyStore.v / LegacyStoreFacts.v) ===== *)
(** C16, deletion side: the legacy node store (nodes by hash, orphan records, root records),
    the library that wrote it (iavl v0.20.0: SaveVersion, DeleteVersion) and the code of the new
    library that deletes from it (deleteLegacyNodes / DeleteVersionsFrom, deleteLegacyVersions /
    deleteVersionsTo).  Model: LegacyStore.v; proofs: LegacyStoreFacts.v.

    Vocabulary (LegacyStoreFacts.v):
    - [hash_inj_on H U]: two nodes (subtrees) of the trees of [U] with the same hash are stored
      as the same legacy node (no collision of [H] on the trees of [U]);
    - [legacy_hist_ok H U ops]: every tree committed by [ops] is a tree of [U], and each of its
      nodes carries the version being committed or is a node of the latest version (what a
      commit of the tree algebra M1 produces); deletions are unconstrained, a refused one
      (version <= 0, latest, or absent) changes nothing;
    - [tree_storable H t]: the legacy codec stores and reads back every node of [t]
      ([legacy_ok]), the hashes of [t] are pairwise distinct, the root hash is not [[]];
    - [on_top_of U L tL tL1]: [tL1] is a tree of [U] whose nodes of version <= L are nodes
      of [tL];
    - [legacy_part_kept H db' L tL1]: every node of [tL1] of version <= L is in the node table
      of [db'] under its hash, with the bytes the legacy library wrote.
    FINDINGS: the seeded variants C16 (sweep guard [<=]), C16b (clean-up guard [>]) and C16e
    (children test in deleteLegacyNodes) are refuted on concrete histories; exactness of the
    final clean-up is REFUTED for the transcribed code (a storage leak, nothing is lost). *)
From IAVL Require Import Bytes Varint Sha256 Tree VMap TreeFacts MTree MTreeFacts HashFacts
  Codec CodecFacts Legacy LegacyFacts LegacyStore LegacyStoreFacts.
Local Open Scope Z_scope.

(** 1. After any history of the legacy library every retained version has its root record and
    all its nodes, and loads back as the M1 tree. *)
Theorem C16b_legacy_writer_closed :
  forall (H : bytes -> bytes) (U : list node),
    hash_inj_on H U ->
    forall ops : list lop,
      legacy_hist_ok H U ops ->
      let db := fst (legacy_history H ops) in
      let f := snd (legacy_history H ops) in
      (forall v t, In (v, t) f -> lookup v (lroots db) = Some (legacy_root_value H t)) /\
      (forall v t n, In (v, Some t) f -> subtree n t ->
                     lfind (nhash H n) (lnodes db) = Some (legacy_raw H n)) /\
      ((forall v t, In (v, Some t) f -> tree_storable H t) -> legacy_closedb H db f = true).
Proof. exact legacy_writer_closed. Qed.
Print Assumptions C16b_legacy_writer_closed.

(** 2. The orphan records. *)
Theorem C16b_orphan_records_sound :
  forall (H : bytes -> bytes) (U : list node),
    hash_inj_on H U ->
    forall ops : list lop,
      legacy_hist_ok H U ops ->
      let db := fst (legacy_history H ops) in
      let f := snd (legacy_history H ops) in
      forall (to from : Z) (h : bytes),
        In ((to, from), h) (lorph db) ->
        from <= to /\
        (exists n, sub_of U n /\ nhash H n = h /\ ver (nmeta n) = from) /\
        (forall v t, In (v, t) f -> from <= v <= to -> In h (otree_hashes H t)) /\
        (forall v t, In (v, t) f -> to < v -> ~ In h (otree_hashes H t)) /\
        (exists v t, In (v, t) f /\ to < v).
Proof. exact orphan_records_sound. Qed.
Print Assumptions C16b_orphan_records_sound.

(** 3. The legacy part of DeleteVersionsFrom(from). *)
Theorem C16b_rollback_legacy_safe :
  forall (H : bytes -> bytes) (U : list node),
    hash_inj_on H U ->
    forall (ops : list lop) (fuel : nat) (from : Z),
      legacy_hist_ok H U ops -> 1 <= from ->
      let db := fst (legacy_history H ops) in
      let f := snd (legacy_history H ops) in
      (forall v t, In (v, Some t) f -> (ldepth t <= fuel)%nat) ->
      let f' := filter (fun p => fst p <? from) f in
      exists db', rollback_legacy fuel db from = Some db' /\
        (forall v t, In (v, t) f' -> lookup v (lroots db') = Some (legacy_root_value H t)) /\
        (forall v t n, In (v, Some t) f' -> subtree n t ->
                       lfind (nhash H n) (lnodes db') = Some (legacy_raw H n)) /\
        ((forall v t, In (v, Some t) f' -> tree_storable H t) -> legacy_closedb H db' f' = true) /\
        (forall v, from <= v -> lookup v (lroots db') = None) /\
        (forall h n, lfind h (lnodes db) = Some n -> ln_version n < from ->
                     lfind h (lnodes db') = Some n) /\
        (forall h, lfind h (lnodes db) = None -> lfind h (lnodes db') = None) /\
        lorph db' = lorph db.
Proof. exact rollback_legacy_safe. Qed.
Print Assumptions C16b_rollback_legacy_safe.

(** 4. deleteLegacyVersions(L), right after a legacy history ... *)
Theorem C16b_delete_legacy_versions_safe :
  forall (H : bytes -> bytes) (U : list node),
    hash_inj_on H U ->
    forall (ops : list lop) (L : Z) (tL tL1 : option node),
      legacy_hist_ok H U ops ->
      let db := fst (legacy_history H ops) in
      let f := snd (legacy_history H ops) in
      In (L, tL) f -> on_top_of U L tL tL1 ->
      let db' := delete_legacy_versions H db L tL tL1 in
      legacy_part_kept H db' L tL1 /\
      (forall h, lfind h (lnodes db) = None -> lfind h (lnodes db') = None) /\
      lroots db' = [] /\ lorph db' = [].
Proof. exact delete_legacy_versions_safe. Qed.
Print Assumptions C16b_delete_legacy_versions_safe.

(** ... and after a rollback into the legacy versions. *)
Theorem C16b_delete_legacy_versions_safe_after_rollback :
  forall (H : bytes -> bytes) (U : list node),
    hash_inj_on H U ->
    forall (ops : list lop) (fuel : nat) (from : Z) (dbr : ldb) (L : Z) (tL tL1 : option node),
      legacy_hist_ok H U ops -> 1 <= from ->
      let db := fst (legacy_history H ops) in
      let f := snd (legacy_history H ops) in
      (forall v t, In (v, Some t) f -> (ldepth t <= fuel)%nat) ->
      rollback_legacy fuel db from = Some dbr ->
      In (L, tL) (filter (fun p => fst p <? from) f) -> on_top_of U L tL tL1 ->
      let db' := delete_legacy_versions H dbr L tL tL1 in
      legacy_part_kept H db' L tL1 /\
      (forall h, lfind h (lnodes dbr) = None -> lfind h (lnodes db') = None) /\
      lroots db' = [] /\ lorph db' = [].
Proof. exact delete_legacy_versions_safe_after_rollback. Qed.
Print Assumptions C16b_delete_legacy_versions_safe_after_rollback.

(** Seeded variant C16e (children test in deleteLegacyNodes): REFUTED.
    History: v1 = {a, b}, v2 = v1 committed without changes, v3 adds c; DeleteVersionsFrom(2). *)
Theorem C16b_rollback_children_test_refuted :
  exists (ops : list lop) (from : Z),
    let db := fst (legacy_history sha256 ops) in
    let f := snd (legacy_history sha256 ops) in
    let f' := filter (fun p => fst p <? from) f in
    legacy_hist_okb sha256 (trees_of_ops ops) ops = true /\
    hash_inj_listb sha256 (trees_of_ops ops) = true /\
    legacy_closedb sha256 db f = true /\
    match rollback_legacy_children_test (legacy_fuel db) db from,
          rollback_legacy (legacy_fuel db) db from with
    | Some bad, Some good =>
        legacy_closedb sha256 bad f' = false /\ legacy_closedb sha256 good f' = true /\
        existsb (fun p => (ln_version (snd p) <? from) &&
                          negb (hmem (fst p) (map fst (lnodes bad)))) (lnodes db) = true
    | _, _ => False
    end.
Proof. exact rollback_children_test_refuted. Qed.
Print Assumptions C16b_rollback_children_test_refuted.

(** Seeded variant C16 (sweep guard [toVersion <= L]): REFUTED.
    History: three legacy versions, version 3 rewrites key 2; DeleteVersionsFrom(3); version 3'
    (new format) adds key 5; deleteLegacyVersions(2). *)
Theorem C16b_sweep_guard_le_refuted :
  exists (ops : list lop) (from L : Z) (tL1 : option node),
    let db := fst (legacy_history sha256 ops) in
    let f := snd (legacy_history sha256 ops) in
    let tL := latest_tree f L in
    let U := with_tree (trees_of_ops ops) tL1 in
    legacy_hist_okb sha256 U ops = true /\ hash_inj_listb sha256 U = true /\
    on_top_ofb U L tL tL1 = true /\
    match rollback_legacy (legacy_fuel db) db from with
    | Some dbr =>
        legacy_latest dbr = L /\
        legacy_lost sha256 (delete_legacy_versions_le sha256 dbr L tL tL1) tL tL1 <> [] /\
        legacy_lost sha256 (delete_legacy_versions sha256 dbr L tL tL1) tL tL1 = []
    | None => False
    end.
Proof. exact sweep_guard_le_refuted. Qed.
Print Assumptions C16b_sweep_guard_le_refuted.

(** Seeded variant C16b (clean-up guard [legacyLatestVersion > first]): REFUTED. *)
Theorem C16b_prune_legacy_gt_refuted :
  let db := fst (legacy_history sha256 (commits_of (firstn 1 refE_forest))) in
  let tL := latest_tree refE_forest 1 in
  let tL1 := latest_tree refE_forest 2 in
  legacy_latest db = 1 /\
  match prune_legacy sha256 db 1 1 2 tL tL1, prune_legacy_gt sha256 db 1 1 2 tL tL1 with
  | Some good, Some bad => lroots good = [] /\ lroots bad <> [] /\ legacy_lost sha256 good tL tL1 = []
  | _, _ => False
  end.
Proof. exact prune_legacy_gt_refuted. Qed.
Print Assumptions C16b_prune_legacy_gt_refuted.

(** 5. Exactness of the final clean-up: REFUTED for the transcribed code (a leak).
    History: legacy versions 1, 2, 3, the legacy library deletes version 2 (a node created by
    version 2 lives on in version 3); DeleteVersionsFrom(2); version 2' in the new format;
    deleteLegacyVersions(1).  The node of version 2 is never deleted. *)
Theorem C16b_delete_legacy_versions_exact_refuted :
  exists (ops : list lop) (from L : Z) (tL1 : option node),
    let db := fst (legacy_history sha256 ops) in
    let f := snd (legacy_history sha256 ops) in
    let f' := filter (fun p => fst p <? from) f in
    let tL := latest_tree f L in
    let U := with_tree (trees_of_ops ops) tL1 in
    legacy_hist_okb sha256 U ops = true /\ hash_inj_listb sha256 U = true /\
    on_top_ofb U L tL tL1 = true /\
    legacy_garbage sha256 db f = [] /\
    match rollback_legacy (legacy_fuel db) db from with
    | Some dbr =>
        legacy_latest dbr = L /\ legacy_closedb sha256 dbr f' = true /\
        legacy_garbage sha256 dbr f' <> [] /\
        let db' := delete_legacy_versions sha256 dbr L tL tL1 in
        legacy_unreachable sha256 db' tL1 <> [] /\ legacy_lost sha256 db' tL tL1 = []
    | None => False
    end.
Proof. exact delete_legacy_versions_exact_refuted. Qed.
Print Assumptions C16b_delete_legacy_versions_exact_refuted.

(** *** Non-vacuity (SHA-256).  M1 history with five versions: v1 = {1,2,3,4}; v2 adds 5 and
    removes 1; v3 = v2 committed without changes; v4 rewrites 2; v5 adds 6 and removes 3.
    The legacy library commits 1, 2, 3, deletes version 2, commits 4, 5, then is asked to delete
    version 9 (absent) and version 5 (latest): both refused.  The new library rolls back to
    version 4 (DeleteVersionsFrom(5)), commits 5' (adds 7) in the new format and prunes the
    legacy versions (deleteLegacyVersions(4)). *)
Definition C16b_m1 : list op :=
  [OSet [1%N] [10%N]; OSet [2%N] [20%N]; OSet [3%N] [30%N]; OSet [4%N] [40%N]; OSave;
   OSet [5%N] [50%N]; ORemove [1%N]; OSave; OSave; OSet [2%N] [21%N]; OSave;
   OSet [6%N] [60%N]; ORemove [3%N]; OSave].
Definition C16b_forest : lforest := m1_forest C16b_m1.
Definition C16b_ops : list lop :=
  commits_of (firstn 3 C16b_forest) ++ [LDelete 2] ++ commits_of (skipn 3 C16b_forest) ++
  [LDelete 9; LDelete 5].
Definition C16b_new : option node :=
  latest_tree (m1_forest (C16b_m1 ++ [OLvfo 4; OSet [7%N] [70%N]; OSave])) 5.
Definition C16b_U : list node := with_tree (trees_of_ops C16b_ops) C16b_new.

Definition C16b_expected :=
  ([true; true; true; true; true; true; false; false], [1; 3; 4; 5], 18%nat, 11%nat, [1; 3; 4; 5],
   true, @nil bytes, 5,
   Some ([1; 3; 4], 14%nat, 11%nat, true, @nil bytes, 4, 5%nat, @nil orec, @nil (Z * bytes),
         @nil bytes, @nil bytes, -1)).

Example C16b_example :
  let st := legacy_history_log sha256 (empty_ldb, []) C16b_ops in
  let db := fst (fst st) in
  let f := snd (fst st) in
  let f4 := filter (fun p => fst p <? 5) f in
  let tL := latest_tree f 4 in
  (snd st, map fst f, length (lnodes db), length (lorph db), map fst (lroots db),
   legacy_closedb sha256 db f, legacy_garbage sha256 db f, legacy_latest db,
   match rollback_legacy (legacy_fuel db) db 5 with
   | Some dbr =>
       let db' := delete_legacy_versions sha256 dbr 4 tL C16b_new in
       Some (map fst (lroots dbr), length (lnodes dbr), length (lorph dbr),
             legacy_closedb sha256 dbr f4, legacy_garbage sha256 dbr f4, legacy_latest dbr,
             length (lnodes db'), lorph db', lroots db',
             legacy_lost sha256 db' tL C16b_new, legacy_unreachable sha256 db' C16b_new,
             legacy_latest db')
   | None => None
   end) =
  C16b_expected.
Proof. vm_cast_no_check (eq_refl C16b_expected). Qed.

(** the hypotheses of the theorems above hold for that history *)
Local Notation C16b_st := (legacy_history sha256 C16b_ops).

Example C16b_example_inj : hash_inj_on sha256 C16b_U.
Proof. apply hash_inj_listb_sound. vm_cast_no_check (eq_refl true). Qed.

Example C16b_example_hist : legacy_hist_ok sha256 C16b_U C16b_ops.
Proof. apply legacy_hist_okb_sound. vm_cast_no_check (eq_refl true). Qed.

Example C16b_example_trees :
  forall v t, In (v, Some t) (snd C16b_st) ->
              tree_storable sha256 t /\ (ldepth t <= legacy_fuel (fst C16b_st))%nat.
Proof.
  intros v t I.
  assert (B : tree_storableb sha256 t && ldepthb_le (legacy_fuel (fst C16b_st)) t = true).
  { refine (forest_allb_sound
              (fun t => tree_storableb sha256 t && ldepthb_le (legacy_fuel (fst C16b_st)) t)
              _ _ v t I).
    vm_cast_no_check (eq_refl true). }
  apply andb_prop in B. destruct B as [B1 B2].
  split; [apply tree_storableb_sound, B1|apply ldepthb_le_sound, B2].
Qed.

Example C16b_example_version :
  In (4, latest_tree (snd C16b_st) 4) (filter (fun p => fst p <? 5) (snd C16b_st)).
Proof.
  apply latest_tree_In; [lia|].
  assert (B : match lookup 4 (snd C16b_st) with Some _ => true | None => false end = true)
    by (vm_cast_no_check (eq_refl true)).
  destruct (lookup 4 (snd C16b_st)) as [t|]; [eauto|discriminate B].
Qed.

Example C16b_example_on_top : on_top_of C16b_U 4 (latest_tree (snd C16b_st) 4) C16b_new.
Proof. apply on_top_ofb_sound. vm_cast_no_check (eq_refl true). Qed.

(** the theorems instantiated on it: the rollback succeeds, and the final clean-up keeps the
    legacy part of version 5' *)
Example C16b_example_instance :
  exists dbr,
    rollback_legacy (legacy_fuel (fst C16b_st)) (fst C16b_st) 5 = Some dbr /\
    legacy_closedb sha256 dbr (filter (fun p => fst p <? 5) (snd C16b_st)) = true /\
    legacy_part_kept sha256
      (delete_legacy_versions sha256 dbr 4 (latest_tree (snd C16b_st) 4) C16b_new) 4 C16b_new /\
    lroots (delete_legacy_versions sha256 dbr 4 (latest_tree (snd C16b_st) 4) C16b_new) = [] /\
    lorph (delete_legacy_versions sha256 dbr 4 (latest_tree (snd C16b_st) 4) C16b_new) = [].
Proof.
  assert (P : 1 <= 5) by lia.
  pose proof (fun v t I => proj2 (C16b_example_trees v t I)) as Fuel.
  destruct (C16b_rollback_legacy_safe sha256 C16b_U C16b_example_inj C16b_ops
              (legacy_fuel (fst C16b_st)) 5 C16b_example_hist P Fuel)
    as (dbr & E & _ & _ & Cl & _).
  exists dbr. split; [exact E|]. split.
  - exact (Cl (forest_filter_sub (fun _ t => tree_storable sha256 t) _ _
                 (fun v t I => proj1 (C16b_example_trees v t I)))).
  - pose proof (C16b_delete_legacy_versions_safe_after_rollback sha256 C16b_U C16b_example_inj
                C16b_ops (legacy_fuel (fst C16b_st)) 5 dbr 4 (latest_tree (snd C16b_st) 4) C16b_new
                C16b_example_hist P Fuel E C16b_example_version C16b_example_on_top) as K.
    cbv zeta in K.
    exact (conj (proj1 K) (proj2 (proj2 K))).
Qed.
