(** C05: if the process stops between any two physical storage writes during a commit, a
    deletion of old versions or a rollback, reopening succeeds and shows either the state before
    the operation or the state after it, never a mixture.

    On the real code this FAILS for an operation that BatchWithFlusher splits over several
    physical writes.  This file states what holds exactly:
    - segmentations = prefixes of the ordered write list; one chunk = atomic;
    - commit: cuts up to the label write leave the old node store (index/label possibly ahead:
      flagged for rebuild once the label is written, NOT flagged before: [C05_indexahead_refuted]);
      every cut strictly between the first node write and the root write is unrecoverable
      ([C05_commit_split_refuted], [C05_commit_split_witness]); the full list gives the new store;
    - rollback: every cut strictly inside the deletes is a store that is neither old nor new;
      reopening fails as soon as the old latest root key is gone (always when one version is
      rolled back) and otherwise can succeed on a mixture ([C05_rollback_split_refuted]);
    - deletion of old versions (specification level): every cut leaves all retained entries in
      place.
    Statements are restated in full; proofs are in CrashFacts.v / StoreFacts.v. *)
From IAVL Require Import Bytes Varint Sha256 Tree VMap TreeFacts MTree MTreeFacts HashFacts VersionFacts
  Store StoreFacts Crash CrashFacts.
Local Open Scope Z_scope.

Theorem C05_chunk_image_prefix :
  forall (d : db) (chunks : list (list wop)) (i : nat),
    exists j, chunk_image d chunks i = image d (concat chunks) j.
Proof. exact chunk_image_prefix. Qed.
Print Assumptions C05_chunk_image_prefix.

Theorem C05_prefix_is_chunk_image :
  forall (d : db) (ops : list wop) (j : nat),
    (0 < j < length ops)%nat ->
    exists chunks, concat chunks = ops /\ Forall (fun c => c <> []) chunks /\
                   chunk_image d chunks 1 = image d ops j.
Proof. exact prefix_is_chunk_image. Qed.
Print Assumptions C05_prefix_is_chunk_image.

Theorem C05_single_batch_atomic :
  forall (d : db) (ops : list wop) (i : nat),
    chunk_image d [ops] i = d \/ chunk_image d [ops] i = apply_ops d ops.
Proof. exact single_batch_atomic. Qed.
Print Assumptions C05_single_batch_atomic.

(** reopening a consistent store finds the latest version and its root (the only possible
    failures are the initial-version check and, for versions >= 2^64, the model's fuel) *)
Theorem C05_recover_expected :
  forall (iv : Z) (f : list (Z * option node)) (ivf : Z) (d : db) (r : option node),
    forest_inv f -> forest_ok f ivf -> NoDup (map fst f) -> In (latest_of f, r) f ->
    nodes d = expected_store f ->
    recover iv d = RErr ErrFuel \/ recover iv d = RErr ErrInitialVersion \/
    exists first, 0 <= first <= latest_of f /\
      recover iv d = ROk (latest_of f) first (root_key_of r) (needs_rebuild (label d) (latest_of f)).
Proof. exact recover_expected. Qed.
Print Assumptions C05_recover_expected.

(** with the initial version the store was created with, it succeeds *)
Theorem C05_recover_expected_ok :
  forall (iv : Z) (f : list (Z * option node)) (d : db) (r : option node),
    forest_inv f -> forest_ok f iv -> forest_lo iv f -> NoDup (map fst f) ->
    In (latest_of f, r) f -> nodes d = expected_store f -> latest_of f < 2 ^ 64 ->
    exists first, 0 <= first <= latest_of f /\
      recover iv d = ROk (latest_of f) first (root_key_of r) (needs_rebuild (label d) (latest_of f)).
Proof. exact recover_expected_ok. Qed.
Print Assumptions C05_recover_expected_ok.

Theorem C05_lo_ok_reachable :
  forall (H : bytes -> bytes) (iv : Z) (b : bool) (ops : list op),
    init_ok iv b -> run_ok H (init_state iv b) ops ->
    lo_ok (fst (run H (init_state iv b) ops)).
Proof. exact lo_ok_reachable. Qed.
Print Assumptions C05_lo_ok_reachable.

Theorem C05_recover_no_fuel_error :
  forall (iv : Z) (d : db), store_latest (nodes d) < 2 ^ 64 -> recover iv d <> RErr ErrFuel.
Proof. exact recover_no_fuel_error. Qed.
Print Assumptions C05_recover_no_fuel_error.

Theorem C05_recover_flag :
  forall (iv : Z) (d d' : db),
    nodes d' = nodes d ->
    recover iv d' = set_rebuild (recover iv d) (needs_rebuild (label d') (store_latest (nodes d))).
Proof. exact recover_flag. Qed.
Print Assumptions C05_recover_flag.

(** commit *)
Theorem C05_commit_prefix_classification :
  forall (H : bytes -> bytes) (iv : Z) (fast : bool) (s : mstate) (d : db) (i : nat),
    store_ok H s -> nodes d = expected_store (forest s) ->
    lookup (working_version s) (forest s) = None ->
    let P := commit_meta_ops fast s in
    let ops := commit_ops H fast s in
    let img := image d ops i in
    ((i <= length P)%nat ->
       nodes img = nodes d /\
       label img = (if fast && (i =? length P)%nat then Some (working_version s) else label d) /\
       recover iv img = set_rebuild (recover iv d)
                          (needs_rebuild (label img) (store_latest (nodes d)))) /\
    ((length P < i < length ops)%nat -> unrecoverable (recover iv img)) /\
    ((length ops <= i)%nat ->
       img = apply_ops d ops /\
       nodes img = expected_store (forest (fst (do_save H s)))).
Proof. exact commit_prefix_classification. Qed.
Print Assumptions C05_commit_prefix_classification.

Theorem C05_commit_cut_before_nodes_recovers :
  forall (H : bytes -> bytes) (fast : bool) (s : mstate) (d : db) (i : nat) (r : option node),
    store_ok H s -> lo_ok s -> nodes d = expected_store (forest s) ->
    lookup (working_version s) (forest s) = None ->
    In (latest_version s, r) (forest s) -> latest_version s < 2 ^ 64 ->
    (i <= length (commit_meta_ops fast s))%nat ->
    let img := image d (commit_ops H fast s) i in
    exists first, 0 <= first <= latest_version s /\
      recover (init_ver s) img =
        ROk (latest_version s) first (root_key_of r) (needs_rebuild (label img) (latest_version s)).
Proof. exact commit_cut_before_nodes_recovers. Qed.
Print Assumptions C05_commit_cut_before_nodes_recovers.

Theorem C05_commit_complete_recovers :
  forall (H : bytes -> bytes) (fast : bool) (s : mstate) (d : db),
    store_ok H s -> lo_ok s -> nodes d = expected_store (forest s) ->
    lookup (working_version s) (forest s) = None -> working_version s < 2 ^ 64 ->
    let d' := apply_ops d (commit_ops H fast s) in
    exists first, 0 <= first <= working_version s /\
      recover (init_ver s) d' =
        ROk (working_version s) first (root_key_of (saved_root H s))
            (needs_rebuild (label d') (working_version s)).
Proof. exact commit_complete_recovers. Qed.
Print Assumptions C05_commit_complete_recovers.

Theorem C05_commit_split_refuted :
  forall (H : bytes -> bytes) (iv : Z) (fast : bool) (s : mstate) (d : db),
    store_ok H s -> nodes d = expected_store (forest s) ->
    lookup (working_version s) (forest s) = None ->
    (2 <= length (node_writes H s))%nat ->
    exists i, (i < length (commit_ops H fast s))%nat /\
              is_err (recover iv (image d (commit_ops H fast s) i)) = true.
Proof. exact commit_split_refuted. Qed.
Print Assumptions C05_commit_split_refuted.

Theorem C05_commit_split_witness :
  exists s d i,
    store_ok sha256 s /\ d = expected_db (forest s) /\
    (i < length (commit_ops sha256 true s))%nat /\
    recover 0 (image d (commit_ops sha256 true s) i) = RErr ErrVersionDoesNotExist /\
    recover 0 d = REmpty false /\
    recover 0 (apply_ops d (commit_ops sha256 true s)) = ROk 1 1 (Some (1, 1)) false.
Proof. exact commit_split_witness. Qed.
Print Assumptions C05_commit_split_witness.

Theorem C05_indexahead_refuted :
  exists s d i,
    store_ok sha256 s /\ d = expected_db (forest s) /\
    (i < length (commit_meta_ops true s))%nat /\
    let img := image d (commit_ops sha256 true s) i in
    nodes img = nodes d /\
    recover 0 img = ROk 1 1 (Some (1, 1)) false /\
    fastidx img <> expected_fast (forest s).
Proof. exact indexahead_refuted. Qed.
Print Assumptions C05_indexahead_refuted.

(** rollback *)
Theorem C05_rollback_prefix_classification :
  forall (iv : Z) (f : list (Z * option node)) (ivf : Z) (d : db) (v : Z) (i : nat),
    forest_inv f -> forest_ok f ivf -> NoDup (map fst f) -> In v (map fst f) -> v < latest_of f ->
    nodes d = expected_store f ->
    let D := map fst (filter (fun p => v <? fst (fst p)) (nodes d)) in
    let ops := rollback_ops d v in
    let img := image d ops i in
    let new := expected_store (filter (fun p => fst p <=? v) f) in
    ops = map del_node D ++ match label d with None => [] | Some _ => [set_label None] end /\
    (i = 0%nat -> img = d) /\
    ((length D <= i)%nat -> nodes img = new /\ (label img = label d \/ label img = None)) /\
    ((0 < i < length D)%nat ->
       nodes img <> nodes d /\ nodes img <> new /\
       store_latest (nodes img) = latest_of f /\
       (In (latest_of f, 1) (firstn i D) -> unrecoverable (recover iv img))).
Proof. exact rollback_prefix_classification. Qed.
Print Assumptions C05_rollback_prefix_classification.

Theorem C05_rollback_complete_recovers :
  forall (iv : Z) (f : list (Z * option node)) (d : db) (v : Z) (i : nat) (r : option node),
    forest_inv f -> forest_ok f iv -> forest_lo iv f -> NoDup (map fst f) ->
    In (v, r) f -> v < latest_of f -> v < 2 ^ 64 -> nodes d = expected_store f ->
    let D := map fst (filter (fun p => v <? fst (fst p)) (nodes d)) in
    let img := image d (rollback_ops d v) i in
    (length D <= i)%nat ->
    exists first, 0 <= first <= v /\
      recover iv img = ROk v first (root_key_of r) (needs_rebuild (label img) v).
Proof. exact rollback_complete_recovers. Qed.
Print Assumptions C05_rollback_complete_recovers.

(** a cut inside the index rebuild that follows leaves the label untouched (so the next
    reopening rebuilds again) and the node store untouched *)
Theorem C05_rebuild_prefix_label :
  forall (d : db) (latest : Z) (t : option node) (i : nat),
    (i < length (rebuild_ops d latest t))%nat ->
    label (apply_ops d (firstn i (rebuild_ops d latest t))) = label d /\
    nodes (apply_ops d (firstn i (rebuild_ops d latest t))) = nodes d.
Proof. exact rebuild_prefix_label. Qed.
Print Assumptions C05_rebuild_prefix_label.

Theorem C05_rollback_one_version_split :
  forall (iv : Z) (f : list (Z * option node)) (ivf : Z) (d : db) (v : Z) (i : nat),
    forest_inv f -> forest_ok f ivf -> NoDup (map fst f) -> In v (map fst f) ->
    latest_of f = v + 1 -> nodes d = expected_store f ->
    let D := map fst (filter (fun p => v <? fst (fst p)) (nodes d)) in
    (0 < i < length D)%nat -> unrecoverable (recover iv (image d (rollback_ops d v) i)).
Proof. exact rollback_one_version_split. Qed.
Print Assumptions C05_rollback_one_version_split.

Theorem C05_rollback_split_refuted :
  exists s d i,
    store_ok sha256 s /\ d = expected_db (forest s) /\
    (0 < i < length (rollback_ops d 1))%nat /\
    let img := image d (rollback_ops d 1) i in
    recover 0 img = ROk 3 1 (Some (3, 1)) false /\
    mfind kcmp (2, 1) (nodes img) = None /\
    nodes img <> nodes d /\
    nodes img <> expected_store (filter (fun p => fst p <=? 1) (forest s)).
Proof. exact rollback_split_refuted. Qed.
Print Assumptions C05_rollback_split_refuted.

Theorem C05_rollback_split_witness :
  exists s d i,
    store_ok sha256 s /\ d = expected_db (forest s) /\
    (0 < i < length (rollback_ops d 1))%nat /\
    recover 0 (image d (rollback_ops d 1) i) = RErr ErrVersionDoesNotExist.
Proof. exact rollback_split_witness. Qed.
Print Assumptions C05_rollback_split_witness.

(** deletion of old versions, specification level: no cut damages a retained version *)
Theorem C05_drop_prefix_safe :
  forall (keep : Z -> bool) (f : list (Z * option node)) (d : db) (i : nat) (k : Z * Z) (e : entry),
    forest_inv f -> NoDup (map fst f) -> nodes d = expected_store f ->
    In (k, e) (reach (filter (fun p => keep (fst p)) f)) ->
    mfind kcmp k (nodes (apply_ops d (firstn i (drop_ops keep f)))) = Some e.
Proof. exact drop_prefix_safe. Qed.
Print Assumptions C05_drop_prefix_safe.

(** ** Crash tables of a concrete history (SHA-256): what reopening reports at every cut *)
Definition c05_a : bytes := [97%N].
Definition c05_b : bytes := [98%N].
Definition c05_c : bytes := [99%N].
Definition c05_d : bytes := [100%N].

(** second commit: one updated key, one removed key: index write, index delete, label, leaf,
    root.  Cuts 0-2 old without rebuild (index ahead at 1-2), cut 3 old with rebuild, cut 4
    unrecoverable, cut 5 new. *)
Example c05_commit_table :
  let s := fst (run sha256 (init_state 0 false)
                  [OSet c05_a c05_a; OSet c05_b c05_b; OSet c05_c c05_c; OSave;
                   OSet c05_b c05_d; ORemove c05_a]) in
  run_okb sha256 (init_state 0 false)
    [OSet c05_a c05_a; OSet c05_b c05_b; OSet c05_c c05_c; OSave; OSet c05_b c05_d; ORemove c05_a] = true /\
  length (commit_meta_ops true s) = 3%nat /\ length (commit_ops sha256 true s) = 5%nat /\
  crash_table 0 (expected_db (forest s)) (commit_ops sha256 true s) =
    [ROk 1 1 (Some (1, 1)) false; ROk 1 1 (Some (1, 1)) false; ROk 1 1 (Some (1, 1)) false;
     ROk 1 1 (Some (1, 1)) true; RErr ErrVersionDoesNotExist; ROk 2 1 (Some (2, 1)) false].
Proof. vm_compute. repeat split; reflexivity. Qed.

(** three versions (the third emptied, the second a commit without writes are covered in C12);
    here: three versions with writes, rollback to 1 and to 2 *)
Example c05_rollback_tables :
  let s := fst (run sha256 (init_state 0 false)
                  [OSet c05_a c05_a; OSet c05_b c05_b; OSet c05_c c05_c; OSave;
                   OSet c05_b c05_d; OSave; OSet c05_d c05_d; OSave]) in
  let d := expected_db (forest s) in
  crash_table 0 d (rollback_ops d 1) =
    [ROk 3 1 (Some (3, 1)) false; ROk 3 1 (Some (3, 1)) false; ROk 3 1 (Some (3, 1)) false;
     ROk 3 1 (Some (3, 1)) false; RErr ErrVersionDoesNotExist; RErr ErrVersionDoesNotExist;
     RErr ErrVersionDoesNotExist; ROk 1 1 (Some (1, 1)) true; ROk 1 1 (Some (1, 1)) true] /\
  crash_table 0 d (rollback_ops d 2) =
    [ROk 3 1 (Some (3, 1)) false; RErr ErrVersionDoesNotExist; RErr ErrVersionDoesNotExist;
     RErr ErrVersionDoesNotExist; ROk 2 1 (Some (2, 1)) true; ROk 2 1 (Some (2, 1)) true].
Proof. vm_compute. split; reflexivity. Qed.

(** a commit without writes and the commit of an emptied tree have a single node write: every
    cut is old or new *)
Example c05_single_write_commits :
  let s1 := fst (run sha256 (init_state 0 false) [OSet c05_a c05_a; OSave]) in
  let s2 := fst (run sha256 (init_state 0 false) [OSet c05_a c05_a; OSave; ORemove c05_a]) in
  crash_table 0 (expected_db (forest s1)) (commit_ops sha256 true s1) =
    [ROk 1 1 (Some (1, 1)) false; ROk 1 1 (Some (1, 1)) true; ROk 2 1 (Some (1, 1)) false] /\
  crash_table 0 (expected_db (forest s2)) (commit_ops sha256 true s2) =
    [ROk 1 1 (Some (1, 1)) false; ROk 1 1 (Some (1, 1)) false; ROk 1 1 (Some (1, 1)) true;
     ROk 2 1 None false].
Proof. vm_compute. split; reflexivity. Qed.

(** *** Deletion of old versions under crashes: the physical algorithm (PruneAlgo.v) flushes its
    write batch at arbitrary points; a crash leaves one of the disk states it went through.  In
    every one of them every retained version loads back node for node - for every reachable
    in-contract state, every flush schedule. *)
From IAVL Require Import Ics23Facts Store StoreFacts PruneAlgo PruneAlgoFacts1 PruneAlgoFacts2 PruneAlgoFacts5 PruneAlgoFacts6 PruneAlgoFacts7 PruneAlgoFacts8 PruneAlgoFacts9 PruneAlgoFacts10 PruneAlgoFacts11 PruneAlgoFacts12 PruneAlgoFacts13 PruneAlgoFacts.
Local Open Scope Z_scope.

Theorem C05_deletion_crash_images_keep_retained_versions :
  forall (H : bytes -> bytes), (forall x, length (H x) = 32%nat) ->
  forall (iv : Z) (b : bool) (ops : list op) (r : list Z) (sched : list bool) (eff : bool) (n : Z),
    init_ok iv b -> run_ok H (init_state iv b) ops ->
    let s := fst (run H (init_state iv b) ops) in
    forest_bounds (forest s) -> rekey_ok r (forest s) -> n < version s -> n < latest_version s ->
    (exists disks,
       prune_forest_disks H eff r (forest s) sched n = POk disks /\
       Forall (fun d => readable H d (filter (fun p => n <? fst p) (forest s)) = true) disks)
    \/ collision H.
Proof. exact PA_prune_safe_reachable. Qed.
Print Assumptions C05_deletion_crash_images_keep_retained_versions.

Theorem C05_rekey_order_matters_refuted : ltac:(let t := type of rekey_order_matters_refuted in exact t).
Proof. exact rekey_order_matters_refuted. Qed.
Print Assumptions C05_rekey_order_matters_refuted.

Example C05_deletion_disks_example : ltac:(let t := type of pa_disks in exact t).
Proof. exact pa_disks. Qed.

(** *** BatchWithFlusher (Flusher.v: batch.go over a MemDB batch).  The wrapper that cuts the
    writes of one operation into physical batches loses, duplicates and reorders nothing, and
    after any number [i] of physical batches the database is the one reached by a PREFIX of the
    operation's write list - the prefix ending at one of the cut positions the model computes
    ([cut_positions], compared with the batches of the real library by [wsave]).  This is the
    hypothesis under which the crash theorems above quantify over prefixes. *)
From IAVL Require Flusher FlusherFacts.

Theorem C05_flusher_loses_nothing :
  forall (th : Z) (ops : list Flusher.bop), concat (Flusher.fl_batches th ops) = ops.
Proof. exact FlusherFacts.fl_concat. Qed.
Print Assumptions C05_flusher_loses_nothing.

Theorem C05_crash_images_are_prefixes :
  forall (th : Z) (ops : list Flusher.bop) (m : VMap.kvs) (i : nat),
    exists n : nat,
      In n (0%nat :: Flusher.cut_positions th ops ++ [length ops]) /\
      Flusher.kv_apply_batches m (firstn i (Flusher.fl_batches th ops)) =
      Flusher.kv_apply_ops m (firstn n ops).
Proof. exact FlusherFacts.fl_prefix_db_exists. Qed.
Print Assumptions C05_crash_images_are_prefixes.

Theorem C05_flush_threshold_irrelevant_for_the_result :
  forall (th1 th2 : Z) (ops : list Flusher.bop) (m : VMap.kvs),
    Flusher.kv_apply_batches m (Flusher.fl_batches th1 ops) =
    Flusher.kv_apply_batches m (Flusher.fl_batches th2 ops).
Proof. exact FlusherFacts.fl_threshold_independent. Qed.
Print Assumptions C05_flush_threshold_irrelevant_for_the_result.

Theorem C05_batches_are_maximal_and_bounded :
  forall (th : Z) (ops : list Flusher.bop),
    FlusherFacts.maximal th (Flusher.fl_batches th ops) /\
    forall b, 0 <= th -> In b (Flusher.fl_batches th ops) -> length b <> 1%nat ->
              Flusher.batch_size b <= th.
Proof.
  intros th ops. split.
  - exact (FlusherFacts.fl_batch_maximal th ops).
  - intros b. exact (FlusherFacts.fl_batch_bound th ops b).
Qed.
Print Assumptions C05_batches_are_maximal_and_bounded.

(** *** The physical batches of a commit, byte for byte (PhysCommit.v / PhysCommitFacts.v).
    [commit_bops] is the stream of keys and values SaveVersion hands to the batch (compared with
    the real library by [wsave]: sizes, cut points, MD5 of the bytes); [img r st] is the byte image
    of the whole database of FastLife state [st].  For EVERY flush threshold the batches, applied
    in order, turn the image of the state before the commit into the image of the state after it;
    after any number of them the database is the image plus a prefix of the stream ending at a
    computed cut position; a prefix that contains the index part is the image of the store after
    the corresponding prefix of [Store.commit_ops] - the list [CrashFacts] classifies. *)
From IAVL Require Import Store StoreFacts PruneAlgo FastLife DbImage DbImageFacts PhysCommit PhysCommitFacts.
From IAVL Require PruneAlgoFacts6 PruneAlgoFacts10.

Theorem C05_commit_batches_produce_the_new_image :
  forall (H : bytes -> bytes) (th : Z) (r : list Z) (st : fstate),
    store_ok H (ms st) ->
    PruneAlgoFacts6.rekey_ok r (forest (ms st)) ->
    store_okb (phys_of r (forest (ms st))) = true ->
    store_okb (phys_of r (forest (ms (fst (fstep H st FSave))))) = true ->
    version_exists (ms st) (working_version (ms st)) = false ->
    Flusher.kv_apply_batches (img r st) (commit_batches H th st) =
    img r (fst (fstep H st FSave)).
Proof. exact commit_batches_apply. Qed.
Print Assumptions C05_commit_batches_produce_the_new_image.

Theorem C05_commit_crash_images :
  forall (H : bytes -> bytes) (th : Z) (r : list Z) (st : fstate) (i : nat),
    exists n : nat,
      In n (0%nat :: Flusher.cut_positions th (commit_bops H st) ++ [length (commit_bops H st)]) /\
      Flusher.kv_apply_batches (img r st) (firstn i (commit_batches H th st)) =
      Flusher.kv_apply_ops (img r st) (firstn n (commit_bops H st)).
Proof. exact commit_crash_images. Qed.
Print Assumptions C05_commit_crash_images.

Theorem C05_commit_prefix_is_the_image_of_a_store_prefix :
  forall (H : bytes -> bytes) (r : list Z) (st : fstate) (n : nat),
    store_ok H (ms st) ->
    PruneAlgoFacts6.rekey_ok r (forest (ms st)) ->
    store_okb (phys_of r (forest (ms st))) = true ->
    store_okb (phys_of r (forest (ms (fst (fstep H st FSave))))) = true ->
    version_exists (ms st) (working_version (ms st)) = false ->
    Flusher.kv_apply_ops (img r st)
      (firstn (length (commit_fast_bops st) + n) (commit_bops H st)) =
    encode_image
      (sapply_all (phys_of r (forest (ms st))) (firstn n (Store.commit_ops H false (ms st))))
      (fidx (fst (fstep H st FSave))) (dlabel (fst (fstep H st FSave))).
Proof. exact commit_prefix_image. Qed.
Print Assumptions C05_commit_prefix_is_the_image_of_a_store_prefix.
