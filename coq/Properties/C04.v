(** C04: deleting versions up to n makes the versions <= n unavailable and leaves every later
    version unchanged in contents, root hash and every query answer -- including versions that
    share their whole tree with a deleted version (commits without writes) and empty versions; the
    working tree is untouched; the result survives a restart; repeated pruning composes.  A
    request that would delete the latest version is rejected with an error and has no effect.

    (M1 level: a retained version is its tree value, so "unchanged" is equality of the
    [option node] value, from which equality of every read follows.)
    Statements are restated in full; proofs are in VersionFacts.v. *)
From IAVL Require Import Bytes Varint Sha256 Tree VMap TreeFacts MTree MTreeFacts VersionFacts.
Local Open Scope Z_scope.

Theorem C04_prune_rejects_latest :
  forall (H : bytes -> bytes) (s : mstate) (n : Z),
    latest_version s <= n -> step H s (OPrune n) = (s, XErr).
Proof. exact prune_rejects_latest. Qed.
Print Assumptions C04_prune_rejects_latest.

Theorem C04_prune_keeps_later_versions :
  forall (H : bytes -> bytes) (s : mstate) (n : Z),
    n < latest_version s ->
    let s' := fst (step H s (OPrune n)) in
    step H s (OPrune n) =
      (MState (root s) (version s) (last_saved s) (filter (fun p => n <? fst p) (forest s))
              (init_ver s) (init_set s) (init_opt s), XOk) /\
    (forall v : Z, n < v -> lookup v (forest s') = lookup v (forest s)) /\
    (forall v : Z, v <= n -> lookup v (forest s') = None) /\
    root s' = root s /\
    version s' = version s /\
    last_saved s' = last_saved s /\
    init_ver s' = init_ver s /\
    init_set s' = init_set s /\
    init_opt s' = init_opt s /\
    working_version s' = working_version s /\
    latest_version s' = latest_version s.
Proof. exact prune_keeps_later_versions. Qed.
Print Assumptions C04_prune_keeps_later_versions.

(** every read of a surviving version -- contents, iteration, root hash, existence -- answers as
    before *)
Theorem C04_prune_reads_unchanged :
  forall (H : bytes -> bytes) (s : mstate) (n v : Z),
    n < latest_version s -> n < v ->
    let s' := fst (step H s (OPrune n)) in
    (forall r : read,
       snd (step H s' (ORead (TVersion v) r)) = snd (step H s (ORead (TVersion v) r))) /\
    (forall k : bytes,
       snd (step H s' (OGetVersioned k v)) = snd (step H s (OGetVersioned k v))) /\
    snd (step H s' (OVersionExists v)) = snd (step H s (OVersionExists v)).
Proof. exact prune_reads_unchanged. Qed.
Print Assumptions C04_prune_reads_unchanged.

Theorem C04_prune_deleted_unavailable :
  forall (H : bytes -> bytes) (s : mstate) (n v : Z),
    n < latest_version s -> v <= n ->
    let s' := fst (step H s (OPrune n)) in
    (forall r : read, step H s' (ORead (TVersion v) r) = (s', XErr)) /\
    (forall k : bytes, step H s' (OGetVersioned k v) = (s', XBytes None)) /\
    step H s' (OVersionExists v) = (s', XBool false) /\
    ~ In v (available s').
Proof. exact prune_deleted_unavailable. Qed.
Print Assumptions C04_prune_deleted_unavailable.

Theorem C04_prune_working_unchanged :
  forall (H : bytes -> bytes) (s : mstate) (n : Z),
    n < latest_version s ->
    let s' := fst (step H s (OPrune n)) in
    (forall r : read, snd (step H s' (ORead TWorking r)) = snd (step H s (ORead TWorking r))) /\
    snd (step H s' OWorkingHash) = snd (step H s OWorkingHash) /\
    snd (step H s' OHash) = snd (step H s OHash) /\
    snd (step H s' OLatest) = snd (step H s OLatest).
Proof. exact prune_working_unchanged. Qed.
Print Assumptions C04_prune_working_unchanged.

(** a version that shares its whole tree with a deleted one (commit without writes; [t] may also
    be the empty tree [None]) keeps that very tree *)
Theorem C04_prune_keeps_shared_and_empty :
  forall (H : bytes -> bytes) (s : mstate) (n v1 v2 : Z) (t : option node),
    n < latest_version s ->
    v1 <= n < v2 ->
    lookup v1 (forest s) = Some t ->
    lookup v2 (forest s) = Some t ->
    let s' := fst (step H s (OPrune n)) in
    lookup v1 (forest s') = None /\
    lookup v2 (forest s') = Some t /\
    (forall r : read, step H s' (ORead (TVersion v2) r) = (s', tree_read H (v2 + 1) t r)).
Proof. exact prune_keeps_shared_and_empty. Qed.
Print Assumptions C04_prune_keeps_shared_and_empty.

(** under the contract (n below the version the working tree is based on) the range shrinks from
    below only and stays contiguous *)
Theorem C04_prune_range :
  forall (H : bytes -> bytes) (s : mstate) (n : Z),
    contig s -> forest s <> [] -> n < version s ->
    let s' := fst (step H s (OPrune n)) in
    snd (step H s (OPrune n)) = XOk /\
    first_version s' = Z.max (first_version s) (n + 1) /\
    latest_version s' = latest_version s /\
    available s' = zrange (Z.max (first_version s) (n + 1)) (latest_version s) /\
    version s' = version s /\ in_range s' (version s') /\
    contig s'.
Proof. exact prune_range. Qed.
Print Assumptions C04_prune_range.

Theorem C04_prune_then_reopen :
  forall (H : bytes -> bytes) (s : mstate) (n : Z),
    contig s -> forest s <> [] -> n < version s ->
    let s' := fst (step H s (OPrune n)) in
    let s'' := fst (step H s' OReopen) in
    snd (step H s' OReopen) = XOk /\
    forest s'' = forest s' /\
    version s'' = latest_version s /\
    (forall v : Z, n < v -> lookup v (forest s'') = lookup v (forest s)) /\
    (forall v : Z, v <= n -> lookup v (forest s'') = None) /\
    contig s''.
Proof. exact prune_then_reopen. Qed.
Print Assumptions C04_prune_then_reopen.

Theorem C04_prune_compose :
  forall (H : bytes -> bytes) (s : mstate) (n1 n2 : Z),
    n1 < latest_version s -> n2 < latest_version s ->
    step H (fst (step H s (OPrune n1))) (OPrune n2) = step H s (OPrune (Z.max n1 n2)).
Proof. exact prune_compose. Qed.
Print Assumptions C04_prune_compose.

Theorem C04_filter_compose :
  forall (A : Type) (n1 n2 : Z) (f : list (Z * A)),
    filter (fun p => n2 <? fst p) (filter (fun p => n1 <? fst p) f) =
    filter (fun p => Z.max n1 n2 <? fst p) f.
Proof. exact @filter_gt_gt. Qed.
Print Assumptions C04_filter_compose.

(** *** Non-vacuity (SHA-256): version 1 is empty, 2 and 3 share one tree (3 is a commit without
    writes), 4 and 5 differ.  Prune 2: versions 1, 2 go; 3 (sharing its whole tree with the
    deleted 2), 4 and 5 answer exactly as before, also after a restart; pruning the latest is
    rejected. *)
Definition C04_k1 : bytes := [1%N].
Definition C04_k2 : bytes := [2%N].

Definition C04_example_ops : list op :=
  [OSave; OSet C04_k1 [10%N]; OSave; OSave; OSet C04_k2 [20%N]; OSave; ORemove C04_k1; OSave].

Definition C04_probe (v : Z) : list op :=
  [OVersionExists v; ORead (TVersion v) RHash; ORead (TVersion v) (RIter None None false true);
   ORead (TVersion v) RSize; OGetVersioned C04_k1 v].

Example C04_example :
  let s := fst (run sha256 (init_state 0 false) C04_example_ops) in
  let s' := fst (step sha256 s (OPrune 2)) in
  (* hypotheses *)
  contig s /\ forest s <> [] /\ in_contract s (OPrune 2) /\ 2 < latest_version s /\
  available s = [1; 2; 3; 4; 5] /\
  lookup 1 (forest s) = Some None /\                       (* an empty version *)
  (exists t, lookup 2 (forest s) = Some (Some t) /\ lookup 3 (forest s) = Some (Some t)) /\
  (* conclusions observed *)
  snd (step sha256 s (OPrune 2)) = XOk /\
  available s' = [3; 4; 5] /\
  snd (run sha256 s' (C04_probe 3 ++ C04_probe 4 ++ C04_probe 5)) =
    snd (run sha256 s (C04_probe 3 ++ C04_probe 4 ++ C04_probe 5)) /\
  snd (run sha256 s' (C04_probe 2)) = [XBool false; XErr; XErr; XErr; XBytes None] /\
  snd (run sha256 s (C04_probe 2)) <> snd (run sha256 s' (C04_probe 2)) /\
  (* restart *)
  available (fst (step sha256 s' OReopen)) = [3; 4; 5] /\
  snd (run sha256 (fst (step sha256 s' OReopen)) (C04_probe 3)) = snd (run sha256 s (C04_probe 3)) /\
  (* deleting the latest is rejected, twice pruning = pruning once *)
  step sha256 s (OPrune 5) = (s, XErr) /\ step sha256 s (OPrune 7) = (s, XErr) /\
  step sha256 s' (OPrune 3) = step sha256 s (OPrune 3) /\
  available (fst (step sha256 s' (OPrune 3))) = [4; 5].
Proof.
  cbv zeta.
  split.
  { apply reachable_contig; [unfold init_ok; lia|]. apply run_okb_iff. vm_compute. reflexivity. }
  split; [vm_compute; discriminate|].
  split; [apply in_contractb_iff; vm_compute; reflexivity|].
  split; [vm_compute; reflexivity|].
  split; [vm_compute; reflexivity|]. split; [vm_compute; reflexivity|].
  split; [vm_compute; eexists; split; reflexivity|].
  split; [vm_compute; reflexivity|]. split; [vm_compute; reflexivity|].
  split; [vm_compute; reflexivity|]. split; [vm_compute; reflexivity|].
  split; [vm_compute; discriminate|].
  split; [vm_compute; reflexivity|]. split; [vm_compute; reflexivity|].
  split; [vm_compute; reflexivity|]. split; [vm_compute; reflexivity|].
  split; vm_compute; reflexivity.
Qed.

(** *** The ALGORITHM the code runs (PruneAlgo.v): deleteVersionsTo / deleteVersion /
    traverseOrphans over two node iterators, GetNode / GetRoot fall-backs, the root-key cache and
    the write batch whose flushes are given by an arbitrary schedule.  For every reachable
    in-contract state, every schedule and both ways of indexing it: in EVERY state the disk goes
    through while versions <= n are deleted, every retained version loads back node for node
    (hashes included); and the final store is the physical store of the retained versions.
    The alternative "collision" is an explicit pair of different inputs with the same hash. *)
From IAVL Require Import Ics23Facts Store StoreFacts PruneAlgo PruneAlgoFacts1 PruneAlgoFacts2 PruneAlgoFacts5 PruneAlgoFacts6 PruneAlgoFacts7 PruneAlgoFacts8 PruneAlgoFacts9 PruneAlgoFacts10 PruneAlgoFacts11 PruneAlgoFacts12 PruneAlgoFacts13 PruneAlgoFacts.
Local Open Scope Z_scope.

Theorem C04_physical_deletion_safe_at_every_moment :
  forall (H : bytes -> bytes), (forall x, length (H x) = 32%nat) ->
  forall (iv : Z) (b : bool) (ops : list op) (r : list Z) (sched : list bool) (eff : bool) (n : Z),
    init_ok iv b -> run_ok H (init_state iv b) ops ->
    let s := fst (run H (init_state iv b) ops) in
    forest_bounds (forest s) -> rekey_ok r (forest s) -> n < version s -> n < latest_version s ->
    (exists disks,
       prune_forest_disks H eff r (forest s) sched n = POk disks /\
       Forall (fun d => readable H d (filter (fun p => n <? fst p) (forest s)) = true) disks)
    \/ collision H.
Proof. exact PA_prune_safe_reachable. Qed.
Print Assumptions C04_physical_deletion_safe_at_every_moment.

Theorem C04_physical_deletion_refines_spec :
  forall (H : bytes -> bytes), (forall x, length (H x) = 32%nat) ->
  forall (iv : Z) (b : bool) (ops : list op) (r : list Z) (sched : list bool) (eff : bool) (n : Z),
    init_ok iv b -> run_ok H (init_state iv b) ops ->
    let s := fst (run H (init_state iv b) ops) in
    forest_bounds (forest s) -> rekey_ok r (forest s) -> n < version s -> n < latest_version s ->
    (exists st' log fl,
       prune_forest H eff r (forest s) sched n = POk (st', log, fl) /\
       let f' := filter (fun p => n <? fst p) (forest s) in
       st' = phys_of (rekeyed st') f' /\ rekey_ok (rekeyed st') f' /\
       norm_store st' = expected_store f')
    \/ collision H.
Proof. exact PA_prune_refines_reachable. Qed.
Print Assumptions C04_physical_deletion_refines_spec.

(** the physical store of a reachable state reads every retained version back *)
Theorem C04_physical_store_readable :
  forall (H : bytes -> bytes) (s : mstate) (r : list Z),
    store_ok H s -> rekey_ok r (forest s) ->
    readable H (phys_of r (forest s)) (forest s) = true.
Proof. exact PA_phys_readable. Qed.
Print Assumptions C04_physical_deletion_refines_spec.

(** why the ORDER of the two re-key writes matters: with [del (v,1)] before [set (v,0)] and a
    flush between them some disk state cannot read a retained version (what a seeded reordering
    looks like); the faithful order on the same input is safe *)
Theorem C04_rekey_order_matters_refuted : ltac:(let t := type of rekey_order_matters_refuted in exact t).
Proof. exact rekey_order_matters_refuted. Qed.
Print Assumptions C04_rekey_order_matters_refuted.

(** the hypotheses are satisfiable: five SHA-256 versions, a first deletion re-keys root (1,1),
    the second starts from r = [1] *)
Example C04_physical_example : ltac:(let t := type of pa_second_deletion in exact t).
Proof. exact pa_second_deletion. Qed.
